/-
  CC.Feat.Model — the shapes of the feature inventory (`CC/Gen/Features.lean` is generated data of
  these types), the standing assumptions about the target, and the Boolean checks that decide the
  three selection properties over *all* assignments (soundness lemmas included).
-/
import CC.Feat.Cfg

namespace CC.Feat
open Cfg

inductive Flavour where
  | exactlyOne    -- the name is needed whatever the configuration: one definition, never two
  | atMostOne     -- the name is only needed by guarded items (see `NameRef`): never two definitions
  deriving DecidableEq, Repr

/-- Alternative items: same name in the same scope (or the same role), each under its own `cfg`. -/
structure Group where
  crate : String
  name : String
  flavour : Flavour
  alts : List (String × Cfg)
  deriving Repr

/-- An item that names an optional dependency (or `std` in a crate that can be `no_std`). -/
structure OptUse where
  crate : String
  item : String
  dep : String
  pred : Cfg      -- when the item is compiled in
  needs : Cfg     -- when the dependency is available
  deriving Repr

/-- A use of a name whose definitions are all `cfg`-guarded. -/
structure NameRef where
  crate : String
  user : String
  name : String
  pred : Cfg
  definers : List Cfg
  deriving Repr

structure GuardedItem where
  crate : String
  item : String
  pred : Cfg
  deriving Repr

structure CrateFeatures where
  crate : String
  path : String
  features : List (String × List String)     -- the `[features]` table as written
  optionalDeps : List (String × String)       -- dependency key (= implicit feature) ↦ package
  implications : List (Cfg × Cfg)             -- `f = ["g", "dep/h"]` as feature atom ⇒ feature atom
  noStd : Cfg                                 -- when `#![no_std]` is in force at the crate root
  latticePoints : Nat
  deriving Repr

/-- What is fixed by "stable toolchain, x86-64 target": the architecture and byte order, `sse2` is part
    of the x86-64 baseline, and rustc's implication order between the target features that occur. -/
def standing : Cfg := .all [
  arch "x86_64", endian "little", .not (endian "big"), tf "sse2",
  imp (tf "avx2") (tf "avx"), imp (tf "avx") (tf "sse4.1"), imp (tf "sse4.1") (tf "ssse3"),
  imp (tf "ssse3") (tf "sse2"), imp (tf "aes") (tf "sse2") ]

/-- The default x86-64 target of the property's quantifier: no target feature beyond `sse2`. -/
def baseline : Cfg := .all [
  standing, .not (tf "ssse3"), .not (tf "sse4.1"), .not (tf "avx"), .not (tf "avx2"), .not (tf "aes") ]

def Standing (a : Atom → Bool) : Prop := standing.eval a = true

/-- number of alternatives compiled in under assignment `a` -/
def Group.active (g : Group) (a : Atom → Bool) : List (String × Cfg) := g.alts.filter (fun x => x.2.eval a)

def Group.atoms (g : Group) : List Atom := g.alts.flatMap (fun x => x.2.atoms)

def Flavour.ok : Flavour → Nat → Bool
  | .exactlyOne, k => k == 1
  | .atMostOne, k => decide (k ≤ 1)

def Group.okB (g : Group) (a : Atom → Bool) : Bool := g.flavour.ok (g.active a).length

/-- The group selects: exactly one (resp. at most one) alternative is compiled in. -/
def Group.Exclusive (g : Group) (a : Atom → Bool) : Prop :=
  match g.flavour with
  | .exactlyOne => ∃ x, g.active a = [x]
  | .atMostOne => (g.active a).length ≤ 1

theorem Group.active_congr (g : Group) {a b : Atom → Bool} (h : ∀ x ∈ g.atoms, a x = b x) :
    g.active a = g.active b := by
  unfold Group.active
  apply List.filter_congr
  intro alt halt
  apply Cfg.eval_congr
  intro x hx
  exact h x (by simp only [Group.atoms, List.mem_flatMap]; exact ⟨alt, halt, hx⟩)

theorem Group.exclusive_of_okB (g : Group) (a : Atom → Bool) (h : g.okB a = true) : g.Exclusive a := by
  unfold Group.okB at h; unfold Group.Exclusive
  cases hf : g.flavour <;> simp only [hf, Flavour.ok] at h ⊢
  · have hl : (g.active a).length = 1 := by simpa using h
    match hact : g.active a, hl with
    | [x], _ => exact ⟨x, rfl⟩
  · simpa using h

/-- the group's flavour as a predicate over its alternatives -/
def Group.cfg (g : Group) : Cfg :=
  match g.flavour with
  | .exactlyOne => exactlyOneOf (g.alts.map (·.2))
  | .atMostOne => atMostOneOf (g.alts.map (·.2))

theorem Group.eval_cfg (g : Group) (a : Atom → Bool) : g.cfg.eval a = g.okB a := by
  have hf : ∀ l : List (String × Cfg), ((l.map (·.2)).filter (fun p => p.eval a)).length =
      (l.filter (fun x => x.2.eval a)).length := by
    intro l; induction l with
    | nil => rfl
    | cons x xs ih => simp only [List.map_cons, List.filter_cons]; split <;> simp [ih]
  unfold Group.cfg Group.okB Group.active
  cases g.flavour <;> simp only [Flavour.ok, eval_exactlyOneOf, eval_atMostOneOf, hf]

/-- Decide a group under an extra hypothesis `hyp` (the standing assumptions): `hyp → flavour` is a
    tautology. -/
def checkGroup (hyp : Cfg) (g : Group) : Bool := valid (imp hyp g.cfg)

theorem checkGroup_sound {hyp : Cfg} {g : Group} (h : checkGroup hyp g = true)
    (a : Atom → Bool) (ha : hyp.eval a = true) : g.Exclusive a := by
  have := valid_sound h a
  rw [eval_imp, ha, g.eval_cfg] at this
  exact g.exclusive_of_okB a (by simpa using this)

/-- conjunction of a crate's feature implications -/
def implCfg (l : List (Cfg × Cfg)) : Cfg := .all (l.map fun pq => imp pq.1 pq.2)

/-- `hyp ∧ pred → needs` is valid. -/
def checkImp (hyp pred needs : Cfg) : Bool := valid (imp (.and hyp pred) needs)

theorem checkImp_sound {hyp pred needs : Cfg} (h : checkImp hyp pred needs = true)
    (a : Atom → Bool) (hh : hyp.eval a = true) (hp : pred.eval a = true) : needs.eval a = true := by
  have := valid_sound h a
  simpa [Cfg.eval, hh, hp] using this

/-- `f` is implied, directly or through other features, by nothing we care about: the set of feature
    atoms reachable from `x` through the implication table (bounded iteration; the tables are tiny). -/
def reach (impls : List (Cfg × Cfg)) : Nat → List Atom → List Atom
  | 0, acc => acc
  | n + 1, acc =>
    let next := impls.filterMap fun pq =>
      match pq.1, pq.2 with
      | .atom p, .atom q => if p ∈ acc ∧ q ∉ acc then some q else none
      | _, _ => none
    if next.isEmpty then acc else reach impls n (acc ++ next.eraseDups)

end CC.Feat
