/-
  CC.Feat.CfgAtoms — the compile-time configuration atoms (other than cargo features) the models and the
  harness configurations account for.  Hand-written; compared with the list regenerated from the sources
  (`CC.Gen.CfgAtoms.atoms`, tools/inventory_cfgatoms.py) by `cfg_atoms_as_modelled` (C03, C20).

  How each is accounted for:
  * `target_feature` / `detect` ∈ {sse2, ssse3, sse4.1, avx, avx2} in ppv-lite86: the dispatch ladders
    (CC.Simd.Dispatch, tied by CC.Gen.Dispatch) and the six backend machines; harness configurations
    std (run-time detection + forced backends), nostd-{sse2,ssse3,sse41,avx,avx2}, std-native.
  * the sse2.rs test-only `cfg_attr(.., ignore)` atoms select nothing in library code.
  * groestl-aesni `aes`/`ssse3`/`sse2`: its autodetect module (CC.Feat model, known finding B2 for no-std).
  * guts.rs `target_endian`: the little-endian alternatives are the ones modelled (x86-64 only); the
    big-endian alternatives are not compiled in any configuration this machinery can run.
  * ppv-lite86 lib.rs `target_arch`/`target_feature = "sse2"`/`miri`: selection of the x86_64 vs generic
    backend module (CC.Feat model: no_simd / non-x86 ⇒ generic).
-/
namespace CC.Feat.CfgAtoms

def expected : List (String × String × String × Nat) := [
  ("hashes/groestl/src/compressor.rs", "detect", "aes", 1),
  ("hashes/groestl/src/compressor.rs", "detect", "sse2", 1),
  ("hashes/groestl/src/compressor.rs", "detect", "ssse3", 1),
  ("hashes/groestl/src/compressor.rs", "target_feature", "aes", 3),
  ("hashes/groestl/src/compressor.rs", "target_feature", "sse2", 2),
  ("hashes/groestl/src/compressor.rs", "target_feature", "ssse3", 3),
  ("stream-ciphers/chacha/src/guts.rs", "target_endian", "big", 2),
  ("stream-ciphers/chacha/src/guts.rs", "target_endian", "little", 2),
  ("utils-simd/ppv-lite86/src/lib.rs", "miri", "", 4),
  ("utils-simd/ppv-lite86/src/lib.rs", "target_arch", "x86_64", 6),
  ("utils-simd/ppv-lite86/src/lib.rs", "target_feature", "sse2", 4),
  ("utils-simd/ppv-lite86/src/x86_64/mod.rs", "detect", "avx", 3),
  ("utils-simd/ppv-lite86/src/x86_64/mod.rs", "detect", "avx2", 1),
  ("utils-simd/ppv-lite86/src/x86_64/mod.rs", "detect", "sse2", 3),
  ("utils-simd/ppv-lite86/src/x86_64/mod.rs", "detect", "sse4.1", 1),
  ("utils-simd/ppv-lite86/src/x86_64/mod.rs", "detect", "ssse3", 1),
  ("utils-simd/ppv-lite86/src/x86_64/mod.rs", "target_feature", "avx", 3),
  ("utils-simd/ppv-lite86/src/x86_64/mod.rs", "target_feature", "avx2", 3),
  ("utils-simd/ppv-lite86/src/x86_64/mod.rs", "target_feature", "sse4.1", 3),
  ("utils-simd/ppv-lite86/src/x86_64/mod.rs", "target_feature", "ssse3", 3),
  ("utils-simd/ppv-lite86/src/x86_64/sse2.rs", "target_arch", "x86_64", 1),
  ("utils-simd/ppv-lite86/src/x86_64/sse2.rs", "target_feature", "sse4.1", 4),
  ("utils-simd/ppv-lite86/src/x86_64/sse2.rs", "target_feature", "ssse3", 8)
]

end CC.Feat.CfgAtoms
