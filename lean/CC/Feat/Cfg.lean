/-
  CC.Feat.Cfg — Rust `cfg` predicates as a small Boolean expression language.

  `#[cfg(all(target_arch = "x86_64", not(feature = "no_simd")))]` becomes
  `.all [.atom (.targetArch "x86_64"), .not (.atom (.feature "ppv-lite86" "no_simd"))]`.
  A cargo feature atom carries the crate whose feature it is: a `feature = "std"` written inside an
  exported macro of ppv-lite86 is evaluated by rustc in the crate that *expands* the macro, so
  `feature "c2-chacha" "std"` and `feature "ppv-lite86" "std"` are different atoms.

  An assignment gives every atom a truth value.  `eval` depends only on the atoms a predicate
  mentions (`eval_congr`), therefore a statement about *all* assignments can be decided by running
  through the finitely many assignments of the mentioned atoms (`forallAssign_sound`).
-/
namespace CC.Feat

inductive Atom where
  | feature (crate name : String)      -- `feature = "name"`, evaluated in `crate`
  | targetFeature (name : String)      -- `target_feature = "name"`
  | targetArch (name : String)         -- `target_arch = "name"`
  | targetEndian (name : String)       -- `target_endian = "name"`
  | flag (name : String)               -- bare identifiers: `miri`, `test`, `cryptocorrosion_verif`, …
  deriving DecidableEq, Repr

inductive Cfg where
  | tt
  | ff
  | atom (a : Atom)
  | not (c : Cfg)
  | and (c d : Cfg)
  | or (c d : Cfg)
  deriving DecidableEq, Repr

namespace Cfg

/-- `all(p, q, …)` of the Rust syntax (empty `all()` is true). -/
def all : List Cfg → Cfg
  | [] => tt
  | [c] => c
  | c :: cs => and c (all cs)

/-- `any(p, q, …)` of the Rust syntax (empty `any()` is false). -/
def any : List Cfg → Cfg
  | [] => ff
  | [c] => c
  | c :: cs => or c (any cs)

/-- material implication, used for feature implications (`std = ["lazy_static"]`) and the standing
    assumptions on target features. -/
def imp (p q : Cfg) : Cfg := or (not p) q

def feat (crate name : String) : Cfg := atom (.feature crate name)
def tf (name : String) : Cfg := atom (.targetFeature name)
def arch (name : String) : Cfg := atom (.targetArch name)
def endian (name : String) : Cfg := atom (.targetEndian name)
def flag (name : String) : Cfg := atom (.flag name)

def eval (a : Atom → Bool) : Cfg → Bool
  | tt => true
  | ff => false
  | atom x => a x
  | not c => !(eval a c)
  | and c d => eval a c && eval a d
  | or c d => eval a c || eval a d

def atoms : Cfg → List Atom
  | tt => []
  | ff => []
  | atom x => [x]
  | not c => atoms c
  | and c d => atoms c ++ atoms d
  | or c d => atoms c ++ atoms d

/-- A predicate only looks at the atoms it mentions. -/
theorem eval_congr {a b : Atom → Bool} : ∀ (c : Cfg), (∀ x ∈ c.atoms, a x = b x) → eval a c = eval b c
  | tt, _ => rfl
  | ff, _ => rfl
  | atom x, h => by simpa [eval] using h x (by simp [atoms])
  | not c, h => by simp [eval, eval_congr c (by simpa [atoms] using h)]
  | and c d, h => by
      have hc := eval_congr c (fun x hx => h x (by simp [atoms, hx]))
      have hd := eval_congr d (fun x hx => h x (by simp [atoms, hx]))
      simp [eval, hc, hd]
  | or c d, h => by
      have hc := eval_congr c (fun x hx => h x (by simp [atoms, hx]))
      have hd := eval_congr d (fun x hx => h x (by simp [atoms, hx]))
      simp [eval, hc, hd]

@[simp] theorem eval_imp (a : Atom → Bool) (p q : Cfg) :
    eval a (imp p q) = (!(eval a p) || eval a q) := rfl

theorem eval_all (a : Atom → Bool) : ∀ cs : List Cfg, eval a (all cs) = cs.all (eval a)
  | [] => rfl
  | [c] => by simp [all]
  | c :: d :: cs => by
      have := eval_all a (d :: cs)
      simp [all, eval, this]

theorem eval_any (a : Atom → Bool) : ∀ cs : List Cfg, eval a (any cs) = cs.any (eval a)
  | [] => rfl
  | [c] => by simp [any]
  | c :: d :: cs => by
      have := eval_any a (d :: cs)
      simp [any, eval, this]

end Cfg

/-! ### deciding "for all assignments"

Shannon expansion with constant folding: substitute `true` / `false` for one atom after the other
and fold constants; a branch stops as soon as the predicate has folded to `tt` (or `ff`).  The
work is proportional to the decision tree of the predicate, not to `2^atoms`. -/

def mkNot : Cfg → Cfg
  | .tt => .ff
  | .ff => .tt
  | c => .not c

def mkAnd : Cfg → Cfg → Cfg
  | .ff, _ => .ff
  | .tt, d => d
  | _, .ff => .ff
  | c, .tt => c
  | c, d => .and c d

def mkOr : Cfg → Cfg → Cfg
  | .tt, _ => .tt
  | .ff, d => d
  | _, .tt => .tt
  | c, .ff => c
  | c, d => .or c d

@[simp] theorem eval_mkNot (a : Atom → Bool) (c : Cfg) : (mkNot c).eval a = !(c.eval a) := by
  cases c <;> simp [mkNot, Cfg.eval]

@[simp] theorem eval_mkAnd (a : Atom → Bool) (c d : Cfg) : (mkAnd c d).eval a = (c.eval a && d.eval a) := by
  cases c <;> cases d <;> simp [mkAnd, Cfg.eval]

@[simp] theorem eval_mkOr (a : Atom → Bool) (c d : Cfg) : (mkOr c d).eval a = (c.eval a || d.eval a) := by
  cases c <;> cases d <;> simp [mkOr, Cfg.eval]

/-- Set atom `x` to `v` in assignment `a`. -/
def setAtom (a : Atom → Bool) (x : Atom) (v : Bool) : Atom → Bool :=
  fun y => if y = x then v else a y

theorem setAtom_self (a : Atom → Bool) (x : Atom) : setAtom a x (a x) = a := by
  funext y; unfold setAtom; split <;> simp_all

/-- substitute a constant for an atom (`none`: just fold constants) and fold -/
def subst (x : Option Atom) (v : Bool) : Cfg → Cfg
  | .tt => .tt
  | .ff => .ff
  | .atom y => if some y = x then (if v then .tt else .ff) else .atom y
  | .not c => mkNot (subst x v c)
  | .and c d => mkAnd (subst x v c) (subst x v d)
  | .or c d => mkOr (subst x v c) (subst x v d)

theorem eval_subst_none (a : Atom → Bool) : ∀ c : Cfg, (subst none false c).eval a = c.eval a
  | .tt => rfl
  | .ff => rfl
  | .atom y => by simp [subst]
  | .not c => by simp [subst, Cfg.eval, eval_subst_none a c]
  | .and c d => by simp [subst, Cfg.eval, eval_subst_none a c, eval_subst_none a d]
  | .or c d => by simp [subst, Cfg.eval, eval_subst_none a c, eval_subst_none a d]

theorem eval_subst (a : Atom → Bool) (x : Atom) (v : Bool) :
    ∀ c : Cfg, (subst (some x) v c).eval a = c.eval (setAtom a x v)
  | .tt => rfl
  | .ff => rfl
  | .atom y => by
      by_cases h : y = x
      · subst h; cases v <;> simp [subst, Cfg.eval, setAtom]
      · simp [subst, Cfg.eval, setAtom, h]
  | .not c => by simp [subst, Cfg.eval, eval_subst a x v c]
  | .and c d => by simp [subst, Cfg.eval, eval_subst a x v c, eval_subst a x v d]
  | .or c d => by simp [subst, Cfg.eval, eval_subst a x v c, eval_subst a x v d]

/-- tautology check by expansion over the listed atoms (sound for any list; complete when the list
    contains the atoms of the predicate) -/
def taut : List Atom → Cfg → Bool
  | _, .tt => true
  | _, .ff => false
  | [], _ => false
  | x :: xs, c => taut xs (subst (some x) true c) && taut xs (subst (some x) false c)

theorem taut_step (x : Atom) (xs : List Atom) (c : Cfg)
    (ih : ∀ c, taut xs c = true → ∀ a : Atom → Bool, c.eval a = true)
    (h : (taut xs (subst (some x) true c) && taut xs (subst (some x) false c)) = true)
    (a : Atom → Bool) : c.eval a = true := by
  rw [Bool.and_eq_true] at h
  have h1 := ih _ h.1 a
  have h2 := ih _ h.2 a
  rw [eval_subst] at h1 h2
  have := setAtom_self a x
  cases hv : a x
  · rw [hv] at this; rw [this] at h2; exact h2
  · rw [hv] at this; rw [this] at h1; exact h1

theorem taut_sound (L : List Atom) : ∀ c : Cfg, taut L c = true → ∀ a : Atom → Bool, c.eval a = true := by
  induction L with
  | nil => intro c h a; cases c <;> simp [taut] at h; rfl
  | cons x xs ih =>
    intro c h a
    cases c with
    | tt => rfl
    | ff => simp [taut] at h
    | atom y => exact taut_step x xs _ ih (by simpa [taut] using h) a
    | not c => exact taut_step x xs _ ih (by simpa [taut] using h) a
    | and c d => exact taut_step x xs _ ih (by simpa [taut] using h) a
    | or c d => exact taut_step x xs _ ih (by simpa [taut] using h) a

/-- Validity of a predicate: true under every assignment. -/
def valid (c : Cfg) : Bool := taut c.atoms.eraseDups (subst none false c)

theorem valid_sound {c : Cfg} (h : valid c = true) : ∀ a : Atom → Bool, c.eval a = true := by
  intro a
  have := taut_sound _ _ h a
  rwa [eval_subst_none] at this

/-- A witness that a predicate is *not* valid. -/
theorem not_valid_of_witness {c : Cfg} (a : Atom → Bool) (h : c.eval a = false) :
    ¬ (∀ a : Atom → Bool, c.eval a = true) := fun hall => by
  have := hall a; rw [h] at this; exact Bool.noConfusion this

/-! ### "exactly one" / "at most one" of a list of predicates, as predicates -/

def noneOf (ps : List Cfg) : Cfg := Cfg.all (ps.map Cfg.not)

def exactlyOneOf : List Cfg → Cfg
  | [] => .ff
  | p :: ps => .or (.and p (noneOf ps)) (.and (.not p) (exactlyOneOf ps))

def atMostOneOf : List Cfg → Cfg
  | [] => .tt
  | p :: ps => .or (.and p (noneOf ps)) (.and (.not p) (atMostOneOf ps))

theorem eval_noneOf (a : Atom → Bool) (ps : List Cfg) :
    (noneOf ps).eval a = ((ps.filter (fun p => p.eval a)).length == 0) := by
  unfold noneOf; rw [Cfg.eval_all]
  induction ps with
  | nil => rfl
  | cons p ps ih =>
    simp only [List.map_cons, List.all_cons, List.filter_cons, Cfg.eval]
    cases hp : p.eval a <;> simp [ih]

theorem eval_exactlyOneOf (a : Atom → Bool) : ∀ ps : List Cfg,
    (exactlyOneOf ps).eval a = ((ps.filter (fun p => p.eval a)).length == 1)
  | [] => rfl
  | p :: ps => by
    simp only [exactlyOneOf, Cfg.eval, eval_noneOf, eval_exactlyOneOf a ps, List.filter_cons]
    cases hp : p.eval a <;> simp only [List.length_cons, if_true, if_false, Bool.false_eq_true] <;>
      generalize (ps.filter (fun p => p.eval a)).length = n <;> simp

theorem eval_atMostOneOf (a : Atom → Bool) : ∀ ps : List Cfg,
    (atMostOneOf ps).eval a = decide ((ps.filter (fun p => p.eval a)).length ≤ 1)
  | [] => by simp [atMostOneOf, Cfg.eval]
  | p :: ps => by
    simp only [atMostOneOf, Cfg.eval, eval_noneOf, eval_atMostOneOf a ps, List.filter_cons]
    cases hp : p.eval a <;> simp only [List.length_cons, if_true, if_false, Bool.false_eq_true] <;>
      generalize (ps.filter (fun p => p.eval a)).length = n <;> simp <;> cases n <;> simp

/-- The assignment in which exactly the listed atoms are true (used to print counterexamples). -/
def assignOf (trues : List Atom) : Atom → Bool := fun x => decide (x ∈ trues)

end CC.Feat
