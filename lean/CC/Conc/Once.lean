/-
  CC.Conc.Once — small-step models of the two kinds of process-global cells the workspace uses.

  1. `Once`: a once-cell (`lazy_static!` / `std::sync::Once` + storage) shared by `N` threads.
     Cell state `uninit | running tid | done v`; each thread has a program counter; a schedule is an
     arbitrary `List` of thread ids (ids `≥ N` are ignored).  One scheduled step of thread `t`:

       pc t = idle,    cell = uninit     ─begin→   cell := running t, pc t := initing
       pc t = idle,    cell = running u  ─enter→   pc t := waiting
       pc t = idle,    cell = done v     ─read →   `get` returns v                       (fast path)
       pc t = initing                    ─finish→  cell := done (init ()), pc t := waiting
       pc t = waiting, cell = running u  ─wait →   nothing changes (spin / park)
       pc t = waiting, cell = done v     ─read →   `get` returns v, pc t := idle
       pc t = waiting, cell = uninit     ─read!→   `get` returns garbage (`none`), pc t := idle

     The step function is total and *permissive*: `finish` publishes whatever the cell held before,
     a waiting thread that finds the cell `uninit` reads garbage.  That these never go wrong is the
     content of the invariant, not of the definition.  A thread may call `get` any number of times
     (after a completed `get` its pc is `idle` again): first and later calls are both covered.

  2. `Cache`: the idempotent cache of `std_detect` behind `is_x86_feature_detected!`:
     an atomic word that is either "uninitialised" or holds the detected feature set.  Every thread
     that loads "uninitialised" runs the detection itself and stores the result (`Relaxed`); several
     threads may do so concurrently; the detection is a deterministic function of the CPU.
     (std keeps several such words, each with its own initialised bit: each is one `Cache`.)

  Source of the protocol: lazy_static 1.5.0 `inline_lazy.rs` —
      `pub fn get(&'static self, f) -> &T { self.1.call_once(|| { self.0.set(MaybeUninit::new(f())); });
                                             unsafe { &*(*self.0.as_ptr()).as_ptr() } }`
  i.e. `std::sync::Once::call_once` (begin / finish / wait) followed by an unconditional read of the
  `MaybeUninit` storage (the `read` steps; reading it unset would be the garbage read).  The `Once`
  state word and the storage are merged into the one `Cell` of the model.
  std_detect's cache: `cache::test(bit)` loads the word, and if its "initialised" bit is clear calls
  `detect_and_initialize()` which computes the features, stores them and returns the computed value.

  Safety only, on finite schedules.  Not modelled: memory ordering (the cell's state and value are one
  atomic location here), a panicking initialiser (poisoning).
-/
namespace CC.Conc

/-- function update. -/
def upd {β : Type} (f : Nat → β) (i : Nat) (v : β) : Nat → β := fun k => if k = i then v else f k

@[simp] theorem upd_same {β : Type} (f : Nat → β) (i : Nat) (v : β) : upd f i v i = v := by
  simp [upd]

theorem upd_other {β : Type} (f : Nat → β) (i k : Nat) (v : β) (h : k ≠ i) : upd f i v k = f k := by
  simp [upd, h]

/-! ## 1. the once-cell -/
namespace Once

inductive Cell (α : Type) where
  | uninit
  | running (tid : Nat)
  | done (v : α)
  deriving DecidableEq, Repr

inductive Pc where
  | idle
  | initing
  | waiting
  deriving DecidableEq, Repr

structure State (α : Type) where
  cell : Cell α
  pc : Nat → Pc
  /-- how many times the initialiser has been started. -/
  inits : Nat
  /-- completed `get`s, newest first: (thread, value obtained); `none` = an uninitialised read. -/
  reads : List (Nat × Option α)

variable {α : Type}

def State.start : State α := ⟨.uninit, fun _ => .idle, 0, []⟩

/-- one scheduled step of thread `t`. -/
def step (init : Unit → α) (N : Nat) (s : State α) (t : Nat) : State α :=
  if t < N then
    match s.pc t, s.cell with
    | .idle, .uninit => { s with cell := .running t, pc := upd s.pc t .initing, inits := s.inits + 1 }
    | .idle, .running _ => { s with pc := upd s.pc t .waiting }
    | .idle, .done v => { s with reads := (t, some v) :: s.reads }
    | .initing, _ => { s with cell := .done (init ()), pc := upd s.pc t .waiting }
    | .waiting, .running _ => s
    | .waiting, .done v => { s with pc := upd s.pc t .idle, reads := (t, some v) :: s.reads }
    | .waiting, .uninit => { s with pc := upd s.pc t .idle, reads := (t, none) :: s.reads }
  else s

/-- run a schedule. -/
def run (init : Unit → α) (N : Nat) (s : State α) (sched : List Nat) : State α :=
  sched.foldl (step init N) s

/-- the protocol invariant. -/
structure Inv (init : Unit → α) (s : State α) : Prop where
  reads_ok : ∀ r ∈ s.reads, r.2 = some (init ())
  at_uninit : s.cell = .uninit → s.inits = 0 ∧ ∀ t, s.pc t = .idle
  at_running : ∀ u, s.cell = .running u →
    s.inits = 1 ∧ s.pc u = .initing ∧ ∀ t, s.pc t = .initing → t = u
  at_done : ∀ v, s.cell = .done v → v = init () ∧ s.inits = 1 ∧ ∀ t, s.pc t ≠ .initing

theorem Inv_start (init : Unit → α) : Inv init (State.start : State α) where
  reads_ok := by intro r h; cases h
  at_uninit := fun _ => ⟨rfl, fun _ => rfl⟩
  at_running := by intro u h; cases h
  at_done := by intro v h; cases h

theorem Inv_step (init : Unit → α) (N : Nat) {s : State α} (h : Inv init s) (t : Nat) :
    Inv init (step init N s t) := by
  unfold step
  by_cases hN : t < N
  case neg => simpa [hN] using h
  simp only [hN, if_true]
  cases hp : s.pc t <;> cases hc : s.cell <;> dsimp only
  -- idle, uninit : begin
  · obtain ⟨hi, hidle⟩ := h.at_uninit hc
    refine ⟨h.reads_ok, ?_, ?_, ?_⟩
    · intro hh; cases hh
    · intro u hu
      cases hu
      refine ⟨by simp [hi], by simp, ?_⟩
      intro t' ht'
      by_cases e : t' = t
      · exact e
      · dsimp only at ht'; rw [upd_other _ _ _ _ e, hidle t'] at ht'; cases ht'
    · intro v hv; cases hv
  -- idle, running u : enter wait
  · rename_i u
    obtain ⟨hi, hu, huniq⟩ := h.at_running u hc
    have htu : t ≠ u := by
      intro e; subst e; rw [hp] at hu; cases hu
    refine ⟨h.reads_ok, ?_, ?_, ?_⟩
    · intro hh; dsimp only at hh; cases hh
    · intro u' hu'
      dsimp only at hu'
      cases hu'
      refine ⟨hi, ?_, ?_⟩
      · show upd s.pc t .waiting u = .initing
        rw [upd_other _ _ _ _ (Ne.symm htu)]; exact hu
      · intro t' ht'
        by_cases e : t' = t
        · subst e; simp at ht'
        · dsimp only at ht'; rw [upd_other _ _ _ _ e] at ht'; exact huniq t' ht'
    · intro v hv; dsimp only at hv; cases hv
  -- idle, done v : fast-path read
  · rename_i v
    obtain ⟨hv, hi, hno⟩ := h.at_done v hc
    refine ⟨?_, ?_, ?_, ?_⟩
    · intro r hr
      cases hr with
      | head => simp [hv]
      | tail _ hr => exact h.reads_ok r hr
    · intro hh; dsimp only at hh; cases hh
    · intro u hu; dsimp only at hu; cases hu
    · intro v' hv'
      dsimp only at hv'
      cases hv'
      exact ⟨hv, hi, hno⟩
  -- initing, uninit : impossible
  · obtain ⟨_, hidle⟩ := h.at_uninit hc
    rw [hidle t] at hp; cases hp
  -- initing, running u : finish (u = t)
  · rename_i u
    obtain ⟨hi, hu, huniq⟩ := h.at_running u hc
    have htu : t = u := huniq t hp
    refine ⟨h.reads_ok, ?_, ?_, ?_⟩
    · intro hh; cases hh
    · intro u' hu'; cases hu'
    · intro v hv
      cases hv
      refine ⟨rfl, hi, ?_⟩
      intro t' ht'
      by_cases e : t' = t
      · subst e; simp at ht'
      · dsimp only at ht'; rw [upd_other _ _ _ _ e] at ht'
        exact e ((huniq t' ht').trans htu.symm)
  -- initing, done v : impossible
  · rename_i v
    obtain ⟨_, _, hno⟩ := h.at_done v hc
    exact absurd hp (hno t)
  -- waiting, uninit : impossible
  · obtain ⟨_, hidle⟩ := h.at_uninit hc
    rw [hidle t] at hp; cases hp
  -- waiting, running : stutter
  · exact h
  -- waiting, done v : read
  · rename_i v
    obtain ⟨hv, hi, hno⟩ := h.at_done v hc
    refine ⟨?_, ?_, ?_, ?_⟩
    · intro r hr
      cases hr with
      | head => simp [hv]
      | tail _ hr => exact h.reads_ok r hr
    · intro hh; dsimp only at hh; cases hh
    · intro u hu; dsimp only at hu; cases hu
    · intro v' hv'
      dsimp only at hv'
      cases hv'
      refine ⟨hv, hi, ?_⟩
      intro t' ht'
      by_cases e : t' = t
      · subst e; simp at ht'
      · dsimp only at ht'; rw [upd_other _ _ _ _ e] at ht'; exact hno t' ht'

theorem Inv_run (init : Unit → α) (N : Nat) (sched : List Nat) :
    ∀ {s : State α}, Inv init s → Inv init (run init N s sched) := by
  induction sched with
  | nil => intro s h; exact h
  | cons t ts ih => intro s h; exact ih (Inv_step init N h t)

/-- a `wait` step changes nothing (so dropping or repeating it does not matter). -/
theorem wait_stutters (init : Unit → α) (N : Nat) (s : State α) (t u : Nat)
    (hp : s.pc t = .waiting) (hc : s.cell = .running u) : step init N s t = s := by
  unfold step
  by_cases hN : t < N
  · simp [hN, hp, hc]
  · simp [hN]

end Once

/-! ## 2. the idempotent cache -/
namespace Cache

inductive Pc where
  | idle
  | computing
  deriving DecidableEq, Repr

structure State (α : Type) where
  cache : Option α
  pc : Nat → Pc
  /-- how many times the detection ran (may be as large as the number of threads). -/
  computes : Nat
  /-- completed queries, newest first. -/
  reads : List (Nat × α)

variable {α : Type}

def State.start : State α := ⟨none, fun _ => .idle, 0, []⟩

/-- one scheduled step of thread `t`:
      idle, cache = some v  → the query returns v
      idle, cache = none    → pc := computing        (the load saw "uninitialised")
      computing             → run `detect`, store it, return the *computed* value. -/
def step (detect : Unit → α) (N : Nat) (s : State α) (t : Nat) : State α :=
  if t < N then
    match s.pc t, s.cache with
    | .idle, some v => { s with reads := (t, v) :: s.reads }
    | .idle, none => { s with pc := upd s.pc t .computing }
    | .computing, _ =>
      { cache := some (detect ()), pc := upd s.pc t .idle, computes := s.computes + 1,
        reads := (t, detect ()) :: s.reads }
  else s

def run (detect : Unit → α) (N : Nat) (s : State α) (sched : List Nat) : State α :=
  sched.foldl (step detect N) s

structure Inv (detect : Unit → α) (s : State α) : Prop where
  reads_ok : ∀ r ∈ s.reads, r.2 = detect ()
  cache_ok : ∀ v, s.cache = some v → v = detect ()

theorem Inv_start (detect : Unit → α) : Inv detect (State.start : State α) where
  reads_ok := by intro r h; cases h
  cache_ok := by intro v h; cases h

theorem Inv_step (detect : Unit → α) (N : Nat) {s : State α} (h : Inv detect s) (t : Nat) :
    Inv detect (step detect N s t) := by
  unfold step
  by_cases hN : t < N
  case neg => simpa [hN] using h
  simp only [hN, if_true]
  cases hp : s.pc t <;> cases hc : s.cache <;> dsimp only
  · exact ⟨h.reads_ok, by intro v hv; dsimp only at hv; cases hv⟩
  · rename_i v
    refine ⟨?_, by intro v' hv'; cases hv'; exact h.cache_ok v hc⟩
    intro r hr
    cases hr with
    | head => exact h.cache_ok v hc
    | tail _ hr => exact h.reads_ok r hr
  all_goals
    refine ⟨?_, by intro v hv; cases hv; rfl⟩
    intro r hr
    cases hr with
    | head => rfl
    | tail _ hr => exact h.reads_ok r hr

theorem Inv_run (detect : Unit → α) (N : Nat) (sched : List Nat) :
    ∀ {s : State α}, Inv detect s → Inv detect (run detect N s sched) := by
  induction sched with
  | nil => intro s h; exact h
  | cons t ts ih => intro s h; exact ih (Inv_step detect N h t)

end Cache
end CC.Conc
