/-
  CC.Conc.Lemmas — glue between the generic interleaving theory (CC/Conc/Interleave.lean) and the two
  concrete machine shapes: the incremental-hash `Machine` (CC/Buffer/Hash.lean) and the ChaCha
  machine `cStep`/`cRun` (CC/ChaCha/Machine.lean).
-/
import CC.Conc.Interleave
import CC.Buffer.Hash
import CC.ChaCha.Machine
namespace CC.Conc
open CC CC.Buffer

section hash
variable {μ ω : Type}

/-- `runOne` over `Machine.step` is `Machine.run`. -/
theorem runOne_eq_run (M : Machine μ ω) (ops : List Op) :
    ∀ s, runOne M.step s ops = M.run s ops := by
  induction ops with
  | nil => intro s; rfl
  | cons op ops ih =>
    intro s
    show ((runOne M.step (M.step s op).1 ops).1, (M.step s op).2 :: (runOne M.step (M.step s op).1 ops).2)
      = ((M.run (M.step s op).1 ops).1, (M.step s op).2 :: (M.run (M.step s op).1 ops).2)
    rw [ih]

/-- an addressed operation as a C08 store operation. -/
def toSOp : Nat × Op → SOp
  | (i, .update p) => .update i p
  | (i, .reset) => .reset i
  | (i, .resetKeep) => .resetKeep i
  | (i, .finreset) => .finreset i
  | (i, .fin) => .fin i

theorem stepS_toSOp (M : Machine μ ω) (S : Nat → μ) (i : Nat) (op : Op) :
    M.stepS S (toSOp (i, op)) = (upd S i (M.step (S i) op).1, (M.step (S i) op).2) := by
  cases op with
  | fin =>
    show (S, some (M.finalize (S i))) = (upd S i (S i), some (M.finalize (S i)))
    have : upd S i (S i) = S := by
      funext k
      by_cases e : k = i
      · subst e; simp
      · rw [upd_other _ _ _ _ e]
    rw [this]
  | _ => rfl

end hash

section chacha
open CC.ChaCha

/-- `cRun` is the generic sequential run in the `Out` monad. -/
theorem cRun_eq_runOut (p : Profile) (ops : List ChaCha.Op) :
    ∀ c, cRun p c ops = runOut (cStep p) c ops := by
  induction ops with
  | nil => intro c; rfl
  | cons op ops ih =>
    intro c
    simp only [cRun, runOut]
    cases cStep p c op with
    | ok q =>
      obtain ⟨c', r⟩ := q
      dsimp only
      rw [ih]
      cases runOut (cStep p) c' ops with
      | ok q' => rfl
      | err => rfl
      | panic w => rfl
    | err => rfl
    | panic w => rfl

end chacha

end CC.Conc
