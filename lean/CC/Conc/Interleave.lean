/-
  CC.Conc.Interleave — interleaving of per-instance operation sequences over ANY state machine.

  A machine is a step function `step : σ → ι → σ × ο` (instance state, operation, → new state and
  output).  A store holds one instance per slot; an addressed operation `(k, x)` applies `x` to slot
  `k`.  `runStore` executes an arbitrary interleaving (any list of addressed operations);
  `runOne` executes one instance's own sequence alone.  `interleave_independent`: for every slot
  the outputs and the final state in the interleaved run are those of running the slot's own
  subsequence alone — by induction on the interleaving.  `IsMerge seqs ms` is the explicit
  "`ms` is a merge of the sequences `seqs k`" relation; every list of addressed operations is a merge
  of its projections and vice versa.

  Machines whose step can fail (`Out`) are covered by `outStep`: an instance whose call failed
  (`Err`/panic) is dead from then on — and still cannot influence any other instance.
-/
import CC.Prim
import CC.Conc.Once
namespace CC.Conc

variable {σ ι ο : Type}

/-- run one instance's own operation sequence. -/
def runOne (step : σ → ι → σ × ο) : σ → List ι → σ × List ο
  | s, [] => (s, [])
  | s, x :: xs => ((runOne step (step s x).1 xs).1, (step s x).2 :: (runOne step (step s x).1 xs).2)

/-- run an interleaving: each operation is applied to the slot it addresses; outputs are tagged with
    the slot. -/
def runStore (step : σ → ι → σ × ο) : (Nat → σ) → List (Nat × ι) → (Nat → σ) × List (Nat × ο)
  | S, [] => (S, [])
  | S, (k, x) :: xs =>
    ((runStore step (upd S k (step (S k) x).1) xs).1,
     (k, (step (S k) x).2) :: (runStore step (upd S k (step (S k) x).1) xs).2)

/-- the subsequence addressed to slot `k` (of operations, or of tagged outputs). -/
def proj {β : Type} (k : Nat) : List (Nat × β) → List β
  | [] => []
  | (j, x) :: xs => if j = k then x :: proj k xs else proj k xs

theorem proj_cons_same {β : Type} (k : Nat) (x : β) (xs : List (Nat × β)) :
    proj k ((k, x) :: xs) = x :: proj k xs := by simp [proj]

theorem proj_cons_other {β : Type} {j k : Nat} (h : j ≠ k) (x : β) (xs : List (Nat × β)) :
    proj k ((j, x) :: xs) = proj k xs := by simp [proj, h]

/-- **interleave_independent** (generic): in any interleaving, slot `k`'s outputs and final state are
    those of its own subsequence run alone from its own initial state. -/
theorem interleave_independent (step : σ → ι → σ × ο) (ops : List (Nat × ι)) :
    ∀ (S : Nat → σ) (k : Nat),
      proj k (runStore step S ops).2 = (runOne step (S k) (proj k ops)).2 ∧
      (runStore step S ops).1 k = (runOne step (S k) (proj k ops)).1 := by
  induction ops with
  | nil => intro S k; exact ⟨rfl, rfl⟩
  | cons op ops ih =>
    intro S k
    obtain ⟨j, x⟩ := op
    have h := ih (upd S j (step (S j) x).1) k
    by_cases e : j = k
    · subst e
      rw [upd_same] at h
      rw [proj_cons_same]
      show proj j ((j, (step (S j) x).2) :: (runStore step (upd S j (step (S j) x).1) ops).2) = _ ∧
        (runStore step (upd S j (step (S j) x).1) ops).1 j = _
      rw [proj_cons_same]
      exact ⟨by rw [h.1]; rfl, by rw [h.2]; rfl⟩
    · rw [upd_other _ _ _ _ (Ne.symm e)] at h
      rw [proj_cons_other e]
      show proj k ((j, (step (S j) x).2) :: (runStore step (upd S j (step (S j) x).1) ops).2) = _ ∧
        (runStore step (upd S j (step (S j) x).1) ops).1 k = _
      rw [proj_cons_other e]
      exact h

/-- slots that are never addressed keep their state and produce nothing. -/
theorem untouched (step : σ → ι → σ × ο) (ops : List (Nat × ι)) (S : Nat → σ) (k : Nat)
    (h : proj k ops = []) :
    (runStore step S ops).1 k = S k ∧ proj k (runStore step S ops).2 = [] := by
  obtain ⟨h₁, h₂⟩ := interleave_independent step ops S k
  rw [h] at h₁ h₂
  exact ⟨h₂, h₁⟩

/-- what slot `k` yields does not depend on the other slots' initial states. -/
theorem frame (step : σ → ι → σ × ο) (ops : List (Nat × ι)) (S S' : Nat → σ) (k : Nat)
    (h : S k = S' k) :
    proj k (runStore step S ops).2 = proj k (runStore step S' ops).2 ∧
    (runStore step S ops).1 k = (runStore step S' ops).1 k := by
  obtain ⟨a₁, a₂⟩ := interleave_independent step ops S k
  obtain ⟨b₁, b₂⟩ := interleave_independent step ops S' k
  rw [a₁, a₂, b₁, b₂, h]
  exact ⟨rfl, rfl⟩

/-! ### merges, explicitly -/

/-- `IsMerge seqs ms`: the interleaving `ms` is a merge of the sequences `seqs k` (each addressed
    to its own slot `k`), preserving the order within each sequence. -/
inductive IsMerge {β : Type} : (Nat → List β) → List (Nat × β) → Prop where
  | nil : IsMerge (fun _ => []) []
  | cons (k : Nat) (x : β) {seqs : Nat → List β} {ms : List (Nat × β)} :
      IsMerge seqs ms → IsMerge (upd seqs k (x :: seqs k)) ((k, x) :: ms)

theorem IsMerge.proj_eq {β : Type} {seqs : Nat → List β} {ms : List (Nat × β)} (h : IsMerge seqs ms) :
    ∀ k, proj k ms = seqs k := by
  induction h with
  | nil => intro k; rfl
  | cons j x _ ih =>
    intro k
    by_cases e : j = k
    · subst e; rw [proj_cons_same, upd_same, ih]
    · rw [proj_cons_other e, upd_other _ _ _ _ (Ne.symm e), ih]

/-- every interleaving is a merge of its projections. -/
theorem isMerge_proj {β : Type} (ms : List (Nat × β)) : IsMerge (fun k => proj k ms) ms := by
  induction ms with
  | nil => exact IsMerge.nil
  | cons op ms ih =>
    obtain ⟨j, x⟩ := op
    have : (fun k => proj k ((j, x) :: ms)) = upd (fun k => proj k ms) j (x :: proj j ms) := by
      funext k
      by_cases e : j = k
      · subst e; rw [proj_cons_same, upd_same]
      · rw [proj_cons_other e, upd_other _ _ _ _ (Ne.symm e)]
    rw [this]
    exact IsMerge.cons j x ih

/-- **interleave_independent**, merge form: for every merge `ms` of per-instance sequences `seqs`,
    each instance's outputs (and final state) equal those of running its own sequence alone. -/
theorem merge_independent (step : σ → ι → σ × ο) {seqs : Nat → List ι} {ms : List (Nat × ι)}
    (h : IsMerge seqs ms) (S : Nat → σ) (k : Nat) :
    proj k (runStore step S ms).2 = (runOne step (S k) (seqs k)).2 ∧
    (runStore step S ms).1 k = (runOne step (S k) (seqs k)).1 := by
  have := interleave_independent step ms S k
  rw [h.proj_eq k] at this
  exact this

/-- two merges of the same sequences are indistinguishable per instance. -/
theorem merges_agree (step : σ → ι → σ × ο) {seqs : Nat → List ι} {ms ms' : List (Nat × ι)}
    (h : IsMerge seqs ms) (h' : IsMerge seqs ms') (S : Nat → σ) (k : Nat) :
    proj k (runStore step S ms).2 = proj k (runStore step S ms').2 ∧
    (runStore step S ms).1 k = (runStore step S ms').1 k := by
  obtain ⟨a₁, a₂⟩ := merge_independent step h S k
  obtain ⟨b₁, b₂⟩ := merge_independent step h' S k
  exact ⟨a₁.trans b₁.symm, a₂.trans b₂.symm⟩

/-! ### machines whose calls can fail -/

/-- lift a step that may return `Err` or panic: a failed call leaves a dead instance
    (`none`); calls on a dead instance report `err`. -/
def outStep (f : σ → ι → Out (σ × ο)) : Option σ → ι → Option σ × Out ο
  | some s, x =>
    match f s x with
    | .ok (s', r) => (some s', .ok r)
    | .err => (none, .err)
    | .panic w => (none, .panic w)
  | none, _ => (none, .err)

/-- sequential run in the `Out` monad (stops at the first failure). -/
def runOut (f : σ → ι → Out (σ × ο)) : σ → List ι → Out (σ × List ο)
  | s, [] => .ok (s, [])
  | s, x :: xs =>
    match f s x with
    | .ok (s', r) =>
      match runOut f s' xs with
      | .ok (s'', rs) => .ok (s'', r :: rs)
      | .err => .err
      | .panic w => .panic w
    | .err => .err
    | .panic w => .panic w

/-- when an instance's own sequence succeeds, the lifted machine computes exactly its results. -/
theorem runOne_outStep_of_ok (f : σ → ι → Out (σ × ο)) (xs : List ι) :
    ∀ (s s' : σ) (rs : List ο), runOut f s xs = .ok (s', rs) →
      runOne (outStep f) (some s) xs = (some s', rs.map Out.ok) := by
  induction xs with
  | nil =>
    intro s s' rs h
    simp only [runOut] at h
    cases h
    rfl
  | cons x xs ih =>
    intro s s' rs h
    simp only [runOut] at h
    cases hf : f s x with
    | ok p =>
      obtain ⟨s₁, r⟩ := p
      rw [hf] at h
      dsimp only at h
      cases hr : runOut f s₁ xs with
      | ok q =>
        obtain ⟨s₂, rs'⟩ := q
        rw [hr] at h
        dsimp only at h
        cases h
        have := ih s₁ _ rs' hr
        have e : outStep f (some s) x = (some s₁, .ok r) := by simp [outStep, hf]
        simp only [runOne, e, this, List.map_cons]
      | err => rw [hr] at h; cases h
      | panic w => rw [hr] at h; cases h
    | err => rw [hf] at h; cases h
    | panic w => rw [hf] at h; cases h

end CC.Conc
