/-
  CC.Lemmas.SrcGlueBuffer — generic facts about the block-buffer model used by the phase-3 obligations of the source
  tie: relational parametricity of `inputLazy` (two step functions that preserve a relation on full blocks).
-/
import CC.Buffer.Lemmas
import CC.Lemmas.SrcGlue
namespace CC.Src
open CC CC.Buffer

/-- relational parametricity of `foldChunksLazy`: related accumulators stay related when the two step functions
    preserve the relation on blocks of `b` bytes; the remainders are equal -/
theorem foldChunksLazy_rel {σ τ : Type} (R : σ → τ → Prop) (b : Nat) (f : σ → List (BitVec 8) → σ)
    (f' : τ → List (BitVec 8) → τ) (h : ∀ a o x, x.length = b → R a o → R (f a x) (f' o x)) :
    ∀ (fuel : Nat) (a : σ) (o : τ) (input : List (BitVec 8)), R a o →
      R (foldChunksLazy b f fuel a input).1 (foldChunksLazy b f' fuel o input).1 ∧
      (foldChunksLazy b f fuel a input).2 = (foldChunksLazy b f' fuel o input).2 := by
  intro fuel
  induction fuel with
  | zero => intro a o input hR; exact ⟨hR, rfl⟩
  | succ fuel ih =>
    intro a o input hR
    simp only [foldChunksLazy]
    split
    · rename_i hc
      exact ih _ _ _ (h a o _ (by simp; omega) hR)
    · exact ⟨hR, rfl⟩

/-- … of `inputLazy` (buffer invariant `buf.length = b`, `pos ≤ b`): equal buffers, related accumulators -/
theorem inputLazy_rel {σ τ : Type} (R : σ → τ → Prop) (b : Nat) (s : BB) (hs : s.buf.length = b) (hp : s.pos ≤ b)
    (input : List (BitVec 8)) (f : σ → List (BitVec 8) → σ) (f' : τ → List (BitVec 8) → τ)
    (h : ∀ a o x, x.length = b → R a o → R (f a x) (f' o x)) (a : σ) (o : τ) (hR : R a o) :
    (inputLazy b s input f a).1 = (inputLazy b s input f' o).1 ∧
    R (inputLazy b s input f a).2 (inputLazy b s input f' o).2 := by
  unfold inputLazy
  simp only []
  split
  · exact ⟨rfl, hR⟩
  · rename_i hlen
    by_cases hpos : (s.pos != 0) = true
    · simp only [hpos, if_true]
      have hl : (splice s.buf s.pos (input.take (b - s.pos))).length = b := by
        rw [length_splice _ _ _ (by simp; omega), hs]
      have hR' := h a o _ hl hR
      obtain ⟨r1, r2⟩ := foldChunksLazy_rel R b f f' h ((input.drop (b - s.pos)).length / b + 1) _ _
        (input.drop (b - s.pos)) hR'
      exact ⟨by rw [r2], r1⟩
    · have hpos' : (s.pos != 0) = false := by simpa using hpos
      simp only [hpos', Bool.false_eq_true, if_false]
      obtain ⟨r1, r2⟩ := foldChunksLazy_rel R b f f' h (input.length / b + 1) _ _ input hR
      exact ⟨by rw [r2], r1⟩
end CC.Src
