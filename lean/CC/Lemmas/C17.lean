/-
  CC.Lemmas.C17 — helper lemmas for C17 (length counters) that are not already in the family
  lemma files: the Skein byte position as a streaming invariant, the JH length over a list of
  `update` calls, and the exact places where the debug profile's overflow checks fire.
-/
import CC.Blake.MsgLemmas
import CC.Skein.Lemmas
import CC.JH.LemmasMsg
import CC.Groestl.LemmasD
namespace CC.Lemmas.C17
open CC CC.Buffer

/-! ## BLAKE: where `increase_count` can panic -/
section Blake
open CC.Blake

/-- `increase_count` in the debug profile panics exactly when the low word carries while the
    high word is already `2^w − 1` (for a `count` whose `* 8` fits, which is every call site:
    `count ∈ {64, 128}` in `update`, `count = buffer.position() < 128` in finalisation). -/
theorem increaseCount_debug_panic_iff {w} (t : BitVec w × BitVec w) (c : BitVec w)
    (hc : c.toNat * 8 < 2 ^ w) :
    (increaseCount .debug t c).isPanic = true ↔
      (t.1.toNat + c.toNat * 8 ≥ 2 ^ w ∧ t.2.toNat + 1 ≥ 2 ^ w) := by
  have hc8 : (c * 8).toNat = c.toNat * 8 := by
    rw [BitVec.toNat_mul]
    by_cases hw : w < 4
    · have : w = 0 ∨ w = 1 ∨ w = 2 ∨ w = 3 := by omega
      rcases this with rfl | rfl | rfl | rfl
      · simp [BitVec.toNat_ofNat]; omega
      · have := c.isLt; simp [BitVec.toNat_ofNat] at *; omega
      · have := c.isLt; simp [BitVec.toNat_ofNat] at *; omega
      · have := c.isLt; simp [BitVec.toNat_ofNat] at *; omega
    · have h8 : (8 : BitVec w).toNat = 8 := by
        have h16 : (2 : Nat) ^ 4 ≤ 2 ^ w := Nat.pow_le_pow_right (by decide) (by omega)
        show (BitVec.ofNat w 8).toNat = 8
        rw [BitVec.toNat_ofNat]; exact Nat.mod_eq_of_lt (by omega)
      rw [h8, Nat.mod_eq_of_lt hc]
  unfold increaseCount
  have hno : ¬ (Profile.debug = Profile.debug ∧ c.toNat * 8 ≥ 2 ^ w) := by intro h; omega
  rw [if_neg hno]
  dsimp only
  rw [hc8]
  by_cases hcarry : t.1.toNat + c.toNat * 8 ≥ 2 ^ w
  · simp only [hcarry, if_true, true_and]
    by_cases h2 : t.2.toNat + 1 ≥ 2 ^ w
    · simp [h2, Out.isPanic]
    · simp [h2, Out.isPanic]
  · simp [hcarry, Out.isPanic]

/-- the release profile never panics in `increase_count` (it wraps) -/
theorem increaseCount_release_ok {w} (t : BitVec w × BitVec w) (c : BitVec w) :
    (increaseCount .release t c).isOk = true := by
  unfold increaseCount
  have hno : ¬ (Profile.release = Profile.debug ∧ c.toNat * 8 ≥ 2 ^ w) := by intro h; cases h.1
  rw [if_neg hno]
  dsimp only
  split
  · have hno2 : ¬ (Profile.release = Profile.debug ∧ t.2.toNat + 1 ≥ 2 ^ w) := by intro h; cases h.1
    rw [if_neg hno2]; rfl
  · rfl

theorem splitT_toNat {w : Nat} (T : Nat) (hT : T < 2 ^ (2 * w)) :
    (splitT w T).1.toNat = T % 2 ^ w ∧ (splitT w T).2.toNat = T / 2 ^ w := by
  have hpow : (2 : Nat) ^ (2 * w) = 2 ^ w * 2 ^ w := by rw [Nat.two_mul, Nat.pow_add]
  refine ⟨by simp [splitT], ?_⟩
  simp only [splitT, BitVec.toNat_ofNat]
  apply Nat.mod_eq_of_lt
  apply Nat.div_lt_of_lt_mul
  rw [← hpow]; exact hT

end Blake

/-! ## Grøstl: where the checked additions can panic -/
section Groestl
open CC.Groestl CC.Groestl.Model

theorem checkedAdd_debug_panic_iff (a b : BitVec 64) :
    (checkedAdd .debug a b).isPanic = true ↔ a.toNat + b.toNat ≥ 2 ^ 64 := by
  unfold checkedAdd
  by_cases h : a.toNat + b.toNat ≥ 2 ^ 64
  · rw [if_pos ⟨rfl, h⟩]; simp [Out.isPanic, h]
  · have hno : ¬ (Profile.debug = Profile.debug ∧ a.toNat + b.toNat ≥ 2 ^ 64) := fun hh => h hh.2
    rw [if_neg hno]; simp [Out.isPanic, h]

theorem checkedAdd_ok (p : Profile) (a b : BitVec 64) (h : a.toNat + b.toNat < 2 ^ 64) :
    checkedAdd p a b = .ok (a + b) := by
  unfold checkedAdd
  have hno : ¬ (p = Profile.debug ∧ a.toNat + b.toNat ≥ 2 ^ 64) := by intro hh; omega
  rw [if_neg hno]

theorem checkedAdd_release (a b : BitVec 64) : checkedAdd .release a b = .ok (a + b) := by
  unfold checkedAdd
  have hno : ¬ (Profile.release = Profile.debug ∧ a.toNat + b.toNat ≥ 2 ^ 64) := by intro hh; cases hh.1
  rw [if_neg hno]

/-- from ANY state (e.g. a hook-injected counter) with `block_counter + 2 < 2^64`, the count
    computation of `finalize_dirty` does not panic in either profile -/
theorem finalizeDirty_ok_below {C} (K : Comp C) (p : Profile) (h : Hasher C)
    (hlt : h.blockCounter.toNat + 2 < 2 ^ 64) : (finalizeDirty K p h).isOk = true := by
  have h1 : checkedAdd p h.blockCounter 1 = .ok (h.blockCounter + 1) :=
    checkedAdd_ok p _ _ (by simp; omega)
  have e1 : (h.blockCounter + 1).toNat = h.blockCounter.toNat + 1 := by
    rw [BitVec.toNat_add]; simp; omega
  have h2 : ∀ x : BitVec 64, x.toNat ≤ 1 →
      checkedAdd p (h.blockCounter + 1) x = .ok (h.blockCounter + 1 + x) := by
    intro x hx; exact checkedAdd_ok p _ _ (by rw [e1]; omega)
  simp only [finalizeDirty, bind, Out.bind, h1]
  split
  · rename_i heq
    split at heq
    · rw [h2 _ (by simp)] at heq; cases heq; rfl
    · rw [h2 _ (by simp)] at heq; cases heq; rfl
  · rename_i heq
    split at heq
    · rw [h2 _ (by simp)] at heq; cases heq
    · rw [h2 _ (by simp)] at heq; cases heq
  · rename_i heq
    split at heq
    · rw [h2 _ (by simp)] at heq; cases heq
    · rw [h2 _ (by simp)] at heq; cases heq

/-- at `block_counter = 2^64 − 1` the debug build panics in `self.block_counter + 1` -/
theorem finalizeDirty_debug_panic {C} (K : Comp C) (h : Hasher C)
    (hge : h.blockCounter.toNat + 1 ≥ 2 ^ 64) : (finalizeDirty K .debug h).isPanic = true := by
  have h1 : checkedAdd .debug h.blockCounter 1 = .panic "attempt to add with overflow" := by
    unfold checkedAdd
    rw [if_pos ⟨rfl, by simpa using hge⟩]
  simp only [finalizeDirty, bind, Out.bind, h1]
  rfl

end Groestl

/-! ## JH: `datalen` over any sequence of `update` calls -/
section JH
open CC.Simd CC.JH CC.JH.Model

/-- a sequence of `update` calls -/
def jhUpdates (M : Mach) (p : Profile) : Hasher → List (List (BitVec 8)) → Out Hasher
  | h, [] => .ok h
  | h, d :: ds =>
    match h.update M p d with
    | .ok h' => jhUpdates M p h' ds
    | .err => .err
    | .panic w => .panic w

theorem jh_update_datalen (M : Mach) (p : Profile) (h : Hasher) (data : List (BitVec 8))
    (hfit : h.datalen + data.length < 2 ^ 64) :
    ∃ h', h.update M p data = .ok h' ∧ h'.datalen = h.datalen + data.length ∧ h'.n = h.n := by
  have hne : ¬ (p = .debug ∧ h.datalen + data.length ≥ 2 ^ 64) := by intro hh; omega
  simp only [Hasher.update, if_neg hne]
  exact ⟨_, rfl, Nat.mod_eq_of_lt hfit, rfl⟩

theorem jhUpdates_datalen (M : Mach) (p : Profile) (pieces : List (List (BitVec 8))) (h : Hasher)
    (hfit : h.datalen + pieces.flatten.length < 2 ^ 64) :
    ∃ h', jhUpdates M p h pieces = .ok h' ∧ h'.datalen = h.datalen + pieces.flatten.length ∧ h'.n = h.n := by
  induction pieces generalizing h with
  | nil => exact ⟨h, rfl, by simp, rfl⟩
  | cons d ds ih =>
    simp only [List.flatten_cons, List.length_append] at hfit
    obtain ⟨h1, e1, e2, e3⟩ := jh_update_datalen M p h d (by omega)
    obtain ⟨h2, f1, f2, f3⟩ := ih h1 (by rw [e2]; omega)
    refine ⟨h2, ?_, ?_, by rw [f3, e3]⟩
    · simp only [jhUpdates, e1, f1]
    · rw [f2, e2]; simp only [List.flatten_cons, List.length_append]; omega

/-- the release build never panics in finalisation (the product `datalen * 8` wraps silently
    from 2^61 bytes on) as long as the buffer invariant `pos < 64` holds -/
theorem jh_finalize_release_ok (M : Mach) (h : Hasher) (hwf : h.buffer.pos < 64) :
    (h.finalizeDirty M .release).isOk = true := by
  have hne : ¬ (Profile.release = .debug ∧ h.datalen * 8 ≥ 2 ^ 64) := by intro hh; cases hh.1
  have hpos : ¬ (h.buffer.pos ≥ 64) := by omega
  simp only [Hasher.finalizeDirty, if_neg hne, CC.Buffer.padWithIso7816, if_neg hpos]
  split <;> rfl

end JH

/-! ## Skein: the byte position `t.0` as a streaming invariant -/
section Skein
open CC.Skein CC.Skein.Model

/-- the counter statement of `process_block` from ANY state: below 2^64 it does not panic in
    either profile and adds `byte_count_add` exactly -/
theorem processBlock_t0 (prof : Profile) (P : Params) (st : State) (block : List (BitVec 8)) (add : Nat)
    (h : st.t0.toNat + add < 2 ^ 64) :
    ∃ st', processBlock prof P st block add = .ok st' ∧ st'.t0.toNat = st.t0.toNat + add := by
  have hadd : (BitVec.ofNat 64 add).toNat = add := by
    rw [BitVec.toNat_ofNat]; exact Nat.mod_eq_of_lt (by omega)
  have hno : ¬ (prof = .debug ∧ st.t0.toNat + (BitVec.ofNat 64 add).toNat ≥ 2 ^ 64) := by
    rw [hadd]; intro hh; omega
  refine ⟨_, by rw [processBlock, if_neg hno], ?_⟩
  simp only [processCore, BitVec.toNat_add, hadd]
  exact Nat.mod_eq_of_lt h

/-- at or above 2^64 the debug build panics at `state.t.0 += byte_count_add as u64` -/
theorem processBlock_debug_panic (P : Params) (st : State) (block : List (BitVec 8)) (add : Nat)
    (hadd : add < 2 ^ 64) (h : st.t0.toNat + add ≥ 2 ^ 64) :
    (processBlock .debug P st block add).isPanic = true := by
  have e : (BitVec.ofNat 64 add).toNat = add := by
    rw [BitVec.toNat_ofNat]; exact Nat.mod_eq_of_lt hadd
  rw [processBlock, if_pos ⟨rfl, by rw [e]; exact h⟩]; rfl

/-- the release build wraps -/
theorem processBlock_release_ok (P : Params) (st : State) (block : List (BitVec 8)) (add : Nat) :
    (processBlock .release P st block add).isOk = true := by
  have hno : ¬ (Profile.release = .debug ∧ st.t0.toNat + (BitVec.ofNat 64 add).toNat ≥ 2 ^ 64) := by
    intro hh; cases hh.1
  rw [processBlock, if_neg hno]; rfl

theorem foldl_updF_t0 (prof : Profile) (P : Params) (blocks : List (List (BitVec 8))) (st : State)
    (h : st.t0.toNat + P.nb * blocks.length < 2 ^ 64) :
    ∃ st', blocks.foldl (updF prof P) (.ok st) = .ok st' ∧
      st'.t0.toNat = st.t0.toNat + P.nb * blocks.length := by
  induction blocks generalizing st with
  | nil => exact ⟨st, rfl, by simp⟩
  | cons b bs ih =>
    simp only [List.length_cons, Nat.mul_succ] at h
    obtain ⟨st1, e1, e2⟩ := processBlock_t0 prof P st b P.nb (by omega)
    obtain ⟨st2, f1, f2⟩ := ih st1 (by rw [e2]; omega)
    refine ⟨st2, ?_, ?_⟩
    · simp only [List.foldl_cons]
      have : updF prof P (.ok st) b = .ok st1 := by simp only [updF, Out.bind_ok, e1]
      rw [this, f1]
    · rw [f2, e2]; simp only [List.length_cons, Nat.mul_succ]; omega

/-- `SkeinPos P h m`: the hasher `h` has absorbed the byte string `m` as far as the position
    bookkeeping goes — `t.0` is the number of bytes already processed, `P.nb · ⌊(|m| − 1)/P.nb⌋`
    (`input_lazy` keeps the last 1..nb bytes back), and the buffer holds the rest. -/
structure SkeinPos (P : Params) (h : Hasher) (m : List (BitVec 8)) : Prop where
  wf : WFL P.nb h.buffer
  live : live h.buffer = lazyRest P.nb m
  t0 : h.state.t0.toNat = P.nb * ((m.length - 1) / P.nb)

theorem skeinPos_total {P : Params} {h : Hasher} {m : List (BitVec 8)} (I : SkeinPos P h m) :
    h.state.t0.toNat + h.buffer.pos = m.length := by
  have hl := length_live I.wf
  rw [I.live, length_lazyRest] at hl
  rw [I.t0, ← hl]
  have := Nat.div_mul_le_self (m.length - 1) P.nb
  rw [Nat.mul_comm] at this
  omega

theorem skeinPos_init (P : Params) (st : State) (h0 : st.t0 = 0) :
    SkeinPos P { state := st, buffer := BB.init P.nb } [] := by
  refine ⟨WFL_init _, ?_, ?_⟩
  · simp [live, BB.init, lazyRest_nil]
  · simp [h0]

theorem skeinPos_update (prof : Profile) (P : Params) (hnb : 0 < P.nb) (h : Hasher) (m data : List (BitVec 8))
    (I : SkeinPos P h m) (hlen : (m ++ data).length < 2 ^ 64) :
    ∃ h', update prof P h data = .ok h' ∧ SkeinPos P h' (m ++ data) := by
  obtain ⟨hwf, hlive, ht0⟩ := I
  obtain ⟨e1, e2, _, e4⟩ := inputLazy_spec hnb hwf data (updF prof P) (.ok h.state)
  have hcnt : (m.length - 1) / P.nb + (lazyBlocks P.nb (live h.buffer ++ data)).length =
      ((m ++ data).length - 1) / P.nb := by
    have := congrArg List.length (lazyBlocks_append hnb m data)
    rw [List.length_append, length_lazyBlocks P.nb (m ++ data), length_lazyBlocks P.nb m] at this
    rw [hlive]; omega
  have hbound : P.nb * (((m ++ data).length - 1) / P.nb) ≤ (m ++ data).length := by
    have := Nat.div_mul_le_self ((m ++ data).length - 1) P.nb
    rw [Nat.mul_comm] at this; omega
  obtain ⟨st', f1, f2⟩ := foldl_updF_t0 prof P (lazyBlocks P.nb (live h.buffer ++ data)) h.state
    (by rw [ht0, ← Nat.mul_add, hcnt]; omega)
  rw [f1] at e1
  have hupd : update prof P h data =
      .ok { state := st', buffer := (inputLazy P.nb h.buffer data (updF prof P) (.ok h.state)).1 } := by
    have : inputLazy P.nb h.buffer data
        (fun (acc : Out State) block => acc >>= fun st => processBlock prof P st block P.nb) (.ok h.state) =
        inputLazy P.nb h.buffer data (updF prof P) (.ok h.state) := rfl
    simp only [update, this]
    generalize inputLazy P.nb h.buffer data (updF prof P) (.ok h.state) = r at e1
    obtain ⟨bb, acc⟩ := r
    simp only at e1
    subst e1
    rfl
  refine ⟨_, hupd, e4, ?_, ?_⟩
  · show live (inputLazy P.nb h.buffer data (updF prof P) (.ok h.state)).1 = _
    rw [e2, hlive, ← lazyRest_append hnb]
  · show st'.t0.toNat = _
    rw [f2, ht0, ← Nat.mul_add, hcnt]

/-- finalisation from a position-exact state below 2^64 bytes: `pad_with::<ZeroPadding>().unwrap()`
    succeeds, `t.0 += position` does not overflow, and the final block is processed with
    `t.0 = |m|`, the total number of bytes absorbed. -/
theorem skeinPos_finalize (prof : Profile) {P : Params} (hP : P ∈ [skein256, skein512, skein1024]) (n : Nat)
    (h : Hasher) (m : List (BitVec 8)) (I : SkeinPos P h m) (hlen : m.length < 2 ^ 64) :
    ∃ h' out, finalizeIntoDirty prof P n h = .ok (h', out) ∧ h'.state.t0.toNat = m.length := by
  have htot := skeinPos_total I
  obtain ⟨hpad, _⟩ := padWithZero_spec I.wf
  obtain ⟨st1, e1, e2⟩ := processBlock_t0 prof P { h.state with t1 := h.state.t1 ||| T1_FLAG_FINAL }
    (live h.buffer ++ List.replicate (P.nb - h.buffer.pos) 0#8) h.buffer.pos (by simp only; omega)
  refine ⟨{ state := st1, buffer := { buf := live h.buffer ++ List.replicate (P.nb - h.buffer.pos) 0#8, pos := 0 } },
    Spec.output P.nb st1.x n, ?_, ?_⟩
  · simp only [finalizeIntoDirty, hpad, e1, outputLoop_eq prof hP, Out.pure_eq,
      bind, Out.bind]
  · show st1.t0.toNat = m.length
    rw [e2]; simp only; omega

end Skein

end CC.Lemmas.C17
