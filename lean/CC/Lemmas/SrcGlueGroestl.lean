/-
  CC.Lemmas.SrcGlueGroestl — generic lemmas for the phase-3 obligations of Grøstl (lean/CC/Groestl/Src.lean):
  relational parametricity of `CC.Buffer.foldChunks` / `CC.Buffer.inputBlock` in the per-block closure and its
  accumulator (the resulting buffer does not depend on either).
-/
import CC.Buffer.BlockBuffer
namespace CC.Src
open CC CC.Buffer

/-- two runs of `foldChunks` over the same input with related step functions: related accumulators, same remainder -/
theorem groestl_foldChunks_rel {σ τ : Type} (R : σ → τ → Prop) (b : Nat)
    (f : σ → List (BitVec 8) → σ) (g : τ → List (BitVec 8) → τ)
    (hstep : ∀ a c x, R a c → R (f a x) (g c x)) :
    ∀ (fuel : Nat) (a : σ) (c : τ) (input : List (BitVec 8)), R a c →
      R (foldChunks b f fuel a input).1 (foldChunks b g fuel c input).1 ∧
      (foldChunks b f fuel a input).2 = (foldChunks b g fuel c input).2 := by
  intro fuel
  induction fuel with
  | zero => intro a c input h; exact ⟨h, rfl⟩
  | succ n ih =>
    intro a c input h
    unfold foldChunks
    by_cases hc : b ≤ input.length ∧ 0 < b
    · rw [if_pos hc, if_pos hc]
      exact ih _ _ _ (hstep a c _ h)
    · rw [if_neg hc, if_neg hc]
      exact ⟨h, rfl⟩

/-- two runs of `inputBlock` on the same buffer and input with related closures: related accumulators, and the
    SAME resulting buffer (it depends on neither the closure nor the accumulator) -/
theorem groestl_inputBlock_rel {σ τ : Type} (R : σ → τ → Prop) (b : Nat) (s : BB) (input : List (BitVec 8))
    (f : σ → List (BitVec 8) → σ) (g : τ → List (BitVec 8) → τ)
    (hstep : ∀ a c x, R a c → R (f a x) (g c x)) (a : σ) (c : τ) (h : R a c) :
    R (inputBlock b s input f a).2 (inputBlock b s input g c).2 ∧
    (inputBlock b s input f a).1 = (inputBlock b s input g c).1 := by
  unfold inputBlock
  by_cases hlt : input.length < b - s.pos
  · rw [if_pos hlt, if_pos hlt]
    exact ⟨h, rfl⟩
  · rw [if_neg hlt, if_neg hlt]
    by_cases hp : (s.pos != 0) = true
    · rw [if_pos hp, if_pos hp]
      obtain ⟨h1, h2⟩ := groestl_foldChunks_rel R b f g hstep ((input.drop (b - s.pos)).length / b + 1) _ _
        (input.drop (b - s.pos)) (hstep a c (splice s.buf s.pos (input.take (b - s.pos))) h)
      exact ⟨h1, by dsimp only; rw [h2]⟩
    · rw [if_neg hp, if_neg hp]
      obtain ⟨h1, h2⟩ := groestl_foldChunks_rel R b f g hstep (input.length / b + 1) _ _ input h
      exact ⟨h1, by dsimp only; rw [h2]⟩

end CC.Src
