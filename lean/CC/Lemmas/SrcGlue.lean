/-
  CC.Lemmas.SrcGlue — helpers shared by the phase-3 obligations of the source tie (lean/CC/<Family>/Src.lean):
  comparison of outcomes up to the panic message, `outOk` / `outGet` of the generated file, `i8` as `BitVec 8`.
-/
import Std.Tactic.BVDecide
import CC.Gen.Kernels
namespace CC.Src
open CC

theorem bind_panic {α β : Type} (w : String) (f : α → Out β) : (Out.panic w >>= f) = Out.panic w := rfl
theorem bind_err {α β : Type} (f : α → Out β) : (Out.err >>= f) = Out.err := rfl

/-- panic messages are not part of the tie (the generated text carries rustc's wording) -/
def noMsg {α : Type} : Out α → Out α
  | .panic _ => .panic ""
  | x => x

open Gen.Kernels in
theorem outOk_noMsg {α : Type} (x : Out α) : outOk (noMsg x) = outOk x := by cases x <;> rfl
open Gen.Kernels in
theorem outGet_noMsg {α : Type} [Inhabited α] (x : Out α) : outGet (noMsg x) = outGet x := by cases x <;> rfl

open Gen.Kernels in
theorem xorInto_eq_xorBytes (a b : List (BitVec 8)) (h : a.length ≤ b.length) : xorInto a b = xorBytes a b := by
  unfold xorInto xorBytes
  rw [List.drop_eq_nil_of_le h, List.append_nil]

theorem toInt_ofInt8 (i : Int) (h1 : -128 ≤ i) (h2 : i < 128) : (BitVec.ofInt 8 i).toInt = i := by
  rw [BitVec.toInt_ofInt]
  simp [Int.bmod]
  omega

theorem toNat_ofInt8_nonneg (i : Int) (h1 : 0 ≤ i) (h2 : i < 128) : (BitVec.ofInt 8 i).toNat = i.toNat := by
  have h := toInt_ofInt8 i (by omega) h2
  rw [BitVec.toInt_eq_toNat_cond] at h
  split at h <;> omega

theorem slt_zero_ofInt8 (i : Int) (h1 : -128 ≤ i) (h2 : i < 128) : BitVec.slt 0#8 (BitVec.ofInt 8 i) = decide (0 < i) := by
  rw [BitVec.slt, toInt_ofInt8 i h1 h2]; rfl

theorem ofInt8_slt_zero (i : Int) (h1 : -128 ≤ i) (h2 : i < 128) : BitVec.slt (BitVec.ofInt 8 i) 0#8 = decide (i < 0) := by
  rw [BitVec.slt, toInt_ofInt8 i h1 h2]; rfl

theorem toNat_neg_ofInt8 (i : Int) (h1 : -128 < i) (h2 : i ≤ 0) : (-(BitVec.ofInt 8 i)).toNat = (-i).toNat := by
  rw [← BitVec.ofInt_neg]
  exact toNat_ofInt8_nonneg (-i) (by omega) (by omega)

theorem toNat_64_sub_ofInt8 (i : Int) (h1 : 0 < i) (h2 : i ≤ 64) : (64#8 - BitVec.ofInt 8 i).toNat = 64 - i.toNat := by
  rw [BitVec.toNat_sub, toNat_ofInt8_nonneg i (by omega) (by omega)]
  simp
  omega

end CC.Src
