/-
  CC.Lemmas.SrcGlueBlake — generic lemmas for the phase-3 obligations of BLAKE (lean/CC/Blake/Src.lean):
  facts on `CC.Buffer.inputBlock` with closures that thread an `Out` accumulator (strictness, the position bound),
  the generated shape of `update` / `finalize_into_dirty` of `define_hasher!` as ONE definition over the macro
  arguments (`updGen`, `finGen`, `finGenTail`) and its equality with the model (`CC.Blake.update`,
  `CC.Blake.finalizeIntoDirty`) for every kit.
-/
import CC.Lemmas.SrcGlue
import CC.Buffer.Lemmas
import CC.Blake.Model
namespace CC.Src
open CC CC.Buffer CC.Blake CC.Gen.Kernels

/-! ## `inputBlock` -/

/-- the position after `input_block` is at most the old position plus the input length (no invariant needed) -/
theorem inputBlock_pos_le {σ : Type} {b : Nat} (hb : 0 < b) (s : BB) (xs : List (BitVec 8))
    (f : σ → List (BitVec 8) → σ) (acc : σ) : (inputBlock b s xs f acc).1.pos ≤ s.pos + xs.length := by
  by_cases hsmall : xs.length < b - s.pos
  · rw [inputBlock_small f acc hsmall]; exact Nat.le_refl _
  · have hge : b - s.pos ≤ xs.length := Nat.le_of_not_lt hsmall
    by_cases hp : s.pos = 0
    · rw [inputBlock_direct hb f acc hge hp]
      simp only [length_rest]
      exact Nat.le_trans (Nat.mod_le _ _) (Nat.le_add_left _ _)
    · rw [inputBlock_flush hb f acc hge hp]
      simp only [length_rest, List.length_drop]
      exact Nat.le_trans (Nat.mod_le _ _) (by omega)

/-- a step function that keeps a panic: the accumulator stays that panic -/
theorem inputBlock_panic {α : Type} {b : Nat} (f : Out α → List (BitVec 8) → Out α)
    (hf : ∀ m blk, f (.panic m) blk = .panic m) (s : BB) (xs : List (BitVec 8)) (m : String) :
    (inputBlock b s xs f (.panic m)).2 = .panic m :=
  (inputBlock_sim (b := b) (fun (a : Out α) (_ : Unit) => a = .panic m) f (fun u _ => u)
    (by intro a a' blk h; subst h; exact hf m blk) s xs (.panic m) () rfl).2

/-- the buffer does not depend on the closure or the accumulator -/
theorem inputBlock_buf_irrel {σ τ : Type} {b : Nat} (f : σ → List (BitVec 8) → σ) (g : τ → List (BitVec 8) → τ)
    (s : BB) (xs : List (BitVec 8)) (acc : σ) (acc' : τ) :
    (inputBlock b s xs f acc).1 = (inputBlock b s xs g acc').1 :=
  (inputBlock_sim (b := b) (fun _ _ => True) f g (fun _ _ _ _ => trivial) s xs acc acc' trivial).1

/-! ## encodings -/

/-- the fields of the Rust `Blake*` struct, flat: `compressor.h[0]`, `compressor.h[1]`, `buffer`, `t.0`, `t.1` -/
def blakeEnc {w : Nat} {V : Type} (h : Hasher w V) : V × V × BB × BitVec w × BitVec w :=
  (h.compressor.h0, h.compressor.h1, h.buffer, h.t.1, h.t.2)

/-- result of `finalize_into_dirty`: the fields of `self`, then `out` -/
def blakeEncOut {w : Nat} {V : Type} (r : Hasher w V × List (BitVec 8)) :
    V × V × BB × BitVec w × BitVec w × List (BitVec 8) :=
  (r.1.compressor.h0, r.1.compressor.h1, r.1.buffer, r.1.t.1, r.1.t.2, r.2)

theorem noMsg_panic {α : Type} (m : String) : noMsg (Out.panic m : Out α) = .panic "" := rfl
theorem noMsg_ok {α : Type} (a : α) : noMsg (Out.ok a) = .ok a := rfl
theorem noMsg_err {α : Type} : noMsg (Out.err : Out α) = .err := rfl

/-! ## `Update::update`, generated shape -/

/-- the generated text of `update` over the block size and the closure -/
def updGen {w : Nat} {V : Type} [Inhabited V] (B : Nat)
    (cl : V × V × BitVec w × BitVec w → List (BitVec 8) → Out (V × V × BitVec w × BitVec w))
    (h0 h1 : V) (buffer : BB) (t0 t1 : BitVec w) (data : List (BitVec 8)) :
    Out (V × V × BB × BitVec w × BitVec w) :=
  let t1 := inputBlock B buffer data (fun a blk => a >>= fun s => cl s blk) (Out.ok (h0, h1, t0, t1))
  let t2 := t1.2
  let t3 := outGet t2
  let t4 := t3.1
  let t5 := t3.2.1
  let t6 := t1.1
  let t7 := t3.2.2.1
  let t8 := t3.2.2.2
  let t9 := outOk t2
  if t9 = false then .panic "the closure panicked" else
  .ok (t4, t5, t6, t7, t8)

/-- the generated text of the closure of `update` over `increase_count`, `put_block` and the count -/
def updClosureGen {w : Nat} {V : Type}
    (inc : BitVec w → BitVec w → BitVec w → Out (BitVec w × BitVec w))
    (put : V → V → List (BitVec 8) → BitVec w → BitVec w → V × V) (cnt : BitVec w)
    (s : V × V × BitVec w × BitVec w) (block : List (BitVec 8)) : Out (V × V × BitVec w × BitVec w) :=
  let t2 := inc s.2.2.1 s.2.2.2 cnt
  let t3 := outGet t2
  let t4 := t3.1
  let t5 := t3.2
  let t6 := put s.1 s.2.1 block t4 t5
  let t7 := t6.1
  let t8 := t6.2
  let t9 := outOk t2
  if t9 = false then .panic "the callee panicked" else
  .ok (t7, t8, t4, t5)

/-- relation between a model accumulator and a generated one: both `ok` (encoded), or both a panic -/
def okOrPanic {α β : Type} (enc : α → β) (a : Out α) (b : Out β) : Prop :=
  (∃ x, a = .ok x ∧ b = .ok (enc x)) ∨ (∃ m m', a = .panic m ∧ b = .panic m')

theorem okOrPanic_ok {α β : Type} (enc : α → β) (x : α) : okOrPanic enc (.ok x) (.ok (enc x)) :=
  Or.inl ⟨x, rfl, rfl⟩

theorem increaseCount_ne_err {w : Nat} (p : Profile) (t : BitVec w × BitVec w) (c : BitVec w) :
    increaseCount p t c ≠ .err := by
  unfold increaseCount
  simp only []
  repeat' split
  all_goals simp

/-- **`update`, all kits**: the generated shape at the kit's macro arguments equals the model, for every state and input -/
theorem update_glue {w : Nat} {V : Type} [Inhabited V] (K : Kit w V) (p : Profile)
    (inc : BitVec w → BitVec w → BitVec w → Out (BitVec w × BitVec w))
    (put : V → V → List (BitVec 8) → BitVec w → BitVec w → V × V)
    (hinc : ∀ (t : BitVec w × BitVec w) c, increaseCount p t c = inc t.1 t.2 c)
    (hput : ∀ (c : Compressor V) blk (t : BitVec w × BitVec w),
      K.putBlock c blk t = ⟨(put c.h0 c.h1 blk t.1 t.2).1, (put c.h0 c.h1 blk t.1 t.2).2⟩)
    (h : Hasher w V) (data : List (BitVec 8)) :
    noMsg (updGen K.buf (updClosureGen inc put (BitVec.ofNat w (K.wbytes * 16)))
        h.compressor.h0 h.compressor.h1 h.buffer h.t.1 h.t.2 data)
      = noMsg (update K p h data >>= fun h' => .ok (blakeEnc h')) := by
  let enc : Compressor V × (BitVec w × BitVec w) → V × V × BitVec w × BitVec w :=
    fun ct => (ct.1.h0, ct.1.h1, ct.2.1, ct.2.2)
  have hstep : ∀ (a : Out (Compressor V × (BitVec w × BitVec w))) (b : Out (V × V × BitVec w × BitVec w)) blk,
      okOrPanic enc a b → okOrPanic enc (updateStep K p a blk)
        (b >>= fun s => updClosureGen inc put (BitVec.ofNat w (K.wbytes * 16)) s blk) := by
    intro a b blk hab
    rcases hab with ⟨ct, rfl, rfl⟩ | ⟨m, m', rfl, rfl⟩
    · simp only [updateStep, Out.bind_ok, updClosureGen, enc]
      rw [← hinc (ct.2.1, ct.2.2)]
      cases hic : increaseCount p (ct.2.1, ct.2.2) (BitVec.ofNat w (K.wbytes * 16)) with
      | panic m => exact Or.inr ⟨m, _, rfl, rfl⟩
      | err => exact absurd hic (increaseCount_ne_err _ _ _)
      | ok t =>
        refine Or.inl ⟨(K.putBlock ct.1 blk t, t), rfl, ?_⟩
        simp [outOk, outGet, hput]
    · exact Or.inr ⟨m, m', rfl, rfl⟩
  obtain ⟨e, r⟩ := inputBlock_sim (b := K.buf) (okOrPanic enc) (updateStep K p)
    (fun b blk => b >>= fun s => updClosureGen inc put (BitVec.ofNat w (K.wbytes * 16)) s blk) hstep
    h.buffer data (.ok (h.compressor, h.t)) (.ok (h.compressor.h0, h.compressor.h1, h.t.1, h.t.2))
    (okOrPanic_ok enc (h.compressor, h.t))
  unfold updGen update
  simp only []
  rw [← e]
  rcases r with ⟨ct, ha, hb⟩ | ⟨m, m', ha, hb⟩
  · rw [ha, hb]; simp [outOk, outGet, noMsg, blakeEnc, enc]
  · rw [ha, hb]; simp [outOk, noMsg, bind_panic]

/-! ## `FixedOutputDirty::finalize_into_dirty`, generated shape -/

/-- the generated text of the closures `|_| unreachable!()` -/
def unreachableGen (_s : Unit) (_block : List (BitVec 8)) : Out Unit :=
  let t1 := false
  if t1 = false then .panic "internal error: entered unreachable code" else
  .ok ()

/-- the generated text of `finalize_into_dirty` from `if buffer.position() == 0 { t = (0, 0) }` on, over the macro
    arguments: `B` = `$buf`, `room` = `$buf - footerlen`, `outBytes` = `$Bytes`; `t3` = `extra_block`, `t14` = the buffer
    and `(t40, t42)` the compressor after the optional extra block, `(t7, t8)` = `t`, `t22` = `msglen`, `t28` = `[magic]` -/
def finGenTail {w : Nat} {V : Type} (B room outBytes : Nat)
    (put : V → V → List (BitVec 8) → BitVec w → BitVec w → V × V) (fin : V → V → List (BitVec 8)) (p : Profile)
    (h0 h1 : V) (t0 t1 : BitVec w) (t3 : Bool) (t14 : BB) (t40 t42 : V) (t7 t8 : BitVec w)
    (t22 t28 : List (BitVec 8)) : Out (V × V × BB × BitVec w × BitVec w × List (BitVec 8)) :=
  let t9 := blake_PADDING
  let t15 := t14.pos
  let t16 := (t15 == 0)
  let t17 := 0#w
  let t18 := (if t16 then t17 else t7)
  let t19 := (if t16 then t17 else t8)
  let t29 := (if t3 then 1 else 0)
  let t30 := usizeSub room t15
  let t31 := usizeAdd t29 t30
  let t32 := List.take t31 t9
  let t33 := List.drop t29 t32
  let t34 := inputBlock B t14 t33 (fun a blk => a >>= fun s => unreachableGen s blk) (Out.ok ())
  let t35 := t34.1
  let t36 := inputBlock B t35 t28 (fun a blk => a >>= fun s => unreachableGen s blk) (Out.ok ())
  let t37 := t36.1
  let t43 := inputBlock B t37 t22
    (fun (s : V × V) blk => ((put s.1 s.2 blk t18 t19).1, (put s.1 s.2 blk t18 t19).2)) (t40, t42)
  let t44 := t43.1
  let t45 := t43.2
  let t46 := t45.1
  let t47 := t45.2
  let t48 := fin t46 t47
  let t49 := List.take outBytes t48
  let t53 := decide (t15 ≤ room)
  let t54 := decide (t29 + t30 < 18446744073709551616)
  let t55 := decide (t31 ≤ 129)
  let t56 := decide (t29 ≤ t31)
  let t57 := t34.2
  let t58 := outOk t57
  let t59 := t36.2
  let t60 := outOk t59
  let t61 := t44.pos
  let t62 := (t61 == 0)
  if p = .debug ∧ t53 = false then .panic "attempt to subtract with overflow" else
  if p = .debug ∧ t54 = false then .panic "attempt to add with overflow" else
  if t55 = false then .panic "range end index out of range for slice" else
  if t56 = false then .panic "slice index starts past its end" else
  if t58 = false then .panic "the closure panicked" else
  if t60 = false then .panic "the closure panicked" else
  if p = .debug ∧ t62 = false then .panic "assertion failed" else
  .ok (h0, h1, t44, t0, t1, t49)

/-- the generated text of `finalize_into_dirty` over the macro arguments (`footer` = `footerlen`, `wbytes` =
    `size_of::<$word>()`, `isfull` = `($bits == 8 * size_of::<[$word; 8]>()) as u8`) -/
def finGen {w : Nat} {V : Type} (B footer room wbytes outBytes : Nat) (isfull : BitVec 8)
    (inc : BitVec w → BitVec w → BitVec w → Out (BitVec w × BitVec w))
    (put : V → V → List (BitVec 8) → BitVec w → BitVec w → V × V) (fin : V → V → List (BitVec 8)) (p : Profile)
    (h0 h1 : V) (buffer : BB) (t0 t1 : BitVec w) : Out (V × V × BB × BitVec w × BitVec w × List (BitVec 8)) :=
  let u1 := buffer.pos
  let t2 := u1 + footer
  let t3 := decide (t2 > B)
  let t4 := BitVec.ofNat w u1
  let t5 := inc t0 t1 t4
  let t6 := outGet t5
  let t7 := t6.1
  let t8 := t6.2
  let t9 := blake_PADDING
  let t10 := B - u1
  let t11 := List.take t10 t9
  let t12 := inputBlock B buffer t11
    (fun (s : V × V) blk => ((put s.1 s.2 blk t7 t8).1, (put s.1 s.2 blk t7 t8).2)) (h0, h1)
  let t13 := t12.1
  let t14 := (if t3 then t13 else buffer)
  let t20 := CC.toBeBytes t8 wbytes
  let t21 := CC.toBeBytes t7 wbytes
  let t22 := t20 ++ t21
  let t24 := (t2 != B)
  let t26 := (if t24 then 0#8 else 128#8)
  let t27 := isfull ||| t26
  let t28 := [t27]
  let t38 := t12.2
  let t39 := t38.1
  let t40 := (if t3 then t39 else h0)
  let t41 := t38.2
  let t42 := (if t3 then t41 else h1)
  let t50 := outOk t5
  let t51 := t13.pos
  let t52 := (t51 == 0)
  if t50 = false then .panic "the callee panicked" else
  if p = .debug ∧ t3 = true ∧ t52 = false then .panic "assertion failed" else
  finGenTail B room outBytes put fin p h0 h1 t0 t1 t3 t14 t40 t42 t7 t8 t22 t28

/-! ## `finalize_into_dirty`: the model against the generated shape -/

theorem unreachableStep_panic {V : Type} (m : String) (blk : List (BitVec 8)) :
    unreachableStep (V := V) (.panic m) blk = .panic m := rfl
theorem putStep_panic {w : Nat} {V : Type} (K : Kit w V) (t : BitVec w × BitVec w) (m : String) (blk : List (BitVec 8)) :
    putStep K t (.panic m) blk = .panic m := rfl

theorem debugAssertPos0_panic {α : Type} (p : Profile) (b : BB) (m : String) :
    debugAssertPos0 p b (.panic m : Out α) = .panic m := by
  unfold debugAssertPos0; split <;> rfl

/-- once the accumulator is a panic (the `debug_assert_eq!` after the extra block failed), `finTail` returns it -/
theorem finTail_panic {w : Nat} {V : Type} (K : Kit w V) (p : Profile) (s : Hasher w V) (bb : BB) (m : String)
    (x : Bool) (t : BitVec w × BitVec w) (msglen : List (BitVec 8)) (magic : BitVec 8) :
    finTail K p s (bb, .panic m) x t msglen magic = .panic m := by
  unfold finTail
  simp only []
  generalize (if x = true then 1 else 0 : Nat) = xn
  split
  · rfl
  · rw [inputBlock_panic _ unreachableStep_panic, inputBlock_panic _ unreachableStep_panic,
      inputBlock_panic _ (putStep_panic K _)]
    rw [debugAssertPos0_panic]
    rfl

theorem padding_eq : PADDING = blake_PADDING := by decide +kernel

theorem PADDING_length : PADDING.length = 129 := by simp [PADDING]

/-- `$buf - footerlen - position` underflows (release: wraps): one of the two slice-bound guards fails -/
theorem usize_wrap (room pos xn : Nat) (h1 : room < pos) (h2 : pos ≤ 128) (hx : xn ≤ 1) :
    ¬ (usizeAdd xn (usizeSub room pos) ≤ 129 ∧ xn ≤ usizeAdd xn (usizeSub room pos)) := by
  unfold usizeAdd usizeSub
  split <;> omega

/-- no underflow: the wrapping `usize` operations are the exact ones -/
theorem usize_nowrap (room pos xn : Nat) (h1 : pos ≤ room) (h2 : room ≤ 128) (hx : xn ≤ 1) :
    usizeSub room pos = room - pos ∧ usizeAdd xn (room - pos) = xn + (room - pos) := by
  unfold usizeAdd usizeSub
  constructor
  · split <;> omega
  · omega

/-- `input_block(.., |_| unreachable!())`: same buffer; the model accumulator is untouched and the generated one `ok ()`,
    or both are a panic (the closure was called) -/
theorem unreach_sim {V : Type} (b : Nat) (bb : BB) (inp : List (BitVec 8)) (c : Compressor V) :
    (inputBlock b bb inp unreachableStep (.ok c)).1
        = (inputBlock b bb inp (fun a blk => a >>= fun s => unreachableGen s blk) (Out.ok ())).1 ∧
    (((inputBlock b bb inp unreachableStep (.ok c)).2 = .ok c ∧
      (inputBlock b bb inp (fun a blk => a >>= fun s => unreachableGen s blk) (Out.ok ())).2 = .ok ()) ∨
     (∃ m m', (inputBlock b bb inp unreachableStep (.ok c)).2 = .panic m ∧
      (inputBlock b bb inp (fun a blk => a >>= fun s => unreachableGen s blk) (Out.ok ())).2 = .panic m')) := by
  refine inputBlock_sim (b := b)
    (fun (a : Out (Compressor V)) (g : Out Unit) => (a = .ok c ∧ g = .ok ()) ∨ (∃ m m', a = .panic m ∧ g = .panic m'))
    unreachableStep (fun a blk => a >>= fun s => unreachableGen s blk) ?_ bb inp (.ok c) (.ok ()) (Or.inl ⟨rfl, rfl⟩)
  intro a g blk h
  rcases h with ⟨rfl, rfl⟩ | ⟨m, m', rfl, rfl⟩
  · exact Or.inr ⟨_, _, rfl, rfl⟩
  · exact Or.inr ⟨m, m', rfl, rfl⟩

/-- `input_block(.., |block| compressor.put_block(block, t))`: same buffer; the model accumulator is `ok` of the generated
    (pure) one -/
theorem put_sim {w : Nat} {V : Type} (K : Kit w V)
    (put : V → V → List (BitVec 8) → BitVec w → BitVec w → V × V)
    (hput : ∀ (c : Compressor V) blk (t : BitVec w × BitVec w),
      K.putBlock c blk t = ⟨(put c.h0 c.h1 blk t.1 t.2).1, (put c.h0 c.h1 blk t.1 t.2).2⟩)
    (b : Nat) (bb : BB) (inp : List (BitVec 8)) (c : Compressor V) (t : BitVec w × BitVec w) :
    (inputBlock b bb inp (putStep K t) (.ok c)).1
        = (inputBlock b bb inp (fun (s : V × V) blk => ((put s.1 s.2 blk t.1 t.2).1, (put s.1 s.2 blk t.1 t.2).2))
            (c.h0, c.h1)).1 ∧
    (inputBlock b bb inp (putStep K t) (.ok c)).2
        = .ok ⟨(inputBlock b bb inp (fun (s : V × V) blk => ((put s.1 s.2 blk t.1 t.2).1, (put s.1 s.2 blk t.1 t.2).2))
            (c.h0, c.h1)).2.1,
          (inputBlock b bb inp (fun (s : V × V) blk => ((put s.1 s.2 blk t.1 t.2).1, (put s.1 s.2 blk t.1 t.2).2))
            (c.h0, c.h1)).2.2⟩ := by
  refine inputBlock_sim (b := b) (fun (a : Out (Compressor V)) (g : V × V) => a = .ok ⟨g.1, g.2⟩)
    (putStep K t) (fun (s : V × V) blk => ((put s.1 s.2 blk t.1 t.2).1, (put s.1 s.2 blk t.1 t.2).2)) ?_
    bb inp (.ok c) (c.h0, c.h1) rfl
  intro a g blk h
  subst h
  simp only [putStep, Out.bind_ok, hput]

/-- the statements from `if buffer.position() == 0 { t = (0, 0) }` on, model (`finTail`) = generated (`finGenTail`) -/
theorem finTail_ok {w : Nat} {V : Type} (K : Kit w V) (p : Profile)
    (put : V → V → List (BitVec 8) → BitVec w → BitVec w → V × V)
    (hput : ∀ (c : Compressor V) blk (t : BitVec w × BitVec w),
      K.putBlock c blk t = ⟨(put c.h0 c.h1 blk t.1 t.2).1, (put c.h0 c.h1 blk t.1 t.2).2⟩)
    (s : Hasher w V) (bb : BB) (c : Compressor V) (x : Bool)
    (t : BitVec w × BitVec w) (msglen : List (BitVec 8)) (magic : BitVec 8)
    (hfoot : 1 + 2 * K.wbytes ≤ K.buf) (hB : K.buf ≤ 128) (hbb : bb.pos ≤ 128) :
    noMsg (finGenTail K.buf (K.buf - (1 + 2 * K.wbytes)) K.outBytes put (fun a b => K.finalize ⟨a, b⟩) p
        s.compressor.h0 s.compressor.h1 s.t.1 s.t.2 x bb c.h0 c.h1 t.1 t.2 msglen [magic])
      = noMsg (finTail K p s (bb, .ok c) x t msglen magic >>= fun r => .ok (blakeEncOut r)) := by
  unfold finTail finGenTail
  simp only []
  have hxn : (if x = true then 1 else 0 : Nat) ≤ 1 := by split <;> omega
  generalize (if x = true then 1 else 0 : Nat) = xn at hxn ⊢
  generalize hroom : K.buf - (1 + 2 * K.wbytes) = room
  by_cases hov : room < bb.pos
  · have h1 : K.buf < 1 + 2 * K.wbytes + bb.pos := by omega
    simp only [h1, true_or, if_true, Out.bind_ok, bind_panic, noMsg_panic]
    have hw := usize_wrap room bb.pos xn hov hbb hxn
    cases p
    · have : ¬ bb.pos ≤ room := by omega
      simp [this, noMsg]
    · simp only [reduceCtorEq, false_and, if_false]
      by_cases h55 : usizeAdd xn (usizeSub room bb.pos) ≤ 129
      · have h56 : ¬ xn ≤ usizeAdd xn (usizeSub room bb.pos) := fun h => hw ⟨h55, h⟩
        simp [h55, h56, noMsg]
      · simp [h55, noMsg]
  · have hle : bb.pos ≤ room := by omega
    have h1 : ¬ (K.buf < 1 + 2 * K.wbytes + bb.pos ∨ PADDING.length < xn + (room - bb.pos)) := by
      rw [PADDING_length]; omega
    obtain ⟨e1, e2⟩ := usize_nowrap room bb.pos xn hle (by omega) hxn
    simp only [h1, if_false, e1, e2, ← padding_eq]
    have g53 : decide (bb.pos ≤ room) = true := by simpa using hle
    have g54 : decide (xn + (room - bb.pos) < 18446744073709551616) = true := by simp; omega
    have g55 : decide (xn + (room - bb.pos) ≤ 129) = true := by simp; omega
    have g56 : decide (xn ≤ xn + (room - bb.pos)) = true := by simp
    simp only [g53, g54, g55, g56, Bool.true_eq_false, and_false, if_false]
    have et : (if (bb.pos == 0) = true then 0#w else t.1) = (if bb.pos = 0 then ((0 : BitVec w), (0 : BitVec w)) else t).1 ∧
        (if (bb.pos == 0) = true then 0#w else t.2) = (if bb.pos = 0 then ((0 : BitVec w), (0 : BitVec w)) else t).2 := by
      by_cases h0 : bb.pos = 0 <;> simp [h0]
    rw [et.1, et.2]
    generalize (if bb.pos = 0 then ((0 : BitVec w), (0 : BitVec w)) else t) = tt
    generalize List.drop xn (List.take (xn + (room - bb.pos)) PADDING) = inp
    obtain ⟨eb1, r1⟩ := unreach_sim K.buf bb inp c
    rcases r1 with ⟨ha1, hb1⟩ | ⟨m, m', ha1, hb1⟩
    · rw [ha1, hb1, eb1]
      generalize (inputBlock K.buf bb inp (fun a blk => a >>= fun s => unreachableGen s blk) (Out.ok ())).1 = G1
      obtain ⟨eb2, r2⟩ := unreach_sim K.buf G1 [magic] c
      rcases r2 with ⟨ha2, hb2⟩ | ⟨m, m', ha2, hb2⟩
      · rw [ha2, hb2, eb2]
        generalize (inputBlock K.buf G1 [magic] (fun a blk => a >>= fun s => unreachableGen s blk) (Out.ok ())).1 = G2
        obtain ⟨eb3, r3⟩ := put_sim K put hput K.buf G2 msglen c tt
        rw [r3, eb3]
        generalize (inputBlock K.buf G2 msglen (fun (s : V × V) blk => ((put s.1 s.2 blk tt.1 tt.2).1, (put s.1 s.2 blk tt.1 tt.2).2)) (c.h0, c.h1)) = G3
        unfold debugAssertPos0
        by_cases hd : p = .debug ∧ G3.1.pos ≠ 0
        · have hd' : p = .debug ∧ (G3.1.pos == 0) = false := by simpa using hd
          simp [hd, hd', outOk, noMsg, bind_panic]
        · have hd' : ¬ (p = .debug ∧ (G3.1.pos == 0) = false) := by simpa using hd
          simp [hd, outOk, noMsg, blakeEncOut]
      · rw [ha2, hb2, inputBlock_panic _ (putStep_panic K _), debugAssertPos0_panic]
        simp [outOk, noMsg, bind_panic]
    · rw [ha1, hb1, inputBlock_panic _ unreachableStep_panic, inputBlock_panic _ (putStep_panic K _),
        debugAssertPos0_panic]
      simp [outOk, noMsg, bind_panic]

/-- **`finalize_into_dirty`, all kits**: the generated shape at the kit's macro arguments equals the model, for every state
    with `buffer.pos ≤ $buf` (`increase_count` / `put_block` as tied in phase 2, `isfull` as the model computes it) -/
theorem finalize_glue {w : Nat} {V : Type} (K : Kit w V) (p : Profile) (isfull : BitVec 8)
    (inc : BitVec w → BitVec w → BitVec w → Out (BitVec w × BitVec w))
    (put : V → V → List (BitVec 8) → BitVec w → BitVec w → V × V)
    (hinc : ∀ (t : BitVec w × BitVec w) c, increaseCount p t c = inc t.1 t.2 c)
    (hput : ∀ (c : Compressor V) blk (t : BitVec w × BitVec w),
      K.putBlock c blk t = ⟨(put c.h0 c.h1 blk t.1 t.2).1, (put c.h0 c.h1 blk t.1 t.2).2⟩)
    (hfull : isfull = if K.bits = 8 * (8 * K.wbytes) then 1 else 0)
    (hfoot : 1 + 2 * K.wbytes ≤ K.buf) (hB : K.buf ≤ 128)
    (h : Hasher w V) (hpos : h.buffer.pos ≤ K.buf) :
    noMsg (finGen K.buf (1 + 2 * K.wbytes) (K.buf - (1 + 2 * K.wbytes)) K.wbytes K.outBytes isfull inc put
        (fun a b => K.finalize ⟨a, b⟩) p h.compressor.h0 h.compressor.h1 h.buffer h.t.1 h.t.2)
      = noMsg (finalizeIntoDirty K p h >>= fun r => .ok (blakeEncOut r)) := by
  unfold finGen finalizeIntoDirty
  simp only []
  rw [← hinc h.t]
  cases hic : increaseCount p h.t (BitVec.ofNat w h.buffer.pos) with
  | panic m => simp [outOk, noMsg, bind_panic]
  | err => exact absurd hic (increaseCount_ne_err _ _ _)
  | ok t =>
    have hm : (isfull ||| (if (h.buffer.pos + (1 + 2 * K.wbytes) != K.buf) = true then 0#8 else 128#8))
        = finMagic K h.buffer.pos := by
      unfold finMagic
      subst hfull
      by_cases hq : h.buffer.pos + (1 + 2 * K.wbytes) = K.buf <;> simp [hq]
    have hnb : ¬ K.buf < h.buffer.pos := by omega
    simp only [outOk, outGet, Out.bind_ok, hnb, if_false, Bool.true_eq_false, hm]
    unfold finExtra
    by_cases hex : h.buffer.pos + (1 + 2 * K.wbytes) > K.buf
    · simp only [hex, decide_true, if_true, true_and]
      obtain ⟨eb, r⟩ := put_sim K put hput K.buf h.buffer (PADDING.take (K.buf - h.buffer.pos)) h.compressor t
      rw [← padding_eq, r, eb]
      have hG := inputBlock_pos_le (b := K.buf) (by omega) h.buffer (PADDING.take (K.buf - h.buffer.pos))
        (fun (s : V × V) blk => ((put s.1 s.2 blk t.1 t.2).1, (put s.1 s.2 blk t.1 t.2).2))
        (h.compressor.h0, h.compressor.h1)
      generalize inputBlock K.buf h.buffer (PADDING.take (K.buf - h.buffer.pos))
        (fun (s : V × V) blk => ((put s.1 s.2 blk t.1 t.2).1, (put s.1 s.2 blk t.1 t.2).2))
        (h.compressor.h0, h.compressor.h1) = G at hG ⊢
      have hG' : G.1.pos ≤ 128 := by
        have : (List.take (K.buf - h.buffer.pos) PADDING).length ≤ K.buf - h.buffer.pos := List.length_take_le _ _
        omega
      unfold debugAssertPos0
      by_cases hd : p = .debug ∧ G.1.pos ≠ 0
      · have hd' : p = .debug ∧ (G.1.pos == 0) = false := by simpa using hd
        rw [if_pos hd, if_pos hd']
        simp only [Out.bind_ok, finTail_panic, bind_panic, noMsg_panic]
      · have hd' : ¬ (p = .debug ∧ (G.1.pos == 0) = false) := by simpa using hd
        rw [if_neg hd, if_neg hd']
        exact finTail_ok K p put hput h G.1 ⟨G.2.1, G.2.2⟩ true t _ _ hfoot hB hG'
    · simp only [hex, decide_false, if_false, Bool.false_eq_true, false_and, and_false]
      exact finTail_ok K p put hput h h.buffer h.compressor false t _ _ hfoot hB (by omega)

end CC.Src
