/-
  CC.Null.Meaning — what the ppv-null operations MEAN: plain scalar (wrapping) arithmetic applied lane by
  lane.  A vector is viewed as the list of its lanes (`lanes`, lane 0 = tuple field `.0` first) and every
  operation is given by a scalar function mapped / zipped over lane lists, by list indexing, or by a
  permutation of the list.  Nothing here mentions masks, shifts-or-shifts, `match` on the amount, profiles
  or panics: those belong to the model (CC.Null.Model) and the equality is proved in CC.Null.Lemmas.

  scalar meanings
  * add                       `a + b`            (BitVec addition = `wrapping_add`)
  * xor / and / or / not      `^^^ &&& ||| ~~~`
  * andnot                    `~~~a &&& b`
  * per-word rotate right     `x.rotateRight i`
  * word rotation             `List.rotateRight` of the lane list (`[a,b,c,d] ↦ [d,a,b,c]` for 1)
  * swap of adjacent g-bit groups (g = 1,2,4,…,64): bit `j` of the result is bit `j XOR g` of the operand
  * load / store / extract / replace / new / splat: list construction, `getD`, `set`, `replicate`
-/
import CC.Null.Model
namespace CC.Null
open CC

/-! ## lane views -/

def U128x1.lanes (v : U128x1) : List (BitVec 128) := [v.a]
def U128x1.ofLanes (l : List (BitVec 128)) : U128x1 := ⟨l.getD 0 0⟩
def U128x2.lanes (v : U128x2) : List (BitVec 128) := [v.a, v.b]
def U128x2.ofLanes (l : List (BitVec 128)) : U128x2 := ⟨l.getD 0 0, l.getD 1 0⟩
def U32x4.lanes (v : U32x4) : List (BitVec 32) := [v.a, v.b, v.c, v.d]
def U32x4.ofLanes (l : List (BitVec 32)) : U32x4 := ⟨l.getD 0 0, l.getD 1 0, l.getD 2 0, l.getD 3 0⟩
def U64x4.lanes (v : U64x4) : List (BitVec 64) := [v.a, v.b, v.c, v.d]
def U64x4.ofLanes (l : List (BitVec 64)) : U64x4 := ⟨l.getD 0 0, l.getD 1 0, l.getD 2 0, l.getD 3 0⟩
/-- the four `u32x4` parts, in order -/
def U32x4x4.parts (v : U32x4x4) : List U32x4 := [v.a, v.b, v.c, v.d]
def U32x4x4.ofParts (l : List U32x4) : U32x4x4 :=
  ⟨l.getD 0 (.ofLanes []), l.getD 1 (.ofLanes []), l.getD 2 (.ofLanes []), l.getD 3 (.ofLanes [])⟩
/-- the sixteen 32-bit lanes: part 0 lanes 0..3, part 1 lanes 0..3, … -/
def U32x4x4.lanes (v : U32x4x4) : List (BitVec 32) := v.a.lanes ++ v.b.lanes ++ v.c.lanes ++ v.d.lanes
def U32x4x4.ofLanes (l : List (BitVec 32)) : U32x4x4 :=
  ⟨.ofLanes (l.take 4), .ofLanes ((l.drop 4).take 4), .ofLanes ((l.drop 8).take 4), .ofLanes ((l.drop 12).take 4)⟩

namespace Meaning

/-! ## scalar building blocks -/

/-- `andnot` on one word: `!a & b`. -/
def andnotW {w} (a b : BitVec w) : BitVec w := ~~~ a &&& b

/-- Exchange of adjacent `g`-bit groups of a 128-bit word, for `g` a power of two below 128:
    result bit `j` is operand bit `j XOR g` (flipping bit `log2 g` of the position moves a bit to the same
    offset in the neighbouring group). -/
def swapGroups (g : Nat) (x : BitVec 128) : BitVec 128 :=
  (BitVec.ofBoolListLE ((List.range 128).map fun j => x.getLsbD (j ^^^ g))).setWidth 128

/-! ## u128x1 -/
namespace U128x1
def map1 (f : BitVec 128 → BitVec 128) (v : U128x1) : U128x1 := .ofLanes (v.lanes.map f)
def map2 (f : BitVec 128 → BitVec 128 → BitVec 128) (v r : U128x1) : U128x1 :=
  .ofLanes (List.zipWith f v.lanes r.lanes)
def new (a : BitVec 128) : U128x1 := .ofLanes [a]
def rotate_right (v : U128x1) (i : Nat) : U128x1 := map1 (·.rotateRight i) v
def load (xs : List (BitVec 128)) : U128x1 := .ofLanes xs
def xor_store (v : U128x1) (xs : List (BitVec 128)) : List (BitVec 128) := List.zipWith (· ^^^ ·) xs v.lanes
def into_inner (v : U128x1) : BitVec 128 := v.lanes.getD 0 0
def swap (g : Nat) (v : U128x1) : U128x1 := map1 (swapGroups g) v
def andnot (v r : U128x1) : U128x1 := map2 andnotW v r
def extract (v : U128x1) (i : Nat) : BitVec 128 := v.lanes.getD i 0
def add (v r : U128x1) : U128x1 := map2 (· + ·) v r
def xor (v r : U128x1) : U128x1 := map2 (· ^^^ ·) v r
def and (v r : U128x1) : U128x1 := map2 (· &&& ·) v r
def not (v : U128x1) : U128x1 := map1 (~~~ ·) v
end U128x1

/-! ## u128x2 -/
namespace U128x2
def map1 (f : BitVec 128 → BitVec 128) (v : U128x2) : U128x2 := .ofLanes (v.lanes.map f)
def map2 (f : BitVec 128 → BitVec 128 → BitVec 128) (v r : U128x2) : U128x2 :=
  .ofLanes (List.zipWith f v.lanes r.lanes)
def new (a b : BitVec 128) : U128x2 := .ofLanes [a, b]
def rotate_right (v : U128x2) (i : Nat) : U128x2 := map1 (·.rotateRight i) v
def load (xs : List (BitVec 128)) : U128x2 := .ofLanes xs
def xor_store (v : U128x2) (xs : List (BitVec 128)) : List (BitVec 128) := List.zipWith (· ^^^ ·) xs v.lanes
def extract (v : U128x2) (i : Nat) : BitVec 128 := v.lanes.getD i 0
def andnot (v r : U128x2) : U128x2 := map2 andnotW v r
def add (v r : U128x2) : U128x2 := map2 (· + ·) v r
def xor (v r : U128x2) : U128x2 := map2 (· ^^^ ·) v r
def and (v r : U128x2) : U128x2 := map2 (· &&& ·) v r
def or (v r : U128x2) : U128x2 := map2 (· ||| ·) v r
def not (v : U128x2) : U128x2 := map1 (~~~ ·) v
end U128x2

/-! ## u32x4 -/
namespace U32x4
def map1 (f : BitVec 32 → BitVec 32) (v : U32x4) : U32x4 := .ofLanes (v.lanes.map f)
def map2 (f : BitVec 32 → BitVec 32 → BitVec 32) (v r : U32x4) : U32x4 :=
  .ofLanes (List.zipWith f v.lanes r.lanes)
def new (a b c d : BitVec 32) : U32x4 := .ofLanes [a, b, c, d]
/-- each lane rotated right by the amount in the same lane of `ii` -/
def rotate_right (v ii : U32x4) : U32x4 := map2 (fun x n => x.rotateRight n.toNat) v ii
def from_slice_unaligned (xs : List (BitVec 32)) : U32x4 := .ofLanes xs
def splat (x : BitVec 32) : U32x4 := .ofLanes (List.replicate 4 x)
def write_to_slice_unaligned (v : U32x4) : List (BitVec 32) := v.lanes
def replace (v : U32x4) (i : Nat) (x : BitVec 32) : U32x4 := .ofLanes (v.lanes.set i x)
def extract (v : U32x4) (i : Nat) : BitVec 32 := v.lanes.getD i 0
def add (v r : U32x4) : U32x4 := map2 (· + ·) v r
def xor (v r : U32x4) : U32x4 := map2 (· ^^^ ·) v r
def or (v r : U32x4) : U32x4 := map2 (· ||| ·) v r
def and (v r : U32x4) : U32x4 := map2 (· &&& ·) v r
/-- the lane list rotated right by `i` positions: lane `k` moves to lane `(k + i) mod 4` -/
def rotate_words_right (v : U32x4) (i : Nat) : U32x4 := .ofLanes (v.lanes.rotateRight i)
def splat_rotate_right (v : U32x4) (i : Nat) : U32x4 := map1 (·.rotateRight i) v
end U32x4

/-! ## u64x4 -/
namespace U64x4
def map1 (f : BitVec 64 → BitVec 64) (v : U64x4) : U64x4 := .ofLanes (v.lanes.map f)
def map2 (f : BitVec 64 → BitVec 64 → BitVec 64) (v r : U64x4) : U64x4 :=
  .ofLanes (List.zipWith f v.lanes r.lanes)
def new (a b c d : BitVec 64) : U64x4 := .ofLanes [a, b, c, d]
def rotate_right (v ii : U64x4) : U64x4 := map2 (fun x n => x.rotateRight n.toNat) v ii
def from_slice_unaligned (xs : List (BitVec 64)) : U64x4 := .ofLanes xs
def splat (x : BitVec 64) : U64x4 := .ofLanes (List.replicate 4 x)
def write_to_slice_unaligned (v : U64x4) : List (BitVec 64) := v.lanes
def replace (v : U64x4) (i : Nat) (x : BitVec 64) : U64x4 := .ofLanes (v.lanes.set i x)
def extract (v : U64x4) (i : Nat) : BitVec 64 := v.lanes.getD i 0
def add (v r : U64x4) : U64x4 := map2 (· + ·) v r
def xor (v r : U64x4) : U64x4 := map2 (· ^^^ ·) v r
def or (v r : U64x4) : U64x4 := map2 (· ||| ·) v r
def and (v r : U64x4) : U64x4 := map2 (· &&& ·) v r
def rotate_words_right (v : U64x4) (i : Nat) : U64x4 := .ofLanes (v.lanes.rotateRight i)
def splat_rotate_right (v : U64x4) (i : Nat) : U64x4 := map1 (·.rotateRight i) v
end U64x4

/-! ## u32x4x4 : sixteen 32-bit lanes in four parts -/
namespace U32x4x4
def map1 (f : BitVec 32 → BitVec 32) (v : U32x4x4) : U32x4x4 := .ofLanes (v.lanes.map f)
def map2 (f : BitVec 32 → BitVec 32 → BitVec 32) (v r : U32x4x4) : U32x4x4 :=
  .ofLanes (List.zipWith f v.lanes r.lanes)
def from_ (a b c d : U32x4) : U32x4x4 := .ofLanes (a.lanes ++ b.lanes ++ c.lanes ++ d.lanes)
def splat (a : U32x4) : U32x4x4 := .ofLanes (a.lanes ++ a.lanes ++ a.lanes ++ a.lanes)
def into_parts (v : U32x4x4) : U32x4 × U32x4 × U32x4 × U32x4 :=
  (.ofLanes (v.lanes.take 4), .ofLanes ((v.lanes.drop 4).take 4),
   .ofLanes ((v.lanes.drop 8).take 4), .ofLanes ((v.lanes.drop 12).take 4))
def add (v r : U32x4x4) : U32x4x4 := map2 (· + ·) v r
def xor (v r : U32x4x4) : U32x4x4 := map2 (· ^^^ ·) v r
def or (v r : U32x4x4) : U32x4x4 := map2 (· ||| ·) v r
def and (v r : U32x4x4) : U32x4x4 := map2 (· &&& ·) v r
/-- every part has its own four words rotated by `i` positions -/
def rotate_words_right (v : U32x4x4) (i : Nat) : U32x4x4 :=
  .ofParts (v.parts.map fun q => U32x4.rotate_words_right q i)
def splat_rotate_right (v : U32x4x4) (i : Nat) : U32x4x4 := map1 (·.rotateRight i) v
end U32x4x4

end Meaning
end CC.Null
