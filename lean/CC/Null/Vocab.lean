/-
  CC.Null.Vocab — vocabulary of the ppv-null model (/repo/utils-simd/ppv-null/src/lib.rs): the meaning of the
  Rust primitives the crate uses (slice indexing, `debug_assert!`, shifts and subtraction with overflow checks,
  `rotate_right`) and the carrier structures of the five tuple structs.

  Shared by the hand-written model (CC.Null.Model) and by the definitions REGENERATED from the Rust source on
  every run (tools/inventory_null.py → CC.Gen.NullSrc); the shape of the structures (field count and types) is
  itself tied to the source by `CC.Src.src_null_structs`.  Tuple fields `.0 .1 .2 .3` are the fields `a b c d`.

  Import-free apart from CC.Prim (linked into the driver executable).
-/
import CC.Prim
namespace CC.Null
open CC

/-! ## Rust primitives -/

/-- `debug_assert!(c)`: compiled only with `debug-assertions` (Profile.debug). -/
def dbgAssert (p : Profile) (c : Bool) : Out Unit :=
  match p with
  | .debug => if c then .ok () else .panic "debug_assert failed"
  | .release => .ok ()

/-- `xs[i]` on a slice / array: bounds-checked in every profile. -/
def idx {α} (xs : List α) (i : Nat) : Out α :=
  match xs[i]? with
  | some x => .ok x
  | none => .panic "index out of bounds"

/-- `xs[i] = v` on a slice: bounds-checked in every profile. -/
def setIdx {α} (xs : List α) (i : Nat) (v : α) : Out (List α) :=
  if i < xs.length then .ok (xs.set i v) else .panic "index out of bounds"

/-- `uN::rotate_right(x, n : u32)`: rotation by `n mod N`, never panics. -/
def rotr {w : Nat} (x : BitVec w) (n : BitVec 32) : BitVec w := x.rotateRight (n.toNat % w)

/-- `x >> i` for `x : uN` (N = w a power of two ≤ 128), `i : u32`.  debug: panics when `i ≥ N`
    ("attempt to shift right with overflow"); release: the amount is masked to `i & (N-1)`. -/
def shr {w : Nat} (p : Profile) (x : BitVec w) (i : BitVec 32) : Out (BitVec w) :=
  match p with
  | .debug => if i < BitVec.ofNat 32 w then .ok (x >>> i) else .panic "attempt to shift right with overflow"
  | .release => .ok (x >>> (i &&& BitVec.ofNat 32 (w - 1)))

/-- `x << i`, same conventions as `shr`. -/
def shl {w : Nat} (p : Profile) (x : BitVec w) (i : BitVec 32) : Out (BitVec w) :=
  match p with
  | .debug => if i < BitVec.ofNat 32 w then .ok (x <<< i) else .panic "attempt to shift left with overflow"
  | .release => .ok (x <<< (i &&& BitVec.ofNat 32 (w - 1)))

/-- `a - b` on `u32`: debug panics on underflow ("attempt to subtract with overflow"), release wraps. -/
def subU32 (p : Profile) (a b : BitVec 32) : Out (BitVec 32) :=
  match p with
  | .debug => if b ≤ a then .ok (a - b) else .panic "attempt to subtract with overflow"
  | .release => .ok (a - b)

/-! ## carriers of the tuple structs -/

/-- `pub struct u128x1(u128)` -/
structure U128x1 where
  a : BitVec 128
  deriving DecidableEq, Repr

/-- `pub struct u128x2(u128, u128)` -/
structure U128x2 where
  a : BitVec 128
  b : BitVec 128
  deriving DecidableEq, Repr

/-- `pub struct u32x4(u32, u32, u32, u32)` -/
structure U32x4 where
  a : BitVec 32
  b : BitVec 32
  c : BitVec 32
  d : BitVec 32
  deriving DecidableEq, Repr

/-- `pub struct u64x4(u64, u64, u64, u64)` -/
structure U64x4 where
  a : BitVec 64
  b : BitVec 64
  c : BitVec 64
  d : BitVec 64
  deriving DecidableEq, Repr

/-- `pub struct u32x4x4(u32x4, u32x4, u32x4, u32x4)` -/
structure U32x4x4 where
  a : U32x4
  b : U32x4
  c : U32x4
  d : U32x4
  deriving DecidableEq, Repr

end CC.Null
