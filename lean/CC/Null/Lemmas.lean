/-
  CC.Null.Lemmas — leaf facts used by CC.Thm.C19: the outcome monad, checked shifts with in-range
  amounts, `(x >> i) | (x << (BITS - i))` = rotate right, swap masks = exchange of adjacent bit groups,
  `match i & 3` = list rotation.
-/
import Std.Tactic.BVDecide
import CC.Null.Meaning
namespace CC.Null.Lemmas
open CC CC.Null

/-! ## outcome monad -/

@[simp] theorem panic_bind {α β} (w : String) (f : α → Out β) : (Out.panic w >>= f) = Out.panic w := rfl
@[simp] theorem ok_bind {α β} (a : α) (f : α → Out β) : (Out.ok a >>= f) = f a := rfl

@[simp] theorem dbgAssert_release (c : Bool) : dbgAssert .release c = .ok () := rfl
@[simp] theorem dbgAssert_true (p : Profile) : dbgAssert p true = .ok () := by cases p <;> rfl
@[simp] theorem dbgAssert_debug_false : dbgAssert .debug false = .panic "debug_assert failed" := rfl

theorem isPanic_bind_of_isPanic {α β} (x : Out α) (f : α → Out β) (h : x.isPanic = true) :
    (x >>= f).isPanic = true := by
  cases x <;> simp_all [Out.isPanic] <;> rfl

/-! ## checked shifts / subtraction with in-range operands -/

theorem mask31 (i : BitVec 32) (h : i < 32#32) : i &&& 31#32 = i := by bv_decide
theorem mask63 (i : BitVec 32) (h : i < 64#32) : i &&& 63#32 = i := by bv_decide
theorem mask127 (i : BitVec 32) (h : i < 128#32) : i &&& 127#32 = i := by bv_decide

theorem shr32 (p : Profile) (x : BitVec 32) (i : BitVec 32) (h : i < 32#32) : shr p x i = .ok (x >>> i) := by
  cases p
  · simp [shr, h]
  · simp only [shr]; rw [show BitVec.ofNat 32 (32 - 1) = 31#32 from rfl, mask31 i h]
theorem shl32 (p : Profile) (x : BitVec 32) (i : BitVec 32) (h : i < 32#32) : shl p x i = .ok (x <<< i) := by
  cases p
  · simp [shl, h]
  · simp only [shl]; rw [show BitVec.ofNat 32 (32 - 1) = 31#32 from rfl, mask31 i h]
theorem shr64 (p : Profile) (x : BitVec 64) (i : BitVec 32) (h : i < 64#32) : shr p x i = .ok (x >>> i) := by
  cases p
  · simp [shr, h]
  · simp only [shr]; rw [show BitVec.ofNat 32 (64 - 1) = 63#32 from rfl, mask63 i h]
theorem shl64 (p : Profile) (x : BitVec 64) (i : BitVec 32) (h : i < 64#32) : shl p x i = .ok (x <<< i) := by
  cases p
  · simp [shl, h]
  · simp only [shl]; rw [show BitVec.ofNat 32 (64 - 1) = 63#32 from rfl, mask63 i h]
theorem shr128 (p : Profile) (x : BitVec 128) (i : BitVec 32) (h : i < 128#32) : shr p x i = .ok (x >>> i) := by
  cases p
  · simp [shr, h]
  · simp only [shr]; rw [show BitVec.ofNat 32 (128 - 1) = 127#32 from rfl, mask127 i h]
theorem shl128 (p : Profile) (x : BitVec 128) (i : BitVec 32) (h : i < 128#32) : shl p x i = .ok (x <<< i) := by
  cases p
  · simp [shl, h]
  · simp only [shl]; rw [show BitVec.ofNat 32 (128 - 1) = 127#32 from rfl, mask127 i h]

theorem subU32_le (p : Profile) (a b : BitVec 32) (h : b ≤ a) : subU32 p a b = .ok (a - b) := by
  cases p <;> simp [subU32, h]

/-! ## `(x >> i) | (x << (BITS - i))` is rotate right -/

theorem toNat_and31 (i : BitVec 32) : (i &&& 31#32).toNat = i.toNat % 32 := by
  rw [BitVec.toNat_and]; exact Nat.and_two_pow_sub_one_eq_mod i.toNat 5
theorem toNat_and63 (i : BitVec 32) : (i &&& 63#32).toNat = i.toNat % 64 := by
  rw [BitVec.toNat_and]; exact Nat.and_two_pow_sub_one_eq_mod i.toNat 6
theorem toNat_and3 (i : BitVec 32) : (i &&& 3#32).toNat = i.toNat % 4 := by
  rw [BitVec.toNat_and]; exact Nat.and_two_pow_sub_one_eq_mod i.toNat 2

/-- general lemma (all amounts 1..31 at once) -/
theorem shr_or_shl_32 (x : BitVec 32) (i : BitVec 32) (h1 : 1#32 ≤ i) (h2 : i < 32#32) :
    x >>> i ||| x <<< (32#32 - i) = x.rotateRight i.toNat := by
  have h1' : 1 ≤ i.toNat := by simpa [BitVec.le_def] using h1
  have h2' : i.toNat < 32 := by simpa [BitVec.lt_def] using h2
  rw [BitVec.rotateRight_def, BitVec.ushiftRight_eq', BitVec.shiftLeft_eq']
  have : (32#32 - i).toNat = 32 - i.toNat % 32 := by
    rw [BitVec.toNat_sub]; simp; omega
  rw [this, Nat.mod_eq_of_lt h2']

theorem shr_or_shl_64 (x : BitVec 64) (i : BitVec 32) (h1 : 1#32 ≤ i) (h2 : i < 64#32) :
    x >>> i ||| x <<< (64#32 - i) = x.rotateRight i.toNat := by
  have h1' : 1 ≤ i.toNat := by simpa [BitVec.le_def] using h1
  have h2' : i.toNat < 64 := by simpa [BitVec.lt_def] using h2
  rw [BitVec.rotateRight_def, BitVec.ushiftRight_eq', BitVec.shiftLeft_eq']
  have : (64#32 - i).toNat = 64 - i.toNat % 64 := by
    rw [BitVec.toNat_sub]; simp; omega
  rw [this, Nat.mod_eq_of_lt h2']

/-- one lane of `splat_rotate_right`, in contract (both profiles) -/
theorem srr_lane32_ok (p : Profile) (x i : BitVec 32) (h1 : 1#32 ≤ i) (h2 : i < 32#32) :
    U32x4.srr_lane p x i = .ok (x.rotateRight i.toNat) := by
  unfold U32x4.srr_lane U32x4.BITS
  rw [shr32 p x i h2, subU32_le p _ _ (by bv_decide), ok_bind, ok_bind,
      shl32 p x _ (by bv_decide), ok_bind, shr_or_shl_32 x i h1 h2]
  rfl

theorem srr_lane64_ok (p : Profile) (x : BitVec 64) (i : BitVec 32) (h1 : 1#32 ≤ i) (h2 : i < 64#32) :
    U64x4.srr_lane p x i = .ok (x.rotateRight i.toNat) := by
  unfold U64x4.srr_lane U64x4.BITS
  rw [shr64 p x i h2, subU32_le p _ _ (by bv_decide), ok_bind, ok_bind,
      shl64 p x _ (by bv_decide), ok_bind, shr_or_shl_64 x i h1 h2]
  rfl

/-- release: masked shifts and wrapping subtraction; rotation by `i mod 32` for EVERY `i` -/
theorem srr_lane32_release (x i : BitVec 32) :
    U32x4.srr_lane .release x i = .ok (x.rotateRight (i.toNat % 32)) := by
  show Out.ok (x >>> (i &&& 31#32) ||| x <<< ((32#32 - i) &&& 31#32)) = _
  congr 1
  by_cases h : i &&& 31#32 = 0#32
  · have e : x >>> (i &&& 31#32) ||| x <<< ((32#32 - i) &&& 31#32) = x := by bv_decide
    have z : i.toNat % 32 = 0 := by rw [← toNat_and31, h]; rfl
    rw [e, z]; bv_decide
  · have e : (32#32 - i) &&& 31#32 = 32#32 - (i &&& 31#32) := by bv_decide
    rw [e, shr_or_shl_32 x (i &&& 31#32) (by bv_decide) (by bv_decide), toNat_and31]

theorem srr_lane64_release (x : BitVec 64) (i : BitVec 32) :
    U64x4.srr_lane .release x i = .ok (x.rotateRight (i.toNat % 64)) := by
  show Out.ok (x >>> (i &&& 63#32) ||| x <<< ((64#32 - i) &&& 63#32)) = _
  congr 1
  by_cases h : i &&& 63#32 = 0#32
  · have e : x >>> (i &&& 63#32) ||| x <<< ((64#32 - i) &&& 63#32) = x := by bv_decide
    have z : i.toNat % 64 = 0 := by rw [← toNat_and63, h]; rfl
    rw [e, z]; bv_decide
  · have e : (64#32 - i) &&& 63#32 = 64#32 - (i &&& 63#32) := by bv_decide
    rw [e, shr_or_shl_64 x (i &&& 63#32) (by bv_decide) (by bv_decide), toNat_and63]

/-- debug: amount 0 (`x << 32`) or ≥ 32 (`x >> i`) is an overflow panic -/
theorem srr_lane32_debug_panic (x i : BitVec 32) (h : i = 0#32 ∨ 32#32 ≤ i) :
    (U32x4.srr_lane .debug x i).isPanic = true := by
  rcases h with h | h
  · subst h; rfl
  · have : ¬ i < 32#32 := by bv_decide
    simp [U32x4.srr_lane, shr, this, Out.isPanic]

theorem srr_lane64_debug_panic (x : BitVec 64) (i : BitVec 32) (h : i = 0#32 ∨ 64#32 ≤ i) :
    (U64x4.srr_lane .debug x i).isPanic = true := by
  rcases h with h | h
  · subst h; rfl
  · have : ¬ i < 64#32 := by bv_decide
    simp [U64x4.srr_lane, shr, this, Out.isPanic]

/-! ## swap masks: exchange of adjacent bit groups -/

theorem getLsbD_swapGroups (g : Nat) (x : BitVec 128) (j : Nat) (hj : j < 128) :
    (Meaning.swapGroups g x).getLsbD j = x.getLsbD (j ^^^ g) := by
  unfold Meaning.swapGroups
  rw [BitVec.getLsbD_setWidth, BitVec.getLsbD_ofBoolListLE]
  simp [List.getD_eq_getElem?_getD, hj]

/-- from "for every 7-bit position `j`, bit `j` of `y` is bit `j ⊕ g` of `x`" (the form `bv_decide` proves,
    with a symbolic position) to `y = swapGroups g x` -/
theorem eq_swapGroups_of_bits {y x : BitVec 128} (g : BitVec 7) (gn : Nat) (hg : g.toNat = gn)
    (h : ∀ j : BitVec 7, (y >>> j).getLsbD 0 = (x >>> (j ^^^ g)).getLsbD 0) :
    y = Meaning.swapGroups gn x := by
  apply BitVec.eq_of_getLsbD_eq
  intro j hj
  rw [getLsbD_swapGroups _ _ _ hj]
  have := h (BitVec.ofNat 7 j)
  simp only [BitVec.ushiftRight_eq', BitVec.getLsbD_ushiftRight, BitVec.toNat_xor, BitVec.toNat_ofNat,
    Nat.add_zero] at this
  have e : j % 2 ^ 7 = j := Nat.mod_eq_of_lt (by omega)
  rw [e, hg] at this
  exact this

theorem swap1_bits (x : BitVec 128) (j : BitVec 7) :
    ((((x &&& 0xaaaaaaaaaaaaaaaaaaaaaaaaaaaaaaaa#128) >>> 1#32) ||| ((x <<< 1#32) &&& 0xaaaaaaaaaaaaaaaaaaaaaaaaaaaaaaaa#128)) >>> j).getLsbD 0
      = (x >>> (j ^^^ 1#7)).getLsbD 0 := by bv_decide
theorem swap2_bits (x : BitVec 128) (j : BitVec 7) :
    ((((x &&& 0xcccccccccccccccccccccccccccccccc#128) >>> 2#32) ||| ((x <<< 2#32) &&& 0xcccccccccccccccccccccccccccccccc#128)) >>> j).getLsbD 0
      = (x >>> (j ^^^ 2#7)).getLsbD 0 := by bv_decide
theorem swap4_bits (x : BitVec 128) (j : BitVec 7) :
    ((((x &&& 0xf0f0f0f0f0f0f0f0f0f0f0f0f0f0f0f0#128) >>> 4#32) ||| ((x <<< 4#32) &&& 0xf0f0f0f0f0f0f0f0f0f0f0f0f0f0f0f0#128)) >>> j).getLsbD 0
      = (x >>> (j ^^^ 4#7)).getLsbD 0 := by bv_decide
theorem swap8_bits (x : BitVec 128) (j : BitVec 7) :
    ((((x &&& 0xff00ff00ff00ff00ff00ff00ff00ff00#128) >>> 8#32) ||| ((x <<< 8#32) &&& 0xff00ff00ff00ff00ff00ff00ff00ff00#128)) >>> j).getLsbD 0
      = (x >>> (j ^^^ 8#7)).getLsbD 0 := by bv_decide
theorem swap16_bits (x : BitVec 128) (j : BitVec 7) :
    ((((x &&& 0xffff0000ffff0000ffff0000ffff0000#128) >>> 16#32) ||| ((x <<< 16#32) &&& 0xffff0000ffff0000ffff0000ffff0000#128)) >>> j).getLsbD 0
      = (x >>> (j ^^^ 16#7)).getLsbD 0 := by bv_decide
theorem swap32_bits (x : BitVec 128) (j : BitVec 7) :
    ((((x &&& 0xffffffff00000000ffffffff00000000#128) >>> 32#32) ||| ((x <<< 32#32) &&& 0xffffffff00000000ffffffff00000000#128)) >>> j).getLsbD 0
      = (x >>> (j ^^^ 32#7)).getLsbD 0 := by bv_decide
theorem swap64_bits (x : BitVec 128) (j : BitVec 7) :
    (((x <<< 64#32) ||| (x >>> 64#32)) >>> j).getLsbD 0 = (x >>> (j ^^^ 64#7)).getLsbD 0 := by bv_decide

/-- private `swap(m, i)` with an in-range literal amount never panics and computes the masked expression -/
theorem swap_ok (p : Profile) (v : U128x1) (m : BitVec 128) (i : BitVec 32) (h : i < 128#32) :
    U128x1.swap p v m i = .ok ⟨((v.a &&& m) >>> i) ||| ((v.a <<< i) &&& m)⟩ := by
  unfold U128x1.swap
  rw [shr128 p _ i h, shl128 p _ i h]; rfl

/-! ## slices -/

theorem idx_lt {α} (xs : List α) (i : Nat) (h : i < xs.length) : idx xs i = .ok xs[i] := by
  simp [idx, h]
theorem idx_ge {α} (xs : List α) (i : Nat) (h : xs.length ≤ i) : idx xs i = .panic "index out of bounds" := by
  simp [idx, h]

theorem dbgAssert_debug_ne {α} [BEq α] [LawfulBEq α] (a b : α) (h : a ≠ b) :
    dbgAssert .debug (a == b) = .panic "debug_assert failed" := by
  have : (a == b) = false := by simpa using h
  rw [this]; rfl
theorem dbgAssert_eq {α} [BEq α] [LawfulBEq α] (p : Profile) (a : α) : dbgAssert p (a == a) = .ok () := by
  simp

theorem len1 {α} (xs : List α) (h : xs.length = 1) : ∃ a, xs = [a] :=
  match xs, h with
  | [a], _ => ⟨a, rfl⟩
theorem len2 {α} (xs : List α) (h : xs.length = 2) : ∃ a b, xs = [a, b] :=
  match xs, h with
  | [a, b], _ => ⟨a, b, rfl⟩
theorem len4 {α} (xs : List α) (h : xs.length = 4) : ∃ a b c d, xs = [a, b, c, d] :=
  match xs, h with
  | [a, b, c, d], _ => ⟨a, b, c, d, rfl⟩
theorem len_ge1 {α} (xs : List α) (h : 1 ≤ xs.length) : ∃ a r, xs = a :: r :=
  match xs, h with
  | a :: r, _ => ⟨a, r, rfl⟩
theorem len_ge2 {α} (xs : List α) (h : 2 ≤ xs.length) : ∃ a b r, xs = a :: b :: r :=
  match xs, h with
  | a :: b :: r, _ => ⟨a, b, r, rfl⟩
theorem len_ge4 {α} (xs : List α) (h : 4 ≤ xs.length) : ∃ a b c d r, xs = a :: b :: c :: d :: r :=
  match xs, h with
  | a :: b :: c :: d :: r, _ => ⟨a, b, c, d, r, rfl⟩
theorem len_lt2 {α} (xs : List α) (h : xs.length < 2) : xs = [] ∨ ∃ a, xs = [a] :=
  match xs, h with
  | [], _ => .inl rfl
  | [a], _ => .inr ⟨a, rfl⟩
theorem len_lt4 {α} (xs : List α) (h : xs.length < 4) :
    xs = [] ∨ (∃ a, xs = [a]) ∨ (∃ a b, xs = [a, b]) ∨ (∃ a b c, xs = [a, b, c]) :=
  match xs, h with
  | [], _ => .inl rfl
  | [a], _ => .inr (.inl ⟨a, rfl⟩)
  | [a, b], _ => .inr (.inr (.inl ⟨a, b, rfl⟩))
  | [a, b, c], _ => .inr (.inr (.inr ⟨a, b, c, rfl⟩))

/-! ## small enumerations -/

theorem lt4_cases32 (i : BitVec 32) (h : i < 4#32) : i = 0#32 ∨ i = 1#32 ∨ i = 2#32 ∨ i = 3#32 := by bv_decide
theorem lt4_cases64 (i : BitVec 64) (h : i < 4#64) : i = 0#64 ∨ i = 1#64 ∨ i = 2#64 ∨ i = 3#64 := by bv_decide
theorem lt2_cases32 (i : BitVec 32) (h : i < 2#32) : i = 0#32 ∨ i = 1#32 := by bv_decide
theorem and3_cases (i : BitVec 32) :
    i &&& 3#32 = 0#32 ∨ i &&& 3#32 = 1#32 ∨ i &&& 3#32 = 2#32 ∨ i &&& 3#32 = 3#32 := by bv_decide
theorem and_not3_ne (i : BitVec 32) (h : 4#32 ≤ i) : i &&& ~~~ 3#32 ≠ 0#32 := by bv_decide
theorem and_not3_eq (i : BitVec 32) (h : i < 4#32) : i &&& ~~~ 3#32 = 0#32 := by bv_decide

end CC.Null.Lemmas
