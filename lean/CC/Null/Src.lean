/-
  CC.Null.Src — SOURCE TIE for ppv-null (property C19): every definition that tools/inventory_null.py regenerates
  from /repo/utils-simd/ppv-null/src/lib.rs into `CC.Gen.NullSrc` (every public and private method and trait-impl
  method of every macro instantiation, `debug_assert*` / index / shift / subtraction guards as rustc compiles them in
  each profile) EQUALS the hand-written model definition `CC.Null.<Type>.<method>` the C19 theorems are about.
  Equalities of FUNCTIONS: a definition that takes the profile is tied for both profiles at once.
  Collected as `CC.Thm.C19.source_null_match`.
-/
import CC.Gen.NullSrc
import CC.Null.Model
namespace CC.Src
open CC

/-- nothing in the Rust file was outside the translator's language -/
theorem src_null_clean : Gen.NullSrc.null_errors = [] := rfl

/-- the items of the crate after macro expansion, as modelled (sorted): structs, derives, inherent methods with their
    visibility, trait-impl methods -/
def null_items_expected : List String := [
    "derive Clone for u128x1",
    "derive Clone for u128x2",
    "derive Clone for u32x4",
    "derive Clone for u32x4x4",
    "derive Clone for u64x4",
    "derive Copy for u128x1",
    "derive Copy for u128x2",
    "derive Copy for u32x4",
    "derive Copy for u32x4x4",
    "derive Copy for u64x4",
    "impl Add for u32x4 :: add",
    "impl Add for u32x4x4 :: add",
    "impl Add for u64x4 :: add",
    "impl AddAssign for u128x1 :: add_assign",
    "impl AddAssign for u128x2 :: add_assign",
    "impl AddAssign for u32x4 :: add_assign",
    "impl AddAssign for u32x4x4 :: add_assign",
    "impl AddAssign for u64x4 :: add_assign",
    "impl BitAnd for u128x1 :: bitand",
    "impl BitAnd for u128x2 :: bitand",
    "impl BitAnd for u32x4 :: bitand",
    "impl BitAnd for u32x4x4 :: bitand",
    "impl BitAnd for u64x4 :: bitand",
    "impl BitOr for u128x2 :: bitor",
    "impl BitOr for u32x4 :: bitor",
    "impl BitOr for u32x4x4 :: bitor",
    "impl BitOr for u64x4 :: bitor",
    "impl BitXor for u128x1 :: bitxor",
    "impl BitXor for u32x4 :: bitxor",
    "impl BitXor for u32x4x4 :: bitxor",
    "impl BitXor for u64x4 :: bitxor",
    "impl BitXorAssign for u128x1 :: bitxor_assign",
    "impl BitXorAssign for u128x2 :: bitxor_assign",
    "impl BitXorAssign for u32x4 :: bitxor_assign",
    "impl BitXorAssign for u32x4x4 :: bitxor_assign",
    "impl BitXorAssign for u64x4 :: bitxor_assign",
    "impl Not for u128x1 :: not",
    "impl Not for u128x2 :: not",
    "impl RotateWordsRight for u32x4 :: rotate_words_right",
    "impl RotateWordsRight for u32x4x4 :: rotate_words_right",
    "impl RotateWordsRight for u64x4 :: rotate_words_right",
    "impl SplatRotateRight for u32x4 :: splat_rotate_right",
    "impl SplatRotateRight for u32x4x4 :: splat_rotate_right",
    "impl SplatRotateRight for u64x4 :: splat_rotate_right",
    "priv u128x1::swap",
    "priv u128x2::map",
    "priv u128x2::zipmap",
    "priv u32x4::zipmap",
    "priv u32x4x4::zipmap",
    "priv u64x4::zipmap",
    "pub struct u128x1",
    "pub struct u128x2",
    "pub struct u32x4",
    "pub struct u32x4x4",
    "pub struct u64x4",
    "pub u128x1::andnot",
    "pub u128x1::extract",
    "pub u128x1::into_inner",
    "pub u128x1::load",
    "pub u128x1::new",
    "pub u128x1::rotate_right",
    "pub u128x1::swap1",
    "pub u128x1::swap16",
    "pub u128x1::swap2",
    "pub u128x1::swap32",
    "pub u128x1::swap4",
    "pub u128x1::swap64",
    "pub u128x1::swap8",
    "pub u128x1::xor_store",
    "pub u128x2::andnot",
    "pub u128x2::extract",
    "pub u128x2::load",
    "pub u128x2::new",
    "pub u128x2::rotate_right",
    "pub u128x2::xor_store",
    "pub u32x4::extract",
    "pub u32x4::from_slice_unaligned",
    "pub u32x4::new",
    "pub u32x4::replace",
    "pub u32x4::rotate_right",
    "pub u32x4::splat",
    "pub u32x4::write_to_slice_unaligned",
    "pub u32x4x4::from",
    "pub u32x4x4::into_parts",
    "pub u32x4x4::splat",
    "pub u64x4::extract",
    "pub u64x4::from_slice_unaligned",
    "pub u64x4::new",
    "pub u64x4::replace",
    "pub u64x4::rotate_right",
    "pub u64x4::splat",
    "pub u64x4::write_to_slice_unaligned"]

/-- a new / removed / renamed method, impl or derive, or a changed visibility shows here -/
theorem src_null_items : Gen.NullSrc.null_items = null_items_expected := by decide

/-- the shape of the five tuple structs, as modelled by the carrier structures of CC.Null.Vocab -/
def null_structs_expected : List (String × List String) :=
    [("u128x1", ["u128"]),
     ("u128x2", ["u128", "u128"]),
     ("u32x4", ["u32", "u32", "u32", "u32"]),
     ("u32x4x4", ["u32x4", "u32x4", "u32x4", "u32x4"]),
     ("u64x4", ["u64", "u64", "u64", "u64"])]

theorem src_null_structs : Gen.NullSrc.null_structs = null_structs_expected := by decide

/-! ## bridging lemmas: the model groups the three steps of one lane of `splat_rotate_right` into the helper `srr_lane`
    (the Rust has no such function), and writes `replace`'s selection through an array of `&mut` as a `match` -/

theorem null_bind_eq {α β : Type} (x : Out α) (f : α → Out β) : (x >>= f) = x.bind f := rfl
theorem null_bind_assoc {α β γ : Type} (x : Out α) (f : α → Out β) (g : β → Out γ) :
    (x.bind f).bind g = x.bind (fun a => (f a).bind g) := by cases x <;> rfl


/-! ## u128x1 -/

theorem src_null_u128x1_add_assign : Null.U128x1.add_assign = Gen.NullSrc.U128x1.add_assign := rfl
theorem src_null_u128x1_andnot : Null.U128x1.andnot = Gen.NullSrc.U128x1.andnot := rfl
theorem src_null_u128x1_bitand : Null.U128x1.bitand = Gen.NullSrc.U128x1.bitand := rfl
theorem src_null_u128x1_bitxor : Null.U128x1.bitxor = Gen.NullSrc.U128x1.bitxor := rfl
theorem src_null_u128x1_bitxor_assign : Null.U128x1.bitxor_assign = Gen.NullSrc.U128x1.bitxor_assign := rfl
theorem src_null_u128x1_clone : Null.U128x1.clone = Gen.NullSrc.U128x1.clone := rfl
theorem src_null_u128x1_extract : Null.U128x1.extract = Gen.NullSrc.U128x1.extract := rfl
theorem src_null_u128x1_into_inner : Null.U128x1.into_inner = Gen.NullSrc.U128x1.into_inner := rfl
theorem src_null_u128x1_load : Null.U128x1.load = Gen.NullSrc.U128x1.load := rfl
theorem src_null_u128x1_new : Null.U128x1.new = Gen.NullSrc.U128x1.new := rfl
theorem src_null_u128x1_not : Null.U128x1.not = Gen.NullSrc.U128x1.not := rfl
theorem src_null_u128x1_rotate_right : Null.U128x1.rotate_right = Gen.NullSrc.U128x1.rotate_right := rfl
theorem src_null_u128x1_swap : Null.U128x1.swap = Gen.NullSrc.U128x1.swap := rfl
theorem src_null_u128x1_swap1 : Null.U128x1.swap1 = Gen.NullSrc.U128x1.swap1 := rfl
theorem src_null_u128x1_swap16 : Null.U128x1.swap16 = Gen.NullSrc.U128x1.swap16 := rfl
theorem src_null_u128x1_swap2 : Null.U128x1.swap2 = Gen.NullSrc.U128x1.swap2 := rfl
theorem src_null_u128x1_swap32 : Null.U128x1.swap32 = Gen.NullSrc.U128x1.swap32 := rfl
theorem src_null_u128x1_swap4 : Null.U128x1.swap4 = Gen.NullSrc.U128x1.swap4 := rfl
theorem src_null_u128x1_swap64 : Null.U128x1.swap64 = Gen.NullSrc.U128x1.swap64 := rfl
theorem src_null_u128x1_swap8 : Null.U128x1.swap8 = Gen.NullSrc.U128x1.swap8 := rfl
theorem src_null_u128x1_xor_store : Null.U128x1.xor_store = Gen.NullSrc.U128x1.xor_store := rfl

/-! ## u128x2 -/

theorem src_null_u128x2_add_assign : Null.U128x2.add_assign = Gen.NullSrc.U128x2.add_assign := rfl
theorem src_null_u128x2_andnot : Null.U128x2.andnot = Gen.NullSrc.U128x2.andnot := rfl
theorem src_null_u128x2_bitand : Null.U128x2.bitand = Gen.NullSrc.U128x2.bitand := rfl
theorem src_null_u128x2_bitor : Null.U128x2.bitor = Gen.NullSrc.U128x2.bitor := rfl
theorem src_null_u128x2_bitxor_assign : Null.U128x2.bitxor_assign = Gen.NullSrc.U128x2.bitxor_assign := rfl
theorem src_null_u128x2_clone : Null.U128x2.clone = Gen.NullSrc.U128x2.clone := rfl
theorem src_null_u128x2_extract : Null.U128x2.extract = Gen.NullSrc.U128x2.extract := rfl
theorem src_null_u128x2_load : Null.U128x2.load = Gen.NullSrc.U128x2.load := rfl
theorem src_null_u128x2_map : Null.U128x2.map = Gen.NullSrc.U128x2.map := rfl
theorem src_null_u128x2_new : Null.U128x2.new = Gen.NullSrc.U128x2.new := rfl
theorem src_null_u128x2_not : Null.U128x2.not = Gen.NullSrc.U128x2.not := rfl
theorem src_null_u128x2_rotate_right : Null.U128x2.rotate_right = Gen.NullSrc.U128x2.rotate_right := rfl
theorem src_null_u128x2_xor_store : Null.U128x2.xor_store = Gen.NullSrc.U128x2.xor_store := rfl
theorem src_null_u128x2_zipmap : Null.U128x2.zipmap = Gen.NullSrc.U128x2.zipmap := rfl

/-! ## u32x4 -/

theorem src_null_u32x4_BITS : Null.U32x4.BITS = Gen.NullSrc.U32x4.BITS := rfl
theorem src_null_u32x4_add : Null.U32x4.add = Gen.NullSrc.U32x4.add := rfl
theorem src_null_u32x4_add_assign : Null.U32x4.add_assign = Gen.NullSrc.U32x4.add_assign := rfl
theorem src_null_u32x4_bitand : Null.U32x4.bitand = Gen.NullSrc.U32x4.bitand := rfl
theorem src_null_u32x4_bitor : Null.U32x4.bitor = Gen.NullSrc.U32x4.bitor := rfl
theorem src_null_u32x4_bitxor : Null.U32x4.bitxor = Gen.NullSrc.U32x4.bitxor := rfl
theorem src_null_u32x4_bitxor_assign : Null.U32x4.bitxor_assign = Gen.NullSrc.U32x4.bitxor_assign := rfl
theorem src_null_u32x4_clone : Null.U32x4.clone = Gen.NullSrc.U32x4.clone := rfl
theorem src_null_u32x4_extract : Null.U32x4.extract = Gen.NullSrc.U32x4.extract := rfl
theorem src_null_u32x4_from_slice_unaligned : Null.U32x4.from_slice_unaligned = Gen.NullSrc.U32x4.from_slice_unaligned := rfl
theorem src_null_u32x4_new : Null.U32x4.new = Gen.NullSrc.U32x4.new := rfl
/-- `*xs[i] = v` with `xs = [&mut self.0, …, &mut self.3]`: bounds check, then the selected field is replaced -/
theorem src_null_u32x4_replace : Null.U32x4.replace = Gen.NullSrc.U32x4.replace := by
  funext self i v
  unfold Null.U32x4.replace Gen.NullSrc.U32x4.replace
  generalize i.toNat = n
  match n with
  | 0 => rfl
  | 1 => rfl
  | 2 => rfl
  | 3 => rfl
  | n + 4 => rfl
theorem src_null_u32x4_rotate_right : Null.U32x4.rotate_right = Gen.NullSrc.U32x4.rotate_right := rfl
theorem src_null_u32x4_rotate_words_right : Null.U32x4.rotate_words_right = Gen.NullSrc.U32x4.rotate_words_right := rfl
theorem src_null_u32x4_splat : Null.U32x4.splat = Gen.NullSrc.U32x4.splat := rfl
/-- twelve guarded steps in evaluation order (`>>`, `BITS - i`, `<<` per lane) = four `srr_lane`s (associativity of bind) -/
theorem src_null_u32x4_splat_rotate_right : Null.U32x4.splat_rotate_right = Gen.NullSrc.U32x4.splat_rotate_right := by
  funext p self i
  simp only [Null.U32x4.splat_rotate_right, Null.U32x4.srr_lane, Gen.NullSrc.U32x4.splat_rotate_right,
    null_bind_eq, pure, null_bind_assoc]
  rfl
theorem src_null_u32x4_write_to_slice_unaligned : Null.U32x4.write_to_slice_unaligned = Gen.NullSrc.U32x4.write_to_slice_unaligned := rfl
theorem src_null_u32x4_zipmap : Null.U32x4.zipmap = Gen.NullSrc.U32x4.zipmap := rfl

/-! ## u64x4 -/

theorem src_null_u64x4_BITS : Null.U64x4.BITS = Gen.NullSrc.U64x4.BITS := rfl
theorem src_null_u64x4_add : Null.U64x4.add = Gen.NullSrc.U64x4.add := rfl
theorem src_null_u64x4_add_assign : Null.U64x4.add_assign = Gen.NullSrc.U64x4.add_assign := rfl
theorem src_null_u64x4_bitand : Null.U64x4.bitand = Gen.NullSrc.U64x4.bitand := rfl
theorem src_null_u64x4_bitor : Null.U64x4.bitor = Gen.NullSrc.U64x4.bitor := rfl
theorem src_null_u64x4_bitxor : Null.U64x4.bitxor = Gen.NullSrc.U64x4.bitxor := rfl
theorem src_null_u64x4_bitxor_assign : Null.U64x4.bitxor_assign = Gen.NullSrc.U64x4.bitxor_assign := rfl
theorem src_null_u64x4_clone : Null.U64x4.clone = Gen.NullSrc.U64x4.clone := rfl
theorem src_null_u64x4_extract : Null.U64x4.extract = Gen.NullSrc.U64x4.extract := rfl
theorem src_null_u64x4_from_slice_unaligned : Null.U64x4.from_slice_unaligned = Gen.NullSrc.U64x4.from_slice_unaligned := rfl
theorem src_null_u64x4_new : Null.U64x4.new = Gen.NullSrc.U64x4.new := rfl
/-- `*xs[i] = v` with `xs = [&mut self.0, …, &mut self.3]`: bounds check, then the selected field is replaced -/
theorem src_null_u64x4_replace : Null.U64x4.replace = Gen.NullSrc.U64x4.replace := by
  funext self i v
  unfold Null.U64x4.replace Gen.NullSrc.U64x4.replace
  generalize i.toNat = n
  match n with
  | 0 => rfl
  | 1 => rfl
  | 2 => rfl
  | 3 => rfl
  | n + 4 => rfl
theorem src_null_u64x4_rotate_right : Null.U64x4.rotate_right = Gen.NullSrc.U64x4.rotate_right := rfl
theorem src_null_u64x4_rotate_words_right : Null.U64x4.rotate_words_right = Gen.NullSrc.U64x4.rotate_words_right := rfl
theorem src_null_u64x4_splat : Null.U64x4.splat = Gen.NullSrc.U64x4.splat := rfl
/-- twelve guarded steps in evaluation order (`>>`, `BITS - i`, `<<` per lane) = four `srr_lane`s (associativity of bind) -/
theorem src_null_u64x4_splat_rotate_right : Null.U64x4.splat_rotate_right = Gen.NullSrc.U64x4.splat_rotate_right := by
  funext p self i
  simp only [Null.U64x4.splat_rotate_right, Null.U64x4.srr_lane, Gen.NullSrc.U64x4.splat_rotate_right,
    null_bind_eq, pure, null_bind_assoc]
  rfl
theorem src_null_u64x4_write_to_slice_unaligned : Null.U64x4.write_to_slice_unaligned = Gen.NullSrc.U64x4.write_to_slice_unaligned := rfl
theorem src_null_u64x4_zipmap : Null.U64x4.zipmap = Gen.NullSrc.U64x4.zipmap := rfl

/-! ## u32x4x4 -/

theorem src_null_u32x4x4_add : Null.U32x4x4.add = Gen.NullSrc.U32x4x4.add := rfl
theorem src_null_u32x4x4_add_assign : Null.U32x4x4.add_assign = Gen.NullSrc.U32x4x4.add_assign := rfl
theorem src_null_u32x4x4_bitand : Null.U32x4x4.bitand = Gen.NullSrc.U32x4x4.bitand := rfl
theorem src_null_u32x4x4_bitor : Null.U32x4x4.bitor = Gen.NullSrc.U32x4x4.bitor := rfl
theorem src_null_u32x4x4_bitxor : Null.U32x4x4.bitxor = Gen.NullSrc.U32x4x4.bitxor := rfl
theorem src_null_u32x4x4_bitxor_assign : Null.U32x4x4.bitxor_assign = Gen.NullSrc.U32x4x4.bitxor_assign := rfl
theorem src_null_u32x4x4_clone : Null.U32x4x4.clone = Gen.NullSrc.U32x4x4.clone := rfl
theorem src_null_u32x4x4_from : Null.U32x4x4.from_ = Gen.NullSrc.U32x4x4.from_ := rfl
theorem src_null_u32x4x4_into_parts : Null.U32x4x4.into_parts = Gen.NullSrc.U32x4x4.into_parts := rfl
theorem src_null_u32x4x4_rotate_words_right : Null.U32x4x4.rotate_words_right = Gen.NullSrc.U32x4x4.rotate_words_right := rfl
theorem src_null_u32x4x4_splat : Null.U32x4x4.splat = Gen.NullSrc.U32x4x4.splat := rfl
theorem src_null_u32x4x4_splat_rotate_right : Null.U32x4x4.splat_rotate_right = Gen.NullSrc.U32x4x4.splat_rotate_right := by
  unfold Gen.NullSrc.U32x4x4.splat_rotate_right
  rw [← src_null_u32x4_splat_rotate_right]; rfl
theorem src_null_u32x4x4_zipmap : Null.U32x4x4.zipmap = Gen.NullSrc.U32x4x4.zipmap := rfl

end CC.Src
