/-
  CC.Null.Model — implementation-shaped model of /repo/utils-simd/ppv-null/src/lib.rs.

  One definition per public method / operator impl of the five emulated vector types
  `u32x4, u64x4` (macro `define_vec4!`), `u128x1` (`define_vec1!`), `u128x2` (`define_vec2!`) and the
  hand-written `u32x4x4`; the macros are expanded per type.  Every definition follows the Rust
  statement by statement:

  * tuple fields `.0 .1 .2 .3` are the structure fields `a b c d`;
  * `&mut self` methods return the new value of `*self` (and the function result, if any);
  * slices are lists; `xs[i]` is `idx xs i` (panics in BOTH profiles when out of bounds);
  * `debug_assert_eq!` is `dbgAssert` (panics only in `Profile.debug`);
  * `x >> i`, `x << i`, `a - b` on fixed-width integers are `shr`, `shl`, `subU32`: overflow panics in
    `Profile.debug` (overflow-checks = true), masked shift / wrapping subtraction in `Profile.release`;
  * `wrapping_add`, `^`, `&`, `|`, `!`, `rotate_right` never panic and are the plain `BitVec` operations
    (`uN::rotate_right(n)` rotates by `n mod N`).

  The Rust primitives (`dbgAssert`, `idx`, `setIdx`, `rotr`, `shr`, `shl`, `subU32`) and the five carrier
  structures `U128x1 … U32x4x4` live in CC.Null.Vocab (the vocabulary shared with the definitions that
  tools/inventory_null.py regenerates from the Rust source, lean/CC/Gen/NullSrc.lean; CC.Null.Src proves every
  definition of this file equal to its regenerated counterpart).

  Import-free apart from CC.Prim / CC.Null.Vocab (linked into the driver executable).
-/
import CC.Null.Vocab
namespace CC.Null
open CC

/-! ## `define_vec1!(u128x1, u128)` -/

namespace U128x1

/-- `pub fn new(a: u128) -> Self { u128x1(a) }` -/
def new (a : BitVec 128) : U128x1 := ⟨a⟩

/-- `#[derive(Copy, Clone)]` -/
def clone (self : U128x1) : U128x1 := self

/-- `pub fn rotate_right(&mut self, i: u128) { self.0 = self.0.rotate_right(i as u32); }`
    (`i as u32` truncates; returns the new `*self`). -/
def rotate_right (self : U128x1) (i : BitVec 128) : U128x1 := ⟨rotr self.a (i.setWidth 32)⟩

/-- `pub fn load(xs: &[u128]) -> Self { debug_assert_eq!(xs.len(), 1); u128x1(xs[0]) }` -/
def load (p : Profile) (xs : List (BitVec 128)) : Out U128x1 := do
  dbgAssert p (xs.length == 1)
  let x0 ← idx xs 0
  pure ⟨x0⟩

/-- `pub fn xor_store(self, xs: &mut [u128]) { debug_assert_eq!(xs.len(), 1); xs[0] ^= self.0; }`
    (returns the slice contents afterwards). -/
def xor_store (p : Profile) (self : U128x1) (xs : List (BitVec 128)) : Out (List (BitVec 128)) := do
  dbgAssert p (xs.length == 1)
  let x0 ← idx xs 0
  setIdx xs 0 (x0 ^^^ self.a)

/-- `pub fn into_inner(self) -> u128 { self.0 }` -/
def into_inner (self : U128x1) : BitVec 128 := self.a

/-- private `fn swap(self, m: u128, i: u32) -> Self { u128x1(((self.0 & m) >> i) | ((self.0) << i) & m) }`.
    Rust precedence: shifts bind tighter than `&`, `&` tighter than `|`, so this is
    `((self.0 & m) >> i) | (((self.0) << i) & m)`; evaluated left to right. -/
def swap (p : Profile) (self : U128x1) (m : BitVec 128) (i : BitVec 32) : Out U128x1 := do
  let l ← shr p (self.a &&& m) i
  let r ← shl p self.a i
  pure ⟨l ||| (r &&& m)⟩

def swap1 (p : Profile) (self : U128x1) : Out U128x1 := swap p self 0xaaaaaaaaaaaaaaaaaaaaaaaaaaaaaaaa#128 1#32
def swap2 (p : Profile) (self : U128x1) : Out U128x1 := swap p self 0xcccccccccccccccccccccccccccccccc#128 2#32
def swap4 (p : Profile) (self : U128x1) : Out U128x1 := swap p self 0xf0f0f0f0f0f0f0f0f0f0f0f0f0f0f0f0#128 4#32
def swap8 (p : Profile) (self : U128x1) : Out U128x1 := swap p self 0xff00ff00ff00ff00ff00ff00ff00ff00#128 8#32
def swap16 (p : Profile) (self : U128x1) : Out U128x1 := swap p self 0xffff0000ffff0000ffff0000ffff0000#128 16#32
def swap32 (p : Profile) (self : U128x1) : Out U128x1 := swap p self 0xffffffff00000000ffffffff00000000#128 32#32

/-- `pub fn swap64(self) -> Self { u128x1(self.0 << 64 | self.0 >> 64) }` (`<<`,`>>` bind tighter than `|`). -/
def swap64 (p : Profile) (self : U128x1) : Out U128x1 := do
  let l ← shl p self.a 64#32
  let r ← shr p self.a 64#32
  pure ⟨l ||| r⟩

/-- `impl BitAnd`: `u128x1(self.0 & rhs.0)` -/
def bitand (self rhs : U128x1) : U128x1 := ⟨self.a &&& rhs.a⟩
/-- `impl Not`: `u128x1(!self.0)` -/
def not (self : U128x1) : U128x1 := ⟨~~~ self.a⟩
/-- `pub fn andnot(self, rhs: Self) -> Self { !self & rhs }` (`!` binds tighter than `&`). -/
def andnot (self rhs : U128x1) : U128x1 := bitand (not self) rhs

/-- `pub fn extract(self, i: u32) -> u128 { debug_assert_eq!(i, 0); self.0 }` -/
def extract (p : Profile) (self : U128x1) (i : BitVec 32) : Out (BitVec 128) := do
  dbgAssert p (i == 0#32)
  pure self.a

/-- `impl AddAssign`: `self.0 = self.0.wrapping_add(rhs.0);` (current source, after fix aa9508a). -/
def add_assign (self rhs : U128x1) : U128x1 := ⟨self.a + rhs.a⟩
/-- `impl BitXorAssign`: `self.0 ^= rhs.0;` -/
def bitxor_assign (self rhs : U128x1) : U128x1 := ⟨self.a ^^^ rhs.a⟩
/-- `impl BitXor`: `u128x1(self.0 ^ rhs.0)` -/
def bitxor (self rhs : U128x1) : U128x1 := ⟨self.a ^^^ rhs.a⟩

end U128x1

/-! ## `define_vec2!(u128x2, u128)` -/

namespace U128x2

def new (a b : BitVec 128) : U128x2 := ⟨a, b⟩
def clone (self : U128x2) : U128x2 := self

/-- private `fn map(self, f) -> Self { u128x2(f(self.0), f(self.1)) }` -/
def map (self : U128x2) (f : BitVec 128 → BitVec 128) : U128x2 := ⟨f self.a, f self.b⟩
/-- private `fn zipmap(self, rhs, f) -> Self { u128x2(f(self.0, rhs.0), f(self.1, rhs.1)) }` -/
def zipmap (self rhs : U128x2) (f : BitVec 128 → BitVec 128 → BitVec 128) : U128x2 :=
  ⟨f self.a rhs.a, f self.b rhs.b⟩

/-- `pub fn rotate_right(&mut self, i: u128) { *self = self.map(|x| u128::rotate_right(x, i as u32)); }` -/
def rotate_right (self : U128x2) (i : BitVec 128) : U128x2 := self.map (fun x => rotr x (i.setWidth 32))

/-- `pub fn load(xs: &[u128]) -> Self { debug_assert_eq!(xs.len(), 2); u128x2(xs[0], xs[1]) }` -/
def load (p : Profile) (xs : List (BitVec 128)) : Out U128x2 := do
  dbgAssert p (xs.length == 2)
  let x0 ← idx xs 0
  let x1 ← idx xs 1
  pure ⟨x0, x1⟩

/-- `pub fn xor_store(self, xs: &mut [u128]) { debug_assert_eq!(xs.len(), 2); xs[0] ^= self.0; xs[1] ^= self.1; }` -/
def xor_store (p : Profile) (self : U128x2) (xs : List (BitVec 128)) : Out (List (BitVec 128)) := do
  dbgAssert p (xs.length == 2)
  let x0 ← idx xs 0
  let xs ← setIdx xs 0 (x0 ^^^ self.a)
  let x1 ← idx xs 1
  setIdx xs 1 (x1 ^^^ self.b)

/-- `pub fn extract(self, i: u32) -> u128 { let x = [self.0, self.1]; x[i as usize] }` -/
def extract (self : U128x2) (i : BitVec 32) : Out (BitVec 128) := idx [self.a, self.b] i.toNat

/-- `impl BitAnd`: `u128x2(self.0 & rhs.0, self.1 & rhs.1)` -/
def bitand (self rhs : U128x2) : U128x2 := ⟨self.a &&& rhs.a, self.b &&& rhs.b⟩
/-- `impl Not`: `u128x2(!self.0, !self.1)` -/
def not (self : U128x2) : U128x2 := ⟨~~~ self.a, ~~~ self.b⟩
/-- `impl BitOr`: `u128x2(self.0 | rhs.0, self.1 | rhs.1)` -/
def bitor (self rhs : U128x2) : U128x2 := ⟨self.a ||| rhs.a, self.b ||| rhs.b⟩
/-- `pub fn andnot(self, rhs: Self) -> Self { !self & rhs }` -/
def andnot (self rhs : U128x2) : U128x2 := bitand (not self) rhs

/-- `impl AddAssign`: `*self = self.zipmap(rhs, u128::wrapping_add);` -/
def add_assign (self rhs : U128x2) : U128x2 := self.zipmap rhs (· + ·)
/-- `impl BitXorAssign`: `*self = self.zipmap(rhs, u128::bitxor);` -/
def bitxor_assign (self rhs : U128x2) : U128x2 := self.zipmap rhs (· ^^^ ·)

end U128x2

/-! ## `define_vec4!(u32x4, u32)` -/

namespace U32x4

/-- `const BITS: u32 = core::mem::size_of::<u32>() as u32 * 8;` -/
def BITS : BitVec 32 := 32#32

def new (a b c d : BitVec 32) : U32x4 := ⟨a, b, c, d⟩
def clone (self : U32x4) : U32x4 := self

/-- private `fn zipmap(self, rhs, f) -> Self` -/
def zipmap (self rhs : U32x4) (f : BitVec 32 → BitVec 32 → BitVec 32) : U32x4 :=
  ⟨f self.a rhs.a, f self.b rhs.b, f self.c rhs.c, f self.d rhs.d⟩

/-- `pub fn rotate_right(&mut self, ii: Self) -> Self { u32x4(self.0.rotate_right(ii.0 as u32), …) }`
    — note: takes `&mut self` but does NOT assign it; the rotated vector is the return value.
    Result: (`*self` afterwards, returned value). -/
def rotate_right (self ii : U32x4) : U32x4 × U32x4 :=
  (self, ⟨rotr self.a (ii.a.setWidth 32), rotr self.b (ii.b.setWidth 32),
          rotr self.c (ii.c.setWidth 32), rotr self.d (ii.d.setWidth 32)⟩)

/-- `pub fn from_slice_unaligned(xs: &[u32]) -> Self { debug_assert_eq!(xs.len(), 4); u32x4(xs[0], xs[1], xs[2], xs[3]) }` -/
def from_slice_unaligned (p : Profile) (xs : List (BitVec 32)) : Out U32x4 := do
  dbgAssert p (xs.length == 4)
  let x0 ← idx xs 0
  let x1 ← idx xs 1
  let x2 ← idx xs 2
  let x3 ← idx xs 3
  pure ⟨x0, x1, x2, x3⟩

/-- `pub fn splat(x: u32) -> Self { u32x4(x, x, x, x) }` -/
def splat (x : BitVec 32) : U32x4 := ⟨x, x, x, x⟩

/-- `pub fn write_to_slice_unaligned(self, xs: &mut [u32]) { debug_assert_eq!(xs.len(), 4); xs[0] = self.0; … xs[3] = self.3; }` -/
def write_to_slice_unaligned (p : Profile) (self : U32x4) (xs : List (BitVec 32)) : Out (List (BitVec 32)) := do
  dbgAssert p (xs.length == 4)
  let xs ← setIdx xs 0 self.a
  let xs ← setIdx xs 1 self.b
  let xs ← setIdx xs 2 self.c
  setIdx xs 3 self.d

/-- `pub fn replace(mut self, i: usize, v: u32) -> Self { let xs = [&mut self.0, …, &mut self.3]; *xs[i] = v; self }` -/
def replace (self : U32x4) (i : BitVec 64) (v : BitVec 32) : Out U32x4 :=
  match i.toNat with
  | 0 => .ok { self with a := v }
  | 1 => .ok { self with b := v }
  | 2 => .ok { self with c := v }
  | 3 => .ok { self with d := v }
  | _ => .panic "index out of bounds"

/-- `pub fn extract(self, i: usize) -> u32 { let xs = [self.0, self.1, self.2, self.3]; xs[i] }` -/
def extract (self : U32x4) (i : BitVec 64) : Out (BitVec 32) := idx [self.a, self.b, self.c, self.d] i.toNat

/-- `impl AddAssign`: `*self = self.zipmap(rhs, u32::wrapping_add);` -/
def add_assign (self rhs : U32x4) : U32x4 := self.zipmap rhs (· + ·)
/-- `impl BitXorAssign`: `*self = self.zipmap(rhs, u32::bitxor);` -/
def bitxor_assign (self rhs : U32x4) : U32x4 := self.zipmap rhs (· ^^^ ·)
/-- `zipmap_impl!(u32x4, u32, Add, add, wrapping_add)` -/
def add (self rhs : U32x4) : U32x4 := self.zipmap rhs (· + ·)
/-- `zipmap_impl!(u32x4, u32, BitXor, bitxor)` -/
def bitxor (self rhs : U32x4) : U32x4 := self.zipmap rhs (· ^^^ ·)
/-- `zipmap_impl!(u32x4, u32, BitOr, bitor)` -/
def bitor (self rhs : U32x4) : U32x4 := self.zipmap rhs (· ||| ·)
/-- `zipmap_impl!(u32x4, u32, BitAnd, bitand)` -/
def bitand (self rhs : U32x4) : U32x4 := self.zipmap rhs (· &&& ·)

/-- `impl RotateWordsRight`: `debug_assert_eq!(i & !3, 0); match i & 3 { 0 => self, 1 => (s.3,s.0,s.1,s.2),
    2 => (s.2,s.3,s.0,s.1), 3 => (s.1,s.2,s.3,s.0), _ => unreachable!() }` -/
def rotate_words_right (p : Profile) (self : U32x4) (i : BitVec 32) : Out U32x4 := do
  dbgAssert p ((i &&& ~~~ 3#32) == 0#32)
  match (i &&& 3#32).toNat with
  | 0 => pure self
  | 1 => pure ⟨self.d, self.a, self.b, self.c⟩
  | 2 => pure ⟨self.c, self.d, self.a, self.b⟩
  | 3 => pure ⟨self.b, self.c, self.d, self.a⟩
  | _ => .panic "unreachable"

/-- one lane of `splat_rotate_right`: `(x >> i) | (x << (BITS - i))`, evaluated left to right. -/
def srr_lane (p : Profile) (x : BitVec 32) (i : BitVec 32) : Out (BitVec 32) := do
  let l ← shr p x i
  let n ← subU32 p BITS i
  let r ← shl p x n
  pure (l ||| r)

/-- `impl SplatRotateRight`: `u32x4((self.0 >> i) | (self.0 << (BITS - i)), …)` -/
def splat_rotate_right (p : Profile) (self : U32x4) (i : BitVec 32) : Out U32x4 := do
  let a ← srr_lane p self.a i
  let b ← srr_lane p self.b i
  let c ← srr_lane p self.c i
  let d ← srr_lane p self.d i
  pure ⟨a, b, c, d⟩

end U32x4

/-! ## `define_vec4!(u64x4, u64)` -/

namespace U64x4

/-- `const BITS: u32 = core::mem::size_of::<u64>() as u32 * 8;` -/
def BITS : BitVec 32 := 64#32

def new (a b c d : BitVec 64) : U64x4 := ⟨a, b, c, d⟩
def clone (self : U64x4) : U64x4 := self

def zipmap (self rhs : U64x4) (f : BitVec 64 → BitVec 64 → BitVec 64) : U64x4 :=
  ⟨f self.a rhs.a, f self.b rhs.b, f self.c rhs.c, f self.d rhs.d⟩

/-- `pub fn rotate_right(&mut self, ii: Self) -> Self { u64x4(self.0.rotate_right(ii.0 as u32), …) }`
    (`ii.k as u32` truncates the 64-bit amount; `*self` is not assigned).  Result: (`*self` afterwards, returned value). -/
def rotate_right (self ii : U64x4) : U64x4 × U64x4 :=
  (self, ⟨rotr self.a (ii.a.setWidth 32), rotr self.b (ii.b.setWidth 32),
          rotr self.c (ii.c.setWidth 32), rotr self.d (ii.d.setWidth 32)⟩)

def from_slice_unaligned (p : Profile) (xs : List (BitVec 64)) : Out U64x4 := do
  dbgAssert p (xs.length == 4)
  let x0 ← idx xs 0
  let x1 ← idx xs 1
  let x2 ← idx xs 2
  let x3 ← idx xs 3
  pure ⟨x0, x1, x2, x3⟩

def splat (x : BitVec 64) : U64x4 := ⟨x, x, x, x⟩

def write_to_slice_unaligned (p : Profile) (self : U64x4) (xs : List (BitVec 64)) : Out (List (BitVec 64)) := do
  dbgAssert p (xs.length == 4)
  let xs ← setIdx xs 0 self.a
  let xs ← setIdx xs 1 self.b
  let xs ← setIdx xs 2 self.c
  setIdx xs 3 self.d

def replace (self : U64x4) (i : BitVec 64) (v : BitVec 64) : Out U64x4 :=
  match i.toNat with
  | 0 => .ok { self with a := v }
  | 1 => .ok { self with b := v }
  | 2 => .ok { self with c := v }
  | 3 => .ok { self with d := v }
  | _ => .panic "index out of bounds"

def extract (self : U64x4) (i : BitVec 64) : Out (BitVec 64) := idx [self.a, self.b, self.c, self.d] i.toNat

def add_assign (self rhs : U64x4) : U64x4 := self.zipmap rhs (· + ·)
def bitxor_assign (self rhs : U64x4) : U64x4 := self.zipmap rhs (· ^^^ ·)
def add (self rhs : U64x4) : U64x4 := self.zipmap rhs (· + ·)
def bitxor (self rhs : U64x4) : U64x4 := self.zipmap rhs (· ^^^ ·)
def bitor (self rhs : U64x4) : U64x4 := self.zipmap rhs (· ||| ·)
def bitand (self rhs : U64x4) : U64x4 := self.zipmap rhs (· &&& ·)

def rotate_words_right (p : Profile) (self : U64x4) (i : BitVec 32) : Out U64x4 := do
  dbgAssert p ((i &&& ~~~ 3#32) == 0#32)
  match (i &&& 3#32).toNat with
  | 0 => pure self
  | 1 => pure ⟨self.d, self.a, self.b, self.c⟩
  | 2 => pure ⟨self.c, self.d, self.a, self.b⟩
  | 3 => pure ⟨self.b, self.c, self.d, self.a⟩
  | _ => .panic "unreachable"

def srr_lane (p : Profile) (x : BitVec 64) (i : BitVec 32) : Out (BitVec 64) := do
  let l ← shr p x i
  let n ← subU32 p BITS i
  let r ← shl p x n
  pure (l ||| r)

def splat_rotate_right (p : Profile) (self : U64x4) (i : BitVec 32) : Out U64x4 := do
  let a ← srr_lane p self.a i
  let b ← srr_lane p self.b i
  let c ← srr_lane p self.c i
  let d ← srr_lane p self.d i
  pure ⟨a, b, c, d⟩

end U64x4

/-! ## `u32x4x4` (hand-written) -/

namespace U32x4x4

def clone (self : U32x4x4) : U32x4x4 := self

/-- private `fn zipmap(self, rhs, f) -> Self` -/
def zipmap (self rhs : U32x4x4) (f : U32x4 → U32x4 → U32x4) : U32x4x4 :=
  ⟨f self.a rhs.a, f self.b rhs.b, f self.c rhs.c, f self.d rhs.d⟩

/-- `pub fn from((a, b, c, d): (u32x4, u32x4, u32x4, u32x4)) -> Self { u32x4x4(a, b, c, d) }` -/
def from_ (t : U32x4 × U32x4 × U32x4 × U32x4) : U32x4x4 := ⟨t.1, t.2.1, t.2.2.1, t.2.2.2⟩
/-- `pub fn splat(a: u32x4) -> Self { u32x4x4(a, a, a, a) }` -/
def splat (a : U32x4) : U32x4x4 := ⟨a, a, a, a⟩
/-- `pub fn into_parts(self) -> (u32x4, u32x4, u32x4, u32x4) { (self.0, self.1, self.2, self.3) }` -/
def into_parts (self : U32x4x4) : U32x4 × U32x4 × U32x4 × U32x4 := (self.a, self.b, self.c, self.d)

/-- `zipmap_impl!(u32x4x4, u32x4, BitXor, bitxor)` -/
def bitxor (self rhs : U32x4x4) : U32x4x4 := self.zipmap rhs U32x4.bitxor
/-- `zipmap_impl!(u32x4x4, u32x4, BitOr, bitor)` -/
def bitor (self rhs : U32x4x4) : U32x4x4 := self.zipmap rhs U32x4.bitor
/-- `zipmap_impl!(u32x4x4, u32x4, BitAnd, bitand)` -/
def bitand (self rhs : U32x4x4) : U32x4x4 := self.zipmap rhs U32x4.bitand
/-- `zipmap_impl!(u32x4x4, u32x4, Add, add)` -/
def add (self rhs : U32x4x4) : U32x4x4 := self.zipmap rhs U32x4.add

/-- `impl BitXorAssign`: `self.0 = self.0 ^ rhs.0; … self.3 = self.3 ^ rhs.3;` -/
def bitxor_assign (self rhs : U32x4x4) : U32x4x4 :=
  ⟨U32x4.bitxor self.a rhs.a, U32x4.bitxor self.b rhs.b, U32x4.bitxor self.c rhs.c, U32x4.bitxor self.d rhs.d⟩
/-- `impl AddAssign`: `self.0 = self.0 + rhs.0; … self.3 = self.3 + rhs.3;` -/
def add_assign (self rhs : U32x4x4) : U32x4x4 :=
  ⟨U32x4.add self.a rhs.a, U32x4.add self.b rhs.b, U32x4.add self.c rhs.c, U32x4.add self.d rhs.d⟩

/-- `impl RotateWordsRight`: forwards to the four parts, in order. -/
def rotate_words_right (p : Profile) (self : U32x4x4) (i : BitVec 32) : Out U32x4x4 := do
  let a ← U32x4.rotate_words_right p self.a i
  let b ← U32x4.rotate_words_right p self.b i
  let c ← U32x4.rotate_words_right p self.c i
  let d ← U32x4.rotate_words_right p self.d i
  pure ⟨a, b, c, d⟩

/-- `impl SplatRotateRight`: forwards to the four parts, in order. -/
def splat_rotate_right (p : Profile) (self : U32x4x4) (i : BitVec 32) : Out U32x4x4 := do
  let a ← U32x4.splat_rotate_right p self.a i
  let b ← U32x4.splat_rotate_right p self.b i
  let c ← U32x4.splat_rotate_right p self.c i
  let d ← U32x4.splat_rotate_right p self.d i
  pure ⟨a, b, c, d⟩

end U32x4x4

end CC.Null
