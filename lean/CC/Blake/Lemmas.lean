/-
  CC.Blake.Lemmas — helper lemmas for C04/C17 (BLAKE).

  Part 1: lane algebra for the 256-bit `u64x4` carrier (the 128-bit one is in CC/Simd/Lemmas.lean),
          and "lawful vector operations" (`VLaws`): what `put_block` needs of a `VOps`.
  Part 2: `put_block` on lawful vector operations = `Spec.compress` (row/diagonal argument).
-/
import CC.Blake.Model
import CC.Blake.Spec
import CC.Simd.Lemmas
namespace CC.Blake
open CC CC.Simd

/-! ## Part 1a: lanes of the 256-bit carrier -/

@[simp] theorem w64_pack64x4_0 (a b c d : BitVec 64) : w64 (pack64x4 a b c d) 0 = a := by
  unfold w64 pack64x4; bv_decide
@[simp] theorem w64_pack64x4_1 (a b c d : BitVec 64) : w64 (pack64x4 a b c d) 1 = b := by
  unfold w64 pack64x4; bv_decide
@[simp] theorem w64_pack64x4_2 (a b c d : BitVec 64) : w64 (pack64x4 a b c d) 2 = c := by
  unfold w64 pack64x4; bv_decide
@[simp] theorem w64_pack64x4_3 (a b c d : BitVec 64) : w64 (pack64x4 a b c d) 3 = d := by
  unfold w64 pack64x4; bv_decide

theorem pack64x4_w64 (v : BitVec 256) : pack64x4 (w64 v 0) (w64 v 1) (w64 v 2) (w64 v 3) = v := by
  unfold w64 pack64x4; bv_decide

@[simp] theorem w64_xor_0 (a b : BitVec 256) : w64 (a ^^^ b) 0 = w64 a 0 ^^^ w64 b 0 := by
  unfold w64; bv_decide
@[simp] theorem w64_xor_1 (a b : BitVec 256) : w64 (a ^^^ b) 1 = w64 a 1 ^^^ w64 b 1 := by
  unfold w64; bv_decide
@[simp] theorem w64_xor_2 (a b : BitVec 256) : w64 (a ^^^ b) 2 = w64 a 2 ^^^ w64 b 2 := by
  unfold w64; bv_decide
@[simp] theorem w64_xor_3 (a b : BitVec 256) : w64 (a ^^^ b) 3 = w64 a 3 ^^^ w64 b 3 := by
  unfold w64; bv_decide

/-- two 128-bit halves of two 64-bit lanes each are the four 64-bit words -/
theorem pack256_pack64 (a b c d : BitVec 64) : pack256 (pack64 a b) (pack64 c d) = pack64x4 a b c d := by
  unfold pack256 pack64 pack64x4; bv_decide

@[simp] theorem lane64_lo128_0 (v : BitVec 256) : lane64 (lo128 v) 0 = w64 v 0 := by
  unfold lane64 lo128 w64; bv_decide
@[simp] theorem lane64_lo128_1 (v : BitVec 256) : lane64 (lo128 v) 1 = w64 v 1 := by
  unfold lane64 lo128 w64; bv_decide
@[simp] theorem lane64_hi128_0 (v : BitVec 256) : lane64 (hi128 v) 0 = w64 v 2 := by
  unfold lane64 hi128 w64; bv_decide
@[simp] theorem lane64_hi128_1 (v : BitVec 256) : lane64 (hi128 v) 1 = w64 v 3 := by
  unfold lane64 hi128 w64; bv_decide

theorem zip256_zip64 (f : BitVec 64 → BitVec 64 → BitVec 64) (a b : BitVec 256) :
    zip256 (zip64 f) a b =
      pack64x4 (f (w64 a 0) (w64 b 0)) (f (w64 a 1) (w64 b 1)) (f (w64 a 2) (w64 b 2)) (f (w64 a 3) (w64 b 3)) := by
  simp [zip256, zip64, pack256_pack64]

theorem map256_map64 (f : BitVec 64 → BitVec 64) (a : BitVec 256) :
    map256 (map64 f) a = pack64x4 (f (w64 a 0)) (f (w64 a 1)) (f (w64 a 2)) (f (w64 a 3)) := by
  simp [map256, map64, pack256_pack64]

/-! ## Part 1b: lawful vector operations -/

/-- the four words of a vector -/
structure Quad (w : Nat) where
  x0 : BitVec w
  x1 : BitVec w
  x2 : BitVec w
  x3 : BitVec w

/-- `O` computes lane-wise what its names say, with respect to the lane reading `Q`. -/
structure VLaws {w V} (O : VOps w V) (Q : V → Quad w) : Prop where
  vec : ∀ a b c d, Q (O.vec a b c d) = ⟨a, b, c, d⟩
  add : ∀ x y, Q (O.add x y) = ⟨(Q x).x0 + (Q y).x0, (Q x).x1 + (Q y).x1, (Q x).x2 + (Q y).x2, (Q x).x3 + (Q y).x3⟩
  xor : ∀ x y, Q (O.xor x y) = ⟨(Q x).x0 ^^^ (Q y).x0, (Q x).x1 ^^^ (Q y).x1, (Q x).x2 ^^^ (Q y).x2, (Q x).x3 ^^^ (Q y).x3⟩
  rotr : ∀ k x, Q (O.rotr k x) = ⟨(Q x).x0.rotateRight k, (Q x).x1.rotateRight k, (Q x).x2.rotateRight k, (Q x).x3.rotateRight k⟩
  shuf1230 : ∀ x, Q (O.shuf1230 x) = ⟨(Q x).x3, (Q x).x0, (Q x).x1, (Q x).x2⟩
  shuf2301 : ∀ x, Q (O.shuf2301 x) = ⟨(Q x).x2, (Q x).x3, (Q x).x0, (Q x).x1⟩
  shuf3012 : ∀ x, Q (O.shuf3012 x) = ⟨(Q x).x1, (Q x).x2, (Q x).x3, (Q x).x0⟩

def quad32 (v : BitVec 128) : Quad 32 := ⟨lane32 v 0, lane32 v 1, lane32 v 2, lane32 v 3⟩
def quad64 (v : BitVec 256) : Quad 64 := ⟨w64 v 0, w64 v 1, w64 v 2, w64 v 3⟩

theorem laws32_ref : VLaws (vops32 Mach.ref) quad32 where
  vec := by intros; simp [vops32, Mach.ref, quad32]
  add := by intros; simp [vops32, Mach.ref, quad32, zip32]
  xor := by intros; simp [vops32, Mach.ref, quad32]
  rotr := by intros; simp [vops32, Mach.ref, quad32, map32]
  shuf1230 := by intros; simp [vops32, Mach.ref, quad32, shuf1230_32]
  shuf2301 := by intros; simp [vops32, Mach.ref, quad32, shuf2301_32]
  shuf3012 := by intros; simp [vops32, Mach.ref, quad32, shuf3012_32]

theorem laws64_ref : VLaws (vops64 Mach.ref) quad64 where
  vec := by intros; simp [vops64, Mach.ref, quad64]
  add := by intros; simp [vops64, Mach.ref, quad64, zip256_zip64]
  xor := by intros; simp [vops64, Mach.ref, quad64]
  rotr := by intros; simp [vops64, Mach.ref, quad64, map256_map64]
  shuf1230 := by intros; simp [vops64, Mach.ref, quad64, shuf1230_64]
  shuf2301 := by intros; simp [vops64, Mach.ref, quad64, shuf2301_64]
  shuf3012 := by intros; simp [vops64, Mach.ref, quad64, shuf3012_64]

/-! ## Part 2: `put_block` = `Spec.compress` -/

/-- the specification parameters a compressor instantiation denotes -/
def specParams {w} (C : CParams w) : Spec.Params w :=
  { c := C.u, rounds := C.rounds, r0 := C.r0, r1 := C.r1, r2 := C.r2, r3 := C.r3 }

/-- the sixteen words of four rows (row a = v0..v3, b = v4..v7, c = v8..v11, d = v12..v15) -/
def toV16 {w V} (Q : V → Quad w) (x : Rows V) : Spec.V16 w :=
  { v0 := (Q x.a).x0, v1 := (Q x.a).x1, v2 := (Q x.a).x2, v3 := (Q x.a).x3,
    v4 := (Q x.b).x0, v5 := (Q x.b).x1, v6 := (Q x.b).x2, v7 := (Q x.b).x3,
    v8 := (Q x.c).x0, v9 := (Q x.c).x1, v10 := (Q x.c).x2, v11 := (Q x.c).x3,
    v12 := (Q x.d).x0, v13 := (Q x.d).x1, v14 := (Q x.d).x2, v15 := (Q x.d).x3 }

/-- the eight chaining words a compressor state denotes -/
def hWords {w V} (Q : V → Quad w) (s : Compressor V) : List (BitVec w) :=
  [(Q s.h0).x0, (Q s.h0).x1, (Q s.h0).x2, (Q s.h0).x3, (Q s.h1).x0, (Q s.h1).x1, (Q s.h1).x2, (Q s.h1).x3]

theorem bv_add_right_comm {w} (a b c : BitVec w) : a + b + c = a + c + b := by
  rw [BitVec.add_assoc, BitVec.add_comm b c, ← BitVec.add_assoc]

/-- what `round32`/`round64` compute in one lane: G with the additions associated as in the Rust
    (`a += m0; a += b`) -/
def Gm {w} (C : CParams w) (a b c d x y : BitVec w) : BitVec w × BitVec w × BitVec w × BitVec w :=
  let a := a + x + b
  let d := (d ^^^ a).rotateRight C.r0
  let c := c + d
  let b := (b ^^^ c).rotateRight C.r1
  let a := a + y + b
  let d := (d ^^^ a).rotateRight C.r2
  let c := c + d
  let b := (b ^^^ c).rotateRight C.r3
  (a, b, c, d)

theorem G_eq_Gm {w} (C : CParams w) (m : List (BitVec w)) (s : List Nat) (i : Nat) (a b c d : BitVec w) :
    Spec.G (specParams C) m s i a b c d =
      Gm C a b c d (m.getD (s.getD (2 * i) 0) 0 ^^^ C.u.getD (s.getD (2 * i + 1) 0) 0)
                   (m.getD (s.getD (2 * i + 1) 0) 0 ^^^ C.u.getD (s.getD (2 * i) 0) 0) := by
  simp only [Spec.G, Gm, specParams]
  rw [bv_add_right_comm a b]
  generalize (m.getD (s.getD (2 * i) 0) 0 ^^^ C.u.getD (s.getD (2 * i + 1) 0) 0) = x
  generalize (m.getD (s.getD (2 * i + 1) 0) 0 ^^^ C.u.getD (s.getD (2 * i) 0) 0) = y
  generalize a + x + b = a1
  rw [bv_add_right_comm a1 _ y]

theorem roundV_a {w V} {O : VOps w V} {Q : V → Quad w} (L : VLaws O Q) (C : CParams w) (x : Rows V) (m0 m1 : V) :
    Q (roundV O C x m0 m1).a =
      ⟨(Gm C (Q x.a).x0 (Q x.b).x0 (Q x.c).x0 (Q x.d).x0 (Q m0).x0 (Q m1).x0).1,
       (Gm C (Q x.a).x1 (Q x.b).x1 (Q x.c).x1 (Q x.d).x1 (Q m0).x1 (Q m1).x1).1,
       (Gm C (Q x.a).x2 (Q x.b).x2 (Q x.c).x2 (Q x.d).x2 (Q m0).x2 (Q m1).x2).1,
       (Gm C (Q x.a).x3 (Q x.b).x3 (Q x.c).x3 (Q x.d).x3 (Q m0).x3 (Q m1).x3).1⟩ := by
  simp [roundV, Gm, L.add, L.xor, L.rotr]

theorem roundV_b {w V} {O : VOps w V} {Q : V → Quad w} (L : VLaws O Q) (C : CParams w) (x : Rows V) (m0 m1 : V) :
    Q (roundV O C x m0 m1).b =
      ⟨(Gm C (Q x.a).x0 (Q x.b).x0 (Q x.c).x0 (Q x.d).x0 (Q m0).x0 (Q m1).x0).2.1,
       (Gm C (Q x.a).x1 (Q x.b).x1 (Q x.c).x1 (Q x.d).x1 (Q m0).x1 (Q m1).x1).2.1,
       (Gm C (Q x.a).x2 (Q x.b).x2 (Q x.c).x2 (Q x.d).x2 (Q m0).x2 (Q m1).x2).2.1,
       (Gm C (Q x.a).x3 (Q x.b).x3 (Q x.c).x3 (Q x.d).x3 (Q m0).x3 (Q m1).x3).2.1⟩ := by
  simp [roundV, Gm, L.add, L.xor, L.rotr]

theorem roundV_c {w V} {O : VOps w V} {Q : V → Quad w} (L : VLaws O Q) (C : CParams w) (x : Rows V) (m0 m1 : V) :
    Q (roundV O C x m0 m1).c =
      ⟨(Gm C (Q x.a).x0 (Q x.b).x0 (Q x.c).x0 (Q x.d).x0 (Q m0).x0 (Q m1).x0).2.2.1,
       (Gm C (Q x.a).x1 (Q x.b).x1 (Q x.c).x1 (Q x.d).x1 (Q m0).x1 (Q m1).x1).2.2.1,
       (Gm C (Q x.a).x2 (Q x.b).x2 (Q x.c).x2 (Q x.d).x2 (Q m0).x2 (Q m1).x2).2.2.1,
       (Gm C (Q x.a).x3 (Q x.b).x3 (Q x.c).x3 (Q x.d).x3 (Q m0).x3 (Q m1).x3).2.2.1⟩ := by
  simp [roundV, Gm, L.add, L.xor, L.rotr]

theorem roundV_d {w V} {O : VOps w V} {Q : V → Quad w} (L : VLaws O Q) (C : CParams w) (x : Rows V) (m0 m1 : V) :
    Q (roundV O C x m0 m1).d =
      ⟨(Gm C (Q x.a).x0 (Q x.b).x0 (Q x.c).x0 (Q x.d).x0 (Q m0).x0 (Q m1).x0).2.2.2,
       (Gm C (Q x.a).x1 (Q x.b).x1 (Q x.c).x1 (Q x.d).x1 (Q m0).x1 (Q m1).x1).2.2.2,
       (Gm C (Q x.a).x2 (Q x.b).x2 (Q x.c).x2 (Q x.d).x2 (Q m0).x2 (Q m1).x2).2.2.2,
       (Gm C (Q x.a).x3 (Q x.b).x3 (Q x.c).x3 (Q x.d).x3 (Q m0).x3 (Q m1).x3).2.2.2⟩ := by
  simp [roundV, Gm, L.add, L.xor, L.rotr]

/-- One iteration of the `for sigma in …` loop (column step; diagonalize; diagonal step with the
    message order (14, 8, 10, 12); undiagonalize) is one round of the specification. -/
theorem roundStep_eq {w V} {O : VOps w V} {Q : V → Quad w} (L : VLaws O Q) (C : CParams w)
    (m : List (BitVec w)) (s : List Nat) (xs : Rows V) :
    toV16 Q (roundStep O C m xs s) = Spec.round (specParams C) m s (toV16 Q xs) := by
  simp [roundStep, diagonalize, undiagonalize, toV16, Spec.round, G_eq_Gm, m0e, m1e,
    roundV_a L, roundV_b L, roundV_c L, roundV_d L, L.vec, L.shuf1230, L.shuf2301, L.shuf3012]

theorem foldl_roundStep_eq {w V} {O : VOps w V} {Q : V → Quad w} (L : VLaws O Q) (C : CParams w)
    (m : List (BitVec w)) (l : List (List Nat)) (xs : Rows V) :
    toV16 Q (l.foldl (roundStep O C m) xs) =
      l.foldl (fun v s => Spec.round (specParams C) m s v) (toV16 Q xs) := by
  induction l generalizing xs with
  | nil => rfl
  | cons s l ih => simp [List.foldl_cons, ih, roundStep_eq L]

theorem initRows_eq {w V} {O : VOps w V} {Q : V → Quad w} (L : VLaws O Q) (C : CParams w)
    (st : Compressor V) (t : BitVec w × BitVec w) :
    toV16 Q (initRows O C st t) = Spec.initV (specParams C) (hWords Q st) t.1 t.2 := by
  simp [initRows, toV16, Spec.initV, hWords, specParams, L.vec, L.xor, BitVec.xor_comm]

theorem mWords_eq {w} (C : CParams w) (hw : C.wbytes = w / 8) (block : List (BitVec 8)) :
    mWords C block = Spec.blockWords w block := by
  simp [mWords, Spec.blockWords, hw]

/-- `put_block` on lawful vector operations is the specified compression function, for every
    chaining value, block and counter.  `hS`: the first `$rounds` rows of the 16-row `SIGMA` table
    are σ_{r mod 10}. -/
theorem putBlock_eq_compress {w V} {O : VOps w V} {Q : V → Quad w} (L : VLaws O Q) (C : CParams w)
    (hw : C.wbytes = w / 8)
    (hS : SIGMA.take C.rounds = (List.range C.rounds).map Spec.sigmaRow)
    (st : Compressor V) (block : List (BitVec 8)) (t : BitVec w × BitVec w) :
    hWords Q (putBlock O C st block t) =
      Spec.compress (specParams C) (hWords Q st) block t.1 t.2 := by
  have h := foldl_roundStep_eq L C (mWords C block) (SIGMA.take C.rounds) (initRows O C st t)
  rw [initRows_eq L] at h
  have hr : (specParams C).rounds = C.rounds := rfl
  simp only [Spec.compress, Spec.compressW, Spec.rounds, hr]
  rw [← mWords_eq C hw]
  have h2 : ∀ init : Spec.V16 w,
      (List.range C.rounds).foldl (fun v r => Spec.round (specParams C) (mWords C block) (Spec.sigmaRow r) v) init
        = (SIGMA.take C.rounds).foldl (fun v s => Spec.round (specParams C) (mWords C block) s v) init := by
    intro init; rw [hS, List.foldl_map]
  rw [h2, ← h]
  simp only [putBlock]
  generalize (SIGMA.take C.rounds).foldl (roundStep O C (mWords C block)) (initRows O C st t) = xs
  simp [hWords, Spec.finish, toV16, L.xor]

end CC.Blake
