/-
  CC.Blake.Spec — BLAKE-224/256/384/512 as in the SHA-3 finalist specification
  (Aumasson, Henzen, Meier, Phan: "SHA-3 proposal BLAKE", version 1.3, §2.1 BLAKE-256, §2.2 BLAKE-512,
  §2.3 BLAKE-224, §2.4 BLAKE-384), unsalted (s = 0).
  This is the *specification* side: written from the document, not from the Rust.

  The two word sizes share one text, parametrised by the word width `w ∈ {32, 64}`.
-/
import CC.Prim
namespace CC.Blake.Spec

/-- Table 2.2: the permutations σ_0 … σ_9. -/
def sigma : List (List Nat) :=
  [[0, 1, 2, 3, 4, 5, 6, 7, 8, 9, 10, 11, 12, 13, 14, 15],
   [14, 10, 4, 8, 9, 15, 13, 6, 1, 12, 0, 2, 11, 7, 5, 3],
   [11, 8, 12, 0, 5, 2, 15, 13, 10, 14, 3, 6, 7, 1, 9, 4],
   [7, 9, 3, 1, 13, 12, 11, 14, 2, 6, 5, 10, 4, 0, 15, 8],
   [9, 0, 5, 7, 2, 4, 10, 15, 14, 1, 11, 12, 6, 8, 3, 13],
   [2, 12, 6, 10, 0, 11, 8, 3, 4, 13, 7, 5, 15, 14, 1, 9],
   [12, 5, 1, 15, 14, 13, 4, 10, 0, 7, 6, 3, 9, 2, 8, 11],
   [13, 11, 7, 14, 12, 1, 3, 9, 5, 0, 15, 4, 8, 6, 2, 10],
   [6, 15, 14, 9, 11, 3, 0, 8, 12, 2, 13, 7, 1, 4, 10, 5],
   [10, 2, 8, 4, 7, 6, 1, 5, 15, 11, 9, 14, 3, 12, 13, 0]]

/-- the permutation used in round `r` is σ_{r mod 10} -/
def sigmaRow (r : Nat) : List Nat := sigma.getD (r % 10) []

/-- Per word size: the 16 constants, the number of rounds and the four rotation distances of G. -/
structure Params (w : Nat) where
  c : List (BitVec w)
  rounds : Nat
  r0 : Nat
  r1 : Nat
  r2 : Nat
  r3 : Nat

/-- §2.1.1: c_0 … c_15 (leading digits of π). -/
def c32 : List (BitVec 32) :=
  [0x243F6A88#32, 0x85A308D3#32, 0x13198A2E#32, 0x03707344#32,
   0xA4093822#32, 0x299F31D0#32, 0x082EFA98#32, 0xEC4E6C89#32,
   0x452821E6#32, 0x38D01377#32, 0xBE5466CF#32, 0x34E90C6C#32,
   0xC0AC29B7#32, 0xC97C50DD#32, 0x3F84D5B5#32, 0xB5470917#32]

/-- §2.2.1 -/
def c64 : List (BitVec 64) :=
  [0x243F6A8885A308D3#64, 0x13198A2E03707344#64, 0xA4093822299F31D0#64, 0x082EFA98EC4E6C89#64,
   0x452821E638D01377#64, 0xBE5466CF34E90C6C#64, 0xC0AC29B7C97C50DD#64, 0x3F84D5B5B5470917#64,
   0x9216D5D98979FB1B#64, 0xD1310BA698DFB5AC#64, 0x2FFD72DBD01ADFB7#64, 0xB8E1AFED6A267E96#64,
   0xBA7C9045F12C7F99#64, 0x24A19947B3916CF7#64, 0x0801F2E2858EFC16#64, 0x636920D871574E69#64]

/-- BLAKE-256/224: 14 rounds, rotations 16, 12, 8, 7. -/
def p32 : Params 32 := { c := c32, rounds := 14, r0 := 16, r1 := 12, r2 := 8, r3 := 7 }
/-- BLAKE-512/384: 16 rounds, rotations 32, 25, 16, 11. -/
def p64 : Params 64 := { c := c64, rounds := 16, r0 := 32, r1 := 25, r2 := 16, r3 := 11 }

/-- The sixteen words of the inner state `v`. -/
structure V16 (w : Nat) where
  v0 : BitVec w
  v1 : BitVec w
  v2 : BitVec w
  v3 : BitVec w
  v4 : BitVec w
  v5 : BitVec w
  v6 : BitVec w
  v7 : BitVec w
  v8 : BitVec w
  v9 : BitVec w
  v10 : BitVec w
  v11 : BitVec w
  v12 : BitVec w
  v13 : BitVec w
  v14 : BitVec w
  v15 : BitVec w
  deriving DecidableEq, Repr

/-- `G_i(a,b,c,d)` of round `r` whose permutation is `s = σ_{r mod 10}` (§2.1.2):
      a ← a + b + (m_{σ(2i)} ⊕ c_{σ(2i+1)});  d ← (d ⊕ a) ⋙ r0;  c ← c + d;  b ← (b ⊕ c) ⋙ r1;
      a ← a + b + (m_{σ(2i+1)} ⊕ c_{σ(2i)});  d ← (d ⊕ a) ⋙ r2;  c ← c + d;  b ← (b ⊕ c) ⋙ r3. -/
def G {w} (P : Params w) (m : List (BitVec w)) (s : List Nat) (i : Nat) (a b c d : BitVec w) :
    BitVec w × BitVec w × BitVec w × BitVec w :=
  let a := a + b + (m.getD (s.getD (2 * i) 0) 0 ^^^ P.c.getD (s.getD (2 * i + 1) 0) 0)
  let d := (d ^^^ a).rotateRight P.r0
  let c := c + d
  let b := (b ^^^ c).rotateRight P.r1
  let a := a + b + (m.getD (s.getD (2 * i + 1) 0) 0 ^^^ P.c.getD (s.getD (2 * i) 0) 0)
  let d := (d ^^^ a).rotateRight P.r2
  let c := c + d
  let b := (b ^^^ c).rotateRight P.r3
  (a, b, c, d)

/-- One round: G_0..G_3 on the columns, then G_4..G_7 on the diagonals. -/
def round {w} (P : Params w) (m : List (BitVec w)) (s : List Nat) (v : V16 w) : V16 w :=
  let (v0, v4, v8, v12) := G P m s 0 v.v0 v.v4 v.v8 v.v12
  let (v1, v5, v9, v13) := G P m s 1 v.v1 v.v5 v.v9 v.v13
  let (v2, v6, v10, v14) := G P m s 2 v.v2 v.v6 v.v10 v.v14
  let (v3, v7, v11, v15) := G P m s 3 v.v3 v.v7 v.v11 v.v15
  let (v0, v5, v10, v15) := G P m s 4 v0 v5 v10 v15
  let (v1, v6, v11, v12) := G P m s 5 v1 v6 v11 v12
  let (v2, v7, v8, v13) := G P m s 6 v2 v7 v8 v13
  let (v3, v4, v9, v14) := G P m s 7 v3 v4 v9 v14
  { v0, v1, v2, v3, v4, v5, v6, v7, v8, v9, v10, v11, v12, v13, v14, v15 }

/-- Initialisation of `v` from the chain value `h` (8 words), salt 0 and counter `t = (t0, t1)`. -/
def initV {w} (P : Params w) (h : List (BitVec w)) (t0 t1 : BitVec w) : V16 w :=
  { v0 := h.getD 0 0, v1 := h.getD 1 0, v2 := h.getD 2 0, v3 := h.getD 3 0,
    v4 := h.getD 4 0, v5 := h.getD 5 0, v6 := h.getD 6 0, v7 := h.getD 7 0,
    v8 := P.c.getD 0 0, v9 := P.c.getD 1 0, v10 := P.c.getD 2 0, v11 := P.c.getD 3 0,
    v12 := t0 ^^^ P.c.getD 4 0, v13 := t0 ^^^ P.c.getD 5 0,
    v14 := t1 ^^^ P.c.getD 6 0, v15 := t1 ^^^ P.c.getD 7 0 }

/-- rounds 0 … n−1 -/
def rounds {w} (P : Params w) (m : List (BitVec w)) (n : Nat) (v : V16 w) : V16 w :=
  (List.range n).foldl (fun v r => round P m (sigmaRow r) v) v

/-- Finalisation (salt 0): h'_i = h_i ⊕ v_i ⊕ v_{i+8}. -/
def finish {w} (h : List (BitVec w)) (v : V16 w) : List (BitVec w) :=
  [h.getD 0 0 ^^^ v.v0 ^^^ v.v8, h.getD 1 0 ^^^ v.v1 ^^^ v.v9, h.getD 2 0 ^^^ v.v2 ^^^ v.v10,
   h.getD 3 0 ^^^ v.v3 ^^^ v.v11, h.getD 4 0 ^^^ v.v4 ^^^ v.v12, h.getD 5 0 ^^^ v.v5 ^^^ v.v13,
   h.getD 6 0 ^^^ v.v6 ^^^ v.v14, h.getD 7 0 ^^^ v.v7 ^^^ v.v15]

/-- The sixteen big-endian message words of a block of `16·w/8` bytes. -/
def blockWords (w : Nat) (block : List (BitVec 8)) : List (BitVec w) :=
  (List.range 16).map fun i => ofBeBytes w ((block.drop (w / 8 * i)).take (w / 8))

/-- The compression function on words. -/
def compressW {w} (P : Params w) (h : List (BitVec w)) (m : List (BitVec w)) (t0 t1 : BitVec w) :
    List (BitVec w) :=
  finish h (rounds P m P.rounds (initV P h t0 t1))

/-- The compression function: chain value (8 words), one message block (bytes), counter. -/
def compress {w} (P : Params w) (h : List (BitVec w)) (block : List (BitVec 8)) (t0 t1 : BitVec w) :
    List (BitVec w) :=
  compressW P h (blockWords w block) t0 t1

/-! ## hashing a message -/

inductive Variant where
  | b224 | b256 | b384 | b512
  deriving DecidableEq, Repr

def iv224 : List (BitVec 32) :=
  [0xC1059ED8#32, 0x367CD507#32, 0x3070DD17#32, 0xF70E5939#32,
   0xFFC00B31#32, 0x68581511#32, 0x64F98FA7#32, 0xBEFA4FA4#32]
def iv256 : List (BitVec 32) :=
  [0x6A09E667#32, 0xBB67AE85#32, 0x3C6EF372#32, 0xA54FF53A#32,
   0x510E527F#32, 0x9B05688C#32, 0x1F83D9AB#32, 0x5BE0CD19#32]
def iv384 : List (BitVec 64) :=
  [0xCBBB9D5DC1059ED8#64, 0x629A292A367CD507#64, 0x9159015A3070DD17#64, 0x152FECD8F70E5939#64,
   0x67332667FFC00B31#64, 0x8EB44A8768581511#64, 0xDB0C2E0D64F98FA7#64, 0x47B5481DBEFA4FA4#64]
def iv512 : List (BitVec 64) :=
  [0x6A09E667F3BCC908#64, 0xBB67AE8584CAA73B#64, 0x3C6EF372FE94F82B#64, 0xA54FF53A5F1D36F1#64,
   0x510E527FADE682D1#64, 0x9B05688C2B3E6C1F#64, 0x1F83D9ABFB41BD6B#64, 0x5BE0CD19137E2179#64]

/-- What distinguishes the four hash functions on top of a word size:
    initial value, whether the bit before the length is 1, and the digest length in bytes. -/
structure HParams (w : Nat) where
  P : Params w
  iv : List (BitVec w)
  /-- the bit that precedes the length field: 1 for BLAKE-256/512, 0 for BLAKE-224/384 -/
  marker : BitVec 8
  outBytes : Nat

def h224 : HParams 32 := { P := p32, iv := iv224, marker := 0, outBytes := 28 }
def h256 : HParams 32 := { P := p32, iv := iv256, marker := 1, outBytes := 32 }
def h384 : HParams 64 := { P := p64, iv := iv384, marker := 0, outBytes := 48 }
def h512 : HParams 64 := { P := p64, iv := iv512, marker := 1, outBytes := 64 }

/-- block size in bytes: 16 words -/
def blockBytes (w : Nat) : Nat := 16 * (w / 8)
/-- size of the length field in bytes: two words -/
def lenBytes (w : Nat) : Nat := 2 * (w / 8)

/-- The bytes between the message and the length field for a message of `n` bytes: the bit 1, the
    least number of 0 bits, and the marker bit, such that the total reaches `b − lenBytes (mod b)`.
    On byte strings: `0x80, 0, …, 0, marker`; when `n ≡ b − lenBytes − 1 (mod b)` both bits share one
    byte (`0x80 | marker`). -/
def padBytes (w : Nat) (marker : BitVec 8) (n : Nat) : List (BitVec 8) :=
  let b := blockBytes w
  -- z = number of bytes after the 0x80 byte, up to and including the byte holding the marker bit
  let z := (2 * b - lenBytes w - 1 - n % b) % b
  if z = 0 then [0x80#8 ||| marker] else [0x80#8] ++ List.replicate (z - 1) 0#8 ++ [marker]

/-- §2.1.3 / §2.2.3 padding of a byte string: `msg ‖ 1 0…0 [marker] ‖ ⟨8·|msg|⟩` (length as a
    `2w`-bit big-endian integer), a multiple of the block size. -/
def pad (w : Nat) (marker : BitVec 8) (msg : List (BitVec 8)) : List (BitVec 8) :=
  msg ++ padBytes w marker msg.length ++
    toBeBytes (BitVec.ofNat (2 * w) (8 * msg.length)) (lenBytes w)

/-- Counter of the `i`-th block (`i` from 0) of the padded message of an `l`-bit message:
    the number of message bits in blocks 0..i, and 0 for a block containing no message bit. -/
def counter (w : Nat) (l i : Nat) : Nat :=
  let bb := 8 * blockBytes w
  if i * bb ≥ l then 0 else min l ((i + 1) * bb)

/-- The first `n` consecutive `b`-byte blocks of a byte string. -/
def blocksGo (b : Nat) : Nat → List (BitVec 8) → List (List (BitVec 8))
  | 0, _ => []
  | n + 1, xs => xs.take b :: blocksGo b n (xs.drop b)

/-- The consecutive (complete) `b`-byte blocks of a byte string. -/
def blocks (b : Nat) (xs : List (BitVec 8)) : List (List (BitVec 8)) :=
  blocksGo b (xs.length / b) xs

/-- Iterate the compression function over the blocks of the padded message. -/
def iterate {w} (P : Params w) (l : Nat) : Nat → List (BitVec w) → List (List (BitVec 8)) → List (BitVec w)
  | _, h, [] => h
  | i, h, blk :: rest =>
    let t := counter w l i
    iterate P l (i + 1) (compress P h blk (BitVec.ofNat w t) (BitVec.ofNat w (t / 2 ^ w))) rest

/-- The hash of a byte string. -/
def hash {w} (H : HParams w) (msg : List (BitVec 8)) : List (BitVec 8) :=
  let bs := blocks (blockBytes w) (pad w H.marker msg)
  let h := iterate H.P (8 * msg.length) 0 H.iv bs
  (h.flatMap fun x => toBeBytes x (w / 8)).take H.outBytes

def blake : Variant → List (BitVec 8) → List (BitVec 8)
  | .b224 => hash h224
  | .b256 => hash h256
  | .b384 => hash h384
  | .b512 => hash h512

end CC.Blake.Spec
