/-
  CC.Blake.Model — model of `hashes/blake/src/{lib.rs,consts.rs}` over an arbitrary `Mach`.
  Implementation-shaped, macro by macro:

  * `VOps`           — what `define_compressor!` uses of the vector type `M::$X4`
                       (`vops32 M` for `u32x4`, `vops64 M` for `u64x4`);
  * `CParams`        — the macro arguments `$word, $uval, $rounds, $round`;
  * `putBlock`       — `$X4::put_block` (the body of `define_compressor!`);
  * `finalizeC`      — `$compressor::finalize`;
  * `Kit`            — the macro arguments of `define_hasher!`;
  * `increaseCount`, `update`, `finalizeIntoDirty`, `reset`, `finalizeReset`, … — `define_hasher!`.

  `mach.unpack(storage)` / `.into()` are the identity on the carrier (`BitVec 128` / `BitVec 256`).
-/
import CC.Prim
import CC.Simd.Mach
import CC.Buffer.BlockBuffer
import CC.Blake.Spec
namespace CC.Blake
open CC.Simd CC.Buffer

/-! ## consts.rs -/

/-- `PADDING: &[u8; 129]` -/
def PADDING : List (BitVec 8) := 0x80#8 :: List.replicate 128 0#8

/-- `SIGMA: [[u8; 16]; 16]` (rows 10..15 repeat rows 0..5) -/
def SIGMA : List (List Nat) :=
  [[0, 1, 2, 3, 4, 5, 6, 7, 8, 9, 10, 11, 12, 13, 14, 15],
   [14, 10, 4, 8, 9, 15, 13, 6, 1, 12, 0, 2, 11, 7, 5, 3],
   [11, 8, 12, 0, 5, 2, 15, 13, 10, 14, 3, 6, 7, 1, 9, 4],
   [7, 9, 3, 1, 13, 12, 11, 14, 2, 6, 5, 10, 4, 0, 15, 8],
   [9, 0, 5, 7, 2, 4, 10, 15, 14, 1, 11, 12, 6, 8, 3, 13],
   [2, 12, 6, 10, 0, 11, 8, 3, 4, 13, 7, 5, 15, 14, 1, 9],
   [12, 5, 1, 15, 14, 13, 4, 10, 0, 7, 6, 3, 9, 2, 8, 11],
   [13, 11, 7, 14, 12, 1, 3, 9, 5, 0, 15, 4, 8, 6, 2, 10],
   [6, 15, 14, 9, 11, 3, 0, 8, 12, 2, 13, 7, 1, 4, 10, 5],
   [10, 2, 8, 4, 7, 6, 1, 5, 15, 11, 9, 14, 3, 12, 13, 0],
   [0, 1, 2, 3, 4, 5, 6, 7, 8, 9, 10, 11, 12, 13, 14, 15],
   [14, 10, 4, 8, 9, 15, 13, 6, 1, 12, 0, 2, 11, 7, 5, 3],
   [11, 8, 12, 0, 5, 2, 15, 13, 10, 14, 3, 6, 7, 1, 9, 4],
   [7, 9, 3, 1, 13, 12, 11, 14, 2, 6, 5, 10, 4, 0, 15, 8],
   [9, 0, 5, 7, 2, 4, 10, 15, 14, 1, 11, 12, 6, 8, 3, 13],
   [2, 12, 6, 10, 0, 11, 8, 3, 4, 13, 7, 5, 15, 14, 1, 9]]

def BLAKE256_U : List (BitVec 32) :=
  [0x243f6a88#32, 0x85a308d3#32, 0x13198a2e#32, 0x03707344#32,
   0xa4093822#32, 0x299f31d0#32, 0x082efa98#32, 0xec4e6c89#32,
   0x452821e6#32, 0x38d01377#32, 0xbe5466cf#32, 0x34e90c6c#32,
   0xc0ac29b7#32, 0xc97c50dd#32, 0x3f84d5b5#32, 0xb5470917#32]

def BLAKE512_U : List (BitVec 64) :=
  [0x243f6a8885a308d3#64, 0x13198a2e03707344#64, 0xa4093822299f31d0#64, 0x082efa98ec4e6c89#64,
   0x452821e638d01377#64, 0xbe5466cf34e90c6c#64, 0xc0ac29b7c97c50dd#64, 0x3f84d5b5b5470917#64,
   0x9216d5d98979fb1b#64, 0xd1310ba698dfb5ac#64, 0x2ffd72dbd01adfb7#64, 0xb8e1afed6a267e96#64,
   0xba7c9045f12c7f99#64, 0x24a19947b3916cf7#64, 0x0801f2e2858efc16#64, 0x636920d871574e69#64]

/-! ## the vector type `M::$X4` as the compressor uses it -/

structure VOps (w : Nat) (V : Type) where
  vec : BitVec w → BitVec w → BitVec w → BitVec w → V     -- `mach.vec([a,b,c,d])`
  add : V → V → V                                         -- `+=`
  xor : V → V → V                                         -- `^=`, `^`
  rotr : Nat → V → V                                      -- `rotate_each_word_right{k}`
  shuf1230 : V → V
  shuf2301 : V → V
  shuf3012 : V → V
  writeBe : V → List (BitVec 8)                           -- `write_be`

/-- `M::u32x4` (storage `vec128_storage`) -/
def vops32 (M : Mach) : VOps 32 (BitVec 128) where
  vec := M.vec32
  add := M.add32
  xor := M.xor128
  rotr := M.rotr32
  shuf1230 := M.shuf1230
  shuf2301 := M.shuf2301
  shuf3012 := M.shuf3012
  writeBe := M.writeBe32x4

/-- `M::u64x4` (storage `vec256_storage`) -/
def vops64 (M : Mach) : VOps 64 (BitVec 256) where
  vec := M.vec64x4
  add := M.add64x4
  xor := M.xor256
  rotr := M.rotr64x4
  shuf1230 := M.shuf1230q
  shuf2301 := M.shuf2301q
  shuf3012 := M.shuf3012q
  writeBe := M.writeBe64x4

/-- The arguments of `define_compressor!` that are not types:
    `$uval`, `$rounds`, the rotation distances of `$round` (`round32` / `round64`),
    and `mem::size_of::<$word>()`. -/
structure CParams (w : Nat) where
  u : List (BitVec w)
  rounds : Nat
  r0 : Nat
  r1 : Nat
  r2 : Nat
  r3 : Nat
  wbytes : Nat

/-- `Compressor256` arguments (`round32`: 16, 12, 8, 7) -/
def cp32 : CParams 32 := { u := BLAKE256_U, rounds := 14, r0 := 16, r1 := 12, r2 := 8, r3 := 7, wbytes := 4 }
/-- `Compressor512` arguments (`round64`: 32, 25, 16, 11) -/
def cp64 : CParams 64 := { u := BLAKE512_U, rounds := 16, r0 := 32, r1 := 25, r2 := 16, r3 := 11, wbytes := 8 }

/-- four row vectors `xs = (xs.0, xs.1, xs.2, xs.3)` -/
structure Rows (V : Type) where
  a : V
  b : V
  c : V
  d : V

/-- `struct $compressor { h: [$storage; 2] }` -/
structure Compressor (V : Type) where
  h0 : V
  h1 : V
  deriving DecidableEq, Repr

/-- `round32` / `round64` -/
def roundV {w V} (O : VOps w V) (C : CParams w) (x : Rows V) (m0 m1 : V) : Rows V :=
  let a := O.add x.a m0
  let a := O.add a x.b
  let d := O.xor x.d a
  let d := O.rotr C.r0 d
  let c := O.add x.c d
  let b := O.xor x.b c
  let b := O.rotr C.r1 b
  let a := O.add a m1
  let a := O.add a b
  let d := O.xor d a
  let d := O.rotr C.r2 d
  let c := O.add c d
  let b := O.xor b c
  let b := O.rotr C.r3 b
  { a, b, c, d }

/-- `diagonalize`: `(a.shuffle1230(), b, c.shuffle3012(), d.shuffle2301())` -/
def diagonalize {w V} (O : VOps w V) (x : Rows V) : Rows V :=
  { a := O.shuf1230 x.a, b := x.b, c := O.shuf3012 x.c, d := O.shuf2301 x.d }

/-- `undiagonalize`: `(a.shuffle3012(), b, c.shuffle1230(), d.shuffle2301())` -/
def undiagonalize {w V} (O : VOps w V) (x : Rows V) : Rows V :=
  { a := O.shuf3012 x.a, b := x.b, c := O.shuf1230 x.c, d := O.shuf2301 x.d }

/-- the message words: `m[i] = $word::from_be_bytes(block.chunks_exact(size_of::<$word>())[i])` -/
def mWords {w} (C : CParams w) (block : List (BitVec 8)) : List (BitVec w) :=
  (List.range 16).map fun i => ofBeBytes w ((block.drop (C.wbytes * i)).take C.wbytes)

/-- `m0!(e) = m[sigma[e]] ^ U[sigma[e + 1]]` -/
def m0e {w} (C : CParams w) (m : List (BitVec w)) (sigma : List Nat) (e : Nat) : BitVec w :=
  m.getD (sigma.getD e 0) 0 ^^^ C.u.getD (sigma.getD (e + 1) 0) 0
/-- `m1!(e) = m[sigma[e + 1]] ^ U[sigma[e]]` -/
def m1e {w} (C : CParams w) (m : List (BitVec w)) (sigma : List Nat) (e : Nat) : BitVec w :=
  m.getD (sigma.getD (e + 1) 0) 0 ^^^ C.u.getD (sigma.getD e 0) 0

/-- body of `for sigma in &SIGMA[..$rounds]` -/
def roundStep {w V} (O : VOps w V) (C : CParams w) (m : List (BitVec w)) (xs : Rows V) (sigma : List Nat) :
    Rows V :=
  -- column step
  let m0 := O.vec (m0e C m sigma 0) (m0e C m sigma 2) (m0e C m sigma 4) (m0e C m sigma 6)
  let m1 := O.vec (m1e C m sigma 0) (m1e C m sigma 2) (m1e C m sigma 4) (m1e C m sigma 6)
  let xs := roundV O C xs m0 m1
  -- diagonal step
  let m0 := O.vec (m0e C m sigma 14) (m0e C m sigma 8) (m0e C m sigma 10) (m0e C m sigma 12)
  let m1 := O.vec (m1e C m sigma 14) (m1e C m sigma 8) (m1e C m sigma 10) (m1e C m sigma 12)
  undiagonalize O (roundV O C (diagonalize O xs) m0 m1)

/-- the initial rows: `(h[0], h[1], u.0, u.1 ^ vec([t.0, t.0, t.1, t.1]))` -/
def initRows {w V} (O : VOps w V) (C : CParams w) (state : Compressor V) (t : BitVec w × BitVec w) : Rows V :=
  let u0 := O.vec (C.u.getD 0 0) (C.u.getD 1 0) (C.u.getD 2 0) (C.u.getD 3 0)
  let u1 := O.vec (C.u.getD 4 0) (C.u.getD 5 0) (C.u.getD 6 0) (C.u.getD 7 0)
  { a := state.h0, b := state.h1, c := u0, d := O.xor u1 (O.vec t.1 t.1 t.2 t.2) }

/-- `$X4::put_block(mach, state, block, t)` -/
def putBlock {w V} (O : VOps w V) (C : CParams w) (state : Compressor V) (block : List (BitVec 8))
    (t : BitVec w × BitVec w) : Compressor V :=
  let m := mWords C block
  let xs := (SIGMA.take C.rounds).foldl (roundStep O C m) (initRows O C state t)
  { h0 := O.xor (O.xor state.h0 xs.a) xs.c,
    h1 := O.xor (O.xor state.h1 xs.b) xs.d }

/-- `$compressor::finalize`: `h0.write_be(out[..len/2]); h1.write_be(out[len/2..])` -/
def finalizeC {w V} (O : VOps w V) (state : Compressor V) : List (BitVec 8) :=
  O.writeBe state.h0 ++ O.writeBe state.h1

/-! ## `define_hasher!` -/

/-- The arguments of `define_hasher!`: `$word` (= `BitVec w`, `wbytes = size_of::<$word>()`),
    `$buf` (block bytes), `$bits`, `$Bytes` (output bytes), `$compressor` (its `put_block` and
    `finalize`), `$iv`. -/
structure Kit (w : Nat) (V : Type) where
  wbytes : Nat
  buf : Nat
  bits : Nat
  outBytes : Nat
  iv : Compressor V
  putBlock : Compressor V → List (BitVec 8) → BitVec w × BitVec w → Compressor V
  finalize : Compressor V → List (BitVec 8)

def BLAKE224_IV : Compressor (BitVec 128) :=
  { h0 := pack32 0xc1059ed8#32 0x367cd507#32 0x3070dd17#32 0xf70e5939#32,
    h1 := pack32 0xffc00b31#32 0x68581511#32 0x64f98fa7#32 0xbefa4fa4#32 }
def BLAKE256_IV : Compressor (BitVec 128) :=
  { h0 := pack32 0x6a09e667#32 0xbb67ae85#32 0x3c6ef372#32 0xa54ff53a#32,
    h1 := pack32 0x510e527f#32 0x9b05688c#32 0x1f83d9ab#32 0x5be0cd19#32 }
def BLAKE384_IV : Compressor (BitVec 256) :=
  { h0 := pack64x4 0xcbbb9d5dc1059ed8#64 0x629a292a367cd507#64 0x9159015a3070dd17#64 0x152fecd8f70e5939#64,
    h1 := pack64x4 0x67332667ffc00b31#64 0x8eb44a8768581511#64 0xdb0c2e0d64f98fa7#64 0x47b5481dbefa4fa4#64 }
def BLAKE512_IV : Compressor (BitVec 256) :=
  { h0 := pack64x4 0x6a09e667f3bcc908#64 0xbb67ae8584caa73b#64 0x3c6ef372fe94f82b#64 0xa54ff53a5f1d36f1#64,
    h1 := pack64x4 0x510e527fade682d1#64 0x9b05688c2b3e6c1f#64 0x1f83d9abfb41bd6b#64 0x5be0cd19137e2179#64 }

/-- `define_hasher!(Blake224, u32, 64, U64, 224, U28, Compressor256, BLAKE224_IV)` -/
def kit224 (M : Mach) : Kit 32 (BitVec 128) :=
  { wbytes := 4, buf := 64, bits := 224, outBytes := 28, iv := BLAKE224_IV,
    putBlock := putBlock (vops32 M) cp32, finalize := finalizeC (vops32 M) }
/-- `define_hasher!(Blake256, u32, 64, U64, 256, U32, Compressor256, BLAKE256_IV)` -/
def kit256 (M : Mach) : Kit 32 (BitVec 128) :=
  { wbytes := 4, buf := 64, bits := 256, outBytes := 32, iv := BLAKE256_IV,
    putBlock := putBlock (vops32 M) cp32, finalize := finalizeC (vops32 M) }
/-- `define_hasher!(Blake384, u64, 128, U128, 384, U48, Compressor512, BLAKE384_IV)` -/
def kit384 (M : Mach) : Kit 64 (BitVec 256) :=
  { wbytes := 8, buf := 128, bits := 384, outBytes := 48, iv := BLAKE384_IV,
    putBlock := putBlock (vops64 M) cp64, finalize := finalizeC (vops64 M) }
/-- `define_hasher!(Blake512, u64, 128, U128, 512, U64, Compressor512, BLAKE512_IV)` -/
def kit512 (M : Mach) : Kit 64 (BitVec 256) :=
  { wbytes := 8, buf := 128, bits := 512, outBytes := 64, iv := BLAKE512_IV,
    putBlock := putBlock (vops64 M) cp64, finalize := finalizeC (vops64 M) }

/-- `struct $name { compressor, buffer, t }` -/
structure Hasher (w : Nat) (V : Type) where
  compressor : Compressor V
  buffer : BB
  t : BitVec w × BitVec w

/-- `Default::default()` -/
def Hasher.default {w V} (K : Kit w V) : Hasher w V :=
  { compressor := K.iv, buffer := BB.init K.buf, t := (0, 0) }

/-- `increase_count(t, count)`:
    ```
    let (new_t0, carry) = t.0.overflowing_add(count * 8);   // `count * 8`: checked in debug
    t.0 = new_t0;
    if carry { t.1 += 1; }                                   // checked in debug
    ```  -/
def increaseCount {w} (p : Profile) (t : BitVec w × BitVec w) (count : BitVec w) : Out (BitVec w × BitVec w) :=
  if p = .debug ∧ count.toNat * 8 ≥ 2 ^ w then .panic "attempt to multiply with overflow" else
  let c8 := count * 8
  let newT0 := t.1 + c8
  let carry := t.1.toNat + c8.toNat ≥ 2 ^ w
  if carry then
    if p = .debug ∧ t.2.toNat + 1 ≥ 2 ^ w then .panic "attempt to add with overflow"
    else .ok (newT0, t.2 + 1)
  else .ok (newT0, t.2)

/-- the closure of `update`: `|block| { increase_count(t, (size_of::<$word>() * 16) as $word);
    compressor.put_block(block, *t); }`, threading a possible panic -/
def updateStep {w V} (K : Kit w V) (p : Profile)
    (acc : Out (Compressor V × (BitVec w × BitVec w))) (block : List (BitVec 8)) :
    Out (Compressor V × (BitVec w × BitVec w)) :=
  acc >>= fun ct =>
    increaseCount p ct.2 (BitVec.ofNat w (K.wbytes * 16)) >>= fun t =>
      .ok (K.putBlock ct.1 block t, t)

/-- `Update::update` -/
def update {w V} (K : Kit w V) (p : Profile) (s : Hasher w V) (data : List (BitVec 8)) : Out (Hasher w V) :=
  let r := inputBlock K.buf s.buffer data (updateStep K p) (.ok (s.compressor, s.t))
  r.2 >>= fun ct => .ok { compressor := ct.1, buffer := r.1, t := ct.2 }

/-- closure `|block| compressor.put_block(block, t)` -/
def putStep {w V} (K : Kit w V) (t : BitVec w × BitVec w) (acc : Out (Compressor V)) (block : List (BitVec 8)) :
    Out (Compressor V) :=
  acc >>= fun c => .ok (K.putBlock c block t)

/-- closure `|_| unreachable!()` -/
def unreachableStep {V} (acc : Out (Compressor V)) (_block : List (BitVec 8)) : Out (Compressor V) :=
  acc >>= fun _ => .panic "internal error: entered unreachable code"

/-- `debug_assert_eq!(buffer.position(), 0)` -/
def debugAssertPos0 {α} (p : Profile) (b : BB) (x : Out α) : Out α :=
  if p = .debug ∧ b.pos ≠ 0 then (x >>= fun _ => .panic "assertion failed: buffer.position() == 0") else x

/-- `let magic = isfull | exactfit;` with
    `isfull = ($bits == 8 * size_of::<[$word; 8]>()) as u8` (low bit: full-length variant) and
    `exactfit = if position + footerlen != $buf { 0x00 } else { 0x80 }` (high bit: fit with no padding) -/
def finMagic {w V} (K : Kit w V) (pos : Nat) : BitVec 8 :=
  let footerlen := 1 + 2 * K.wbytes
  let isfull : BitVec 8 := if K.bits = 8 * (8 * K.wbytes) then 1 else 0
  let exactfit : BitVec 8 := if pos + footerlen ≠ K.buf then 0x00 else 0x80
  isfull ||| exactfit

/-- ```
    if extra_block {
        let pad = $buf - buffer.position();
        buffer.input_block(&PADDING[..pad], |block| compressor.put_block(block, t));
        debug_assert_eq!(buffer.position(), 0);
    }
    ``` -/
def finExtra {w V} (K : Kit w V) (p : Profile) (buffer : BB) (compressor : Compressor V)
    (t : BitVec w × BitVec w) (extraBlock : Bool) : BB × Out (Compressor V) :=
  if extraBlock then
    let pad := K.buf - buffer.pos
    let r := inputBlock K.buf buffer (PADDING.take pad) (putStep K t) (.ok compressor)
    (r.1, debugAssertPos0 p r.1 r.2)
  else (buffer, .ok compressor)

/-- the rest of `finalize_into_dirty`, from `if buffer.position() == 0 { t = (0, 0) }` on;
    `r1` = buffer and compressor after the optional extra block -/
def finTail {w V} (K : Kit w V) (p : Profile) (s : Hasher w V) (r1 : BB × Out (Compressor V))
    (extraBlock : Bool) (t : BitVec w × BitVec w) (msglen : List (BitVec 8)) (magic : BitVec 8) :
    Out (Hasher w V × List (BitVec 8)) :=
  let footerlen := 1 + 2 * K.wbytes
  let buffer := r1.1
  -- don't xor t when the block is only padding
  let t : BitVec w × BitVec w := if buffer.pos = 0 then (0, 0) else t
  -- skip begin-padding byte if continuing padding
  let x := if extraBlock then 1 else 0
  if K.buf < footerlen + buffer.pos ∨ PADDING.length < x + (K.buf - footerlen - buffer.pos) then
    (r1.2 >>= fun _ => .panic "attempt to subtract with overflow / slice index out of range") else
  let start := x
  let end_ := x + (K.buf - footerlen - buffer.pos)
  let r2 := inputBlock K.buf buffer ((PADDING.take end_).drop start) unreachableStep r1.2
  let r3 := inputBlock K.buf r2.1 [magic] unreachableStep r2.2
  let r4 := inputBlock K.buf r3.1 msglen (putStep K t) r3.2
  debugAssertPos0 p r4.1 r4.2 >>= fun c =>
    .ok ({ s with buffer := r4.1 }, (K.finalize c).take K.outBytes)

/-- `FixedOutputDirty::finalize_into_dirty(&mut self, out)`: returns the hasher as left behind
    (`self.buffer` is mutated, `self.compressor` and `self.t` are copies and stay) and `out`.
    The `usize` subtractions `$buf - position` and `$buf - footerlen - position` and the slice
    bounds on `PADDING` panic (in both profiles: either the checked subtraction or the slice
    index out of range) when they do not hold.  (`finMagic`, `finExtra`, `finTail` are the
    consecutive statement groups of the one Rust function.) -/
def finalizeIntoDirty {w V} (K : Kit w V) (p : Profile) (s : Hasher w V) : Out (Hasher w V × List (BitVec 8)) :=
  let compressor := s.compressor
  let buffer := s.buffer
  increaseCount p s.t (BitVec.ofNat w buffer.pos) >>= fun t =>
  -- msglen[..$buf/16] = t.1.to_be_bytes(); msglen[$buf/16..] = t.0.to_be_bytes()
  let msglen := toBeBytes t.2 K.wbytes ++ toBeBytes t.1 K.wbytes
  let footerlen := 1 + 2 * K.wbytes
  let magic := finMagic K buffer.pos
  -- if header won't fit in last data block, pad to the end and start a new one
  let extraBlock : Bool := buffer.pos + footerlen > K.buf
  if K.buf < buffer.pos then .panic "attempt to subtract with overflow" else
  let r1 := finExtra K p buffer compressor t extraBlock
  finTail K p s r1 extraBlock t msglen magic

/-- `Reset::reset` -/
def reset {w V} (K : Kit w V) (_s : Hasher w V) : Hasher w V := Hasher.default K

/-- `FixedOutput::finalize_fixed_reset` / `Digest::finalize_reset`: `finalize_into_dirty` then `reset` -/
def finalizeReset {w V} (K : Kit w V) (p : Profile) (s : Hasher w V) : Out (Hasher w V × List (BitVec 8)) :=
  finalizeIntoDirty K p s >>= fun r => .ok (reset K r.1, r.2)

/-- `Digest::finalize(self)` -/
def finalize {w V} (K : Kit w V) (p : Profile) (s : Hasher w V) : Out (List (BitVec 8)) :=
  finalizeIntoDirty K p s >>= fun r => .ok r.2

/-- `verif_set_counter` -/
def setCounter {w V} (s : Hasher w V) (t : BitVec w × BitVec w) : Hasher w V := { s with t := t }

/-- `verif_get_state` for a 32-bit hasher: `(h[0].into():[u32;4] ++ h[1].into(), t)` -/
def getState32 (s : Hasher 32 (BitVec 128)) : List (BitVec 32) × (BitVec 32 × BitVec 32) :=
  ([lane32 s.compressor.h0 0, lane32 s.compressor.h0 1, lane32 s.compressor.h0 2, lane32 s.compressor.h0 3,
    lane32 s.compressor.h1 0, lane32 s.compressor.h1 1, lane32 s.compressor.h1 2, lane32 s.compressor.h1 3], s.t)

/-- `verif_get_state` for a 64-bit hasher -/
def getState64 (s : Hasher 64 (BitVec 256)) : List (BitVec 64) × (BitVec 64 × BitVec 64) :=
  ([w64 s.compressor.h0 0, w64 s.compressor.h0 1, w64 s.compressor.h0 2, w64 s.compressor.h0 3,
    w64 s.compressor.h1 0, w64 s.compressor.h1 1, w64 s.compressor.h1 2, w64 s.compressor.h1 3], s.t)

/-- One-shot: `update` from `default` with the whole message in ONE call, then `finalize`. -/
def digestK {w V} (K : Kit w V) (p : Profile) (msg : List (BitVec 8)) : Out (List (BitVec 8)) :=
  update K p (Hasher.default K) msg >>= fun s => finalize K p s

/-- `Blake{224,256,384,512}`: one `update` with the whole message, then `finalize`. -/
def digest (M : Mach) (p : Profile) : Spec.Variant → List (BitVec 8) → Out (List (BitVec 8))
  | .b224 => digestK (kit224 M) p
  | .b256 => digestK (kit256 M) p
  | .b384 => digestK (kit384 M) p
  | .b512 => digestK (kit512 M) p

end CC.Blake
