/-
  CC.Blake.MsgLemmas — message-level lemmas for C04/C17 (BLAKE):
  Part 3: `BlockBuffer::input_block` as a fold over the complete blocks of (buffered ++ input);
  Part 4: the `(t.0, t.1)` counter with carry;
  Part 5: `update` = fold of the compression function with counters 8·b·(i+1);
  Part 6: `finalize_into_dirty` against the specified padding (fits / exact fit / extra block);
  Part 7: conformance of the one-shot digest.
-/
import CC.Blake.Lemmas
namespace CC.Blake
open CC CC.Simd CC.Buffer

/-! ## Part 3: blocks and the block buffer -/

theorem blocks_lt {b : Nat} {xs : List (BitVec 8)} (h : xs.length < b) : Spec.blocks b xs = [] := by
  simp [Spec.blocks, Nat.div_eq_of_lt h, Spec.blocksGo]

theorem blocks_ge {b : Nat} {xs : List (BitVec 8)} (hb : 0 < b) (h : b ≤ xs.length) :
    Spec.blocks b xs = xs.take b :: Spec.blocks b (xs.drop b) := by
  simp [Spec.blocks, Nat.div_eq_sub_div hb h, Spec.blocksGo]

theorem blocks_cons {b : Nat} {blk rest : List (BitVec 8)} (hb : 0 < b) (h : blk.length = b) :
    Spec.blocks b (blk ++ rest) = blk :: Spec.blocks b rest := by
  rw [blocks_ge hb (by simp [h]), List.take_left' h, List.drop_left' h]

/-- the bytes after the last complete block -/
def tailBytes (b : Nat) (xs : List (BitVec 8)) : List (BitVec 8) := xs.drop (b * (xs.length / b))

theorem tailBytes_lt {b : Nat} {xs : List (BitVec 8)} (h : xs.length < b) : tailBytes b xs = xs := by
  simp [tailBytes, Nat.div_eq_of_lt h]

theorem tailBytes_ge {b : Nat} {xs : List (BitVec 8)} (hb : 0 < b) (h : b ≤ xs.length) :
    tailBytes b xs = tailBytes b (xs.drop b) := by
  simp only [tailBytes, List.length_drop, List.drop_drop]
  rw [Nat.div_eq_sub_div hb h, Nat.mul_add, Nat.mul_one, Nat.add_comm]

theorem tailBytes_cons {b : Nat} {blk rest : List (BitVec 8)} (hb : 0 < b) (h : blk.length = b) :
    tailBytes b (blk ++ rest) = tailBytes b rest := by
  rw [tailBytes_ge hb (by simp [h]), List.drop_left' h]

theorem tailBytes_length_lt {b : Nat} (xs : List (BitVec 8)) (hb : 0 < b) : (tailBytes b xs).length < b := by
  simp only [tailBytes, List.length_drop]
  have := Nat.mod_lt xs.length hb
  have h2 := Nat.div_add_mod xs.length b
  omega

theorem foldChunks_eq {σ} {b : Nat} (hb : 0 < b) (f : σ → List (BitVec 8) → σ) :
    ∀ (fuel : Nat) (acc : σ) (input : List (BitVec 8)), input.length / b < fuel →
      foldChunks b f fuel acc input = (List.foldl f acc (Spec.blocks b input), tailBytes b input) := by
  intro fuel
  induction fuel with
  | zero => intro acc input h; exact absurd h (Nat.not_lt_zero _)
  | succ fuel ih =>
    intro acc input h
    by_cases hlen : b ≤ input.length
    · have hdiv := Nat.div_eq_sub_div hb hlen
      simp only [foldChunks, hlen, hb, and_self, if_true]
      have hfuel : (input.drop b).length / b < fuel := by rw [List.length_drop]; omega
      rw [ih _ _ hfuel, blocks_ge hb hlen, tailBytes_ge hb hlen]
      rfl
    · have hlt : input.length < b := by omega
      simp only [foldChunks, hlen, false_and, if_false]
      rw [blocks_lt hlt, tailBytes_lt hlt]
      rfl

/-- the buffer holds exactly the bytes `live` (fewer than a block) -/
structure Holds (bb : BB) (b : Nat) (live : List (BitVec 8)) : Prop where
  len : bb.buf.length = b
  pos : bb.pos = live.length
  take : bb.buf.take live.length = live
  lt : live.length < b

theorem holds_init {b : Nat} (hb : 0 < b) : Holds (BB.init b) b [] :=
  ⟨by simp [BB.init], rfl, by simp, by simpa using hb⟩

theorem splice_length {buf xs : List (BitVec 8)} {pos : Nat} (h : pos + xs.length ≤ buf.length) :
    (splice buf pos xs).length = buf.length := by
  simp [splice]; omega

theorem splice_take {buf xs : List (BitVec 8)} {pos : Nat} (h : pos + xs.length ≤ buf.length) :
    (splice buf pos xs).take (pos + xs.length) = buf.take pos ++ xs := by
  have h1 : (buf.take pos ++ xs).length = pos + xs.length := by simp; omega
  simp only [splice]
  rw [List.take_left' h1]

/-- `BlockBuffer::input_block`: the closure is folded over the complete blocks of
    `buffered ++ input`, and the buffer is left holding the incomplete tail. -/
theorem inputBlock_eq {σ} {b : Nat} (hb : 0 < b) {bb : BB} {live : List (BitVec 8)} (H : Holds bb b live)
    (xs : List (BitVec 8)) (f : σ → List (BitVec 8) → σ) (acc : σ) :
    (inputBlock b bb xs f acc).2 = List.foldl f acc (Spec.blocks b (live ++ xs)) ∧
    Holds (inputBlock b bb xs f acc).1 b (tailBytes b (live ++ xs)) := by
  obtain ⟨hlen, hpos, htake, hlt⟩ := H
  by_cases h1 : xs.length < b - bb.pos
  · -- everything fits below a block
    have hl : (live ++ xs).length < b := by simp; omega
    simp only [inputBlock, h1, if_true]
    rw [blocks_lt hl, tailBytes_lt hl]
    refine ⟨rfl, ⟨?_, ?_, ?_, hl⟩⟩
    · simp only []; rw [splice_length (by omega)]; exact hlen
    · simp [hpos]
    · simp only [List.length_append]
      rw [hpos, splice_take (by omega), htake]
  · by_cases h2 : bb.pos = 0
    · -- empty buffer: chunks of the input
      have hnil : live = [] := by
        cases live with
        | nil => rfl
        | cons _ _ => simp [h2] at hpos
      subst hnil
      have h1' : ¬ xs.length < b - 0 := by simpa [h2] using h1
      simp only [inputBlock, h2, h1', if_false, bne_self_eq_false, Bool.false_eq_true, List.nil_append]
      rw [foldChunks_eq hb f _ _ _ (Nat.lt_succ_self _)]
      refine ⟨rfl, ⟨?_, rfl, ?_, tailBytes_length_lt _ hb⟩⟩
      · have := tailBytes_length_lt xs hb
        simp only []; rw [splice_length (by simp; omega)]; exact hlen
      · have := tailBytes_length_lt xs hb
        have h3 := splice_take (buf := bb.buf) (pos := 0) (xs := tailBytes b xs) (by simp; omega)
        simpa using h3
    · -- fill the buffer, then chunks of the rest
      have hne : (bb.pos != 0) = true := by simp [h2]
      have hr : (xs.take (b - bb.pos)).length = b - bb.pos := by simp; omega
      have hblk : (live ++ xs.take (b - bb.pos)).length = b := by simp [hr]; omega
      have hsp : splice bb.buf bb.pos (xs.take (b - bb.pos)) = live ++ xs.take (b - bb.pos) := by
        have h3 := splice_take (buf := bb.buf) (pos := bb.pos) (xs := xs.take (b - bb.pos)) (by omega)
        have h4 : (splice bb.buf bb.pos (xs.take (b - bb.pos))).length = b := by
          rw [splice_length (by omega)]; exact hlen
        rw [List.take_of_length_le (by omega)] at h3
        rw [h3, hpos, htake]
      have hsplit : live ++ xs = (live ++ xs.take (b - bb.pos)) ++ xs.drop (b - bb.pos) := by
        rw [List.append_assoc, List.take_append_drop]
      simp only [inputBlock, h1, if_false, hne, if_true]
      rw [foldChunks_eq hb f _ _ _ (Nat.lt_succ_self _), hsp, hsplit, blocks_cons hb hblk,
        tailBytes_cons hb hblk]
      refine ⟨rfl, ⟨?_, rfl, ?_, tailBytes_length_lt _ hb⟩⟩
      · have := tailBytes_length_lt (xs.drop (b - bb.pos)) hb
        simp only []; rw [splice_length (by rw [hblk]; simp; omega)]; exact hblk
      · have := tailBytes_length_lt (xs.drop (b - bb.pos)) hb
        have h3 := splice_take (buf := live ++ xs.take (b - bb.pos)) (pos := 0)
          (xs := tailBytes b (xs.drop (b - bb.pos))) (by rw [hblk]; simp; omega)
        simpa using h3

/-! ## Part 4: the counter -/

def splitT (w : Nat) (T : Nat) : BitVec w × BitVec w := (BitVec.ofNat w T, BitVec.ofNat w (T / 2 ^ w))

theorem increaseCount_split {w} (hw : w = 32 ∨ w = 64) (p : Profile) (T c : Nat)
    (hc : c * 8 < 2 ^ w) (hT : T + 8 * c < 2 ^ (2 * w)) :
    increaseCount p (splitT w T) (BitVec.ofNat w c) = .ok (splitT w (T + 8 * c)) := by
  rcases hw with rfl | rfl
  · unfold increaseCount
    split
    · rename_i h; simp at h; omega
    · dsimp only
      split
      · rename_i h1 h2
        simp [splitT] at h2
        split
        · rename_i h3; simp [splitT] at h3; omega
        · simp only [splitT, Out.ok.injEq, Prod.mk.injEq]
          constructor <;> apply BitVec.eq_of_toNat_eq <;> simp <;> omega
      · rename_i h1 h2
        simp [splitT] at h2
        simp only [splitT, Out.ok.injEq, Prod.mk.injEq]
        constructor <;> apply BitVec.eq_of_toNat_eq <;> simp <;> omega
  · unfold increaseCount
    split
    · rename_i h; simp at h; omega
    · dsimp only
      split
      · rename_i h1 h2
        simp [splitT] at h2
        split
        · rename_i h3; simp [splitT] at h3; omega
        · simp only [splitT, Out.ok.injEq, Prod.mk.injEq]
          constructor <;> apply BitVec.eq_of_toNat_eq <;> simp <;> omega
      · rename_i h1 h2
        simp [splitT] at h2
        simp only [splitT, Out.ok.injEq, Prod.mk.injEq]
        constructor <;> apply BitVec.eq_of_toNat_eq <;> simp <;> omega

/-! ## Part 5: `update` = fold of the compression function -/

/-- the two word sizes with their block sizes -/
def Dims (w b : Nat) : Prop := (w = 32 ∧ b = 64) ∨ (w = 64 ∧ b = 128)

/-- what the message-level argument needs of a `define_hasher!` instantiation `K`, relative to the
    specification parameters `H` and the reading `hw` of a compressor state as 8 words -/
structure KitLaws {w V} (K : Kit w V) (H : Spec.HParams w) (hw : Compressor V → List (BitVec w)) : Prop where
  dims : Dims w K.buf
  wbytes : K.wbytes = w / 8
  put : ∀ c blk t, hw (K.putBlock c blk t) = Spec.compress H.P (hw c) blk t.1 t.2
  iv : hw K.iv = H.iv
  fin : ∀ c, K.finalize c = (hw c).flatMap (fun x => toBeBytes x (w / 8))
  full : (if K.bits = 8 * (8 * K.wbytes) then (1 : BitVec 8) else 0) = H.marker
  out : K.outBytes = H.outBytes

theorem dims_blockBytes {w b : Nat} (D : Dims w b) : Spec.blockBytes w = b := by
  rcases D with ⟨rfl, rfl⟩ | ⟨rfl, rfl⟩ <;> rfl

theorem dims_pos {w b : Nat} (D : Dims w b) : 0 < b := by
  rcases D with ⟨rfl, rfl⟩ | ⟨rfl, rfl⟩ <;> omega

theorem counter_full {w b : Nat} (D : Dims w b) {l i : Nat} (h : 8 * b * (i + 1) ≤ l) :
    Spec.counter w l i = 8 * b * (i + 1) := by
  have hb := dims_blockBytes D
  have hpos := dims_pos D
  unfold Spec.counter
  rw [hb]
  dsimp only
  have h2 : 8 * b * (i + 1) = i * (8 * b) + 8 * b := by rw [Nat.mul_add, Nat.mul_one, Nat.mul_comm]
  have h3 : (i + 1) * (8 * b) = i * (8 * b) + 8 * b := by rw [Nat.add_mul, Nat.one_mul]
  rw [if_neg (by omega), h3, ← h2]
  omega

theorem updateStep_ok {w V} {K : Kit w V} {H : Spec.HParams w} {hw : Compressor V → List (BitVec w)}
    (KL : KitLaws K H hw) (p : Profile) (c : Compressor V) (T : Nat) (blk : List (BitVec 8))
    (hT : T + 8 * K.buf < 2 ^ (2 * w)) :
    updateStep K p (.ok (c, splitT w T)) blk =
      .ok (K.putBlock c blk (splitT w (T + 8 * K.buf)), splitT w (T + 8 * K.buf)) := by
  have hwd : w = 32 ∨ w = 64 := by rcases KL.dims with ⟨h, _⟩ | ⟨h, _⟩ <;> simp [h]
  have hcnt : K.wbytes * 16 = K.buf := by
    rw [KL.wbytes]; rcases KL.dims with ⟨rfl, h⟩ | ⟨rfl, h⟩ <;> rw [h]
  have hc : K.buf * 8 < 2 ^ w := by
    rcases KL.dims with ⟨rfl, h⟩ | ⟨rfl, h⟩ <;> rw [h] <;> omega
  simp only [updateStep, Out.bind_ok, hcnt]
  rw [increaseCount_split hwd p T K.buf hc hT]
  rfl

theorem foldl_updateStep {w V} {K : Kit w V} {H : Spec.HParams w} {hw : Compressor V → List (BitVec w)}
    (KL : KitLaws K H hw) (p : Profile) (l : Nat) (hl : l < 2 ^ (2 * w)) :
    ∀ (blks : List (List (BitVec 8))) (c : Compressor V) (i : Nat), 8 * K.buf * (i + blks.length) ≤ l →
      ∃ c', List.foldl (updateStep K p) (.ok (c, splitT w (8 * K.buf * i))) blks =
              .ok (c', splitT w (8 * K.buf * (i + blks.length))) ∧
            hw c' = Spec.iterate H.P l i (hw c) blks := by
  intro blks
  induction blks with
  | nil => intro c i _; exact ⟨c, rfl, rfl⟩
  | cons blk rest ih =>
    intro c i hi
    simp only [List.length_cons] at hi
    have hstep : 8 * K.buf * i + 8 * K.buf = 8 * K.buf * (i + 1) := by
      rw [Nat.mul_add, Nat.mul_one]
    have hle : 8 * K.buf * (i + 1) ≤ l := by
      have : 8 * K.buf * (i + 1) ≤ 8 * K.buf * (i + (rest.length + 1)) :=
        Nat.mul_le_mul_left _ (by omega)
      omega
    have h1 := updateStep_ok KL p c (8 * K.buf * i) blk (by omega)
    rw [hstep] at h1
    obtain ⟨c', hc1, hc2⟩ := ih (K.putBlock c blk (splitT w (8 * K.buf * (i + 1)))) (i + 1)
      (by rw [show i + 1 + rest.length = i + (rest.length + 1) by omega]; exact hi)
    refine ⟨c', ?_, ?_⟩
    · rw [List.foldl_cons, h1, hc1, List.length_cons,
        show i + 1 + rest.length = i + (rest.length + 1) by omega]
    · rw [hc2, KL.put]
      simp only [Spec.iterate, counter_full KL.dims hle, splitT]

/-! ## Part 6: finalisation -/

theorem msglen_eq {w b : Nat} (D : Dims w b) (l : Nat) :
    toBeBytes (BitVec.ofNat w (l / 2 ^ w)) (w / 8) ++ toBeBytes (BitVec.ofNat w l) (w / 8) =
      toBeBytes (BitVec.ofNat (2 * w) l) (Spec.lenBytes w) := by
  rcases D with ⟨rfl, rfl⟩ | ⟨rfl, rfl⟩
  · show toBeBytes (BitVec.ofNat 32 (l / 2 ^ 32)) 4 ++ toBeBytes (BitVec.ofNat 32 l) 4 =
      toBeBytes (BitVec.ofNat 64 l) 8
    simp only [toBeBytes, toLeBytes, List.range, List.range.loop, List.map, List.reverse_cons,
      List.reverse_nil, List.nil_append, List.cons_append, List.cons.injEq, and_true]
    refine ⟨?_, ?_, ?_, ?_, ?_, ?_, ?_, ?_⟩ <;> apply BitVec.eq_of_toNat_eq <;>
      simp [BitVec.toNat_ushiftRight, BitVec.toNat_setWidth, Nat.shiftRight_eq_div_pow] <;> omega
  · show toBeBytes (BitVec.ofNat 64 (l / 2 ^ 64)) 8 ++ toBeBytes (BitVec.ofNat 64 l) 8 =
      toBeBytes (BitVec.ofNat 128 l) 16
    simp only [toBeBytes, toLeBytes, List.range, List.range.loop, List.map, List.reverse_cons,
      List.reverse_nil, List.nil_append, List.cons_append, List.cons.injEq, and_true]
    refine ⟨?_, ?_, ?_, ?_, ?_, ?_, ?_, ?_, ?_, ?_, ?_, ?_, ?_, ?_, ?_, ?_⟩ <;> apply BitVec.eq_of_toNat_eq <;>
      simp [BitVec.toNat_ushiftRight, BitVec.toNat_setWidth, Nat.shiftRight_eq_div_pow] <;> omega

theorem toBeBytes_length {w} (x : BitVec w) (n : Nat) : (toBeBytes x n).length = n := by
  simp [toBeBytes, toLeBytes]

theorem padding_take {e : Nat} (h1 : 1 ≤ e) (h2 : e ≤ 129) :
    PADDING.take e = 0x80#8 :: List.replicate (e - 1) 0#8 := by
  obtain ⟨e', rfl⟩ : ∃ e', e = e' + 1 := ⟨e - 1, by omega⟩
  simp only [PADDING, List.take_succ_cons, List.take_replicate, Nat.add_sub_cancel]
  rw [Nat.min_eq_left (by omega)]

theorem padding_take_drop {e : Nat} (h2 : e ≤ 128) :
    (PADDING.take (1 + e)).drop 1 = List.replicate e 0#8 := by
  rw [padding_take (by omega) (by omega)]
  simp


theorem blocks_single {b : Nat} {blk : List (BitVec 8)} (hb : 0 < b) (h : blk.length = b) :
    Spec.blocks b blk = [blk] := by
  have := blocks_cons (rest := []) hb h
  rw [List.append_nil] at this
  rw [this, blocks_lt (by simpa using hb)]

theorem tailBytes_single {b : Nat} {blk : List (BitVec 8)} (hb : 0 < b) (h : blk.length = b) :
    tailBytes b blk = [] := by
  have := tailBytes_cons (rest := []) hb h
  rw [List.append_nil] at this
  rw [this, tailBytes_lt (by simpa using hb)]

/-- the last three `input_block` calls of `finalize_into_dirty`: padding up to the footer (closure
    unreachable), the marker byte (closure unreachable), the length (closure = `put_block`) -/
theorem finish_tail {w V} (K : Kit w V) {b : Nat} (hb : 0 < b) {bb : BB} {live : List (BitVec 8)}
    (H : Holds bb b live) (pz msglen : List (BitVec 8)) (magic : BitVec 8) (t : BitVec w × BitVec w)
    (c : Compressor V) (hlen : live.length + pz.length + 1 + msglen.length = b) (hm : 0 < msglen.length) :
    let r2 := inputBlock b bb pz unreachableStep (.ok c)
    let r3 := inputBlock b r2.1 [magic] unreachableStep r2.2
    let r4 := inputBlock b r3.1 msglen (putStep K t) r3.2
    r4.2 = .ok (K.putBlock c (live ++ pz ++ [magic] ++ msglen) t) ∧ r4.1.pos = 0 := by
  intro r2 r3 r4
  obtain ⟨h2a, h2b⟩ := inputBlock_eq hb H pz unreachableStep (.ok c)
  have l2 : (live ++ pz).length < b := by simp; omega
  rw [blocks_lt l2] at h2a; rw [tailBytes_lt l2] at h2b
  obtain ⟨h3a, h3b⟩ := inputBlock_eq hb h2b [magic] unreachableStep r2.2
  have l3 : (live ++ pz ++ [magic]).length < b := by simp; omega
  rw [blocks_lt l3] at h3a; rw [tailBytes_lt l3] at h3b
  obtain ⟨h4a, h4b⟩ := inputBlock_eq hb h3b msglen (putStep K t) r3.2
  have l4 : (live ++ pz ++ [magic] ++ msglen).length = b := by simp; omega
  rw [blocks_single hb l4] at h4a; rw [tailBytes_single hb l4] at h4b
  refine ⟨?_, h4b.pos⟩
  show (inputBlock b r3.1 msglen (putStep K t) r3.2).2 = _
  rw [h4a]
  show putStep K t r3.2 _ = _
  rw [show r3.2 = (inputBlock b r2.1 [magic] unreachableStep r2.2).2 from rfl, h3a]
  show putStep K t r2.2 _ = _
  rw [show r2.2 = (inputBlock b bb pz unreachableStep (.ok c)).2 from rfl, h2a]
  rfl


theorem finTail_eq {w V} (K : Kit w V) (p : Profile) (s : Hasher w V) (r1 : BB × Out (Compressor V))
    (extra : Bool) (t : BitVec w × BitVec w) (msglen : List (BitVec 8)) (magic : BitVec 8)
    (live : List (BitVec 8)) (c : Compressor V) (hb : 0 < K.buf)
    (H : Holds r1.1 K.buf live) (hc : r1.2 = .ok c) (hm : msglen.length = 2 * K.wbytes) (hwb : 0 < K.wbytes)
    (hfit : live.length + (1 + 2 * K.wbytes) ≤ K.buf) (hbuf : K.buf ≤ 128) :
    ∃ s', finTail K p s r1 extra t msglen magic =
      .ok (s', (K.finalize (K.putBlock c
        (live ++ (PADDING.take ((if extra then 1 else 0) + (K.buf - (1 + 2 * K.wbytes) - live.length))).drop
            (if extra then 1 else 0) ++ [magic] ++ msglen)
        (if live.length = 0 then (0, 0) else t))).take K.outBytes) := by
  have hpos := H.pos
  have hx : (if extra = true then 1 else 0) ≤ 1 := by split <;> omega
  have hplen : ((PADDING.take ((if extra then 1 else 0) + (K.buf - (1 + 2 * K.wbytes) - live.length))).drop
            (if extra then 1 else 0)).length = K.buf - (1 + 2 * K.wbytes) - live.length := by
    simp [PADDING]; omega
  have hguard : ¬ (K.buf < 1 + 2 * K.wbytes + live.length ∨
      PADDING.length < (if extra = true then 1 else 0) + (K.buf - (1 + 2 * K.wbytes) - live.length)) := by
    simp [PADDING]; omega
  obtain ⟨h4, h5⟩ := finish_tail K hb H
    ((PADDING.take ((if extra then 1 else 0) + (K.buf - (1 + 2 * K.wbytes) - live.length))).drop
            (if extra then 1 else 0)) msglen magic (if live.length = 0 then (0, 0) else t) c
    (by rw [hplen, hm]; omega) (by omega)
  unfold finTail
  simp only [hpos, hc]
  rw [if_neg hguard]
  rw [h4]
  simp only [debugAssertPos0, h5, ne_eq, not_true_eq_false, and_false, if_false, Out.bind_ok]
  exact ⟨_, rfl⟩


/-- word size, block size, word bytes of the two instantiations -/
def Dims3 (w b wb : Nat) : Prop := (w = 32 ∧ b = 64 ∧ wb = 4) ∨ (w = 64 ∧ b = 128 ∧ wb = 8)

theorem kit_dims3 {w V} {K : Kit w V} {H : Spec.HParams w} {hw : Compressor V → List (BitVec w)}
    (KL : KitLaws K H hw) : Dims3 w K.buf K.wbytes := by
  have h := KL.wbytes
  rcases KL.dims with ⟨h1, h2⟩ | ⟨h1, h2⟩
  · left; subst h1; exact ⟨rfl, h2, h⟩
  · right; subst h1; exact ⟨rfl, h2, h⟩

theorem padBytes_unfold {w b wb : Nat} (D : Dims3 w b wb) (m : BitVec 8) (n : Nat) :
    Spec.padBytes w m n =
      if (2 * b - 2 * wb - 1 - n % b) % b = 0 then [0x80#8 ||| m]
      else [0x80#8] ++ List.replicate ((2 * b - 2 * wb - 1 - n % b) % b - 1) 0#8 ++ [m] := by
  rcases D with ⟨rfl, rfl, rfl⟩ | ⟨rfl, rfl, rfl⟩ <;> rfl

theorem pad_noextra {w V} {K : Kit w V} {H : Spec.HParams w} {hw : Compressor V → List (BitVec w)}
    (KL : KitLaws K H hw) (r n : Nat) (hn : n % K.buf = r) (hfit : r + (1 + 2 * K.wbytes) ≤ K.buf) :
    (PADDING.take (0 + (K.buf - (1 + 2 * K.wbytes) - r))).drop 0 ++ [finMagic K r] =
      Spec.padBytes w H.marker n := by
  have D := kit_dims3 KL
  have hfull := KL.full
  rw [padBytes_unfold D, hn]
  by_cases hex : r + (1 + 2 * K.wbytes) = K.buf
  · have hz : (2 * K.buf - 2 * K.wbytes - 1 - r) % K.buf = 0 := by
      rcases D with ⟨_, h1, h2⟩ | ⟨_, h1, h2⟩ <;> simp only [h1, h2] at hex ⊢ <;> omega
    have he : K.buf - (1 + 2 * K.wbytes) - r = 0 := by omega
    rw [if_pos hz, he]
    simp only [finMagic, hex, ne_eq, not_true_eq_false, if_false, hfull]
    simp [BitVec.or_comm]
  · have hz : (2 * K.buf - 2 * K.wbytes - 1 - r) % K.buf = K.buf - (1 + 2 * K.wbytes) - r := by
      rcases D with ⟨_, h1, h2⟩ | ⟨_, h1, h2⟩ <;> simp only [h1, h2] at hex hfit ⊢ <;> omega
    have he : 1 ≤ K.buf - (1 + 2 * K.wbytes) - r := by omega
    have he2 : K.buf - (1 + 2 * K.wbytes) - r ≤ 129 := by
      rcases D with ⟨_, h1, h2⟩ | ⟨_, h1, h2⟩ <;> rw [h1, h2] <;> omega
    rw [hz, if_neg (by omega), Nat.zero_add, List.drop_zero, padding_take he he2]
    simp only [finMagic, hex, ne_eq, not_false_eq_true, if_true, hfull]
    simp

theorem pad_extra {w V} {K : Kit w V} {H : Spec.HParams w} {hw : Compressor V → List (BitVec w)}
    (KL : KitLaws K H hw) (r n : Nat) (hn : n % K.buf = r) (hr : r < K.buf)
    (hext : r + (1 + 2 * K.wbytes) > K.buf) :
    PADDING.take (K.buf - r) ++ ((PADDING.take (1 + (K.buf - (1 + 2 * K.wbytes) - 0))).drop 1 ++ [finMagic K r]) =
      Spec.padBytes w H.marker n := by
  have D := kit_dims3 KL
  have hfull := KL.full
  rw [padBytes_unfold D, hn]
  have hz : (2 * K.buf - 2 * K.wbytes - 1 - r) % K.buf = (K.buf - r - 1) + (K.buf - (1 + 2 * K.wbytes)) + 1 := by
    rcases D with ⟨_, h1, h2⟩ | ⟨_, h1, h2⟩ <;> simp only [h1, h2] at hext hr ⊢ <;> omega
  have he2 : K.buf - (1 + 2 * K.wbytes) ≤ 128 ∧ K.buf - r ≤ 129 := by
    rcases D with ⟨_, h1, h2⟩ | ⟨_, h1, h2⟩ <;> rw [h1, h2] <;> omega
  rw [hz, if_neg (by omega), Nat.sub_zero, padding_take_drop he2.1, padding_take (by omega) he2.2]
  have hne : r + (1 + 2 * K.wbytes) ≠ K.buf := by omega
  simp only [finMagic, hne, ne_eq, not_false_eq_true, if_true, hfull]
  simp [← List.replicate_append_replicate]


/-- the final chaining value according to the specification, from the chaining value `h` after `k`
    full blocks with `rem` left over -/
def specTail {w} (H : Spec.HParams w) (b k : Nat) (h : List (BitVec w)) (rem : List (BitVec 8)) : List (BitVec w) :=
  Spec.iterate H.P (8 * (b * k + rem.length)) k h
    (Spec.blocks b (rem ++ Spec.padBytes w H.marker (b * k + rem.length) ++
      toBeBytes (BitVec.ofNat (2 * w) (8 * (b * k + rem.length))) (Spec.lenBytes w)))

theorem counter_last {w b : Nat} (D : Dims w b) (k r : Nat) (hr : r < b) :
    Spec.counter w (8 * (b * k + r)) k = if r = 0 then 0 else 8 * (b * k + r) := by
  have hb := dims_blockBytes D
  unfold Spec.counter
  rw [hb]
  dsimp only
  have h3 : (k + 1) * (8 * b) = 8 * (b * k) + 8 * b := by
    rw [Nat.add_mul, Nat.one_mul, Nat.mul_comm k, Nat.mul_assoc]
  have h4 : k * (8 * b) = 8 * (b * k) := by rw [Nat.mul_comm k, Nat.mul_assoc]
  rw [h3, h4, Nat.mul_add]
  by_cases h0 : r = 0
  · subst h0; simp
  · rw [if_neg (by omega), if_neg h0]; omega

theorem counter_after {w b : Nat} (D : Dims w b) (k r : Nat) (hr : r < b) :
    Spec.counter w (8 * (b * k + r)) (k + 1) = 0 := by
  have hb := dims_blockBytes D
  unfold Spec.counter
  rw [hb]
  dsimp only
  have h4 : (k + 1) * (8 * b) = 8 * (b * k) + 8 * b := by
    rw [Nat.add_mul, Nat.one_mul, Nat.mul_comm k, Nat.mul_assoc]
  rw [h4, Nat.mul_add, if_pos (by omega)]

theorem splitT_zero (w : Nat) : splitT w 0 = (0, 0) := by
  simp [splitT]

theorem finalize_eq {w V} {K : Kit w V} {H : Spec.HParams w} {hw : Compressor V → List (BitVec w)}
    (KL : KitLaws K H hw) (p : Profile) (s : Hasher w V) (rem : List (BitVec 8)) (k : Nat)
    (Hb : Holds s.buffer K.buf rem) (ht : s.t = splitT w (8 * K.buf * k))
    (hl : 8 * (K.buf * k + rem.length) < 2 ^ (2 * w)) :
    ∃ s' c', finalizeIntoDirty K p s = .ok (s', (K.finalize c').take K.outBytes) ∧
      hw c' = specTail H K.buf k (hw s.compressor) rem := by
  have D := KL.dims
  have D3 := kit_dims3 KL
  have hb := dims_pos D
  have hpos := Hb.pos
  have hr := Hb.lt
  have hwd : w = 32 ∨ w = 64 := by rcases D with ⟨h, _⟩ | ⟨h, _⟩ <;> simp [h]
  have hbuf : K.buf ≤ 128 ∧ 0 < K.wbytes ∧ K.wbytes = w / 8 ∧ 2 * K.wbytes < K.buf := by
    rcases D3 with ⟨rfl, h1, h2⟩ | ⟨rfl, h1, h2⟩ <;> simp [h1, h2]
  have hinc : increaseCount p s.t (BitVec.ofNat w s.buffer.pos) =
      .ok (splitT w (8 * (K.buf * k + rem.length))) := by
    have e1 : 8 * K.buf * k + 8 * rem.length = 8 * (K.buf * k + rem.length) := by
      rw [Nat.mul_add, Nat.mul_assoc]
    rw [ht, hpos, increaseCount_split hwd p _ _ (by rcases D3 with ⟨rfl, h, _⟩ | ⟨rfl, h, _⟩ <;> omega)
      (by rw [e1]; exact hl), e1]
  have hnmod : (K.buf * k + rem.length) % K.buf = rem.length := by
    rw [Nat.mul_add_mod, Nat.mod_eq_of_lt hr]
  have hmsglen := msglen_eq D (8 * (K.buf * k + rem.length))
  unfold finalizeIntoDirty
  dsimp only
  rw [hinc]
  simp only [Out.bind_ok, hpos]
  rw [if_neg (by omega)]
  generalize htt : splitT w (8 * (K.buf * k + rem.length)) = t at *
  have hml : (toBeBytes t.2 K.wbytes ++ toBeBytes t.1 K.wbytes).length = 2 * K.wbytes := by
    simp [toBeBytes_length]; omega
  by_cases hext : rem.length + (1 + 2 * K.wbytes) > K.buf
  · have hd : decide (rem.length + (1 + 2 * K.wbytes) > K.buf) = true := by simp [hext]
    rw [hd]
    have hpl : (PADDING.take (K.buf - rem.length)).length = K.buf - rem.length := by
      simp [PADDING]; omega
    obtain ⟨e1, e2⟩ := inputBlock_eq hb Hb (PADDING.take (K.buf - rem.length)) (putStep K t) (.ok s.compressor)
    have l1 : (rem ++ PADDING.take (K.buf - rem.length)).length = K.buf := by
      rw [List.length_append, hpl]; omega
    rw [blocks_single hb l1] at e1
    rw [tailBytes_single hb l1] at e2
    have hfe : finExtra K p s.buffer s.compressor t true =
        ((inputBlock K.buf s.buffer (PADDING.take (K.buf - rem.length)) (putStep K t) (.ok s.compressor)).1,
          .ok (K.putBlock s.compressor (rem ++ PADDING.take (K.buf - rem.length)) t)) := by
      unfold finExtra
      simp only [if_true, hpos]
      rw [e1]
      simp [debugAssertPos0, e2.pos, putStep]
    rw [hfe]
    obtain ⟨s', hs'⟩ := finTail_eq K p s
      ((inputBlock K.buf s.buffer (PADDING.take (K.buf - rem.length)) (putStep K t) (.ok s.compressor)).1,
          .ok (K.putBlock s.compressor (rem ++ PADDING.take (K.buf - rem.length)) t)) true t
      (toBeBytes t.2 K.wbytes ++ toBeBytes t.1 K.wbytes) (finMagic K rem.length) []
      (K.putBlock s.compressor (rem ++ PADDING.take (K.buf - rem.length)) t) hb e2 rfl hml
      hbuf.2.1 (by simp; omega) hbuf.1
    refine ⟨s', _, hs', ?_⟩
    rw [KL.put, KL.put]
    have hpad := pad_extra KL rem.length (K.buf * k + rem.length) hnmod hr hext
    simp only [if_true, List.length_nil, List.nil_append] at hpad ⊢
    have hfinal : (rem ++ PADDING.take (K.buf - rem.length)) ++
        (List.drop 1 (List.take (1 + (K.buf - (1 + 2 * K.wbytes) - 0)) PADDING) ++
        [finMagic K rem.length] ++ (toBeBytes t.2 K.wbytes ++ toBeBytes t.1 K.wbytes)) =
        rem ++ Spec.padBytes w H.marker (K.buf * k + rem.length) ++
          toBeBytes (BitVec.ofNat (2 * w) (8 * (K.buf * k + rem.length))) (Spec.lenBytes w) := by
      rw [← hpad, ← hmsglen, ← htt, hbuf.2.2.1]
      simp [splitT]
    have hlen2 : (List.drop 1 (List.take (1 + (K.buf - (1 + 2 * K.wbytes) - 0)) PADDING) ++
        [finMagic K rem.length] ++ (toBeBytes t.2 K.wbytes ++ toBeBytes t.1 K.wbytes)).length = K.buf := by
      simp [toBeBytes_length, PADDING]; omega
    unfold specTail
    rw [← hfinal, blocks_cons hb l1, blocks_single hb hlen2]
    have hr0 : rem.length ≠ 0 := by omega
    simp only [Spec.iterate, counter_last D k rem.length hr, counter_after D k rem.length hr, hr0, if_false,
      ← htt, splitT]
    simp
  · have hd : decide (rem.length + (1 + 2 * K.wbytes) > K.buf) = false := by simp [hext]
    rw [hd]
    have hfe : finExtra K p s.buffer s.compressor t false = (s.buffer, .ok s.compressor) := by
      simp [finExtra]
    rw [hfe]
    obtain ⟨s', hs'⟩ := finTail_eq K p s (s.buffer, .ok s.compressor) false t
      (toBeBytes t.2 K.wbytes ++ toBeBytes t.1 K.wbytes) (finMagic K rem.length) rem s.compressor hb Hb rfl hml
      hbuf.2.1 (by omega) hbuf.1
    refine ⟨s', _, hs', ?_⟩
    rw [KL.put]
    have hpad := pad_noextra KL rem.length (K.buf * k + rem.length) hnmod (by omega)
    simp only [Bool.false_eq_true, if_false] at hpad ⊢
    have hfinal : rem ++ List.drop 0 (List.take (0 + (K.buf - (1 + 2 * K.wbytes) - rem.length)) PADDING) ++
        [finMagic K rem.length] ++ (toBeBytes t.2 K.wbytes ++ toBeBytes t.1 K.wbytes) =
        rem ++ Spec.padBytes w H.marker (K.buf * k + rem.length) ++
          toBeBytes (BitVec.ofNat (2 * w) (8 * (K.buf * k + rem.length))) (Spec.lenBytes w) := by
      rw [← hpad, ← hmsglen, ← htt, hbuf.2.2.1]
      simp [splitT]
    rw [hfinal]
    have hlen : (rem ++ Spec.padBytes w H.marker (K.buf * k + rem.length) ++
          toBeBytes (BitVec.ofNat (2 * w) (8 * (K.buf * k + rem.length))) (Spec.lenBytes w)).length = K.buf := by
      rw [← hfinal]; simp [toBeBytes_length, PADDING]; omega
    unfold specTail
    rw [blocks_single hb hlen]
    simp only [Spec.iterate, counter_last D k rem.length hr]
    by_cases h0 : rem.length = 0
    · simp [h0]
    · simp only [h0, if_false, ← htt, splitT]


/-! ## Part 7: the one-shot digest -/

theorem blocks_append_tail {b : Nat} (hb : 0 < b) (ys : List (BitVec 8)) :
    ∀ (n : Nat) (xs : List (BitVec 8)), xs.length = n →
      Spec.blocks b (xs ++ ys) = Spec.blocks b xs ++ Spec.blocks b (tailBytes b xs ++ ys) := by
  intro n
  induction n using Nat.strongRecOn with
  | _ n ih =>
    intro xs hn
    by_cases hlt : xs.length < b
    · rw [blocks_lt hlt, tailBytes_lt hlt, List.nil_append]
    · have hge : b ≤ xs.length := by omega
      have hsplit : xs = xs.take b ++ xs.drop b := (List.take_append_drop b xs).symm
      have htl : (xs.take b).length = b := by simp; omega
      rw [tailBytes_ge hb hge, blocks_ge hb hge]
      conv => lhs; rw [hsplit, List.append_assoc]
      rw [blocks_cons hb htl, ih (xs.drop b).length (by simp; omega) (xs.drop b) rfl]
      rfl

theorem blocks_length {b : Nat} (hb : 0 < b) :
    ∀ (n : Nat) (xs : List (BitVec 8)), xs.length = n → (Spec.blocks b xs).length = xs.length / b := by
  intro n
  induction n using Nat.strongRecOn with
  | _ n ih =>
    intro xs hn
    by_cases hlt : xs.length < b
    · rw [blocks_lt hlt, Nat.div_eq_of_lt hlt]; rfl
    · have hge : b ≤ xs.length := by omega
      rw [blocks_ge hb hge, List.length_cons, ih (xs.drop b).length (by simp; omega) (xs.drop b) rfl,
        Nat.div_eq_sub_div hb hge, List.length_drop]

theorem tailBytes_length {b : Nat} (xs : List (BitVec 8)) :
    b * (xs.length / b) + (tailBytes b xs).length = xs.length := by
  simp only [tailBytes, List.length_drop]
  have := Nat.mul_div_le xs.length b
  omega

theorem iterate_append {w} (P : Spec.Params w) (l : Nat) (B : List (List (BitVec 8))) :
    ∀ (A : List (List (BitVec 8))) (i : Nat) (h : List (BitVec w)),
      Spec.iterate P l i h (A ++ B) = Spec.iterate P l (i + A.length) (Spec.iterate P l i h A) B := by
  intro A
  induction A with
  | nil => intro i h; rfl
  | cons a A ih =>
    intro i h
    simp only [List.cons_append, Spec.iterate, List.length_cons]
    rw [ih, show i + 1 + A.length = i + (A.length + 1) by omega]

/-- `update` from the initial state with the whole message in one call: no panic, the buffer holds
    the incomplete tail, the counter is `8·b·⌊n/b⌋` as `(lo, hi)`, the chaining value is the
    specified iteration over the complete blocks. -/
theorem update_eq {w V} {K : Kit w V} {H : Spec.HParams w} {hw : Compressor V → List (BitVec w)}
    (KL : KitLaws K H hw) (p : Profile) (msg : List (BitVec 8)) (hl : 8 * msg.length < 2 ^ (2 * w)) :
    ∃ s', update K p (Hasher.default K) msg = .ok s' ∧
      Holds s'.buffer K.buf (tailBytes K.buf msg) ∧
      s'.t = splitT w (8 * K.buf * (msg.length / K.buf)) ∧
      hw s'.compressor = Spec.iterate H.P (8 * msg.length) 0 H.iv (Spec.blocks K.buf msg) := by
  have hb := dims_pos KL.dims
  obtain ⟨e1, e2⟩ := inputBlock_eq hb (holds_init hb) msg (updateStep K p) (.ok (K.iv, ((0 : BitVec w), (0 : BitVec w))))
  rw [List.nil_append] at e1 e2
  have hbl := blocks_length hb _ msg rfl
  have hle : 8 * K.buf * (0 + (Spec.blocks K.buf msg).length) ≤ 8 * msg.length := by
    rw [hbl, Nat.zero_add, Nat.mul_assoc]
    exact Nat.mul_le_mul_left 8 (Nat.mul_div_le _ _)
  obtain ⟨c', f1, f2⟩ := foldl_updateStep KL p (8 * msg.length) hl (Spec.blocks K.buf msg) K.iv 0 hle
  rw [Nat.mul_zero, splitT_zero, Nat.zero_add, hbl] at f1
  refine ⟨{ compressor := c', buffer := (inputBlock K.buf (BB.init K.buf) msg (updateStep K p)
      (.ok (K.iv, ((0 : BitVec w), (0 : BitVec w))))).1, t := splitT w (8 * K.buf * (msg.length / K.buf)) }, ?_, e2, rfl, ?_⟩
  · unfold update
    simp only [Hasher.default]
    rw [e1, f1]
    rfl
  · rw [f2, KL.iv]


/-- One `update` with the whole message followed by `finalize` computes the specified hash, in
    both profiles, whenever the bit length fits the `2w`-bit length field. -/
theorem digestK_eq {w V} {K : Kit w V} {H : Spec.HParams w} {hw : Compressor V → List (BitVec w)}
    (KL : KitLaws K H hw) (p : Profile) (msg : List (BitVec 8)) (hl : 8 * msg.length < 2 ^ (2 * w)) :
    digestK K p msg = .ok (Spec.hash H msg) := by
  have D := KL.dims
  have hb := dims_pos D
  obtain ⟨s1, u1, u2, u3, u4⟩ := update_eq KL p msg hl
  have hlen := tailBytes_length (b := K.buf) msg
  obtain ⟨s2, c2, g1, g2⟩ := finalize_eq KL p s1 (tailBytes K.buf msg) (msg.length / K.buf) u2 u3
    (by rw [hlen]; exact hl)
  unfold digestK finalize
  rw [u1]
  simp only [Out.bind_ok]
  rw [g1]
  simp only [Out.bind_ok, Out.ok.injEq]
  rw [KL.fin, g2, KL.out, u4]
  unfold Spec.hash specTail
  rw [hlen, dims_blockBytes D]
  dsimp only
  unfold Spec.pad
  rw [List.append_assoc msg, blocks_append_tail hb _ _ msg rfl, iterate_append, Nat.zero_add,
    blocks_length hb _ msg rfl, List.append_assoc]


theorem toBe32_eq (x : BitVec 32) : toBe32 x = toBeBytes x 4 := by
  simp only [toBe32, toBeBytes, toLeBytes, List.range, List.range.loop, List.map, List.reverse_cons,
    List.reverse_nil, List.nil_append, List.cons_append, List.cons.injEq, and_true]
  refine ⟨?_, ?_, ?_, ?_⟩ <;> bv_decide

theorem toBe64_eq (x : BitVec 64) : toBe64 x = toBeBytes x 8 := by
  simp only [toBe64, toLe64, toBeBytes, toLeBytes, List.range, List.range.loop, List.map, List.reverse_cons,
    List.reverse_nil, List.nil_append, List.cons_append, List.cons.injEq, and_true]
  refine ⟨?_, ?_, ?_, ?_, ?_, ?_, ?_, ?_⟩ <;> bv_decide

theorem finalizeC32_ref (c : Compressor (BitVec 128)) :
    finalizeC (vops32 Mach.ref) c = (hWords quad32 c).flatMap (fun x => toBeBytes x (32 / 8)) := by
  simp [finalizeC, vops32, Mach.ref, hWords, quad32, toBe32_eq, List.flatMap]

theorem finalizeC64_ref (c : Compressor (BitVec 256)) :
    finalizeC (vops64 Mach.ref) c = (hWords quad64 c).flatMap (fun x => toBeBytes x (64 / 8)) := by
  simp [finalizeC, vops64, Mach.ref, hWords, quad64, toBe64_eq, List.flatMap]

theorem sigma_take14 : SIGMA.take 14 = (List.range 14).map Spec.sigmaRow := by decide
theorem sigma_take16 : SIGMA.take 16 = (List.range 16).map Spec.sigmaRow := by decide

theorem laws224 : KitLaws (kit224 Mach.ref) Spec.h224 (hWords quad32) where
  dims := Or.inl ⟨rfl, rfl⟩
  wbytes := rfl
  put := fun c blk t => putBlock_eq_compress laws32_ref cp32 rfl sigma_take14 c blk t
  iv := by simp [hWords, quad32, kit224, BLAKE224_IV, Spec.h224, Spec.iv224]
  fin := finalizeC32_ref
  full := by decide
  out := rfl

theorem laws256 : KitLaws (kit256 Mach.ref) Spec.h256 (hWords quad32) where
  dims := Or.inl ⟨rfl, rfl⟩
  wbytes := rfl
  put := fun c blk t => putBlock_eq_compress laws32_ref cp32 rfl sigma_take14 c blk t
  iv := by simp [hWords, quad32, kit256, BLAKE256_IV, Spec.h256, Spec.iv256]
  fin := finalizeC32_ref
  full := by decide
  out := rfl

theorem laws384 : KitLaws (kit384 Mach.ref) Spec.h384 (hWords quad64) where
  dims := Or.inr ⟨rfl, rfl⟩
  wbytes := rfl
  put := fun c blk t => putBlock_eq_compress laws64_ref cp64 rfl sigma_take16 c blk t
  iv := by simp [hWords, quad64, kit384, BLAKE384_IV, Spec.h384, Spec.iv384]
  fin := finalizeC64_ref
  full := by decide
  out := rfl

theorem laws512 : KitLaws (kit512 Mach.ref) Spec.h512 (hWords quad64) where
  dims := Or.inr ⟨rfl, rfl⟩
  wbytes := rfl
  put := fun c blk t => putBlock_eq_compress laws64_ref cp64 rfl sigma_take16 c blk t
  iv := by simp [hWords, quad64, kit512, BLAKE512_IV, Spec.h512, Spec.iv512]
  fin := finalizeC64_ref
  full := by decide
  out := rfl


/-- bit-length limit of the format: the length field has `2w` bits -/
def maxBits : Spec.Variant → Nat
  | .b224 => 2 ^ 64
  | .b256 => 2 ^ 64
  | .b384 => 2 ^ 128
  | .b512 => 2 ^ 128

theorem digest_ref_eq (p : Profile) (v : Spec.Variant) (msg : List (BitVec 8)) (h : 8 * msg.length < maxBits v) :
    digest Mach.ref p v msg = .ok (Spec.blake v msg) := by
  cases v
  · exact digestK_eq laws224 p msg h
  · exact digestK_eq laws256 p msg h
  · exact digestK_eq laws384 p msg h
  · exact digestK_eq laws512 p msg h

/-- C17 (BLAKE): after absorbing `n` bytes in one `update` (any `n` with `8n` below the format
    limit) there is no panic in either profile, `buffered = n mod b` bytes are pending, and
    `(t.0, t.1)` is `8·(n − buffered)` as low/high words (the carry into `t.1` is exact). -/
theorem update_counter {w V} {K : Kit w V} {H : Spec.HParams w} {hw : Compressor V → List (BitVec w)}
    (KL : KitLaws K H hw) (p : Profile) (msg : List (BitVec 8)) (hl : 8 * msg.length < 2 ^ (2 * w)) :
    ∃ s', update K p (Hasher.default K) msg = .ok s' ∧
      s'.buffer.pos = msg.length % K.buf ∧
      s'.t = (BitVec.ofNat w (8 * (msg.length - s'.buffer.pos)),
              BitVec.ofNat w (8 * (msg.length - s'.buffer.pos) / 2 ^ w)) := by
  obtain ⟨s1, u1, u2, u3, _⟩ := update_eq KL p msg hl
  have hlen := tailBytes_length (b := K.buf) msg
  have hmod := Nat.div_add_mod msg.length K.buf
  have hpos : s1.buffer.pos = msg.length % K.buf := by rw [u2.pos]; omega
  refine ⟨s1, u1, hpos, ?_⟩
  rw [u3, hpos, show msg.length - msg.length % K.buf = K.buf * (msg.length / K.buf) by omega, Nat.mul_assoc]
  rfl

/-! ## Part 8: streaming (any chunking of the input) -/

theorem tailBytes_append_tail {b : Nat} (hb : 0 < b) (ys : List (BitVec 8)) :
    ∀ (n : Nat) (xs : List (BitVec 8)), xs.length = n →
      tailBytes b (xs ++ ys) = tailBytes b (tailBytes b xs ++ ys) := by
  intro n
  induction n using Nat.strongRecOn with
  | _ n ih =>
    intro xs hn
    by_cases hlt : xs.length < b
    · rw [tailBytes_lt hlt]
    · have hge : b ≤ xs.length := by omega
      have hsplit : xs = xs.take b ++ xs.drop b := (List.take_append_drop b xs).symm
      have htl : (xs.take b).length = b := by simp; omega
      rw [tailBytes_ge hb hge (xs := xs)]
      conv => lhs; rw [hsplit, List.append_assoc]
      rw [tailBytes_cons hb htl, ih (xs.drop b).length (by simp; omega) (xs.drop b) rfl]

/-- the hasher state `s` is the one reached after absorbing the byte string `m` -/
structure Absorbed {w V} (K : Kit w V) (H : Spec.HParams w) (hw : Compressor V → List (BitVec w))
    (s : Hasher w V) (m : List (BitVec 8)) : Prop where
  buf : Holds s.buffer K.buf (tailBytes K.buf m)
  t : s.t = splitT w (8 * K.buf * (m.length / K.buf))
  h : ∀ l, 8 * m.length ≤ l → l < 2 ^ (2 * w) → hw s.compressor = Spec.iterate H.P l 0 H.iv (Spec.blocks K.buf m)

theorem absorbed_default {w V} {K : Kit w V} {H : Spec.HParams w} {hw : Compressor V → List (BitVec w)}
    (KL : KitLaws K H hw) : Absorbed K H hw (Hasher.default K) [] := by
  have hb := dims_pos KL.dims
  refine ⟨?_, ?_, ?_⟩
  · rw [tailBytes_lt (by simpa using hb)]; exact holds_init hb
  · simp [Hasher.default, splitT]
  · intro l _ _; rw [blocks_lt (by simpa using hb)]; exact KL.iv

/-- Streaming: any `update` from a reached state (total bit length below the format limit) does not
    panic in either profile and reaches the state of the concatenated message — in particular
    the counter stays `8·b·⌊n/b⌋` with exact carry, for every chunking of the input. -/
theorem update_absorbed {w V} {K : Kit w V} {H : Spec.HParams w} {hw : Compressor V → List (BitVec w)}
    (KL : KitLaws K H hw) (p : Profile) (s : Hasher w V) (m xs : List (BitVec 8))
    (A : Absorbed K H hw s m) (hl : 8 * (m ++ xs).length < 2 ^ (2 * w)) :
    ∃ s', update K p s xs = .ok s' ∧ Absorbed K H hw s' (m ++ xs) := by
  have hb := dims_pos KL.dims
  obtain ⟨e1, e2⟩ := inputBlock_eq hb A.buf xs (updateStep K p) (.ok (s.compressor, s.t))
  have hbl1 := blocks_length hb _ m rfl
  have hbl2 := blocks_length hb _ (tailBytes K.buf m ++ xs) rfl
  have hbl3 := blocks_length hb _ (m ++ xs) rfl
  have happ := blocks_append_tail hb xs _ m rfl
  have hdiv : (m ++ xs).length / K.buf = m.length / K.buf + (tailBytes K.buf m ++ xs).length / K.buf := by
    rw [← hbl3, happ, List.length_append, hbl1, hbl2]
  have hle : 8 * K.buf * (m.length / K.buf + (Spec.blocks K.buf (tailBytes K.buf m ++ xs)).length) ≤
      8 * (m ++ xs).length := by
    rw [hbl2, ← hdiv, Nat.mul_assoc]
    exact Nat.mul_le_mul_left 8 (Nat.mul_div_le _ _)
  obtain ⟨c', f1, f2⟩ := foldl_updateStep KL p (8 * (m ++ xs).length) hl
    (Spec.blocks K.buf (tailBytes K.buf m ++ xs)) s.compressor (m.length / K.buf) hle
  rw [hbl2, ← hdiv] at f1
  rw [A.t] at e1
  refine ⟨{ compressor := c', buffer := (inputBlock K.buf s.buffer xs (updateStep K p)
      (.ok (s.compressor, s.t))).1, t := splitT w (8 * K.buf * ((m ++ xs).length / K.buf)) }, ?_, ?_, rfl, ?_⟩
  · unfold update
    dsimp only
    rw [A.t, e1, f1]
    rfl
  · rw [tailBytes_append_tail hb xs _ m rfl]; exact e2
  · intro l hl2 hl3
    have hfull : 8 * K.buf * ((m ++ xs).length / K.buf) ≤ l := by
      have : 8 * K.buf * ((m ++ xs).length / K.buf) ≤ 8 * (m ++ xs).length := by
        rw [Nat.mul_assoc]; exact Nat.mul_le_mul_left 8 (Nat.mul_div_le _ _)
      omega
    obtain ⟨c'', g1, g2⟩ := foldl_updateStep KL p l hl3
      (Spec.blocks K.buf (tailBytes K.buf m ++ xs)) s.compressor (m.length / K.buf)
      (by rw [hbl2, ← hdiv]; exact hfull)
    rw [hbl2, ← hdiv, f1] at g1
    have hcc : c'' = c' := by
      have := Out.ok.inj g1
      exact (Prod.mk.inj this).1.symm
    rw [happ, iterate_append, Nat.zero_add, hbl1, ← A.h l (by simp at hl2 ⊢; omega) hl3, ← hcc, g2]

/-- `finalize` from any reached state returns the specified hash of everything absorbed. -/
theorem finalize_absorbed {w V} {K : Kit w V} {H : Spec.HParams w} {hw : Compressor V → List (BitVec w)}
    (KL : KitLaws K H hw) (p : Profile) (s : Hasher w V) (m : List (BitVec 8))
    (A : Absorbed K H hw s m) (hl : 8 * m.length < 2 ^ (2 * w)) :
    finalize K p s = .ok (Spec.hash H m) := by
  have D := KL.dims
  have hb := dims_pos D
  have hlen := tailBytes_length (b := K.buf) m
  obtain ⟨s2, c2, g1, g2⟩ := finalize_eq KL p s (tailBytes K.buf m) (m.length / K.buf) A.buf A.t
    (by rw [hlen]; exact hl)
  unfold finalize
  rw [g1]
  simp only [Out.bind_ok, Out.ok.injEq]
  rw [KL.fin, g2, KL.out, A.h (8 * m.length) (Nat.le_refl _) hl]
  unfold Spec.hash specTail
  rw [hlen, dims_blockBytes D]
  dsimp only
  unfold Spec.pad
  rw [List.append_assoc m, blocks_append_tail hb _ _ m rfl, iterate_append, Nat.zero_add,
    blocks_length hb _ m rfl, List.append_assoc]


/-- value of an `Out`, if any (for the evaluated examples) -/
def okVal {α} : Out α → Option α
  | .ok a => some a
  | _ => none

end CC.Blake
