/-
  CC.Blake.C08 — the BLAKE model (`CC.Blake.Hasher`, the four kits) as instances of the generic
  incremental hash (`CC.Buffer.OutInstance`, eager buffer).

  chaining state σ = `Compressor V × (t0, t1)`; the bit counter `t` is bumped INSIDE the block closure
  (`increase_count`, checked in debug builds) — it is part of `step`, its overflow panic is threaded
  in `Out σ`.  No bound on the message length is assumed.

  `finalize_into_dirty` pads through `input_block` itself (up to five calls).  That it reads only the
  chaining state and the live bytes is shown as an observational congruence
  (`finalize_congr`: two well-formed buffers with the same live bytes and position give the same
  digest, whatever their stale bytes); `fin` of the generic description is then the model's
  finalisation on the canonical buffer `live ++ zeros`.
-/
import CC.Blake.Model
import CC.Buffer.OutHash
namespace CC.Blake.C08
open CC CC.Simd CC.Buffer CC.Blake

theorem Out.bind_assoc {α β γ} (x : Out α) (f : α → Out β) (g : β → Out γ) :
    ((x >>= f) >>= g) = (x >>= fun a => f a >>= g) := by
  cases x <;> rfl

/-- two buffer states a client cannot tell apart: well formed, same live bytes, same position. -/
def Eqv (b : Nat) (s s' : BB) : Prop := WF b s ∧ WF b s' ∧ obs s = obs s'

theorem Eqv.pos {b : Nat} {s s' : BB} (h : Eqv b s s') : s.pos = s'.pos := congrArg Prod.snd h.2.2

theorem Eqv.inputBlock {σ : Type} {b : Nat} (hb : 0 < b) {s s' : BB} (h : Eqv b s s')
    (xs : List (BitVec 8)) (f : σ → List (BitVec 8) → σ) (acc : σ) :
    (inputBlock b s xs f acc).2 = (inputBlock b s' xs f acc).2 ∧
    Eqv b (inputBlock b s xs f acc).1 (inputBlock b s' xs f acc).1 := by
  obtain ⟨h₁, h₂, ho⟩ := h
  obtain ⟨e₁, e₂⟩ := inputBlock_congr hb h₁ h₂ ho xs f acc
  exact ⟨e₁, inputBlock_wf hb h₁ xs f acc, inputBlock_wf hb h₂ xs f acc, e₂⟩

/-- the canonical buffer with given live bytes. -/
def canon (b : Nat) (live : List (BitVec 8)) : BB :=
  { buf := live ++ List.replicate (b - live.length) 0#8, pos := live.length }

theorem canon_eqv {b : Nat} {s : BB} (h : WF b s) : Eqv b s (canon b (live s)) := by
  have hl : (live s).length = s.pos := length_live h.toWFL
  refine ⟨h, ⟨?_, ?_⟩, ?_⟩
  · have := h.2; simp [canon, hl]; omega
  · show (live s).length < b; rw [hl]; exact h.2
  · show (live s, s.pos) = ((live s ++ List.replicate (b - (live s).length) 0#8).take (live s).length,
      (live s).length)
    rw [List.take_left' rfl, hl]

section K
variable {w : Nat} {V : Type} (K : Kit w V) (p : Profile)

theorem finExtra_congr (hb : 0 < K.buf) {bb bb' : BB} (h : Eqv K.buf bb bb') (c : Compressor V)
    (t : BitVec w × BitVec w) (extra : Bool) :
    (finExtra K p bb c t extra).2 = (finExtra K p bb' c t extra).2 ∧
    Eqv K.buf (finExtra K p bb c t extra).1 (finExtra K p bb' c t extra).1 := by
  cases extra with
  | false => exact ⟨rfl, h⟩
  | true =>
    obtain ⟨e₁, e₂⟩ := Eqv.inputBlock hb h (PADDING.take (K.buf - bb.pos)) (putStep K t) (.ok c)
    have hp := h.pos
    simp only [finExtra, if_true]
    rw [← hp]
    refine ⟨?_, e₂⟩
    simp only [debugAssertPos0, e₂.pos, e₁]

/-- the last three `input_block` calls of `finalize_into_dirty`. -/
def tail3 (bb : BB) (o : Out (Compressor V)) (pz msglen : List (BitVec 8)) (magic : BitVec 8)
    (t' : BitVec w × BitVec w) : BB × Out (Compressor V) :=
  let r2 := inputBlock K.buf bb pz unreachableStep o
  let r3 := inputBlock K.buf r2.1 [magic] unreachableStep r2.2
  inputBlock K.buf r3.1 msglen (putStep K t') r3.2

theorem tail3_congr (hb : 0 < K.buf) {bb bb' : BB} (h : Eqv K.buf bb bb') (o : Out (Compressor V))
    (pz msglen : List (BitVec 8)) (magic : BitVec 8) (t' : BitVec w × BitVec w) :
    (tail3 K bb o pz msglen magic t').2 = (tail3 K bb' o pz msglen magic t').2 ∧
    Eqv K.buf (tail3 K bb o pz msglen magic t').1 (tail3 K bb' o pz msglen magic t').1 := by
  obtain ⟨a₂, e₂⟩ := Eqv.inputBlock hb h pz unreachableStep o
  obtain ⟨a₃, e₃⟩ := Eqv.inputBlock hb e₂ [magic] unreachableStep
    (inputBlock K.buf bb pz unreachableStep o).2
  obtain ⟨a₄, e₄⟩ := Eqv.inputBlock hb e₃ msglen (putStep K t')
    (inputBlock K.buf (inputBlock K.buf bb pz unreachableStep o).1 [magic] unreachableStep
      (inputBlock K.buf bb pz unreachableStep o).2).2
  unfold tail3
  simp only []
  rw [← a₂, ← a₃]
  exact ⟨a₄, e₄⟩

theorem finTail_unfold (s : Hasher w V) (r1 : BB × Out (Compressor V)) (extra : Bool)
    (t : BitVec w × BitVec w) (msglen : List (BitVec 8)) (magic : BitVec 8) :
    finTail K p s r1 extra t msglen magic
      = if K.buf < (1 + 2 * K.wbytes) + r1.1.pos ∨
            PADDING.length < (if extra then 1 else 0) + (K.buf - (1 + 2 * K.wbytes) - r1.1.pos) then
          (r1.2 >>= fun _ => Out.panic "attempt to subtract with overflow / slice index out of range")
        else
          debugAssertPos0 p
            (tail3 K r1.1 r1.2 ((PADDING.take ((if extra then 1 else 0) +
                (K.buf - (1 + 2 * K.wbytes) - r1.1.pos))).drop (if extra then 1 else 0)) msglen magic
              (if r1.1.pos = 0 then (0, 0) else t)).1
            (tail3 K r1.1 r1.2 ((PADDING.take ((if extra then 1 else 0) +
                (K.buf - (1 + 2 * K.wbytes) - r1.1.pos))).drop (if extra then 1 else 0)) msglen magic
              (if r1.1.pos = 0 then (0, 0) else t)).2 >>= fun c =>
            Out.ok ({ s with buffer := (tail3 K r1.1 r1.2 ((PADDING.take ((if extra then 1 else 0) +
                (K.buf - (1 + 2 * K.wbytes) - r1.1.pos))).drop (if extra then 1 else 0)) msglen magic
              (if r1.1.pos = 0 then (0, 0) else t)).1 }, (K.finalize c).take K.outBytes) := rfl

theorem finTail_congr (hb : 0 < K.buf) (s s' : Hasher w V) {r1 r1' : BB × Out (Compressor V)}
    (h2 : r1.2 = r1'.2) (h1 : Eqv K.buf r1.1 r1'.1) (extra : Bool) (t : BitVec w × BitVec w)
    (msglen : List (BitVec 8)) (magic : BitVec 8) :
    (finTail K p s r1 extra t msglen magic >>= fun r => Out.ok r.2)
      = (finTail K p s' r1' extra t msglen magic >>= fun r => Out.ok r.2) := by
  obtain ⟨b1, o1⟩ := r1
  obtain ⟨b1', o1'⟩ := r1'
  simp only at h2 h1
  subst h2
  have hp := h1.pos
  rw [finTail_unfold, finTail_unfold]
  simp only [← hp]
  obtain ⟨a, e⟩ := tail3_congr K hb h1 o1 ((PADDING.take ((if extra then 1 else 0) +
      (K.buf - (1 + 2 * K.wbytes) - b1.pos))).drop (if extra then 1 else 0)) msglen magic
    (if b1.pos = 0 then (0, 0) else t)
  by_cases hg : K.buf < (1 + 2 * K.wbytes) + b1.pos ∨
      PADDING.length < (if extra then 1 else 0) + (K.buf - (1 + 2 * K.wbytes) - b1.pos)
  · rw [if_pos hg, if_pos hg]
  · rw [if_neg hg, if_neg hg, ← a]
    simp only [debugAssertPos0, ← e.pos, Out.bind_assoc, Out.bind_ok]

/-- **finalisation reads only the chaining state and the live bytes.** -/
theorem finalize_congr (hb : 0 < K.buf) (s s' : Hasher w V) (hc : s.compressor = s'.compressor)
    (ht : s.t = s'.t) (h : Eqv K.buf s.buffer s'.buffer) :
    finalize K p s = finalize K p s' := by
  have hp := h.pos
  unfold finalize finalizeIntoDirty
  simp only [← hc, ← ht, ← hp]
  cases increaseCount p s.t (BitVec.ofNat w s.buffer.pos) with
  | ok t =>
    simp only [Out.bind_ok]
    by_cases hg : K.buf < s.buffer.pos
    · rw [if_pos hg, if_pos hg]
    · rw [if_neg hg, if_neg hg]
      obtain ⟨f₂, f₁⟩ := finExtra_congr K p hb h s.compressor t
        (decide (s.buffer.pos + (1 + 2 * K.wbytes) > K.buf))
      exact finTail_congr K p hb s s' f₂ f₁ _ t _ _
  | err => rfl
  | panic w => rfl

def packB (ct : Compressor V × (BitVec w × BitVec w)) (bb : BB) : Hasher w V :=
  { compressor := ct.1, buffer := bb, t := ct.2 }

def H (hb : 0 < K.buf) :
    IncHash (Out (Compressor V × (BitVec w × BitVec w))) (Out (List (BitVec 8))) where
  b := K.buf
  hb := hb
  init := .ok (K.iv, (0, 0))
  step := updateStep K p
  fin := fun x live => x >>= fun ct => finalize K p (packB ct (canon K.buf live))

/-- `define_hasher!` with kit `K` as an instance. -/
def inst (hb : 0 < K.buf) :
    OutInstance .eager (Hasher w V) (Compressor V × (BitVec w × BitVec w)) (List (BitVec 8)) where
  H := H K p hb
  init0 := (K.iv, (0, 0))
  init_eq := rfl
  step_err := fun _ => rfl
  step_panic := fun _ _ => rfl
  pre_err := fun _ => rfl
  pre_panic := fun _ _ => rfl
  fin_err := fun _ => rfl
  fin_panic := fun _ _ => rfl
  start := .ok (Hasher.default K)
  update := update K p
  finalize := finalize K p
  reset := fun s => .ok (reset K s)
  finreset := finalizeReset K p
  pack := packB
  start_eq := rfl
  update_eq := fun _ _ _ => rfl
  finalize_eq := fun ct bb hwf =>
    finalize_congr K p hb (packB ct bb) (packB ct (canon K.buf (live bb))) rfl rfl (canon_eqv hwf)
  reset_eq := fun _ _ => rfl
  finreset_eq := by
    intro ct bb
    unfold finalizeReset finalize
    cases finalizeIntoDirty K p (packB ct bb) <;> rfl

end K

/-- the four public types. -/
def inst224 (M : Mach) (p : Profile) := inst (kit224 M) p (show 0 < 64 by decide)
def inst256 (M : Mach) (p : Profile) := inst (kit256 M) p (show 0 < 64 by decide)
def inst384 (M : Mach) (p : Profile) := inst (kit384 M) p (show 0 < 128 by decide)
def inst512 (M : Mach) (p : Profile) := inst (kit512 M) p (show 0 < 128 by decide)

end CC.Blake.C08
