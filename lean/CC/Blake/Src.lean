/-
  CC.Blake.Src — SOURCE TIE for BLAKE (property C04): every definition that tools/inventory_kernels.py
  regenerates from hashes/blake/src/{lib.rs,consts.rs} into `CC.Gen.Kernels` equals the hand-written model
  definition (`CC.Blake.Model`) the theorems of `CC.Thm.C04` are about.
-/
import CC.Gen.Kernels
import CC.Blake.Model
import CC.Lemmas.SrcGlue
import CC.Lemmas.SrcGlueBlake
namespace CC.Src
open CC.Simd CC.Blake

/-- the tuple `(a, b, c, d)` of row vectors as the model's `Rows` -/
def rowsOf {V : Type} (t : V × V × V × V) : Rows V := ⟨t.1, t.2.1, t.2.2.1, t.2.2.2⟩

theorem src_blake_clean : Gen.Kernels.blake_errors = [] := rfl

/-- lib.rs `round32` = `roundV` at `M::u32x4` with the rotation distances of `cp32` (16, 12, 8, 7) -/
theorem src_blake_round32 :
    (fun M => roundV (vops32 M) cp32) =
      fun M x m0 m1 => rowsOf (Gen.Kernels.blake_round32 M x.a x.b x.c x.d m0 m1) := rfl
/-- lib.rs `round64` = `roundV` at `M::u64x4` with the rotation distances of `cp64` (32, 25, 16, 11) -/
theorem src_blake_round64 :
    (fun M => roundV (vops64 M) cp64) =
      fun M x m0 m1 => rowsOf (Gen.Kernels.blake_round64 M x.a x.b x.c x.d m0 m1) := rfl
theorem src_blake_diagonalize32 :
    (fun M => diagonalize (vops32 M)) = fun M x => rowsOf (Gen.Kernels.blake_diagonalize32 M x.a x.b x.c x.d) := rfl
theorem src_blake_undiagonalize32 :
    (fun M => undiagonalize (vops32 M)) = fun M x => rowsOf (Gen.Kernels.blake_undiagonalize32 M x.a x.b x.c x.d) := rfl
theorem src_blake_diagonalize64 :
    (fun M => diagonalize (vops64 M)) = fun M x => rowsOf (Gen.Kernels.blake_diagonalize64 M x.a x.b x.c x.d) := rfl
theorem src_blake_undiagonalize64 :
    (fun M => undiagonalize (vops64 M)) = fun M x => rowsOf (Gen.Kernels.blake_undiagonalize64 M x.a x.b x.c x.d) := rfl

/-! ### consts.rs -/

theorem src_blake_PADDING : PADDING = Gen.Kernels.blake_PADDING := by decide +kernel
theorem src_blake_SIGMA : SIGMA = Gen.Kernels.blake_SIGMA := by decide +kernel
theorem src_blake_U256 : BLAKE256_U = Gen.Kernels.blake_BLAKE256_U := by decide +kernel
theorem src_blake_U512 : BLAKE512_U = Gen.Kernels.blake_BLAKE512_U := by decide +kernel

/-- `[[u32; 4]; 2]` as the two `vec128_storage` words of a compressor (`$iv[0].into()`, `$iv[1].into()`) -/
def iv32Of (l : List (List (BitVec 32))) : Compressor (BitVec 128) :=
  let r := fun i j => (l.getD i []).getD j 0
  { h0 := pack32 (r 0 0) (r 0 1) (r 0 2) (r 0 3), h1 := pack32 (r 1 0) (r 1 1) (r 1 2) (r 1 3) }
/-- `[[u64; 4]; 2]` as the two `vec256_storage` words of a compressor -/
def iv64Of (l : List (List (BitVec 64))) : Compressor (BitVec 256) :=
  let r := fun i j => (l.getD i []).getD j 0
  { h0 := pack64x4 (r 0 0) (r 0 1) (r 0 2) (r 0 3), h1 := pack64x4 (r 1 0) (r 1 1) (r 1 2) (r 1 3) }

theorem src_blake_IV224 : BLAKE224_IV = iv32Of Gen.Kernels.blake_BLAKE224_IV := by decide +kernel
theorem src_blake_IV256 : BLAKE256_IV = iv32Of Gen.Kernels.blake_BLAKE256_IV := by decide +kernel
theorem src_blake_IV384 : BLAKE384_IV = iv64Of Gen.Kernels.blake_BLAKE384_IV := by decide +kernel
theorem src_blake_IV512 : BLAKE512_IV = iv64Of Gen.Kernels.blake_BLAKE512_IV := by decide +kernel
/-- the IV tables have exactly the shape `iv32Of` / `iv64Of` read (2 rows of 4 words) -/
theorem src_blake_IV_shape :
    (Gen.Kernels.blake_BLAKE224_IV.map List.length, Gen.Kernels.blake_BLAKE256_IV.map List.length,
     Gen.Kernels.blake_BLAKE384_IV.map List.length, Gen.Kernels.blake_BLAKE512_IV.map List.length)
      = ([4, 4], [4, 4], [4, 4], [4, 4]) := by decide +kernel

/-! ### the macro invocations -/

/-- `define_compressor!($compressor, $storage, $word, $Bufsz, $uval, $rounds, $round, $X4)`: the round counts
    are those of `cp32` / `cp64`, the block sizes those of the kits, `size_of::<$word>()` = `wbytes`;
    `$uval`, `$round`, `$X4` are the names tied above (`BLAKE256_U` = `cp32.u`, `round32` at `u32x4`, …). -/
theorem src_blake_define_compressor :
    Gen.Kernels.blake_define_compressor =
      [("Compressor256", "vec128_storage", "u32", (kit256 Mach.ref).buf, "BLAKE256_U", cp32.rounds, "round32", "u32x4"),
       ("Compressor512", "vec256_storage", "u64", (kit512 Mach.ref).buf, "BLAKE512_U", cp64.rounds, "round64", "u64x4")] ∧
    cp32.u = BLAKE256_U ∧ cp64.u = BLAKE512_U ∧ cp32.wbytes = 32 / 8 ∧ cp64.wbytes = 64 / 8 :=
  ⟨rfl, rfl, rfl, rfl, rfl⟩

/-- `define_hasher!($name, $word, $buf, $Bufsz, $bits, $Bytes, $compressor, $iv)` against the four kits -/
theorem src_blake_define_hasher :
    Gen.Kernels.blake_define_hasher =
      [("Blake224", "u32", (kit224 Mach.ref).buf, (kit224 Mach.ref).buf, (kit224 Mach.ref).bits,
          (kit224 Mach.ref).outBytes, "Compressor256", "BLAKE224_IV"),
       ("Blake256", "u32", (kit256 Mach.ref).buf, (kit256 Mach.ref).buf, (kit256 Mach.ref).bits,
          (kit256 Mach.ref).outBytes, "Compressor256", "BLAKE256_IV"),
       ("Blake384", "u64", (kit384 Mach.ref).buf, (kit384 Mach.ref).buf, (kit384 Mach.ref).bits,
          (kit384 Mach.ref).outBytes, "Compressor512", "BLAKE384_IV"),
       ("Blake512", "u64", (kit512 Mach.ref).buf, (kit512 Mach.ref).buf, (kit512 Mach.ref).bits,
          (kit512 Mach.ref).outBytes, "Compressor512", "BLAKE512_IV")] ∧
    (∀ M, (kit224 M).iv = BLAKE224_IV ∧ (kit256 M).iv = BLAKE256_IV ∧
          (kit384 M).iv = BLAKE384_IV ∧ (kit512 M).iv = BLAKE512_IV) ∧
    (∀ M, (kit224 M).putBlock = putBlock (vops32 M) cp32 ∧ (kit256 M).putBlock = putBlock (vops32 M) cp32 ∧
          (kit384 M).putBlock = putBlock (vops64 M) cp64 ∧ (kit512 M).putBlock = putBlock (vops64 M) cp64) ∧
    (kit224 Mach.ref).wbytes = 4 ∧ (kit256 Mach.ref).wbytes = 4 ∧ (kit384 Mach.ref).wbytes = 8 ∧
    (kit512 Mach.ref).wbytes = 8 := by
  refine ⟨rfl, fun _ => ⟨rfl, rfl, rfl, rfl⟩, fun _ => ⟨rfl, rfl, rfl, rfl⟩, rfl, rfl, rfl, rfl⟩

/-! ## phase 2: `$X4::put_block` (the body of `define_compressor!`), both instantiations -/

/-- `Compressor { h: [h0, h1] }` from its two components -/
def compOf {V : Type} (t : V × V) : Compressor V := ⟨t.1, t.2⟩

theorem foldl_conj {α β γ : Type} (g : α → β) (f : α → γ → α) (f' : β → γ → β)
    (h : ∀ a x, g (f a x) = f' (g a) x) : ∀ (l : List γ) (a : α), g (List.foldl f a l) = List.foldl f' (g a) l := by
  intro l
  induction l with
  | nil => intro a; rfl
  | cons x l ih => intro a; exact (ih (f a x)).trans (congrArg (fun b => List.foldl f' b l) (h a x))

/-- body of `for sigma in &SIGMA[..$rounds]` (with the local macros `m0!`, `m1!`), `$X4 = u32x4` -/
theorem src_blake_put_block_u32x4_loop1 (M : Mach) (m : List (BitVec 32))
    (s : BitVec 128 × BitVec 128 × BitVec 128 × BitVec 128) (sigma : List Nat) :
    rowsOf (Gen.Kernels.blake_put_block_u32x4_loop1 M m s sigma) = roundStep (vops32 M) cp32 m (rowsOf s) sigma := rfl

theorem src_blake_put_block_u64x4_loop1 (M : Mach) (m : List (BitVec 64))
    (s : BitVec 256 × BitVec 256 × BitVec 256 × BitVec 256) (sigma : List Nat) :
    rowsOf (Gen.Kernels.blake_put_block_u64x4_loop1 M m s sigma) = roundStep (vops64 M) cp64 m (rowsOf s) sigma := rfl

/-- `u32x4::put_block(mach, state, block, t)` (Compressor256): message words big-endian, `u`, the `t` xor, the
    `SIGMA[..14]` loop, the final xor into `state.h` -/
theorem src_blake_put_block_u32x4 (M : Mach) (c : Compressor (BitVec 128)) (block : List (BitVec 8))
    (t : BitVec 32 × BitVec 32) :
    putBlock (vops32 M) cp32 c block t = compOf (Gen.Kernels.blake_put_block_u32x4 M c.h0 c.h1 block t.1 t.2) := by
  have h : List.foldl (roundStep (vops32 M) cp32 (mWords cp32 block)) (initRows (vops32 M) cp32 c t)
        (SIGMA.take cp32.rounds)
      = rowsOf (List.foldl (Gen.Kernels.blake_put_block_u32x4_loop1 M (mWords cp32 block))
          (c.h0, c.h1, (initRows (vops32 M) cp32 c t).c, (initRows (vops32 M) cp32 c t).d) (SIGMA.take cp32.rounds)) :=
    (foldl_conj rowsOf _ _ (src_blake_put_block_u32x4_loop1 M (mWords cp32 block)) (SIGMA.take cp32.rounds)
      (c.h0, c.h1, (initRows (vops32 M) cp32 c t).c, (initRows (vops32 M) cp32 c t).d)).symm
  simp only [putBlock]
  rw [h]
  rfl

/-- `u64x4::put_block(mach, state, block, t)` (Compressor512): `SIGMA[..16]` -/
theorem src_blake_put_block_u64x4 (M : Mach) (c : Compressor (BitVec 256)) (block : List (BitVec 8))
    (t : BitVec 64 × BitVec 64) :
    putBlock (vops64 M) cp64 c block t = compOf (Gen.Kernels.blake_put_block_u64x4 M c.h0 c.h1 block t.1 t.2) := by
  have h : List.foldl (roundStep (vops64 M) cp64 (mWords cp64 block)) (initRows (vops64 M) cp64 c t)
        (SIGMA.take cp64.rounds)
      = rowsOf (List.foldl (Gen.Kernels.blake_put_block_u64x4_loop1 M (mWords cp64 block))
          (c.h0, c.h1, (initRows (vops64 M) cp64 c t).c, (initRows (vops64 M) cp64 c t).d) (SIGMA.take cp64.rounds)) :=
    (foldl_conj rowsOf _ _ (src_blake_put_block_u64x4_loop1 M (mWords cp64 block)) (SIGMA.take cp64.rounds)
      (c.h0, c.h1, (initRows (vops64 M) cp64 c t).c, (initRows (vops64 M) cp64 c t).d)).symm
  simp only [putBlock]
  rw [h]
  rfl

/-! ## phase 2: `increase_count` (body of `define_hasher!`), the four instantiations.  `count * 8` and `t.1 += 1` are
    checked in profile debug (guards), wrapping otherwise; `overflowing_add` gives the carry. -/

theorem src_blake_increase_count_224 (p : Profile) (t : BitVec 32 × BitVec 32) (count : BitVec 32) :
    increaseCount p t count = Gen.Kernels.blake_increase_count_224 p t.1 t.2 count := by
  cases p <;> simp [increaseCount, Gen.Kernels.blake_increase_count_224] <;> (repeat' split) <;> simp_all <;> omega

theorem src_blake_increase_count_256 (p : Profile) (t : BitVec 32 × BitVec 32) (count : BitVec 32) :
    increaseCount p t count = Gen.Kernels.blake_increase_count_256 p t.1 t.2 count := by
  cases p <;> simp [increaseCount, Gen.Kernels.blake_increase_count_256] <;> (repeat' split) <;> simp_all <;> omega

theorem src_blake_increase_count_384 (p : Profile) (t : BitVec 64 × BitVec 64) (count : BitVec 64) :
    increaseCount p t count = Gen.Kernels.blake_increase_count_384 p t.1 t.2 count := by
  cases p <;> simp [increaseCount, Gen.Kernels.blake_increase_count_384] <;> (repeat' split) <;> simp_all <;> omega

theorem src_blake_increase_count_512 (p : Profile) (t : BitVec 64 × BitVec 64) (count : BitVec 64) :
    increaseCount p t count = Gen.Kernels.blake_increase_count_512 p t.1 t.2 count := by
  cases p <;> simp [increaseCount, Gen.Kernels.blake_increase_count_512] <;> (repeat' split) <;> simp_all <;> omega

/-! ## phase 3: the glue of lib.rs (`define_hasher!`), the four instantiations (tools/inventory_kernels_glue.py)

  `Default::default`, `Update::update`, `FixedOutputDirty::finalize_into_dirty`, `Reset::reset`, regenerated from the
  source on every run.  A `Hasher w V` is encoded as the flat tuple of the Rust struct's fields (`blakeEnc`:
  `compressor.h[0]`, `compressor.h[1]`, `buffer`, `t.0`, `t.1`; `blakeEncOut` appends `out`).  `input_block` is the
  named primitive `CC.Buffer.inputBlock`; `increase_count` / `put_block` are the phase-2 definitions (tied above);
  `$compressor::finalize` is a parameter of the generated definition, instantiated with the model's `finalizeC`.
  Panic messages are not compared (`noMsg`).  The generic part (one proof for all four instantiations: `update_glue`,
  `finalize_glue` over the generated shapes `updGen`, `finGen`) is in lean/CC/Lemmas/SrcGlueBlake.lean; here each
  generated definition is shown to BE that shape at the macro arguments (by unfolding) and the kit's arguments are
  discharged.  Only hypothesis: the block-buffer invariant `buffer.pos ≤ $buf` for `finalize_into_dirty` (the
  translator maps `$buf - buffer.position()` to truncated subtraction under that invariant; the model panics beyond). -/

open Gen.Kernels in
theorem put32_pair (M : Mach) (c : Compressor (BitVec 128)) (blk : List (BitVec 8)) (t : BitVec 32 × BitVec 32) :
    putBlock (vops32 M) cp32 c blk t
      = ⟨(blake_put_block_u32x4 M c.h0 c.h1 blk t.1 t.2).1, (blake_put_block_u32x4 M c.h0 c.h1 blk t.1 t.2).2⟩ :=
  src_blake_put_block_u32x4 M c blk t

open Gen.Kernels in
theorem put64_pair (M : Mach) (c : Compressor (BitVec 256)) (blk : List (BitVec 8)) (t : BitVec 64 × BitVec 64) :
    putBlock (vops64 M) cp64 c blk t
      = ⟨(blake_put_block_u64x4 M c.h0 c.h1 blk t.1 t.2).1, (blake_put_block_u64x4 M c.h0 c.h1 blk t.1 t.2).2⟩ :=
  src_blake_put_block_u64x4 M c blk t

/-! ### Blake224 -/

theorem src_blake_default_224 (M : Mach) :
    blakeEnc (Hasher.default (kit224 M)) = Gen.Kernels.blake_default_224 := rfl

open Gen.Kernels in
/-- the generated `update` is the common shape at `$buf = 64`, `size_of::<$word>() * 16 = 64` -/
theorem blake_update_224_shape (M : Mach) (p : Profile) (h0 h1 : BitVec 128) (b : CC.Buffer.BB) (t0 t1 : BitVec 32)
    (data : List (BitVec 8)) :
    blake_update_224 M p h0 h1 b t0 t1 data
      = updGen 64 (updClosureGen (blake_increase_count_224 p) (blake_put_block_u32x4 M) 64#32) h0 h1 b t0 t1 data := rfl

open Gen.Kernels in
theorem src_blake_update_224 (M : Mach) (p : Profile) (h : Hasher 32 (BitVec 128)) (data : List (BitVec 8)) :
    noMsg (blake_update_224 M p h.compressor.h0 h.compressor.h1 h.buffer h.t.1 h.t.2 data)
      = noMsg (update (kit224 M) p h data >>= fun h' => .ok (blakeEnc h')) :=
  update_glue (kit224 M) p (blake_increase_count_224 p) (blake_put_block_u32x4 M)
    (src_blake_increase_count_224 p) (put32_pair M) h data

open Gen.Kernels in
/-- the generated `finalize_into_dirty` is the common shape at `$buf = 64`, `footerlen = 9`, `$Bytes = 28`,
    `isfull = 0#8` -/
theorem blake_finalize_into_dirty_224_shape (fin : BitVec 128 → BitVec 128 → List (BitVec 8)) (M : Mach) (p : Profile)
    (h0 h1 : BitVec 128) (b : CC.Buffer.BB) (t0 t1 : BitVec 32) (out : List (BitVec 8)) :
    blake_finalize_into_dirty_224 fin M p h0 h1 b t0 t1 out
      = finGen 64 9 55 4 28 0#8 (blake_increase_count_224 p) (blake_put_block_u32x4 M) fin p h0 h1 b t0 t1 := by
  unfold blake_finalize_into_dirty_224 finGen finGenTail blake_finalize_into_dirty_224_closure1
    blake_finalize_into_dirty_224_closure2 blake_finalize_into_dirty_224_closure3
    blake_finalize_into_dirty_224_closure4 unreachableGen
  rfl

open Gen.Kernels in
theorem src_blake_finalize_into_dirty_224 (M : Mach) (p : Profile) (h : Hasher 32 (BitVec 128))
    (hpos : h.buffer.pos ≤ 64) (out : List (BitVec 8)) :
    noMsg (blake_finalize_into_dirty_224 (fun a b => finalizeC (vops32 M) ⟨a, b⟩) M p
        h.compressor.h0 h.compressor.h1 h.buffer h.t.1 h.t.2 out)
      = noMsg (finalizeIntoDirty (kit224 M) p h >>= fun r => .ok (blakeEncOut r)) := by
  rw [blake_finalize_into_dirty_224_shape]
  exact finalize_glue (kit224 M) p 0#8 (blake_increase_count_224 p) (blake_put_block_u32x4 M)
    (src_blake_increase_count_224 p) (put32_pair M) (by simp [kit224]) (by simp [kit224]) (by simp [kit224]) h hpos

theorem src_blake_reset_224 (M : Mach) (h : Hasher 32 (BitVec 128)) :
    blakeEnc (reset (kit224 M) h)
      = Gen.Kernels.blake_reset_224 h.compressor.h0 h.compressor.h1 h.buffer h.t.1 h.t.2 := rfl

/-! ### Blake256 -/

theorem src_blake_default_256 (M : Mach) :
    blakeEnc (Hasher.default (kit256 M)) = Gen.Kernels.blake_default_256 := rfl

open Gen.Kernels in
/-- the generated `update` is the common shape at `$buf = 64`, `size_of::<$word>() * 16 = 64` -/
theorem blake_update_256_shape (M : Mach) (p : Profile) (h0 h1 : BitVec 128) (b : CC.Buffer.BB) (t0 t1 : BitVec 32)
    (data : List (BitVec 8)) :
    blake_update_256 M p h0 h1 b t0 t1 data
      = updGen 64 (updClosureGen (blake_increase_count_256 p) (blake_put_block_u32x4 M) 64#32) h0 h1 b t0 t1 data := rfl

open Gen.Kernels in
theorem src_blake_update_256 (M : Mach) (p : Profile) (h : Hasher 32 (BitVec 128)) (data : List (BitVec 8)) :
    noMsg (blake_update_256 M p h.compressor.h0 h.compressor.h1 h.buffer h.t.1 h.t.2 data)
      = noMsg (update (kit256 M) p h data >>= fun h' => .ok (blakeEnc h')) :=
  update_glue (kit256 M) p (blake_increase_count_256 p) (blake_put_block_u32x4 M)
    (src_blake_increase_count_256 p) (put32_pair M) h data

open Gen.Kernels in
/-- the generated `finalize_into_dirty` is the common shape at `$buf = 64`, `footerlen = 9`, `$Bytes = 32`,
    `isfull = 1#8` -/
theorem blake_finalize_into_dirty_256_shape (fin : BitVec 128 → BitVec 128 → List (BitVec 8)) (M : Mach) (p : Profile)
    (h0 h1 : BitVec 128) (b : CC.Buffer.BB) (t0 t1 : BitVec 32) (out : List (BitVec 8)) :
    blake_finalize_into_dirty_256 fin M p h0 h1 b t0 t1 out
      = finGen 64 9 55 4 32 1#8 (blake_increase_count_256 p) (blake_put_block_u32x4 M) fin p h0 h1 b t0 t1 := by
  unfold blake_finalize_into_dirty_256 finGen finGenTail blake_finalize_into_dirty_256_closure1
    blake_finalize_into_dirty_256_closure2 blake_finalize_into_dirty_256_closure3
    blake_finalize_into_dirty_256_closure4 unreachableGen
  rfl

open Gen.Kernels in
theorem src_blake_finalize_into_dirty_256 (M : Mach) (p : Profile) (h : Hasher 32 (BitVec 128))
    (hpos : h.buffer.pos ≤ 64) (out : List (BitVec 8)) :
    noMsg (blake_finalize_into_dirty_256 (fun a b => finalizeC (vops32 M) ⟨a, b⟩) M p
        h.compressor.h0 h.compressor.h1 h.buffer h.t.1 h.t.2 out)
      = noMsg (finalizeIntoDirty (kit256 M) p h >>= fun r => .ok (blakeEncOut r)) := by
  rw [blake_finalize_into_dirty_256_shape]
  exact finalize_glue (kit256 M) p 1#8 (blake_increase_count_256 p) (blake_put_block_u32x4 M)
    (src_blake_increase_count_256 p) (put32_pair M) (by simp [kit256]) (by simp [kit256]) (by simp [kit256]) h hpos

theorem src_blake_reset_256 (M : Mach) (h : Hasher 32 (BitVec 128)) :
    blakeEnc (reset (kit256 M) h)
      = Gen.Kernels.blake_reset_256 h.compressor.h0 h.compressor.h1 h.buffer h.t.1 h.t.2 := rfl

/-! ### Blake384 -/

theorem src_blake_default_384 (M : Mach) :
    blakeEnc (Hasher.default (kit384 M)) = Gen.Kernels.blake_default_384 := rfl

open Gen.Kernels in
/-- the generated `update` is the common shape at `$buf = 128`, `size_of::<$word>() * 16 = 128` -/
theorem blake_update_384_shape (M : Mach) (p : Profile) (h0 h1 : BitVec 256) (b : CC.Buffer.BB) (t0 t1 : BitVec 64)
    (data : List (BitVec 8)) :
    blake_update_384 M p h0 h1 b t0 t1 data
      = updGen 128 (updClosureGen (blake_increase_count_384 p) (blake_put_block_u64x4 M) 128#64) h0 h1 b t0 t1 data := rfl

open Gen.Kernels in
theorem src_blake_update_384 (M : Mach) (p : Profile) (h : Hasher 64 (BitVec 256)) (data : List (BitVec 8)) :
    noMsg (blake_update_384 M p h.compressor.h0 h.compressor.h1 h.buffer h.t.1 h.t.2 data)
      = noMsg (update (kit384 M) p h data >>= fun h' => .ok (blakeEnc h')) :=
  update_glue (kit384 M) p (blake_increase_count_384 p) (blake_put_block_u64x4 M)
    (src_blake_increase_count_384 p) (put64_pair M) h data

open Gen.Kernels in
/-- the generated `finalize_into_dirty` is the common shape at `$buf = 128`, `footerlen = 17`, `$Bytes = 48`,
    `isfull = 0#8` -/
theorem blake_finalize_into_dirty_384_shape (fin : BitVec 256 → BitVec 256 → List (BitVec 8)) (M : Mach) (p : Profile)
    (h0 h1 : BitVec 256) (b : CC.Buffer.BB) (t0 t1 : BitVec 64) (out : List (BitVec 8)) :
    blake_finalize_into_dirty_384 fin M p h0 h1 b t0 t1 out
      = finGen 128 17 111 8 48 0#8 (blake_increase_count_384 p) (blake_put_block_u64x4 M) fin p h0 h1 b t0 t1 := by
  unfold blake_finalize_into_dirty_384 finGen finGenTail blake_finalize_into_dirty_384_closure1
    blake_finalize_into_dirty_384_closure2 blake_finalize_into_dirty_384_closure3
    blake_finalize_into_dirty_384_closure4 unreachableGen
  rfl

open Gen.Kernels in
theorem src_blake_finalize_into_dirty_384 (M : Mach) (p : Profile) (h : Hasher 64 (BitVec 256))
    (hpos : h.buffer.pos ≤ 128) (out : List (BitVec 8)) :
    noMsg (blake_finalize_into_dirty_384 (fun a b => finalizeC (vops64 M) ⟨a, b⟩) M p
        h.compressor.h0 h.compressor.h1 h.buffer h.t.1 h.t.2 out)
      = noMsg (finalizeIntoDirty (kit384 M) p h >>= fun r => .ok (blakeEncOut r)) := by
  rw [blake_finalize_into_dirty_384_shape]
  exact finalize_glue (kit384 M) p 0#8 (blake_increase_count_384 p) (blake_put_block_u64x4 M)
    (src_blake_increase_count_384 p) (put64_pair M) (by simp [kit384]) (by simp [kit384]) (by simp [kit384]) h hpos

theorem src_blake_reset_384 (M : Mach) (h : Hasher 64 (BitVec 256)) :
    blakeEnc (reset (kit384 M) h)
      = Gen.Kernels.blake_reset_384 h.compressor.h0 h.compressor.h1 h.buffer h.t.1 h.t.2 := rfl

/-! ### Blake512 -/

theorem src_blake_default_512 (M : Mach) :
    blakeEnc (Hasher.default (kit512 M)) = Gen.Kernels.blake_default_512 := rfl

open Gen.Kernels in
/-- the generated `update` is the common shape at `$buf = 128`, `size_of::<$word>() * 16 = 128` -/
theorem blake_update_512_shape (M : Mach) (p : Profile) (h0 h1 : BitVec 256) (b : CC.Buffer.BB) (t0 t1 : BitVec 64)
    (data : List (BitVec 8)) :
    blake_update_512 M p h0 h1 b t0 t1 data
      = updGen 128 (updClosureGen (blake_increase_count_512 p) (blake_put_block_u64x4 M) 128#64) h0 h1 b t0 t1 data := rfl

open Gen.Kernels in
theorem src_blake_update_512 (M : Mach) (p : Profile) (h : Hasher 64 (BitVec 256)) (data : List (BitVec 8)) :
    noMsg (blake_update_512 M p h.compressor.h0 h.compressor.h1 h.buffer h.t.1 h.t.2 data)
      = noMsg (update (kit512 M) p h data >>= fun h' => .ok (blakeEnc h')) :=
  update_glue (kit512 M) p (blake_increase_count_512 p) (blake_put_block_u64x4 M)
    (src_blake_increase_count_512 p) (put64_pair M) h data

open Gen.Kernels in
/-- the generated `finalize_into_dirty` is the common shape at `$buf = 128`, `footerlen = 17`, `$Bytes = 64`,
    `isfull = 1#8` -/
theorem blake_finalize_into_dirty_512_shape (fin : BitVec 256 → BitVec 256 → List (BitVec 8)) (M : Mach) (p : Profile)
    (h0 h1 : BitVec 256) (b : CC.Buffer.BB) (t0 t1 : BitVec 64) (out : List (BitVec 8)) :
    blake_finalize_into_dirty_512 fin M p h0 h1 b t0 t1 out
      = finGen 128 17 111 8 64 1#8 (blake_increase_count_512 p) (blake_put_block_u64x4 M) fin p h0 h1 b t0 t1 := by
  unfold blake_finalize_into_dirty_512 finGen finGenTail blake_finalize_into_dirty_512_closure1
    blake_finalize_into_dirty_512_closure2 blake_finalize_into_dirty_512_closure3
    blake_finalize_into_dirty_512_closure4 unreachableGen
  rfl

open Gen.Kernels in
theorem src_blake_finalize_into_dirty_512 (M : Mach) (p : Profile) (h : Hasher 64 (BitVec 256))
    (hpos : h.buffer.pos ≤ 128) (out : List (BitVec 8)) :
    noMsg (blake_finalize_into_dirty_512 (fun a b => finalizeC (vops64 M) ⟨a, b⟩) M p
        h.compressor.h0 h.compressor.h1 h.buffer h.t.1 h.t.2 out)
      = noMsg (finalizeIntoDirty (kit512 M) p h >>= fun r => .ok (blakeEncOut r)) := by
  rw [blake_finalize_into_dirty_512_shape]
  exact finalize_glue (kit512 M) p 1#8 (blake_increase_count_512 p) (blake_put_block_u64x4 M)
    (src_blake_increase_count_512 p) (put64_pair M) (by simp [kit512]) (by simp [kit512]) (by simp [kit512]) h hpos

theorem src_blake_reset_512 (M : Mach) (h : Hasher 64 (BitVec 256)) :
    blakeEnc (reset (kit512 M) h)
      = Gen.Kernels.blake_reset_512 h.compressor.h0 h.compressor.h1 h.buffer h.t.1 h.t.2 := rfl

/-- the structs of lib.rs: `$compressor { h }` (model `Compressor`: h0, h1), `$name { compressor, buffer, t }` (model
    `Hasher`); `Clone` is derived everywhere (field-wise copy), `Default` of the hashers is the hand-written impl
    translated above -/
theorem src_blake_structs :
    Gen.Kernels.blake_structs =
      [("Compressor256", "struct", ["h"], ["Clone", "Copy", "Default"], []),
       ("Compressor512", "struct", ["h"], ["Clone", "Copy", "Default"], []),
       ("Blake224", "struct", ["compressor", "buffer", "t"], ["Clone"], ["Default"]),
       ("Blake256", "struct", ["compressor", "buffer", "t"], ["Clone"], ["Default"]),
       ("Blake384", "struct", ["compressor", "buffer", "t"], ["Clone"], ["Default"]),
       ("Blake512", "struct", ["compressor", "buffer", "t"], ["Clone"], ["Default"])] := rfl

end CC.Src
