/-
  CC.Blake.Src — SOURCE TIE for BLAKE (property C04): every definition that tools/inventory_kernels.py
  regenerates from hashes/blake/src/{lib.rs,consts.rs} into `CC.Gen.Kernels` equals the hand-written model
  definition (`CC.Blake.Model`) the theorems of `CC.Thm.C04` are about.
-/
import CC.Gen.Kernels
import CC.Blake.Model
namespace CC.Src
open CC.Simd CC.Blake

/-- the tuple `(a, b, c, d)` of row vectors as the model's `Rows` -/
def rowsOf {V : Type} (t : V × V × V × V) : Rows V := ⟨t.1, t.2.1, t.2.2.1, t.2.2.2⟩

theorem src_blake_clean : Gen.Kernels.blake_errors = [] := rfl

/-- lib.rs `round32` = `roundV` at `M::u32x4` with the rotation distances of `cp32` (16, 12, 8, 7) -/
theorem src_blake_round32 :
    (fun M => roundV (vops32 M) cp32) =
      fun M x m0 m1 => rowsOf (Gen.Kernels.blake_round32 M x.a x.b x.c x.d m0 m1) := rfl
/-- lib.rs `round64` = `roundV` at `M::u64x4` with the rotation distances of `cp64` (32, 25, 16, 11) -/
theorem src_blake_round64 :
    (fun M => roundV (vops64 M) cp64) =
      fun M x m0 m1 => rowsOf (Gen.Kernels.blake_round64 M x.a x.b x.c x.d m0 m1) := rfl
theorem src_blake_diagonalize32 :
    (fun M => diagonalize (vops32 M)) = fun M x => rowsOf (Gen.Kernels.blake_diagonalize32 M x.a x.b x.c x.d) := rfl
theorem src_blake_undiagonalize32 :
    (fun M => undiagonalize (vops32 M)) = fun M x => rowsOf (Gen.Kernels.blake_undiagonalize32 M x.a x.b x.c x.d) := rfl
theorem src_blake_diagonalize64 :
    (fun M => diagonalize (vops64 M)) = fun M x => rowsOf (Gen.Kernels.blake_diagonalize64 M x.a x.b x.c x.d) := rfl
theorem src_blake_undiagonalize64 :
    (fun M => undiagonalize (vops64 M)) = fun M x => rowsOf (Gen.Kernels.blake_undiagonalize64 M x.a x.b x.c x.d) := rfl

/-! ### consts.rs -/

theorem src_blake_PADDING : PADDING = Gen.Kernels.blake_PADDING := by decide +kernel
theorem src_blake_SIGMA : SIGMA = Gen.Kernels.blake_SIGMA := by decide +kernel
theorem src_blake_U256 : BLAKE256_U = Gen.Kernels.blake_BLAKE256_U := by decide +kernel
theorem src_blake_U512 : BLAKE512_U = Gen.Kernels.blake_BLAKE512_U := by decide +kernel

/-- `[[u32; 4]; 2]` as the two `vec128_storage` words of a compressor (`$iv[0].into()`, `$iv[1].into()`) -/
def iv32Of (l : List (List (BitVec 32))) : Compressor (BitVec 128) :=
  let r := fun i j => (l.getD i []).getD j 0
  { h0 := pack32 (r 0 0) (r 0 1) (r 0 2) (r 0 3), h1 := pack32 (r 1 0) (r 1 1) (r 1 2) (r 1 3) }
/-- `[[u64; 4]; 2]` as the two `vec256_storage` words of a compressor -/
def iv64Of (l : List (List (BitVec 64))) : Compressor (BitVec 256) :=
  let r := fun i j => (l.getD i []).getD j 0
  { h0 := pack64x4 (r 0 0) (r 0 1) (r 0 2) (r 0 3), h1 := pack64x4 (r 1 0) (r 1 1) (r 1 2) (r 1 3) }

theorem src_blake_IV224 : BLAKE224_IV = iv32Of Gen.Kernels.blake_BLAKE224_IV := by decide +kernel
theorem src_blake_IV256 : BLAKE256_IV = iv32Of Gen.Kernels.blake_BLAKE256_IV := by decide +kernel
theorem src_blake_IV384 : BLAKE384_IV = iv64Of Gen.Kernels.blake_BLAKE384_IV := by decide +kernel
theorem src_blake_IV512 : BLAKE512_IV = iv64Of Gen.Kernels.blake_BLAKE512_IV := by decide +kernel
/-- the IV tables have exactly the shape `iv32Of` / `iv64Of` read (2 rows of 4 words) -/
theorem src_blake_IV_shape :
    (Gen.Kernels.blake_BLAKE224_IV.map List.length, Gen.Kernels.blake_BLAKE256_IV.map List.length,
     Gen.Kernels.blake_BLAKE384_IV.map List.length, Gen.Kernels.blake_BLAKE512_IV.map List.length)
      = ([4, 4], [4, 4], [4, 4], [4, 4]) := by decide +kernel

/-! ### the macro invocations -/

/-- `define_compressor!($compressor, $storage, $word, $Bufsz, $uval, $rounds, $round, $X4)`: the round counts
    are those of `cp32` / `cp64`, the block sizes those of the kits, `size_of::<$word>()` = `wbytes`;
    `$uval`, `$round`, `$X4` are the names tied above (`BLAKE256_U` = `cp32.u`, `round32` at `u32x4`, …). -/
theorem src_blake_define_compressor :
    Gen.Kernels.blake_define_compressor =
      [("Compressor256", "vec128_storage", "u32", (kit256 Mach.ref).buf, "BLAKE256_U", cp32.rounds, "round32", "u32x4"),
       ("Compressor512", "vec256_storage", "u64", (kit512 Mach.ref).buf, "BLAKE512_U", cp64.rounds, "round64", "u64x4")] ∧
    cp32.u = BLAKE256_U ∧ cp64.u = BLAKE512_U ∧ cp32.wbytes = 32 / 8 ∧ cp64.wbytes = 64 / 8 :=
  ⟨rfl, rfl, rfl, rfl, rfl⟩

/-- `define_hasher!($name, $word, $buf, $Bufsz, $bits, $Bytes, $compressor, $iv)` against the four kits -/
theorem src_blake_define_hasher :
    Gen.Kernels.blake_define_hasher =
      [("Blake224", "u32", (kit224 Mach.ref).buf, (kit224 Mach.ref).buf, (kit224 Mach.ref).bits,
          (kit224 Mach.ref).outBytes, "Compressor256", "BLAKE224_IV"),
       ("Blake256", "u32", (kit256 Mach.ref).buf, (kit256 Mach.ref).buf, (kit256 Mach.ref).bits,
          (kit256 Mach.ref).outBytes, "Compressor256", "BLAKE256_IV"),
       ("Blake384", "u64", (kit384 Mach.ref).buf, (kit384 Mach.ref).buf, (kit384 Mach.ref).bits,
          (kit384 Mach.ref).outBytes, "Compressor512", "BLAKE384_IV"),
       ("Blake512", "u64", (kit512 Mach.ref).buf, (kit512 Mach.ref).buf, (kit512 Mach.ref).bits,
          (kit512 Mach.ref).outBytes, "Compressor512", "BLAKE512_IV")] ∧
    (∀ M, (kit224 M).iv = BLAKE224_IV ∧ (kit256 M).iv = BLAKE256_IV ∧
          (kit384 M).iv = BLAKE384_IV ∧ (kit512 M).iv = BLAKE512_IV) ∧
    (∀ M, (kit224 M).putBlock = putBlock (vops32 M) cp32 ∧ (kit256 M).putBlock = putBlock (vops32 M) cp32 ∧
          (kit384 M).putBlock = putBlock (vops64 M) cp64 ∧ (kit512 M).putBlock = putBlock (vops64 M) cp64) ∧
    (kit224 Mach.ref).wbytes = 4 ∧ (kit256 Mach.ref).wbytes = 4 ∧ (kit384 Mach.ref).wbytes = 8 ∧
    (kit512 Mach.ref).wbytes = 8 := by
  refine ⟨rfl, fun _ => ⟨rfl, rfl, rfl, rfl⟩, fun _ => ⟨rfl, rfl, rfl, rfl⟩, rfl, rfl, rfl, rfl⟩

/-! ## phase 2: `$X4::put_block` (the body of `define_compressor!`), both instantiations -/

/-- `Compressor { h: [h0, h1] }` from its two components -/
def compOf {V : Type} (t : V × V) : Compressor V := ⟨t.1, t.2⟩

theorem foldl_conj {α β γ : Type} (g : α → β) (f : α → γ → α) (f' : β → γ → β)
    (h : ∀ a x, g (f a x) = f' (g a) x) : ∀ (l : List γ) (a : α), g (List.foldl f a l) = List.foldl f' (g a) l := by
  intro l
  induction l with
  | nil => intro a; rfl
  | cons x l ih => intro a; exact (ih (f a x)).trans (congrArg (fun b => List.foldl f' b l) (h a x))

/-- body of `for sigma in &SIGMA[..$rounds]` (with the local macros `m0!`, `m1!`), `$X4 = u32x4` -/
theorem src_blake_put_block_u32x4_loop1 (M : Mach) (m : List (BitVec 32))
    (s : BitVec 128 × BitVec 128 × BitVec 128 × BitVec 128) (sigma : List Nat) :
    rowsOf (Gen.Kernels.blake_put_block_u32x4_loop1 M m s sigma) = roundStep (vops32 M) cp32 m (rowsOf s) sigma := rfl

theorem src_blake_put_block_u64x4_loop1 (M : Mach) (m : List (BitVec 64))
    (s : BitVec 256 × BitVec 256 × BitVec 256 × BitVec 256) (sigma : List Nat) :
    rowsOf (Gen.Kernels.blake_put_block_u64x4_loop1 M m s sigma) = roundStep (vops64 M) cp64 m (rowsOf s) sigma := rfl

/-- `u32x4::put_block(mach, state, block, t)` (Compressor256): message words big-endian, `u`, the `t` xor, the
    `SIGMA[..14]` loop, the final xor into `state.h` -/
theorem src_blake_put_block_u32x4 (M : Mach) (c : Compressor (BitVec 128)) (block : List (BitVec 8))
    (t : BitVec 32 × BitVec 32) :
    putBlock (vops32 M) cp32 c block t = compOf (Gen.Kernels.blake_put_block_u32x4 M c.h0 c.h1 block t.1 t.2) := by
  have h : List.foldl (roundStep (vops32 M) cp32 (mWords cp32 block)) (initRows (vops32 M) cp32 c t)
        (SIGMA.take cp32.rounds)
      = rowsOf (List.foldl (Gen.Kernels.blake_put_block_u32x4_loop1 M (mWords cp32 block))
          (c.h0, c.h1, (initRows (vops32 M) cp32 c t).c, (initRows (vops32 M) cp32 c t).d) (SIGMA.take cp32.rounds)) :=
    (foldl_conj rowsOf _ _ (src_blake_put_block_u32x4_loop1 M (mWords cp32 block)) (SIGMA.take cp32.rounds)
      (c.h0, c.h1, (initRows (vops32 M) cp32 c t).c, (initRows (vops32 M) cp32 c t).d)).symm
  simp only [putBlock]
  rw [h]
  rfl

/-- `u64x4::put_block(mach, state, block, t)` (Compressor512): `SIGMA[..16]` -/
theorem src_blake_put_block_u64x4 (M : Mach) (c : Compressor (BitVec 256)) (block : List (BitVec 8))
    (t : BitVec 64 × BitVec 64) :
    putBlock (vops64 M) cp64 c block t = compOf (Gen.Kernels.blake_put_block_u64x4 M c.h0 c.h1 block t.1 t.2) := by
  have h : List.foldl (roundStep (vops64 M) cp64 (mWords cp64 block)) (initRows (vops64 M) cp64 c t)
        (SIGMA.take cp64.rounds)
      = rowsOf (List.foldl (Gen.Kernels.blake_put_block_u64x4_loop1 M (mWords cp64 block))
          (c.h0, c.h1, (initRows (vops64 M) cp64 c t).c, (initRows (vops64 M) cp64 c t).d) (SIGMA.take cp64.rounds)) :=
    (foldl_conj rowsOf _ _ (src_blake_put_block_u64x4_loop1 M (mWords cp64 block)) (SIGMA.take cp64.rounds)
      (c.h0, c.h1, (initRows (vops64 M) cp64 c t).c, (initRows (vops64 M) cp64 c t).d)).symm
  simp only [putBlock]
  rw [h]
  rfl

/-! ## phase 2: `increase_count` (body of `define_hasher!`), the four instantiations.  `count * 8` and `t.1 += 1` are
    checked in profile debug (guards), wrapping otherwise; `overflowing_add` gives the carry. -/

theorem src_blake_increase_count_224 (p : Profile) (t : BitVec 32 × BitVec 32) (count : BitVec 32) :
    increaseCount p t count = Gen.Kernels.blake_increase_count_224 p t.1 t.2 count := by
  cases p <;> simp [increaseCount, Gen.Kernels.blake_increase_count_224] <;> (repeat' split) <;> simp_all <;> omega

theorem src_blake_increase_count_256 (p : Profile) (t : BitVec 32 × BitVec 32) (count : BitVec 32) :
    increaseCount p t count = Gen.Kernels.blake_increase_count_256 p t.1 t.2 count := by
  cases p <;> simp [increaseCount, Gen.Kernels.blake_increase_count_256] <;> (repeat' split) <;> simp_all <;> omega

theorem src_blake_increase_count_384 (p : Profile) (t : BitVec 64 × BitVec 64) (count : BitVec 64) :
    increaseCount p t count = Gen.Kernels.blake_increase_count_384 p t.1 t.2 count := by
  cases p <;> simp [increaseCount, Gen.Kernels.blake_increase_count_384] <;> (repeat' split) <;> simp_all <;> omega

theorem src_blake_increase_count_512 (p : Profile) (t : BitVec 64 × BitVec 64) (count : BitVec 64) :
    increaseCount p t count = Gen.Kernels.blake_increase_count_512 p t.1 t.2 count := by
  cases p <;> simp [increaseCount, Gen.Kernels.blake_increase_count_512] <;> (repeat' split) <;> simp_all <;> omega

end CC.Src
