/-
  CC.JH.LemmasH0b — layer (c) of C06, part 2 (JH-384, JH-512); see LemmasH0a.
-/
import CC.JH.Spec
import CC.JH.Model
namespace CC.JH.Lemmas
open CC CC.JH

set_option maxRecDepth 100000 in
theorem h0_384 : Spec.bytesToBits (Model.h0Bytes 384) = Spec.H0 384 := by decide +kernel

set_option maxRecDepth 100000 in
theorem h0_512 : Spec.bytesToBits (Model.h0Bytes 512) = Spec.H0 512 := by decide +kernel


/-- `Compressor::new(JH384_H0).finalize()` gives the constant back (transmute round trip). -/
theorem h0_image_384 : (Model.Compressor.new (Model.h0Bytes 384)).finalize = Model.h0Bytes 384 := by
  decide +kernel

/-- `Compressor::new(JH512_H0).finalize()` gives the constant back (transmute round trip). -/
theorem h0_image_512 : (Model.Compressor.new (Model.h0Bytes 512)).finalize = Model.h0Bytes 512 := by
  decide +kernel

end CC.JH.Lemmas
