/-
  CC.JH.SrcCompressor — SOURCE TIE for the JH compressor (property C06): `f8_impl` AS A WHOLE, the `dispatch!`
  wrapper `f8`, `Compressor::{new, input, finalize}` of hashes/jh/src/compressor.rs, as regenerated from the Rust on
  every run by tools/inventory_hashc.py into `CC.Gen.HashCSrc`, equal the hand-written model (`CC.JH.Model`) the
  theorems of `CC.Thm.C06` are about.  `ss` and `l` stay calls of `CC.Gen.Kernels.jh_ss` / `jh_l` (tied in CC.JH.Src).
-/
import CC.Gen.HashCSrc
import CC.JH.Src
namespace CC.Src
open CC CC.Simd CC.JH.Model

/-- the eight components of an `X8` -/
def x8To (y : X8) : BitVec 128 × BitVec 128 × BitVec 128 × BitVec 128 × BitVec 128 × BitVec 128 × BitVec 128 × BitVec 128 :=
  (y.x0, y.x1, y.x2, y.x3, y.x4, y.x5, y.x6, y.x7)

theorem x8Of_x8To (y : X8) : x8Of (x8To y) = y := rfl
theorem x8To_x8Of (t) : x8To (x8Of t) = t := rfl

theorem src_jh_hashc_clean : Gen.HashCSrc.jh_hashc_errors = [] := rfl

/-- the table cut into `chunks_exact(7)`: six chunks, chunk `c` holds the entries `7c … 7c+6` -/
theorem src_jh_chunks :
    Gen.HashCSrc.chunksExact 7 Gen.Kernels.jh_E8_BITSLICE_ROUNDCONSTANT =
      (List.range 6).map fun c => (List.range 7).map fun j => rcHex.getD (7 * c + j) 0#256 := by
  decide +kernel

/-- `X2Bytes::<M> { bytes: row }.x2` for a table row rendered as a big-endian number -/
def rcOf (k : BitVec 256) : BitVec 256 := ofLeBytes 256 (toBeBytes k 32)

/-- the body of `for rc in E8_BITSLICE_ROUNDCONSTANT.chunks_exact(7) { unroll7!(j, { … }) }` on a chunk of seven rows:
    the union read `X2Bytes { bytes: rc[j] }.x2`, `ss`, `l`, the `match j` selecting `swap1 … swap64`,
    `X8(y.0, f(y.1), y.2, f(y.3), …)`, for j = 0 … 6 in this order -/
theorem src_jh_f8_impl_loop_rows (M : Mach) (y : X8) (k0 k1 k2 k3 k4 k5 k6 : BitVec 256) :
    x8Of (Gen.HashCSrc.jh_f8_impl_loop1 M (x8To y) [k0, k1, k2, k3, k4, k5, k6]) =
      roundStep M (roundStep M (roundStep M (roundStep M (roundStep M (roundStep M (roundStep M y
        (rcOf k0) 0) (rcOf k1) 1) (rcOf k2) 2) (rcOf k3) 3) (rcOf k4) 4) (rcOf k5) 5) (rcOf k6) 6 := rfl

theorem range7_map {α : Type} (f : Nat → α) : (List.range 7).map f = [f 0, f 1, f 2, f 3, f 4, f 5, f 6] := rfl
theorem range7_foldl {β : Type} (g : β → Nat → β) (y : β) :
    (List.range 7).foldl g y = g (g (g (g (g (g (g y 0) 1) 2) 3) 4) 5) 6 := rfl

/-- … for the chunk that holds the round constants `7c … 7c+6` -/
theorem src_jh_f8_impl_loop (M : Mach) (y : X8) (c : Nat) :
    x8Of (Gen.HashCSrc.jh_f8_impl_loop1 M (x8To y) ((List.range 7).map fun j => rcHex.getD (7 * c + j) 0#256)) =
      (List.range 7).foldl (fun y j => roundStep M y (rc (7 * c + j)) j) y := by
  rw [range7_map, range7_foldl, src_jh_f8_impl_loop_rows]
  rfl

theorem foldl_x8 {α : Type} (g : _ → α → _) (f : X8 → α → X8) (h : ∀ y a, x8Of (g (x8To y) a) = f y a) :
    ∀ (l : List α) (y : X8), x8Of (List.foldl g (x8To y) l) = List.foldl f y l
  | [], y => rfl
  | a :: l, y => by
    have e : g (x8To y) a = x8To (f y a) := by rw [← h]; rfl
    simp only [List.foldl_cons, e]
    exact foldl_x8 g f h l (f y a)

/-- the whole round loop -/
theorem src_jh_rounds (M : Mach) (y : X8) :
    x8Of (List.foldl (Gen.HashCSrc.jh_f8_impl_loop1 M) (x8To y)
      (Gen.HashCSrc.chunksExact 7 Gen.Kernels.jh_E8_BITSLICE_ROUNDCONSTANT)) = rounds M y := by
  rw [src_jh_chunks, List.foldl_map]
  exact foldl_x8 (fun s c => Gen.HashCSrc.jh_f8_impl_loop1 M s ((List.range 7).map fun j => rcHex.getD (7 * c + j) 0#256))
    (fun y c => (List.range 7).foldl (fun y j => roundStep M y (rc (7 * c + j)) j) y)
    (fun y c => src_jh_f8_impl_loop M y c) (List.range 6) y

/-- compressor.rs `f8_impl` as a whole: unpack, the four message loads xored into y.0..y.3, the round loop, the same
    four loads xored into y.4..y.7, the store back -/
theorem src_jh_f8_impl :
    f8impl = fun M y data =>
      x8Of (Gen.HashCSrc.jh_f8_impl M y.x0 y.x1 y.x2 y.x3 y.x4 y.x5 y.x6 y.x7 data) := by
  funext M y data
  have h := src_jh_rounds M
    ⟨M.xor128 y.x0 (read128 data 0), M.xor128 y.x1 (read128 data 1), M.xor128 y.x2 (read128 data 2),
     M.xor128 y.x3 (read128 data 3), y.x4, y.x5, y.x6, y.x7⟩
  simp only [f8impl, ← h]
  rfl

/-- the `dispatch!` wrapper `f8` is `f8_impl` with the machine -/
theorem src_jh_f8_dispatch :
    f8impl = fun M y data => x8Of (Gen.HashCSrc.jh_f8 M y.x0 y.x1 y.x2 y.x3 y.x4 y.x5 y.x6 y.x7 data) := by
  rw [src_jh_f8_impl]; rfl

/-- `Compressor::new` = `transmute!` of `[u8; 128]` into eight little-endian 16-byte groups -/
theorem src_jh_compressor_new :
    Compressor.new = fun bytes => ⟨x8Of (Gen.HashCSrc.jh_compressor_new bytes)⟩ := rfl

/-- `Compressor::input` = `f8(&mut self.cv, data.as_ptr())` -/
theorem src_jh_compressor_input :
    Compressor.input = fun M c data =>
      ⟨x8Of (Gen.HashCSrc.jh_compressor_input M c.cv.x0 c.cv.x1 c.cv.x2 c.cv.x3 c.cv.x4 c.cv.x5 c.cv.x6 c.cv.x7 data)⟩ := by
  funext M c data
  simp only [Compressor.input, src_jh_f8_dispatch]
  rfl

/-- `Compressor::finalize` = `transmute!` of the eight vectors into 128 bytes -/
theorem src_jh_compressor_finalize :
    Compressor.finalize = fun c =>
      Gen.HashCSrc.jh_compressor_finalize c.cv.x0 c.cv.x1 c.cv.x2 c.cv.x3 c.cv.x4 c.cv.x5 c.cv.x6 c.cv.x7 := rfl

end CC.Src
