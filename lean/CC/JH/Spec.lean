/-
  CC.JH.Spec — the hash function JH (Hongjun Wu, round-3 submission "The Hash Function JH",
  16 January 2011), nibble oriented, transcribed from the specification (§§2–6) the way
  `notes/jh_spec_probe.py` does.

  Conventions of the document: a message / chaining value is a *bit string* `A^0 A^1 …`; a byte
  holds eight bits most-significant first; a 4-bit element `(x^0,x^1,x^2,x^3)` has `x^0` as its
  most significant bit.  Here bit strings are `List Bool`, 4-bit elements are `BitVec 4`.

  Everything is structurally recursive over lists (no arrays, no well-founded recursion), so the
  kernel can evaluate it (`decide +kernel`) and the compiled code is linear per layer.
-/
import CC.Prim
namespace CC.JH.Spec

/-- `[f 0, …, f (n-1)]` -/
def tab {α} (n : Nat) (f : Nat → α) : List α := (List.range n).map f

/-! ## §2.1–2.2 S-boxes and the linear transformation `L` over GF(2^4) -/

def S0 : List (BitVec 4) :=
  [9#4, 0#4, 4#4, 11#4, 13#4, 12#4, 3#4, 15#4, 1#4, 10#4, 2#4, 6#4, 7#4, 5#4, 8#4, 14#4]
def S1 : List (BitVec 4) :=
  [3#4, 12#4, 6#4, 13#4, 5#4, 7#4, 1#4, 9#4, 15#4, 2#4, 0#4, 4#4, 11#4, 10#4, 14#4, 8#4]

/-- `S_c(x)`: the round-constant bit `c` selects the S-box. -/
def sbox (c : Bool) (x : BitVec 4) : BitVec 4 := (if c then S1 else S0).getD x.toNat 0#4

/-- multiplication by `2` (= `x`) in GF(2^4) modulo `x^4 + x + 1`; `a^0` is the MSB:
    `(a^0,a^1,a^2,a^3) ↦ (a^1, a^2, a^3 ⊕ a^0, a^0)`. -/
def mul2 (a : BitVec 4) : BitVec 4 := (a <<< 1) ^^^ (if a.getLsbD 3 then 3#4 else 0#4)

/-- `(C, D) = L(A, B) = (5•A + 2•B, 2•A + B)`, computed as `D = B + 2•A; C = A + 2•D`. -/
def L (a b : BitVec 4) : BitVec 4 × BitVec 4 :=
  let d := b ^^^ mul2 a
  let c := a ^^^ mul2 d
  (c, d)

/-! ## §2.3 the permutation `P_d = φ_d ∘ P'_d ∘ π_d` on `2^d` elements -/

/-- `π_d`: `b_{4i} = a_{4i}, b_{4i+1} = a_{4i+1}, b_{4i+2} = a_{4i+3}, b_{4i+3} = a_{4i+2}`. -/
def pi {α} : List α → List α
  | a :: b :: c :: d :: rest => a :: b :: d :: c :: pi rest
  | r => r

def evens {α} : List α → List α
  | a :: _ :: rest => a :: evens rest
  | r => r
def odds {α} : List α → List α
  | _ :: b :: rest => b :: odds rest
  | _ => []

/-- `P'_d`: `b_i = a_{2i}`, `b_{i + 2^{d-1}} = a_{2i+1}`. -/
def pprime {α} (a : List α) : List α := evens a ++ odds a

def swapPairs {α} : List α → List α
  | a :: b :: rest => b :: a :: swapPairs rest
  | r => r

/-- `φ_d`: the first half unchanged; in the second half adjacent elements are exchanged. -/
def phi {α} (a : List α) : List α := a.take (a.length / 2) ++ swapPairs (a.drop (a.length / 2))

def P {α} (a : List α) : List α := phi (pprime (pi a))

/-! ## §2.4 the round function `R_d` -/

/-- S-box layer: `v_i = S_{c_i}(a_i)`. -/
def subst (c : List Bool) (a : List (BitVec 4)) : List (BitVec 4) := List.zipWith sbox c a

/-- linear layer: `(w_{2i}, w_{2i+1}) = L(v_{2i}, v_{2i+1})`. -/
def lin : List (BitVec 4) → List (BitVec 4)
  | a :: b :: rest => (L a b).1 :: (L a b).2 :: lin rest
  | r => r

/-- `R_d(A, C)` with the `2^d` constant bits `c`. -/
def R (c : List Bool) (a : List (BitVec 4)) : List (BitVec 4) := P (lin (subst c a))

/-! ## §2.5 round constants of `E_8`: `C_0` and `C_{r+1} = R_6(C_r, 0)` -/

def C0word : BitVec 256 := 0x6a09e667f3bcc908b2fb1366ea957d3e3adec17512775099da2f590b0667322a#256

/-- `C_0` as 64 four-bit elements (first element = most significant nibble). -/
def C0 : List (BitVec 4) := tab 64 fun i => (C0word >>> (4 * (63 - i))).setWidth 4

/-- `C_r` as 64 four-bit elements. -/
def roundConst : Nat → List (BitVec 4)
  | 0 => C0
  | r + 1 => R (List.replicate 64 false) (roundConst r)

/-- the four bits of an element, most significant first -/
def nibBits (x : BitVec 4) : List Bool := [x.getLsbD 3, x.getLsbD 2, x.getLsbD 1, x.getLsbD 0]

/-- the 256 constant bits `C_r^0 … C_r^255` -/
def cbits (c : List (BitVec 4)) : List Bool := c.flatMap nibBits

/-! ## §2.6 grouping, `E_8`, de-grouping -/

def nib4 (b0 b1 b2 b3 : Bool) : BitVec 4 :=
  BitVec.ofBool b0 ++ BitVec.ofBool b1 ++ BitVec.ofBool b2 ++ BitVec.ofBool b3

/-- `[nib4 a_i b_i c_i d_i]` -/
def zipNib (a b c d : List Bool) : List (BitVec 4) :=
  List.zipWith (fun (p q : Bool × Bool) => nib4 p.1 p.2 q.1 q.2) (List.zip a b) (List.zip c d)

def interleave {α} : List α → List α → List α
  | x :: xs, y :: ys => x :: y :: interleave xs ys
  | _, _ => []

/-- the `k`-th 128-bit slice of a bit string -/
def slice128 (A : List Bool) (k : Nat) : List Bool := (A.drop (128 * k)).take 128

/-- grouping: `q_{2i} = A^i ‖ A^{i+256} ‖ A^{i+512} ‖ A^{i+768}`,
    `q_{2i+1} = A^{i+128} ‖ A^{i+384} ‖ A^{i+640} ‖ A^{i+896}` (0 ≤ i < 128). -/
def group (A : List Bool) : List (BitVec 4) :=
  interleave (zipNib (slice128 A 0) (slice128 A 2) (slice128 A 4) (slice128 A 6))
             (zipNib (slice128 A 1) (slice128 A 3) (slice128 A 5) (slice128 A 7))

/-- de-grouping: `B^i ‖ B^{i+256} ‖ B^{i+512} ‖ B^{i+768} = q_{2i}`,
    `B^{i+128} ‖ B^{i+384} ‖ B^{i+640} ‖ B^{i+896} = q_{2i+1}`. -/
def degroup (q : List (BitVec 4)) : List Bool :=
  let e := evens q
  let o := odds q
  e.map (·.getLsbD 3) ++ o.map (·.getLsbD 3) ++ e.map (·.getLsbD 2) ++ o.map (·.getLsbD 2) ++
  e.map (·.getLsbD 1) ++ o.map (·.getLsbD 1) ++ e.map (·.getLsbD 0) ++ o.map (·.getLsbD 0)

/-- one round of `E_8`: `Q_{r+1} = R_8(Q_r, C_r)` -/
def R8 (r : Nat) (q : List (BitVec 4)) : List (BitVec 4) := R (cbits (roundConst r)) q

/-- `k` rounds on the pair (state `Q_r`, constant `C_r`):
    `Q_{r+1} = R_8(Q_r, C_r)`, `C_{r+1} = R_6(C_r, 0)`. -/
def rounds8 : Nat → List (BitVec 4) × List (BitVec 4) → List (BitVec 4) × List (BitVec 4)
  | 0, s => s
  | k + 1, s => rounds8 k (R (cbits s.2) s.1, R (List.replicate 64 false) s.2)

/-- `E_8`: grouping, 42 rounds, de-grouping. -/
def E8 (A : List Bool) : List Bool :=
  degroup (rounds8 42 (group A, C0)).1

/-! ## §3 the compression function `F_8` -/

def xorBits (a b : List Bool) : List Bool := List.zipWith Bool.xor a b

/-- `F_8(H, M)`: `M` (512 bits) is xored into the left half of `H` (1024 bits) before `E_8` and
    into the right half after. -/
def F8 (H M : List Bool) : List Bool :=
  let A := xorBits (H.take 512) M ++ H.drop 512
  let B := E8 A
  B.take 512 ++ xorBits (B.drop 512) M

/-! ## bytes and bits -/

/-- the eight bits of a byte, most significant first -/
def byteBits (b : BitVec 8) : List Bool :=
  [b.getLsbD 7, b.getLsbD 6, b.getLsbD 5, b.getLsbD 4, b.getLsbD 3, b.getLsbD 2, b.getLsbD 1, b.getLsbD 0]

def bytesToBits (bs : List (BitVec 8)) : List Bool := bs.flatMap byteBits

def bitsToNat (bs : List Bool) : Nat := bs.foldl (fun acc b => 2 * acc + b.toNat) 0

/-- whole bytes of a bit string (a trailing partial byte is dropped) -/
def bitsToBytes : List Bool → List (BitVec 8)
  | b0 :: b1 :: b2 :: b3 :: b4 :: b5 :: b6 :: b7 :: rest =>
    BitVec.ofNat 8 (bitsToNat [b0, b1, b2, b3, b4, b5, b6, b7]) :: bitsToBytes rest
  | _ => []

/-- `w`-bit big-endian representation of `n` as bits -/
def natToBitsBE (w n : Nat) : List Bool := tab w fun i => n.testBit (w - 1 - i)

/-! ## §4–6 padding, initial value, hashing, truncation -/

/-- `H^{(-1)}`: the message digest size as a 16-bit big-endian number, followed by zeros. -/
def Hm1 (n : Nat) : List Bool := natToBitsBE 16 n ++ List.replicate 1008 false

/-- `H^{(0)} = F_8(H^{(-1)}, M^{(0)})` with `M^{(0)} = 0`. -/
def H0 (n : Nat) : List Bool := F8 (Hm1 n) (List.replicate 512 false)

/-- padding: `M ‖ 1 ‖ 0^{383 + (−ℓ mod 512)} ‖ ⟨ℓ⟩_128` (a multiple of 512 bits; at least 512 bits
    are appended). -/
def pad (m : List Bool) : List Bool :=
  m ++ [true] ++ List.replicate (383 + (512 - m.length % 512) % 512) false ++ natToBitsBE 128 m.length

/-- the `i`-th 512-bit block -/
def block512 (m : List Bool) (i : Nat) : List Bool := (m.drop (512 * i)).take 512

/-- the final chaining value `H^{(N)}` for a bit string message -/
def hashState (n : Nat) (m : List Bool) : List Bool :=
  let p := pad m
  (List.range (p.length / 512)).foldl (fun H i => F8 H (block512 p i)) (H0 n)

/-- JH-`n` of a bit string: the LAST `n` bits of `H^{(N)}`. -/
def jhBits (n : Nat) (m : List Bool) : List Bool := (hashState n m).drop (1024 - n)

/-- JH-`n` of a byte string. -/
def jh (n : Nat) (msg : List (BitVec 8)) : List (BitVec 8) :=
  bitsToBytes (jhBits n (bytesToBits msg))

/-! ## byte-level view of `F_8` (what an implementation's compression function computes) -/

def F8bytes (cv blk : List (BitVec 8)) : List (BitVec 8) :=
  bitsToBytes (F8 (bytesToBits cv) (bytesToBits blk))

end CC.JH.Spec
