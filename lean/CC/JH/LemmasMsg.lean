/-
  CC.JH.LemmasMsg — layer (d) of C06: message level.  Bytes vs bits, the `BlockBuffer` fold,
  the two padding branches of `finalize_into_dirty` vs the specification's padding, the `datalen`
  invariant and the output tail.
-/
import CC.JH.Spec
import CC.JH.Model
import Std.Tactic.BVDecide
namespace CC.JH.Lemmas
open CC CC.Simd CC.Buffer CC.JH CC.JH.Model

/-! ## bytes and bits -/

theorem byteBits_length (b : BitVec 8) : (Spec.byteBits b).length = 8 := rfl

theorem bytesToBits_nil : Spec.bytesToBits [] = [] := rfl

theorem bytesToBits_cons (b : BitVec 8) (bs : List (BitVec 8)) :
    Spec.bytesToBits (b :: bs) = Spec.byteBits b ++ Spec.bytesToBits bs := by
  simp [Spec.bytesToBits]

theorem bytesToBits_append (a b : List (BitVec 8)) :
    Spec.bytesToBits (a ++ b) = Spec.bytesToBits a ++ Spec.bytesToBits b := by
  simp [Spec.bytesToBits]

theorem bytesToBits_length (bs : List (BitVec 8)) : (Spec.bytesToBits bs).length = 8 * bs.length := by
  induction bs with
  | nil => rfl
  | cons b bs ih => rw [bytesToBits_cons, List.length_append, ih, byteBits_length, List.length_cons]; omega

theorem bytesToBits_drop (bs : List (BitVec 8)) (k : Nat) :
    (Spec.bytesToBits bs).drop (8 * k) = Spec.bytesToBits (bs.drop k) := by
  induction k generalizing bs with
  | zero => simp
  | succ k ih =>
    cases bs with
    | nil => simp [bytesToBits_nil]
    | cons b bs =>
      rw [bytesToBits_cons, List.drop_succ_cons, ← ih bs]
      have : 8 * (k + 1) = (Spec.byteBits b).length + 8 * k := by rw [byteBits_length]; omega
      rw [this, List.drop_length_add_append]

theorem bytesToBits_take (bs : List (BitVec 8)) (k : Nat) :
    (Spec.bytesToBits bs).take (8 * k) = Spec.bytesToBits (bs.take k) := by
  induction k generalizing bs with
  | zero => simp [bytesToBits_nil]
  | succ k ih =>
    cases bs with
    | nil => simp [bytesToBits_nil]
    | cons b bs =>
      rw [bytesToBits_cons, List.take_succ_cons, bytesToBits_cons, ← ih bs]
      have : 8 * (k + 1) = (Spec.byteBits b).length + 8 * k := by rw [byteBits_length]; omega
      rw [this, List.take_length_add_append]

theorem byte_roundtrip : ∀ b : BitVec 8, BitVec.ofNat 8 (Spec.bitsToNat (Spec.byteBits b)) = b := by
  decide

theorem bitsToBytes_bytesToBits (bs : List (BitVec 8)) : Spec.bitsToBytes (Spec.bytesToBits bs) = bs := by
  induction bs with
  | nil => rfl
  | cons b bs ih =>
    rw [bytesToBits_cons]
    show Spec.bitsToBytes (_ :: _ :: _ :: _ :: _ :: _ :: _ :: _ :: Spec.bytesToBits bs) = _
    rw [Spec.bitsToBytes, ih]
    congr 1
    exact byte_roundtrip b

theorem bytesToBits_replicate_zero (k : Nat) :
    Spec.bytesToBits (List.replicate k 0#8) = List.replicate (8 * k) false := by
  induction k with
  | zero => rfl
  | succ k ih =>
    rw [List.replicate_succ, bytesToBits_cons, ih]
    have : 8 * (k + 1) = 8 + 8 * k := by omega
    rw [this, ← List.replicate_append_replicate]
    rfl

/-! ## blocks -/

/-- the first `k` blocks of `c` elements -/
def blocksN {α} (c : Nat) : Nat → List α → List (List α)
  | 0, _ => []
  | k + 1, xs => xs.take c :: blocksN c k (xs.drop c)

theorem blocksN_length {α} (c k : Nat) (xs : List α) : (blocksN c k xs).length = k := by
  induction k generalizing xs with
  | zero => rfl
  | succ k ih => simp [blocksN, ih]

/-- every one of the first `k` blocks is full when `c * k ≤ xs.length` -/
theorem blocksN_mem_length {α} (c k : Nat) (xs : List α) (h : c * k ≤ xs.length) :
    ∀ b ∈ blocksN c k xs, b.length = c := by
  induction k generalizing xs with
  | zero => intro b hb; simp [blocksN] at hb
  | succ k ih =>
    intro b hb
    have h' : c * k + c ≤ xs.length := by rw [Nat.mul_succ] at h; exact h
    simp only [blocksN, List.mem_cons] at hb
    rcases hb with hb | hb
    · subst hb; rw [List.length_take]; omega
    · exact ih (xs.drop c) (by rw [List.length_drop]; omega) b hb

/-- a fold indexed by block number is a fold over the blocks -/
theorem foldl_range_blocks {α σ} (c : Nat) (g : σ → List α → σ) (k : Nat) (xs : List α) (s : σ) :
    (List.range k).foldl (fun s i => g s ((xs.drop (c * i)).take c)) s = (blocksN c k xs).foldl g s := by
  induction k generalizing xs s with
  | zero => rfl
  | succ k ih =>
    rw [List.range_succ_eq_map, List.foldl_cons, List.foldl_map, blocksN, List.foldl_cons]
    simp only [Nat.mul_zero, List.drop_zero]
    rw [← ih (xs.drop c) (g s (xs.take c))]
    congr 1
    funext s i
    rw [List.drop_drop, Nat.mul_succ]
    congr 3
    omega

theorem blocksN_append {α} (c k1 k2 : Nat) (xs ys : List α) (h : c * k1 ≤ xs.length) :
    blocksN c (k1 + k2) (xs ++ ys) = blocksN c k1 xs ++ blocksN c k2 (xs.drop (c * k1) ++ ys) := by
  induction k1 generalizing xs with
  | zero => simp [blocksN]
  | succ k ih =>
    have h' : c * k + c ≤ xs.length := by rw [Nat.mul_succ] at h; exact h
    have e : k + 1 + k2 = (k + k2) + 1 := by omega
    rw [e, blocksN, blocksN, List.cons_append]
    have hc : c ≤ xs.length := by omega
    rw [List.take_append_of_le_length hc, List.drop_append_of_le_length hc,
      ih (xs.drop c) (by rw [List.length_drop]; omega), List.drop_drop, Nat.mul_succ]
    rw [Nat.add_comm c (c * k)]

/-- 512-bit blocks of a byte string's bits are the bits of its 64-byte blocks -/
theorem blocksN_bits (k : Nat) (bs : List (BitVec 8)) :
    blocksN 512 k (Spec.bytesToBits bs) = (blocksN 64 k bs).map Spec.bytesToBits := by
  induction k generalizing bs with
  | zero => rfl
  | succ k ih =>
    simp only [blocksN, List.map_cons]
    rw [show (512 : Nat) = 8 * 64 from rfl, bytesToBits_take, bytesToBits_drop, ih]

/-! ## `BlockBuffer::input_block`: the `chunks_exact` loop -/

theorem foldChunks_eq {σ} (b : Nat) (hb : 0 < b) (f : σ → List (BitVec 8) → σ) :
    ∀ (fuel : Nat) (acc : σ) (input : List (BitVec 8)), input.length / b < fuel →
      foldChunks b f fuel acc input =
        ((blocksN b (input.length / b) input).foldl f acc, input.drop (b * (input.length / b))) := by
  intro fuel
  induction fuel with
  | zero => intro acc input h; exact absurd h (Nat.not_lt_zero _)
  | succ fuel ih =>
    intro acc input h
    rw [foldChunks]
    by_cases hle : b ≤ input.length
    · rw [if_pos ⟨hle, hb⟩]
      have hdiv : input.length / b = (input.length - b) / b + 1 := by
        rw [← Nat.sub_add_cancel hle, Nat.add_div_right _ hb, Nat.sub_add_cancel hle]
      have hlen : (input.drop b).length = input.length - b := List.length_drop ..
      rw [ih _ _ (by rw [hlen]; omega), hlen, hdiv, blocksN, List.foldl_cons, List.drop_drop]
      congr 2
      rw [Nat.mul_succ]; omega
    · rw [if_neg (fun h => hle h.1)]
      have : input.length / b = 0 := Nat.div_eq_of_lt (by omega)
      rw [this]; simp [blocksN]

/-! ## `Compressor`: `transmute` in and out -/

theorem toLeBytes_length {w : Nat} (x : BitVec w) (n : Nat) : (toLeBytes x n).length = n := by
  simp [toLeBytes]

theorem ofLe_toLe_128 (x : BitVec 128) : ofLeBytes 128 (toLeBytes x 16) = x := by
  have hr : List.range 16 = [0, 1, 2, 3, 4, 5, 6, 7, 8, 9, 10, 11, 12, 13, 14, 15] := by decide
  simp only [toLeBytes, ofLeBytes, hr, List.map, List.foldr]
  bv_decide

theorem read128_zero (x : BitVec 128) (rest : List (BitVec 8)) :
    read128 (toLeBytes x 16 ++ rest) 0 = x := by
  have h : (toLeBytes x 16 ++ rest).take 16 = toLeBytes x 16 := by
    have := List.take_length_add_append (l₁ := toLeBytes x 16) (l₂ := rest) (i := 0)
    rw [toLeBytes_length] at this
    simpa using this
  rw [read128, Nat.mul_zero, List.drop_zero, h, ofLe_toLe_128]

theorem read128_succ (x : BitVec 128) (rest : List (BitVec 8)) (i : Nat) :
    read128 (toLeBytes x 16 ++ rest) (i + 1) = read128 rest i := by
  have h : (toLeBytes x 16 ++ rest).drop (16 * (i + 1)) = rest.drop (16 * i) := by
    have := List.drop_length_add_append (l₁ := toLeBytes x 16) (l₂ := rest) (i := 16 * i)
    rw [toLeBytes_length] at this
    rw [← this]; congr 1; omega
  rw [read128, h, read128]

theorem finalize_length (c : Compressor) : c.finalize.length = 128 := by
  simp [Compressor.finalize, toLeBytes_length]

/-- `Compressor::new(c.finalize()) = c` -/
theorem new_finalize (c : Compressor) : Compressor.new c.finalize = c := by
  obtain ⟨⟨x0, x1, x2, x3, x4, x5, x6, x7⟩⟩ := c
  have e : (Compressor.mk ⟨x0, x1, x2, x3, x4, x5, x6, x7⟩).finalize =
      toLeBytes x0 16 ++ (toLeBytes x1 16 ++ (toLeBytes x2 16 ++ (toLeBytes x3 16 ++
      (toLeBytes x4 16 ++ (toLeBytes x5 16 ++ (toLeBytes x6 16 ++ (toLeBytes x7 16 ++ []))))))) := by
    simp [Compressor.finalize]
  rw [Compressor.new, e]
  rw [read128_zero,
    show (1 : Nat) = 0 + 1 from rfl, read128_succ, read128_zero,
    show (2 : Nat) = 0 + 1 + 1 from rfl, read128_succ, read128_succ, read128_zero,
    show (3 : Nat) = 0 + 1 + 1 + 1 from rfl, read128_succ, read128_succ, read128_succ, read128_zero,
    show (4 : Nat) = 0 + 1 + 1 + 1 + 1 from rfl, read128_succ, read128_succ, read128_succ,
    read128_succ, read128_zero,
    show (5 : Nat) = 0 + 1 + 1 + 1 + 1 + 1 from rfl, read128_succ, read128_succ, read128_succ,
    read128_succ, read128_succ, read128_zero,
    show (6 : Nat) = 0 + 1 + 1 + 1 + 1 + 1 + 1 from rfl, read128_succ, read128_succ, read128_succ,
    read128_succ, read128_succ, read128_succ, read128_zero,
    show (7 : Nat) = 0 + 1 + 1 + 1 + 1 + 1 + 1 + 1 from rfl, read128_succ, read128_succ, read128_succ,
    read128_succ, read128_succ, read128_succ, read128_succ, read128_zero]

/-- the model's compression step on a `Compressor` is `Model.f8` on its byte image -/
theorem input_finalize (M : Mach) (c : Compressor) (blk : List (BitVec 8)) :
    (c.input M blk).finalize = f8 M c.finalize blk := by
  rw [f8, new_finalize]

/-- the hypothesis of `jh_conforms_partial`: the model's compression function is `F_8` -/
def HF8 : Prop :=
  ∀ cv blk : List (BitVec 8), cv.length = 128 → blk.length = 64 →
    Spec.bytesToBits (f8 Mach.ref cv blk) = Spec.F8 (Spec.bytesToBits cv) (Spec.bytesToBits blk)

/-- absorbing a list of 64-byte blocks: model fold = specification fold -/
theorem fold_input (hF8 : HF8) (blocks : List (List (BitVec 8))) (hb : ∀ b ∈ blocks, b.length = 64)
    (c : Compressor) :
    Spec.bytesToBits (blocks.foldl (fun st b => Compressor.input Mach.ref st b) c).finalize
      = blocks.foldl (fun H b => Spec.F8 H (Spec.bytesToBits b)) (Spec.bytesToBits c.finalize) := by
  induction blocks generalizing c with
  | nil => rfl
  | cons b bs ih =>
    rw [List.foldl_cons, List.foldl_cons, ih (fun x hx => hb x (List.mem_cons_of_mem _ hx)),
      input_finalize, hF8 _ _ (finalize_length c) (hb b (List.mem_cons_self ..))]

/-! ## the specification's padding on byte strings -/

theorem tab_add {α} (m n : Nat) (f : Nat → α) :
    Spec.tab (m + n) f = Spec.tab m f ++ Spec.tab n (fun i => f (m + i)) := by
  simp [Spec.tab, List.range_add, List.map_map, Function.comp_def]

theorem tab_congr {α} (n : Nat) (f g : Nat → α) (h : ∀ i, i < n → f i = g i) :
    Spec.tab n f = Spec.tab n g := by
  apply List.map_congr_left
  intro i hi
  exact h i (List.mem_range.mp hi)

theorem tab_const {α} (n : Nat) (c : α) : Spec.tab n (fun _ => c) = List.replicate n c := by
  induction n with
  | zero => rfl
  | succ n ih =>
    rw [Spec.tab, List.range_succ, List.map_append, List.replicate_succ', ← ih]
    rfl

theorem range64 : List.range 64 =
    [0, 1, 2, 3, 4, 5, 6, 7, 8, 9, 10, 11, 12, 13, 14, 15, 16, 17, 18, 19, 20, 21, 22, 23, 24, 25, 26,
     27, 28, 29, 30, 31, 32, 33, 34, 35, 36, 37, 38, 39, 40, 41, 42, 43, 44, 45, 46, 47, 48, 49, 50,
     51, 52, 53, 54, 55, 56, 57, 58, 59, 60, 61, 62, 63] := by decide

theorem bits_toBe64 (w : BitVec 64) :
    Spec.bytesToBits (toBe64 w) = Spec.tab 64 (fun i => w.getLsbD (63 - i)) := by
  simp [Spec.tab, range64, toBe64, toLe64, Spec.bytesToBits, Spec.byteBits]

theorem natToBitsBE_128 (v : Nat) (hv : v < 2 ^ 64) :
    Spec.natToBitsBE 128 v =
      List.replicate 64 false ++ Spec.bytesToBits (toBe64 (BitVec.ofNat 64 v)) := by
  rw [bits_toBe64, Spec.natToBitsBE, show (128 : Nat) = 64 + 64 from rfl, tab_add]
  congr 1
  · rw [← tab_const]
    apply tab_congr
    intro i hi
    apply Nat.testBit_lt_two_pow
    exact Nat.lt_of_lt_of_le hv (Nat.pow_le_pow_right (by omega) (by omega))
  · apply tab_congr
    intro i hi
    rw [BitVec.getLsbD_ofNat]
    have : 64 + 64 - 1 - (64 + i) = 63 - i := by omega
    rw [this]
    simp; omega

/-- the padded message as bytes: `0x80`, zero bytes, the bit length as 16 big-endian bytes -/
def padBytes (msg : List (BitVec 8)) : List (BitVec 8) :=
  msg ++ (0x80#8 :: List.replicate (47 + (64 - msg.length % 64) % 64) 0#8 ++
    (List.replicate 8 0#8 ++ toBe64 (BitVec.ofNat 64 (8 * msg.length))))

theorem padBytes_length (msg : List (BitVec 8)) :
    (padBytes msg).length = 64 * (msg.length / 64) + (if msg.length % 64 = 0 then 64 else 128) := by
  simp [padBytes, toBe64, toLe64]
  split <;> omega

theorem pad_bytes (msg : List (BitVec 8)) (h : 8 * msg.length < 2 ^ 64) :
    Spec.pad (Spec.bytesToBits msg) = Spec.bytesToBits (padBytes msg) := by
  rw [Spec.pad, bytesToBits_length, natToBitsBE_128 _ h, padBytes, bytesToBits_append,
    bytesToBits_append, bytesToBits_cons, bytesToBits_append, bytesToBits_replicate_zero,
    bytesToBits_replicate_zero]
  have e : 383 + (512 - 8 * msg.length % 512) % 512 = 7 + 8 * (47 + (64 - msg.length % 64) % 64) := by
    omega
  have b : Spec.byteBits 0x80#8 = [true] ++ List.replicate 7 false := by decide
  rw [e, b, ← List.replicate_append_replicate]
  simp only [List.append_assoc]

/-- the specification's chaining-value iteration, on the 64-byte blocks of the padded message -/
theorem hashState_bytes (n : Nat) (msg : List (BitVec 8)) (h : 8 * msg.length < 2 ^ 64) :
    Spec.hashState n (Spec.bytesToBits msg) =
      (blocksN 64 ((padBytes msg).length / 64) (padBytes msg)).foldl
        (fun H b => Spec.F8 H (Spec.bytesToBits b)) (Spec.H0 n) := by
  simp only [Spec.hashState, Spec.block512]
  rw [pad_bytes msg h, foldl_range_blocks 512 Spec.F8, bytesToBits_length, blocksN_bits, List.foldl_map]
  congr 2
  omega

/-! ## the model's buffer handling -/

/-- one `update` of a fresh buffer: all full blocks are absorbed, the remainder is buffered -/
theorem inputBlock_init {σ} (msg : List (BitVec 8)) (f : σ → List (BitVec 8) → σ) (acc : σ) :
    inputBlock 64 (BB.init 64) msg f acc =
      ({ buf := splice (List.replicate 64 0#8) 0 (msg.drop (64 * (msg.length / 64))),
         pos := (msg.drop (64 * (msg.length / 64))).length },
       (blocksN 64 (msg.length / 64) msg).foldl f acc) := by
  by_cases hlt : msg.length < 64
  · have h0 : msg.length / 64 = 0 := Nat.div_eq_of_lt hlt
    simp [inputBlock, BB.init, hlt, h0, blocksN]
  · have hfc := foldChunks_eq 64 (by omega) f (msg.length / 64 + 1) acc msg (by omega)
    simp [inputBlock, BB.init, hlt, hfc]

theorem len64_fresh {σ} (len : BitVec 64) (f : σ → List (BitVec 8) → σ) (acc : σ) :
    (len64PaddingBe 64 { buf := splice (List.replicate 64 0#8) 0 [], pos := 0 } len f acc).2
      = f acc (0x80#8 :: List.replicate 55 0#8 ++ toBe64 len) := by
  rfl

theorem iso7816_rem (rem : List (BitVec 8)) (hr : rem.length < 64) :
    padWithIso7816 64 { buf := splice (List.replicate 64 0#8) 0 rem, pos := rem.length } =
      some ({ buf := rem ++ 0x80#8 :: List.replicate (63 - rem.length) 0#8, pos := 0 },
            rem ++ 0x80#8 :: List.replicate (63 - rem.length) 0#8) := by
  have hs : splice (List.replicate 64 0#8) 0 rem = rem ++ (0#8 :: List.replicate (63 - rem.length) 0#8) := by
    simp only [splice, List.take_zero, List.nil_append, Nat.zero_add, List.drop_replicate]
    rw [show 64 - rem.length = (63 - rem.length) + 1 by omega, List.replicate_succ]
  have hset : (rem ++ (0#8 :: List.replicate (63 - rem.length) 0#8)).set rem.length (0x80 : BitVec 8)
      = rem ++ (0x80#8 :: List.replicate (63 - rem.length) 0#8) := by
    rw [List.set_append_right _ _ (Nat.le_refl _), Nat.sub_self, List.set_cons_zero]
    rfl
  have hz : zeroFrom (rem ++ (0x80#8 :: List.replicate (63 - rem.length) 0#8)) (rem.length + 1)
      = rem ++ 0x80#8 :: List.replicate (63 - rem.length) 0#8 := by
    simp only [zeroFrom]
    rw [List.take_length_add_append]
    simp only [List.length_append, List.length_cons, List.length_replicate, List.take_succ_cons,
      List.take_zero]
    rw [show rem.length + (63 - rem.length + 1) - (rem.length + 1) = 63 - rem.length by omega]
    simp
  have key : zeroFrom ((splice (List.replicate 64 0#8) 0 rem).set rem.length (0x80 : BitVec 8))
      (rem.length + 1) = rem ++ 0x80#8 :: List.replicate (63 - rem.length) 0#8 := by
    rw [hs, hset, hz]
  unfold padWithIso7816
  rw [if_neg (by show ¬ (rem.length ≥ 64); omega)]
  exact congrArg (fun B => some (({ buf := B, pos := 0 } : BB), B)) key

/-! ## the blocks of the padded message = full message blocks ++ the model's padding blocks -/

/-- the block(s) `finalize_into_dirty` feeds after the buffered remainder `rem` -/
def padBlocks (rem : List (BitVec 8)) (len : BitVec 64) : List (List (BitVec 8)) :=
  if rem.length = 0 then [0x80#8 :: List.replicate 55 0#8 ++ toBe64 len]
  else [rem ++ 0x80#8 :: List.replicate (63 - rem.length) 0#8, List.replicate 56 0#8 ++ toBe64 len]

theorem toBe64_length (w : BitVec 64) : (toBe64 w).length = 8 := rfl

theorem padBytes_blocks (msg : List (BitVec 8)) :
    blocksN 64 ((padBytes msg).length / 64) (padBytes msg) =
      blocksN 64 (msg.length / 64) msg ++
        padBlocks (msg.drop (64 * (msg.length / 64))) (BitVec.ofNat 64 (8 * msg.length)) := by
  have hremlen : (msg.drop (64 * (msg.length / 64))).length = msg.length % 64 := by
    rw [List.length_drop]; omega
  by_cases h0 : msg.length % 64 = 0
  · have hk : (padBytes msg).length / 64 = msg.length / 64 + 1 := by
      rw [padBytes_length, if_pos h0]; omega
    have hnil : msg.drop (64 * (msg.length / 64)) = [] :=
      List.eq_nil_of_length_eq_zero (by rw [hremlen, h0])
    rw [hk, padBytes, blocksN_append 64 _ 1 msg _ (by omega), hnil, padBlocks, if_pos (show ([] : List (BitVec 8)).length = 0 from rfl)]
    congr 1
    rw [h0]
    simp only [blocksN, List.nil_append]
    congr 1
  · have hk : (padBytes msg).length / 64 = msg.length / 64 + 2 := by
      rw [padBytes_length, if_neg h0]; omega
    have hr : (msg.drop (64 * (msg.length / 64))).length ≠ 0 := by rw [hremlen]; exact h0
    rw [hk, padBytes, blocksN_append 64 _ 2 msg _ (by omega), padBlocks, if_neg hr]
    congr 1
    generalize hrem : msg.drop (64 * (msg.length / 64)) = rem at *
    have hz : 47 + (64 - msg.length % 64) % 64 = (63 - rem.length) + 48 := by omega
    rw [hz, ← List.replicate_append_replicate]
    have e : rem ++ (0x80#8 :: (List.replicate (63 - rem.length) 0#8 ++ List.replicate 48 0#8) ++
        (List.replicate 8 0#8 ++ toBe64 (BitVec.ofNat 64 (8 * msg.length))))
        = (rem ++ 0x80#8 :: List.replicate (63 - rem.length) 0#8) ++
          (List.replicate 56 0#8 ++ toBe64 (BitVec.ofNat 64 (8 * msg.length))) := by
      rw [show (56 : Nat) = 48 + 8 by rfl, ← List.replicate_append_replicate]
      simp
    rw [e]
    have hl : (rem ++ 0x80#8 :: List.replicate (63 - rem.length) 0#8).length = 64 := by
      simp; omega
    simp only [blocksN]
    rw [List.take_left' hl, List.drop_left' hl]
    congr 2
    try (apply List.take_of_length_le; simp [toBe64_length])

/-! ## the model's one-shot digest -/

/-- what the model's `finalize` returns after one `update(msg)` on a fresh hasher: the tail of the
    byte image of the state reached by absorbing the message's full blocks and then `padBlocks`. -/
theorem digest_eq (M : Mach) (p : Profile) (n : Nat) (msg : List (BitVec 8))
    (h : 8 * msg.length < 2 ^ 64) :
    digest M p n msg = .ok
      (((blocksN 64 (msg.length / 64) msg ++
          padBlocks (msg.drop (64 * (msg.length / 64))) (BitVec.ofNat 64 (8 * msg.length))).foldl
        (fun st b => Compressor.input M st b) (Compressor.new (h0Bytes n))).finalize.drop (128 - n / 8)) := by
  have hlen : ¬ (p = .debug ∧ 0 + msg.length ≥ 2 ^ 64) := by intro hh; omega
  have hmod : (0 + msg.length) % 2 ^ 64 = msg.length := by omega
  generalize hrem : msg.drop (64 * (msg.length / 64)) = rem
  have hremlen : rem.length < 64 := by
    rw [← hrem, List.length_drop]; omega
  simp only [digest, Hasher.update, Hasher.new, if_neg hlen, inputBlock_init, hrem]
  simp only [Hasher.finalize, Hasher.finalizeDirty, hmod]
  rw [Nat.mul_comm msg.length 8, List.foldl_append, padBlocks]
  have hlen8' : ¬ (p = .debug ∧ 8 * msg.length ≥ 2 ^ 64) := by intro hh; omega
  rw [if_neg hlen8']
  by_cases h0 : rem.length = 0
  · have hnil : rem = [] := List.eq_nil_of_length_eq_zero h0
    subst hnil
    simp only [List.length_nil, if_true, len64_fresh, List.foldl_cons, List.foldl_nil]
  · simp only [if_neg h0, iso7816_rem rem hremlen, List.foldl_cons, List.foldl_nil]

/-- **(d) message level.**  Given that the model's compression function is `F_8` (`HF8`) and that
    the initial value is `H^{(0)}`, the model's one-shot digest is JH-`n` of the specification,
    for every message shorter than 2^64 bits — in both build profiles (no overflow check fires). -/
theorem digest_conforms (hF8 : HF8) (p : Profile) (n : Nat)
    (hn : n = 224 ∨ n = 256 ∨ n = 384 ∨ n = 512)
    (hH0 : Spec.bytesToBits (Compressor.new (h0Bytes n)).finalize = Spec.H0 n)
    (msg : List (BitVec 8)) (h : 8 * msg.length < 2 ^ 64) :
    digest Mach.ref p n msg = .ok (Spec.jh n msg) := by
  rw [digest_eq Mach.ref p n msg h]
  congr 1
  have hblocks : ∀ b ∈ blocksN 64 (msg.length / 64) msg ++
      padBlocks (msg.drop (64 * (msg.length / 64))) (BitVec.ofNat 64 (8 * msg.length)), b.length = 64 := by
    rw [← padBytes_blocks]
    apply blocksN_mem_length
    rw [padBytes_length]; split <;> omega
  have hfold := fold_input hF8 _ hblocks (Compressor.new (h0Bytes n))
  rw [hH0, ← padBytes_blocks, ← hashState_bytes n msg h] at hfold
  rw [Spec.jh, Spec.jhBits, ← hfold]
  have e : 1024 - n = 8 * (128 - n / 8) := by
    rcases hn with rfl | rfl | rfl | rfl <;> rfl
  rw [e, bytesToBits_drop, bitsToBytes_bytesToBits, padBytes_blocks]

end CC.JH.Lemmas
