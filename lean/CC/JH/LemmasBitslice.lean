/-
  CC.JH.LemmasBitslice — layer (a) of C06: the bit-sliced leaves of `compressor.rs` on the
  reference machine are, bit position by bit position, the specification's S-boxes and `L`;
  `swap{K}` is the bit permutation `i ↦ i xor K`.
-/
import CC.JH.Spec
import CC.JH.Model
import Std.Tactic.BVDecide
namespace CC.JH.Lemmas
open CC CC.Simd CC.JH CC.JH.Model

/-! ## the circuits, generic in the word width -/

/-- the `ss` statement sequence on one lane (words `a b c d` = m.0 … m.3 of that lane, `k`) -/
def ssW {w : Nat} (a b c d k : BitVec w) : BitVec w × BitVec w × BitVec w × BitVec w :=
  let m0 := a
  let m1 := b
  let m2 := c
  let m3 := d
  let m3 := ~~~m3
  let m0 := m0 ^^^ (~~~m2 &&& k)
  let k := k ^^^ (m0 &&& m1)
  let m0 := m0 ^^^ (m3 &&& m2)
  let m3 := m3 ^^^ (~~~m1 &&& m2)
  let m1 := m1 ^^^ (m0 &&& m2)
  let m2 := m2 ^^^ (~~~m3 &&& m0)
  let m0 := m0 ^^^ (m1 ||| m3)
  let m3 := m3 ^^^ (m1 &&& m2)
  let m2 := m2 ^^^ k
  let m1 := m1 ^^^ (k &&& m0)
  (m0, m1, m2, m3)

/-- the same circuit on single bits -/
def ssB (a b c d k : Bool) : Bool × Bool × Bool × Bool :=
  let m0 := a
  let m1 := b
  let m2 := c
  let m3 := d
  let m3 := !m3
  let m0 := m0 ^^ (!m2 && k)
  let k := k ^^ (m0 && m1)
  let m0 := m0 ^^ (m3 && m2)
  let m3 := m3 ^^ (!m1 && m2)
  let m1 := m1 ^^ (m0 && m2)
  let m2 := m2 ^^ (!m3 && m0)
  let m0 := m0 ^^ (m1 || m3)
  let m3 := m3 ^^ (m1 && m2)
  let m2 := m2 ^^ k
  let m1 := m1 ^^ (k && m0)
  (m0, m1, m2, m3)

/-- **S-box leaf.** The circuit on the four bits `(a,b,c,d)` (`a` most significant) with constant
    bit `k` is the specification's `S_k` — all 32 cases. -/
theorem ssB_eq_sbox (a b c d k : Bool) :
    Spec.nib4 (ssB a b c d k).1 (ssB a b c d k).2.1 (ssB a b c d k).2.2.1 (ssB a b c d k).2.2.2
      = Spec.sbox k (Spec.nib4 a b c d) := by
  revert a b c d k; decide

/-- the `l` statement sequence on eight words -/
def lW {w : Nat} (y0 y1 y2 y3 y4 y5 y6 y7 : BitVec w) :
    BitVec w × BitVec w × BitVec w × BitVec w × BitVec w × BitVec w × BitVec w × BitVec w :=
  let y1 := y1 ^^^ y2
  let y3 := y3 ^^^ y4
  let y5 := y5 ^^^ (y6 ^^^ y0)
  let y7 := y7 ^^^ y0
  let y0 := y0 ^^^ y3
  let y2 := y2 ^^^ y5
  let y4 := y4 ^^^ (y7 ^^^ y1)
  let y6 := y6 ^^^ y1
  (y0, y1, y2, y3, y4, y5, y6, y7)

def lB (y0 y1 y2 y3 y4 y5 y6 y7 : Bool) :
    Bool × Bool × Bool × Bool × Bool × Bool × Bool × Bool :=
  let y1 := y1 ^^ y2
  let y3 := y3 ^^ y4
  let y5 := y5 ^^ (y6 ^^ y0)
  let y7 := y7 ^^ y0
  let y0 := y0 ^^ y3
  let y2 := y2 ^^ y5
  let y4 := y4 ^^ (y7 ^^ y1)
  let y6 := y6 ^^ y1
  (y0, y1, y2, y3, y4, y5, y6, y7)

/-- **`L` leaf.** On the bits of the even words `(y0,y2,y4,y6)` = element `A` and of the odd words
    `(y1,y3,y5,y7)` = element `B`, `l` computes `(C, D) = L(A, B)` — all 256 cases. -/
theorem lB_eq_L (y0 y1 y2 y3 y4 y5 y6 y7 : Bool) :
    let r := lB y0 y1 y2 y3 y4 y5 y6 y7
    (Spec.nib4 r.1 r.2.2.1 r.2.2.2.2.1 r.2.2.2.2.2.2.1,
     Spec.nib4 r.2.1 r.2.2.2.1 r.2.2.2.2.2.1 r.2.2.2.2.2.2.2)
      = Spec.L (Spec.nib4 y0 y2 y4 y6) (Spec.nib4 y1 y3 y5 y7) := by
  revert y0 y1 y2 y3 y4 y5 y6 y7; decide

/-! ## word level = bit level at every position -/

theorem ssW_getLsbD {w : Nat} (a b c d k : BitVec w) (j : Nat) (hj : j < w) :
    let r := ssB (a.getLsbD j) (b.getLsbD j) (c.getLsbD j) (d.getLsbD j) (k.getLsbD j)
    (ssW a b c d k).1.getLsbD j = r.1 ∧ (ssW a b c d k).2.1.getLsbD j = r.2.1 ∧
    (ssW a b c d k).2.2.1.getLsbD j = r.2.2.1 ∧ (ssW a b c d k).2.2.2.getLsbD j = r.2.2.2 := by
  simp [ssW, ssB, hj]

theorem lW_getLsbD {w : Nat} (y0 y1 y2 y3 y4 y5 y6 y7 : BitVec w) (j : Nat) :
    let r := lW y0 y1 y2 y3 y4 y5 y6 y7
    let b := lB (y0.getLsbD j) (y1.getLsbD j) (y2.getLsbD j) (y3.getLsbD j)
                (y4.getLsbD j) (y5.getLsbD j) (y6.getLsbD j) (y7.getLsbD j)
    r.1.getLsbD j = b.1 ∧ r.2.1.getLsbD j = b.2.1 ∧ r.2.2.1.getLsbD j = b.2.2.1 ∧
    r.2.2.2.1.getLsbD j = b.2.2.2.1 ∧ r.2.2.2.2.1.getLsbD j = b.2.2.2.2.1 ∧
    r.2.2.2.2.2.1.getLsbD j = b.2.2.2.2.2.1 ∧ r.2.2.2.2.2.2.1.getLsbD j = b.2.2.2.2.2.2.1 ∧
    r.2.2.2.2.2.2.2.getLsbD j = b.2.2.2.2.2.2.2 := by
  simp [lW, lB]

/-! ## `Model.ss` / `Model.l` on the reference machine are these circuits, lane by lane -/

theorem ss_ref (y : X8) (k : BitVec 256) :
    ss Mach.ref y k =
      { x0 := (ssW y.x0 y.x2 y.x4 y.x6 (lo128 k)).1,
        x1 := (ssW y.x1 y.x3 y.x5 y.x7 (hi128 k)).1,
        x2 := (ssW y.x0 y.x2 y.x4 y.x6 (lo128 k)).2.1,
        x3 := (ssW y.x1 y.x3 y.x5 y.x7 (hi128 k)).2.1,
        x4 := (ssW y.x0 y.x2 y.x4 y.x6 (lo128 k)).2.2.1,
        x5 := (ssW y.x1 y.x3 y.x5 y.x7 (hi128 k)).2.2.1,
        x6 := (ssW y.x0 y.x2 y.x4 y.x6 (lo128 k)).2.2.2,
        x7 := (ssW y.x1 y.x3 y.x5 y.x7 (hi128 k)).2.2.2 } := by
  obtain ⟨x0, x1, x2, x3, x4, x5, x6, x7⟩ := y
  simp only [ss, X8.zip, X8.unzip, Mach.ref, ssW, pack256, lo128, hi128, X8.mk.injEq]
  refine ⟨?_, ?_, ?_, ?_, ?_, ?_, ?_, ?_⟩ <;> bv_decide

theorem l_ref (y : X8) :
    l Mach.ref y =
      let r := lW y.x0 y.x1 y.x2 y.x3 y.x4 y.x5 y.x6 y.x7
      { x0 := r.1, x1 := r.2.1, x2 := r.2.2.1, x3 := r.2.2.2.1,
        x4 := r.2.2.2.2.1, x5 := r.2.2.2.2.2.1, x6 := r.2.2.2.2.2.2.1, x7 := r.2.2.2.2.2.2.2 } := by
  obtain ⟨x0, x1, x2, x3, x4, x5, x6, x7⟩ := y
  simp [l, Mach.ref, lW]

/-! ## `swap{K}`: bit `i` of the result is bit `i xor K` of the argument -/

theorem swap_shift (K : Nat) (hK : K = 1 ∨ K = 2 ∨ K = 4 ∨ K = 8 ∨ K = 16 ∨ K = 32 ∨ K = 64)
    (v i : BitVec 128) (hi : i < 128#128) :
    (swapBits K v >>> i).getLsbD 0 = (v >>> (i ^^^ BitVec.ofNat 128 K)).getLsbD 0 := by
  rcases hK with h | h | h | h | h | h | h <;> subst h <;>
    simp only [swapBits, swapMask] <;> bv_decide

theorem swapBits_getLsbD (K : Nat) (hK : K = 1 ∨ K = 2 ∨ K = 4 ∨ K = 8 ∨ K = 16 ∨ K = 32 ∨ K = 64)
    (v : BitVec 128) (i : Nat) (hi : i < 128) :
    (swapBits K v).getLsbD i = v.getLsbD (i ^^^ K) := by
  have h := swap_shift K hK v (BitVec.ofNat 128 i) (by
    simp [BitVec.lt_def]; omega)
  have hK' : K < 128 := by omega
  have e1 : (BitVec.ofNat 128 i).toNat = i := by simp; omega
  have e2 : (BitVec.ofNat 128 i ^^^ BitVec.ofNat 128 K).toNat = i ^^^ K := by
    rw [BitVec.toNat_xor, e1]
    simp only [BitVec.toNat_ofNat]
    rw [Nat.mod_eq_of_lt (a := K) (by omega)]
  rw [BitVec.ushiftRight_eq', BitVec.ushiftRight_eq', BitVec.getLsbD_ushiftRight,
    BitVec.getLsbD_ushiftRight, e1, e2] at h
  simpa using h

/-- `Mach.ref.swap128 K` moves bit `i` to `i xor K`. -/
theorem swap128_ref_getLsbD (K : Nat) (hK : K = 1 ∨ K = 2 ∨ K = 4 ∨ K = 8 ∨ K = 16 ∨ K = 32 ∨ K = 64)
    (v : BitVec 128) (i : Nat) (hi : i < 128) :
    (Mach.ref.swap128 K v).getLsbD i = v.getLsbD (i ^^^ K) :=
  swapBits_getLsbD K hK v i hi

/-! ## nibble view: the four-bit element at bit position `j` of the even / odd words -/

/-- element read MSB-first from bit `j` of words `p, 2+p, 4+p, 6+p` (`p = 0`: even, else odd) -/
def nibAt (y : X8) (p j : Nat) : BitVec 4 :=
  if p = 0 then Spec.nib4 (y.x0.getLsbD j) (y.x2.getLsbD j) (y.x4.getLsbD j) (y.x6.getLsbD j)
  else Spec.nib4 (y.x1.getLsbD j) (y.x3.getLsbD j) (y.x5.getLsbD j) (y.x7.getLsbD j)

/-- **(a) S-boxes.** `ss` on bit `j` of `(x0,x2,x4,x6,k.lo)` / `(x1,x3,x5,x7,k.hi)` is `S_{k_j}`. -/
theorem ss_ref_nib (y : X8) (k : BitVec 256) (j : Nat) (hj : j < 128) :
    nibAt (ss Mach.ref y k) 0 j = Spec.sbox ((lo128 k).getLsbD j) (nibAt y 0 j) ∧
    nibAt (ss Mach.ref y k) 1 j = Spec.sbox ((hi128 k).getLsbD j) (nibAt y 1 j) := by
  have he := ssW_getLsbD y.x0 y.x2 y.x4 y.x6 (lo128 k) j hj
  have ho := ssW_getLsbD y.x1 y.x3 y.x5 y.x7 (hi128 k) j hj
  obtain ⟨e0, e1, e2, e3⟩ := he
  obtain ⟨o0, o1, o2, o3⟩ := ho
  rw [ss_ref]
  constructor
  · simp only [nibAt, if_true, e0, e1, e2, e3]
    exact ssB_eq_sbox _ _ _ _ _
  · simp only [nibAt, Nat.one_ne_zero, if_false, o0, o1, o2, o3]
    exact ssB_eq_sbox _ _ _ _ _

/-- **(a) linear layer.** `l` is `L` on the element pair at every bit position. -/
theorem l_ref_nib (y : X8) (j : Nat) :
    (nibAt (l Mach.ref y) 0 j, nibAt (l Mach.ref y) 1 j) = Spec.L (nibAt y 0 j) (nibAt y 1 j) := by
  have h := lW_getLsbD y.x0 y.x1 y.x2 y.x3 y.x4 y.x5 y.x6 y.x7 j
  obtain ⟨h0, h1, h2, h3, h4, h5, h6, h7⟩ := h
  rw [l_ref]
  simp only [nibAt, if_true, Nat.one_ne_zero, if_false, h0, h1, h2, h3, h4, h5, h6, h7]
  exact lB_eq_L _ _ _ _ _ _ _ _

/-- **(a) swap.** `swap{K}` on the odd words moves the odd element at position `j xor K` to `j`
    and leaves the even elements alone. -/
theorem swapOdd_ref_nib (K : Nat) (hK : K = 1 ∨ K = 2 ∨ K = 4 ∨ K = 8 ∨ K = 16 ∨ K = 32 ∨ K = 64)
    (y : X8) (j : Nat) (hj : j < 128) :
    nibAt (swapOdd Mach.ref K y) 0 j = nibAt y 0 j ∧
    nibAt (swapOdd Mach.ref K y) 1 j = nibAt y 1 (j ^^^ K) := by
  constructor
  · simp [nibAt, swapOdd]
  · simp only [nibAt, swapOdd, Nat.one_ne_zero, if_false,
      swap128_ref_getLsbD K hK _ j hj]

end CC.JH.Lemmas
