/-
  CC.JH.Model — `jh-x86_64` as written: `/repo/hashes/jh/src/{compressor.rs,consts.rs,lib.rs}`,
  statement by statement, over an abstract `M : CC.Simd.Mach` (the ppv-lite86 `Machine`).

  * `X8`         = `struct X8<M>(M::u128x1 × 8)`; `zip`/`unzip` through `vzip256`/`extract256`.
  * `ss`, `l`    = the two bit-sliced layers; `roundStep` = one iteration of the `unroll7!` body.
  * `f8impl`     = `f8_impl::<M>` (message xor before into y.0..y.3, 6 × 7 rounds, xor after into
                   y.4..y.7); `read_unaligned` of a `u128x1` from bytes = little-endian load.
  * `Compressor` = `{ cv: [vec128_storage; 8] }`, `new`/`finalize` = `transmute` (little endian).
  * `Hasher`     = `define_hasher!` (`state`, `buffer: BlockBuffer<U64>`, `datalen: usize`).
-/
import CC.Prim
import CC.Simd.Mach
import CC.Buffer.BlockBuffer
namespace CC.JH.Model
open CC CC.Simd CC.Buffer

/-! ## constants (copied from the Rust sources; `hex!("…")` is the byte string whose big-endian
    reading is the literal below) -/

/-- `E8_BITSLICE_ROUNDCONSTANT`, each entry written as the hex string of compressor.rs. -/
def rcHex : List (BitVec 256) := [
  0x72d5dea2df15f8677b84150ab723155781abd6904d5a87f64e9f4fc5c3d12b40#256,
  0xea983ae05c45fa9c03c5d29966b2999a660296b4f2bb538ab556141a88dba231#256,
  0x03a35a5c9a190edb403fb20a87c144101c051980849e951d6f33ebad5ee7cddc#256,
  0x10ba139202bf6b41dc786515f7bb27d00a2c813937aa78503f1abfd2410091d3#256,
  0x422d5a0df6cc7e90dd629f9c92c097ce185ca70bc72b44acd1df65d663c6fc23#256,
  0x976e6c039ee0b81a2105457e446ceca8eef103bb5d8e61fafd9697b294838197#256,
  0x4a8e8537db03302f2a678d2dfb9f6a958afe7381f8b8696c8ac77246c07f4214#256,
  0xc5f4158fbdc75ec475446fa78f11bb8052de75b7aee488bc82b8001e98a6a3f4#256,
  0x8ef48f33a9a36315aa5f5624d5b7f989b6f1ed207c5ae0fd36cae95a06422c36#256,
  0xce2935434efe983d533af974739a4ba7d0f51f596f4e81860e9dad81afd85a9f#256,
  0xa7050667ee34626a8b0b28be6eb9172747740726c680103fe0a07e6fc67e487b#256,
  0x0d550aa54af8a4c091e3e79f978ef19e8676728150608dd47e9e5a41f3e5b062#256,
  0xfc9f1fec4054207ae3e41a00cef4c9844fd794f59dfa95d8552e7e1124c354a5#256,
  0x5bdf7228bdfe6e2878f57fe20fa5c4b205897cefee49d32e447e9385eb28597f#256,
  0x705f6937b324314a5e8628f11dd6e465c71b770451b920e774fe43e823d4878a#256,
  0x7d29e8a3927694f2ddcb7a099b30d9c11d1b30fb5bdc1be0da24494ff29c82bf#256,
  0xa4e7ba31b470bfff0d324405def8bc483baefc3253bbd339459fc3c1e0298ba0#256,
  0xe5c905fdf7ae090f947034124290f134a271b701e344ed95e93b8e364f2f984a#256,
  0x88401d63a06cf61547c1444b8752afff7ebb4af1e20ac6304670b6c5cc6e8ce6#256,
  0xa4d5a456bd4fca00da9d844bc83e18ae7357ce453064d1ade8a6ce68145c2567#256,
  0xa3da8cf2cb0ee11633e906589a94999a1f60b220c26f847bd1ceac7fa0d18518#256,
  0x32595ba18ddd19d3509a1cc0aaa5b4469f3d6367e4046bbaf6ca19ab0b56ee7e#256,
  0x1fb179eaa9282174e9bdf7353b3651ee1d57ac5a7550d3763a46c2fea37d7001#256,
  0xf735c1af98a4d84278edec209e6b677941836315ea3adba8fac33b4d32832c83#256,
  0xa7403b1f1c2747f35940f034b72d769ae73e4e6cd2214ffdb8fd8d39dc5759ef#256,
  0x8d9b0c492b49ebda5ba2d74968f3700d7d3baed07a8d5584f5a5e9f0e4f88e65#256,
  0xa0b8a2f436103b530ca8079e753eec5a9168949256e8884f5bb05c55f8babc4c#256,
  0xe3bb3b99f387947b75daf4d6726b1c5d64aeac28dc34b36d6c34a550b828db71#256,
  0xf861e2f2108d512ae3db643359dd75fc1cacbcf143ce3fa267bbd13c02e843b0#256,
  0x330a5bca8829a1757f34194db416535c923b94c30e794d1e797475d7b6eeaf3f#256,
  0xeaa8d4f7be1a39215cf47e094c23275126a32453ba323cd244a3174a6da6d5ad#256,
  0xb51d3ea6aff2c90883593d98916b3c564cf87ca17286604d46e23ecc086ec7f6#256,
  0x2f9833b3b1bc765e2bd666a5efc4e62a06f4b6e8bec1d43674ee8215bcef2163#256,
  0xfdc14e0df453c969a77d5ac4065858267ec1141606e0fa167e90af3d28639d3f#256,
  0xd2c9f2e3009bd20c5faace30b7d40c30742a5116f2e032980deb30d8e3cef89a#256,
  0x4bc59e7bb5f17992ff51e66e048668d39b234d57e6966731cce6a6f3170a7505#256,
  0xb17681d913326cce3c175284f805a262f42bcbb378471547ff46548223936a48#256,
  0x38df58074e5e6565f2fc7c89fc86508e31702e44d00bca86f04009a23078474e#256,
  0x65a0ee39d1f73883f75ee937e42c3abd2197b2260113f86fa344edd1ef9fdee7#256,
  0x8ba0df15762592d93c85f7f612dc42bed8a7ec7cab27b07e538d7ddaaa3ea8de#256,
  0xaa25ce93bd0269d85af643fd1a7308f9c05fefda174a19a5974d66334cfd216a#256,
  0x35b49831db411570ea1e0fbbedcd549b9ad063a151974072f6759dbf91476fe2#256
]

/-- `rc[j]: [u8; 32]` -/
def rcBytes (r : Nat) : List (BitVec 8) := toBeBytes (rcHex.getD r 0#256) 32

/-- `X2Bytes::<M> { bytes: rc[j] }.x2` — the union reinterprets the 32 bytes as two `u128x1`
    (lane 0 = bytes 0..16), i.e. a 256-bit little-endian load. -/
def rc (r : Nat) : BitVec 256 := ofLeBytes 256 (rcBytes r)

def jh224H0Hex : BitVec 1024 :=
  0x2dfedd62f99a98acae7cacd619d634e7a4831005bc301216b86038c6c966149466d9899f2580706fce9ea31b1d9b1adc11e8325f7b366e10f994857f02fa06c11b4f1b5cd8c840b397f6a17f6e738099dcdf93a5adeaa3d3a431e8dec9539a6822b4a98aec86a1e4d574ac959ce56cf015960deab5ab2bbf9611dcf0dd64ea6e#1024
def jh256H0Hex : BitVec 1024 :=
  0xeb98a3412c20d3eb92cdbe7b9cb245c11c93519160d4c7fa260082d67e508a03a4239e267726b945e0fb1a48d41a9477cdb5ab26026b177a56f024420fff2fa871a396897f2e4d751d144908f77de262277695f776248f9487d5b6574780296c5c5e272dac8e0d6c518450c657057a0f7be4d367702412ea89e3ab13d31cd769#1024
def jh384H0Hex : BitVec 1024 :=
  0x481e3bc6d813398a6d3b5e894ade879b63faea68d480ad2e332ccb21480f826798aec84d9082b928d455ea304111424936f555b2924847ecc7250a93baf43ce1569b7f8a27db454c9efcbd496397af0e589fc27d26aa80cd80c08b8c9deb2eda8a7981e8f8d5373af43967adddd17a71a9b4d3bda475d394976c3fba9842737f#1024
def jh512H0Hex : BitVec 1024 :=
  0x6fd14b963e00aa17636a2e057a15d5438a225e8d0c97ef0be9341259f2b3c361891da0c1536f801e2aa9056bea2b6d80588eccdb2075baa6a90f3a76baf83bf70169e60541e34a6946b58a8e2e6fe65a1047a7d0c1843c243b6e71b12d5ac199cf57f6ec9db1f856a706887c5716b156e3c2fcdfe68517fb545a4678cc8cdd4b#1024

/-- `consts::JH{224,256,384,512}_H0 : [u8; 128]` (selected by digest size in bits) -/
def h0Bytes (n : Nat) : List (BitVec 8) :=
  toBeBytes (if n = 224 then jh224H0Hex else if n = 256 then jh256H0Hex
             else if n = 384 then jh384H0Hex else jh512H0Hex) 128

/-! ## compressor.rs -/

structure X8 where
  x0 : BitVec 128
  x1 : BitVec 128
  x2 : BitVec 128
  x3 : BitVec 128
  x4 : BitVec 128
  x5 : BitVec 128
  x6 : BitVec 128
  x7 : BitVec 128
  deriving DecidableEq

/-- `X8::zip` -/
def X8.zip (M : Mach) (s : X8) : BitVec 256 × BitVec 256 × BitVec 256 × BitVec 256 :=
  (M.vzip256 s.x0 s.x1, M.vzip256 s.x2 s.x3, M.vzip256 s.x4 s.x5, M.vzip256 s.x6 s.x7)

/-- `X8::unzip` -/
def X8.unzip (M : Mach) (m : BitVec 256 × BitVec 256 × BitVec 256 × BitVec 256) : X8 :=
  { x0 := M.extract256 m.1 0, x1 := M.extract256 m.1 1,
    x2 := M.extract256 m.2.1 0, x3 := M.extract256 m.2.1 1,
    x4 := M.extract256 m.2.2.1 0, x5 := M.extract256 m.2.2.1 1,
    x6 := M.extract256 m.2.2.2 0, x7 := M.extract256 m.2.2.2 1 }

/-- `fn ss` — two S-boxes in parallel, selected by the constant bits `k`
    (`a.andnot(b) = !a & b`). -/
def ss (M : Mach) (state : X8) (k : BitVec 256) : X8 :=
  let m := state.zip M
  let m0 := m.1
  let m1 := m.2.1
  let m2 := m.2.2.1
  let m3 := m.2.2.2
  let m3 := M.not256 m3                               -- m.3 = !m.3;
  let m0 := M.xor256 m0 (M.andnot256 m2 k)            -- m.0 ^= m.2.andnot(k);
  let k := M.xor256 k (M.and256 m0 m1)                -- k ^= m.0 & m.1;
  let m0 := M.xor256 m0 (M.and256 m3 m2)              -- m.0 ^= m.3 & m.2;
  let m3 := M.xor256 m3 (M.andnot256 m1 m2)           -- m.3 ^= m.1.andnot(m.2);
  let m1 := M.xor256 m1 (M.and256 m0 m2)              -- m.1 ^= m.0 & m.2;
  let m2 := M.xor256 m2 (M.andnot256 m3 m0)           -- m.2 ^= m.3.andnot(m.0);
  let m0 := M.xor256 m0 (M.or256 m1 m3)               -- m.0 ^= m.1 | m.3;
  let m3 := M.xor256 m3 (M.and256 m1 m2)              -- m.3 ^= m.1 & m.2;
  let m2 := M.xor256 m2 k                             -- m.2 ^= k;
  let m1 := M.xor256 m1 (M.and256 k m0)               -- m.1 ^= k & m.0;
  X8.unzip M (m0, m1, m2, m3)

/-- `fn l` -/
def l (M : Mach) (y : X8) : X8 :=
  let y := { y with x1 := M.xor128 y.x1 y.x2 }                      -- y.1 ^= y.2;
  let y := { y with x3 := M.xor128 y.x3 y.x4 }                      -- y.3 ^= y.4;
  let y := { y with x5 := M.xor128 y.x5 (M.xor128 y.x6 y.x0) }      -- y.5 ^= y.6 ^ y.0;
  let y := { y with x7 := M.xor128 y.x7 y.x0 }                      -- y.7 ^= y.0;
  let y := { y with x0 := M.xor128 y.x0 y.x3 }                      -- y.0 ^= y.3;
  let y := { y with x2 := M.xor128 y.x2 y.x5 }                      -- y.2 ^= y.5;
  let y := { y with x4 := M.xor128 y.x4 (M.xor128 y.x7 y.x1) }      -- y.4 ^= y.7 ^ y.1;
  let y := { y with x6 := M.xor128 y.x6 y.x1 }                      -- y.6 ^= y.1;
  y

/-- `y = X8(y.0, f(y.1), y.2, f(y.3), y.4, f(y.5), y.6, f(y.7))` with `f = swap{sw}` -/
def swapOdd (M : Mach) (sw : Nat) (y : X8) : X8 :=
  { y with x1 := M.swap128 sw y.x1, x3 := M.swap128 sw y.x3,
           x5 := M.swap128 sw y.x5, x7 := M.swap128 sw y.x7 }

/-- body of `unroll7!(j, …)` for the constant `k = rc[j]` of the current chunk -/
def roundStep (M : Mach) (y : X8) (k : BitVec 256) (j : Nat) : X8 :=
  swapOdd M (2 ^ j) (l M (ss M y k))

/-- `for rc in E8_BITSLICE_ROUNDCONSTANT.chunks_exact(7) { unroll7!(j, {…}) }` — 42 = 6 · 7. -/
def rounds (M : Mach) (y : X8) : X8 :=
  (List.range 6).foldl (fun y c =>
    (List.range 7).foldl (fun y j => roundStep M y (rc (7 * c + j)) j) y) y

/-- `ptr::read_unaligned(data.offset(i))` for `data: *const M::u128x1` -/
def read128 (data : List (BitVec 8)) (i : Nat) : BitVec 128 :=
  ofLeBytes 128 ((data.drop (16 * i)).take 16)

/-- `f8_impl::<M>` on the unpacked state -/
def f8impl (M : Mach) (y : X8) (data : List (BitVec 8)) : X8 :=
  let y := { y with x0 := M.xor128 y.x0 (read128 data 0) }
  let y := { y with x1 := M.xor128 y.x1 (read128 data 1) }
  let y := { y with x2 := M.xor128 y.x2 (read128 data 2) }
  let y := { y with x3 := M.xor128 y.x3 (read128 data 3) }
  let y := rounds M y
  let y := { y with x4 := M.xor128 y.x4 (read128 data 0) }
  let y := { y with x5 := M.xor128 y.x5 (read128 data 1) }
  let y := { y with x6 := M.xor128 y.x6 (read128 data 2) }
  let y := { y with x7 := M.xor128 y.x7 (read128 data 3) }
  y

/-- `struct Compressor { cv: [vec128_storage; 8] }` -/
structure Compressor where
  cv : X8
  deriving DecidableEq

/-- `Compressor::new(bytes: [u8; 128])` = `transmute!(bytes)` -/
def Compressor.new (bytes : List (BitVec 8)) : Compressor :=
  { cv := { x0 := read128 bytes 0, x1 := read128 bytes 1, x2 := read128 bytes 2, x3 := read128 bytes 3,
            x4 := read128 bytes 4, x5 := read128 bytes 5, x6 := read128 bytes 6, x7 := read128 bytes 7 } }

/-- `Compressor::input` -/
def Compressor.input (M : Mach) (c : Compressor) (data : List (BitVec 8)) : Compressor :=
  { cv := f8impl M c.cv data }

/-- `Compressor::finalize` = `transmute!(self.cv)` -/
def Compressor.finalize (c : Compressor) : List (BitVec 8) :=
  toLeBytes c.cv.x0 16 ++ toLeBytes c.cv.x1 16 ++ toLeBytes c.cv.x2 16 ++ toLeBytes c.cv.x3 16 ++
  toLeBytes c.cv.x4 16 ++ toLeBytes c.cv.x5 16 ++ toLeBytes c.cv.x6 16 ++ toLeBytes c.cv.x7 16

/-- the compression function on byte strings: `Compressor::new(cv).input(blk).finalize()` -/
def f8 (M : Mach) (cv blk : List (BitVec 8)) : List (BitVec 8) :=
  ((Compressor.new cv).input M blk).finalize

/-! ## lib.rs — `define_hasher!` -/

structure Hasher where
  /-- digest size in bits (224/256/384/512): selects `$init` and `$OutputBytes` -/
  n : Nat
  state : Compressor
  buffer : BB
  /-- `datalen: usize` (64-bit target) -/
  datalen : Nat

/-- `Default::default()` -/
def Hasher.new (n : Nat) : Hasher :=
  { n := n, state := Compressor.new (h0Bytes n), buffer := BB.init 64, datalen := 0 }

/-- `Reset::reset`: `*self = Self::default()` -/
def Hasher.reset (h : Hasher) : Hasher := Hasher.new h.n

/-- `Update::update` -/
def Hasher.update (M : Mach) (p : Profile) (h : Hasher) (data : List (BitVec 8)) : Out Hasher :=
  -- self.datalen += data.len();
  let s := h.datalen + data.length
  if p = .debug ∧ s ≥ 2 ^ 64 then .panic "attempt to add with overflow (datalen)" else
  let datalen := s % 2 ^ 64
  -- self.buffer.input_block(data, |b| state.input(b))
  let r := inputBlock 64 h.buffer data (fun st b => Compressor.input M st b) h.state
  .ok { h with state := r.2, buffer := r.1, datalen := datalen }

/-- `FixedOutputDirty::finalize_into_dirty` -/
def Hasher.finalizeDirty (M : Mach) (p : Profile) (h : Hasher) : Out (Hasher × List (BitVec 8)) :=
  -- let len = self.datalen as u64 * 8;
  if p = .debug ∧ h.datalen * 8 ≥ 2 ^ 64 then .panic "attempt to multiply with overflow (datalen * 8)" else
  let len : BitVec 64 := BitVec.ofNat 64 (h.datalen * 8)
  let f := fun (st : Compressor) (b : List (BitVec 8)) => Compressor.input M st b
  if h.buffer.pos = 0 then
    -- buffer.len64_padding_be(len, |b| state.input(b));
    let r := len64PaddingBe 64 h.buffer len f h.state
    let h := { h with state := r.2, buffer := r.1 }
    let finalized := h.state.finalize
    .ok (h, finalized.drop (128 - h.n / 8))
  else
    -- state.input(buffer.pad_with::<Iso7816>().unwrap());
    match padWithIso7816 64 h.buffer with
    | none => .panic "called `Result::unwrap()` on an `Err` value: PadError"
    | some (buf, blk) =>
      let st := f h.state blk
      -- let mut last = GenericArray::default(); last[56..].copy_from_slice(&len.to_be_bytes());
      let last := List.replicate 56 0#8 ++ toBe64 len
      let st := f st last
      let h := { h with state := st, buffer := buf }
      let finalized := h.state.finalize
      .ok (h, finalized.drop (128 - h.n / 8))

/-- `Digest::finalize(self)` (consumes the hasher) -/
def Hasher.finalize (M : Mach) (p : Profile) (h : Hasher) : Out (List (BitVec 8)) :=
  match h.finalizeDirty M p with
  | .ok r => .ok r.2
  | .err => .err
  | .panic w => .panic w

/-- `Digest::finalize_reset`: `let res = self.clone().finalize_fixed(); self.reset(); res` -/
def Hasher.finalizeReset (M : Mach) (p : Profile) (h : Hasher) : Out (Hasher × List (BitVec 8)) :=
  match h.finalize M p with
  | .ok d => .ok (h.reset, d)
  | .err => .err
  | .panic w => .panic w

/-- hook `verif_set_datalen` -/
def Hasher.setDatalen (h : Hasher) (n : Nat) : Hasher := { h with datalen := n % 2 ^ 64 }

/-- hook `verif_get_state` -/
def Hasher.getState (h : Hasher) : List (BitVec 8) × Nat := (h.state.finalize, h.datalen)

/-- one-shot digest: `new`, one `update`, `finalize` -/
def digest (M : Mach) (p : Profile) (n : Nat) (msg : List (BitVec 8)) : Out (List (BitVec 8)) :=
  match (Hasher.new n).update M p msg with
  | .ok h => h.finalize M p
  | .err => .err
  | .panic w => .panic w

end CC.JH.Model
