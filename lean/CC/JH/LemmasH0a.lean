/-
  CC.JH.LemmasH0a — layer (c) of C06, part 1: the precomputed initial values of `consts.rs`
  are the specification's `H^{(0)} = F_8(H^{(-1)}, 0)`, by kernel evaluation of the Spec.
-/
import CC.JH.Spec
import CC.JH.Model
namespace CC.JH.Lemmas
open CC CC.JH

set_option maxRecDepth 100000 in
theorem h0_224 : Spec.bytesToBits (Model.h0Bytes 224) = Spec.H0 224 := by decide +kernel

set_option maxRecDepth 100000 in
theorem h0_256 : Spec.bytesToBits (Model.h0Bytes 256) = Spec.H0 256 := by decide +kernel


/-- `Compressor::new(JH224_H0).finalize()` gives the constant back (transmute round trip). -/
theorem h0_image_224 : (Model.Compressor.new (Model.h0Bytes 224)).finalize = Model.h0Bytes 224 := by
  decide +kernel

/-- `Compressor::new(JH256_H0).finalize()` gives the constant back (transmute round trip). -/
theorem h0_image_256 : (Model.Compressor.new (Model.h0Bytes 256)).finalize = Model.h0Bytes 256 := by
  decide +kernel

end CC.JH.Lemmas
