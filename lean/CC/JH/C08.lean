/-
  CC.JH.C08 — the JH model (`CC.JH.Model.Hasher`, all four digest sizes) as an instance of the
  generic incremental hash (`CC.Buffer.OutInstance`, eager buffer).

  chaining state σ = `Compressor × BitVec 64` (`state`, `datalen: usize`); the byte counter is bumped
  per `update` call OUTSIDE the block closure — this is `pre`; its debug-build overflow panic is part
  of the chaining state (`Out σ`).  No bound on the message length is assumed.
-/
import CC.JH.Model
import CC.Buffer.OutHash
namespace CC.JH.C08
open CC CC.Simd CC.Buffer CC.JH.Model

/-- `|b| state.input(b)` -/
def cstep (M : Mach) (st : Compressor) (b : List (BitVec 8)) : Compressor := Compressor.input M st b

/-- `self.datalen += data.len()` on the chaining state. -/
def preJH (p : Profile) (cd : Compressor × BitVec 64) (xs : List (BitVec 8)) :
    Out (Compressor × BitVec 64) :=
  if p = .debug ∧ cd.2.toNat + xs.length ≥ 2 ^ 64 then .panic "attempt to add with overflow (datalen)"
  else .ok (cd.1, BitVec.ofNat 64 (cd.2.toNat + xs.length))

/-- `finalize_into_dirty` as a function of the chaining state and the live bytes only. -/
def finJH (M : Mach) (p : Profile) (n : Nat) (cd : Compressor × BitVec 64) (live : List (BitVec 8)) :
    Out (List (BitVec 8)) :=
  if p = .debug ∧ cd.2.toNat * 8 ≥ 2 ^ 64 then .panic "attempt to multiply with overflow (datalen * 8)" else
  let len : BitVec 64 := BitVec.ofNat 64 (cd.2.toNat * 8)
  let st :=
    if live.length = 0 then (fullBlocks 64 (len64Padded 64 live len)).foldl (cstep M) cd.1
    else cstep M (cstep M cd.1 (live ++ [0x80#8] ++ List.replicate (64 - (live.length + 1)) 0#8))
           (List.replicate 56 0#8 ++ toBe64 len)
  .ok (st.finalize.drop (128 - n / 8))

def H (M : Mach) (p : Profile) (n : Nat) : IncHash (Out (Compressor × BitVec 64)) (Out (List (BitVec 8))) where
  b := 64
  hb := by decide
  init := .ok (Compressor.new (h0Bytes n), 0#64)
  step := fun x blk => x >>= fun cd => .ok (cstep M cd.1 blk, cd.2)
  fin := fun x live => x >>= fun cd => finJH M p n cd live
  pre := fun x xs => x >>= fun cd => preJH p cd xs
  pre_nil := by
    intro x
    cases x with
    | ok cd =>
      show preJH p cd [] = .ok cd
      have : ¬ (p = .debug ∧ cd.2.toNat ≥ 2 ^ 64) := by
        have := cd.2.isLt; omega
      simp only [preJH, List.length_nil, Nat.add_zero, this, if_false, BitVec.ofNat_toNat,
        BitVec.setWidth_eq]
    | err => rfl
    | panic w => rfl
  pre_append := by
    intro x xs ys
    cases x with
    | ok cd =>
      show (preJH p cd xs >>= fun cd' => preJH p cd' ys) = preJH p cd (xs ++ ys)
      obtain ⟨c, d⟩ := cd
      have hd := d.isLt
      by_cases h1 : p = .debug ∧ d.toNat + xs.length ≥ 2 ^ 64
      · have h2 : p = .debug ∧ d.toNat + (xs.length + ys.length) ≥ 2 ^ 64 := ⟨h1.1, by omega⟩
        simp only [preJH, h1, List.length_append, h2, and_self, if_true]; rfl
      · simp only [preJH, h1, if_false, Out.bind_ok, List.length_append, BitVec.toNat_ofNat]
        by_cases hp : p = .debug
        · have hlt : d.toNat + xs.length < 2 ^ 64 := by
            apply Decidable.byContradiction; intro hc; exact h1 ⟨hp, by omega⟩
          rw [Nat.mod_eq_of_lt hlt, Nat.add_assoc]
        · have e : BitVec.ofNat 64 ((d.toNat + xs.length) % 2 ^ 64 + ys.length)
              = BitVec.ofNat 64 (d.toNat + (xs.length + ys.length)) := by
            apply BitVec.eq_of_toNat_eq
            simp only [BitVec.toNat_ofNat]
            omega
          simp only [hp, false_and, if_false, e]
    | err => rfl
    | panic w => rfl
  pre_step := by
    intro x blk xs
    cases x with
    | ok cd =>
      show preJH p (cstep M cd.1 blk, cd.2) xs
        = (preJH p cd xs >>= fun cd' => Out.ok (cstep M cd'.1 blk, cd'.2))
      by_cases h1 : p = .debug ∧ cd.2.toNat + xs.length ≥ 2 ^ 64
      · simp only [preJH, h1, and_self, if_true]; rfl
      · simp only [preJH, h1, if_false, Out.bind_ok]
    | err => rfl
    | panic w => rfl

/-- the Rust struct from its parts. -/
def pack (n : Nat) (cd : Compressor × BitVec 64) (bb : BB) : Hasher :=
  { n := n, state := cd.1, buffer := bb, datalen := cd.2.toNat }

theorem update_eq (M : Mach) (p : Profile) (n : Nat) (cd : Compressor × BitVec 64) (bb : BB)
    (data : List (BitVec 8)) :
    Hasher.update M p (pack n cd bb) data
      = (IncHash.update .eager (H M p n) ⟨.ok cd, bb⟩ data).st >>= fun c' =>
          .ok (pack n c' (IncHash.update .eager (H M p n) ⟨.ok cd, bb⟩ data).bb) := by
  obtain ⟨c, d⟩ := cd
  show Hasher.update M p (pack n (c, d) bb) data
    = (inputBlock 64 bb data (H M p n).step (preJH p (c, d) data)).2 >>= fun c' =>
        .ok (pack n c' (inputBlock 64 bb data (H M p n).step (preJH p (c, d) data)).1)
  by_cases h1 : p = .debug ∧ d.toNat + data.length ≥ 2 ^ 64
  · have e : preJH p (c, d) data = .panic "attempt to add with overflow (datalen)" := by
      simp only [preJH, h1, and_self, if_true]
    have hfix := Mode.input_fixed .eager 64 bb data (H M p n).step
      (.panic "attempt to add with overflow (datalen)") (fun _ => rfl)
    have hfix' : (inputBlock 64 bb data (H M p n).step
        (.panic "attempt to add with overflow (datalen)")).2
          = .panic "attempt to add with overflow (datalen)" := hfix
    rw [e, hfix']
    simp only [Hasher.update, pack, h1, and_self, if_true]
    rfl
  · have e : preJH p (c, d) data = .ok (c, BitVec.ofNat 64 (d.toNat + data.length)) := by
      simp only [preJH, h1, if_false]
    obtain ⟨s₁, s₂⟩ := inputBlock_sim (b := 64)
      (fun (a : Compressor) (a' : Out (Compressor × BitVec 64)) =>
        a' = .ok (a, BitVec.ofNat 64 (d.toNat + data.length)))
      (fun st b => Compressor.input M st b) (H M p n).step
      (by intro a a' blk h; subst h; rfl) bb data c _ rfl
    rw [e, s₂, ← s₁]
    simp only [Hasher.update, pack, h1, if_false, Out.bind_ok, BitVec.toNat_ofNat]

theorem finalizeDirty_eq (M : Mach) (p : Profile) (n : Nat) (cd : Compressor × BitVec 64) (bb : BB)
    (hwf : WF 64 bb) :
    Hasher.finalize M p (pack n cd bb) = finJH M p n cd (live bb) := by
  obtain ⟨c, d⟩ := cd
  have hl : (live bb).length = bb.pos := length_live hwf.toWFL
  unfold Hasher.finalize Hasher.finalizeDirty finJH
  by_cases h1 : p = .debug ∧ d.toNat * 8 ≥ 2 ^ 64
  · simp only [pack, h1, and_self, if_true]
  · simp only [pack, h1, if_false, hl]
    by_cases hp : bb.pos = 0
    · obtain ⟨g₁, -, -, -⟩ := len64PaddingBe_spec (b := 64) (by decide) hwf
        (BitVec.ofNat 64 (d.toNat * 8)) (fun st b => Compressor.input M st b) c
      simp only [hp, if_true, g₁]
      rfl
    · obtain ⟨g₁, -⟩ := padWithIso7816_spec hwf
      simp only [hp, if_false, g₁]
      rfl

/-- JH-`n` (`n` = 224, 256, 384, 512: any `n` — it only selects IV and truncation) as an instance. -/
def inst (M : Mach) (p : Profile) (n : Nat) :
    OutInstance .eager Hasher (Compressor × BitVec 64) (List (BitVec 8)) where
  H := H M p n
  init0 := (Compressor.new (h0Bytes n), 0#64)
  init_eq := rfl
  step_err := fun _ => rfl
  step_panic := fun _ _ => rfl
  pre_err := fun _ => rfl
  pre_panic := fun _ _ => rfl
  fin_err := fun _ => rfl
  fin_panic := fun _ _ => rfl
  start := .ok (Hasher.new n)
  update := Hasher.update M p
  finalize := Hasher.finalize M p
  reset := fun h => .ok h.reset
  finreset := fun h => Hasher.finalizeReset M p h
  pack := pack n
  start_eq := rfl
  update_eq := update_eq M p n
  finalize_eq := fun cd bb hwf => finalizeDirty_eq M p n cd bb hwf
  reset_eq := fun _ _ => rfl
  finreset_eq := by
    intro cd bb
    show Hasher.finalizeReset M p (pack n cd bb) = _
    unfold Hasher.finalizeReset
    cases Hasher.finalize M p (pack n cd bb) <;> rfl

end CC.JH.C08
