/-
  CC.JH.LemmasRound — layer (b) of C06: round refinement.

  Abstraction `absr r : X8 → 256 four-bit elements`: element `2i+p` (`p` = parity) is read MSB-first
  from bit `pos r i = rotl7^{r mod 7}(i) xor 7` of words `p, 2+p, 4+p, 6+p`.
  Theorem `round_refine`: `absr (r+1) (roundStep Mach.ref y (rc r) (r % 7)) = Spec.R8 r (absr r y)`
  for the 42 rounds, hence `rounds_refine`: the 42 model rounds are the 42 rounds of `E_8`.
-/
import CC.JH.LemmasBitslice
import CC.JH.LemmasMsg
namespace CC.JH.Lemmas
open CC CC.Simd CC.JH CC.JH.Model

/-! ## `tab` algebra -/

theorem tab_length {α} (n : Nat) (f : Nat → α) : (Spec.tab n f).length = n := by
  simp [Spec.tab]

theorem tab_map {α β} (n : Nat) (f : Nat → α) (g : α → β) :
    (Spec.tab n f).map g = Spec.tab n (fun i => g (f i)) := by
  simp [Spec.tab, List.map_map, Function.comp_def]

theorem tab_succ_front {α} (n : Nat) (f : Nat → α) :
    Spec.tab (n + 1) f = f 0 :: Spec.tab n (fun i => f (i + 1)) := by
  simp [Spec.tab, List.range_succ_eq_map, List.map_map, Function.comp_def]

theorem tab_zipWith {α β γ} (n : Nat) (a : Nat → α) (b : Nat → β) (f : α → β → γ) :
    List.zipWith f (Spec.tab n a) (Spec.tab n b) = Spec.tab n (fun i => f (a i) (b i)) := by
  simp [Spec.tab, List.zipWith_map, List.zipWith_self]

/-! ## the permutation `P_8` on indices -/

/-- 7-bit left rotation by `r mod 7` -/
def rotl7 (i r : Nat) : Nat := ((i <<< (r % 7)) ||| (i >>> (7 - r % 7))) % 128

/-- `P_8(w)_j = w_{p8idx j}`: element `2i+p` comes from element `2·(rotl7(i) xor p) + p`. -/
def p8idx (j : Nat) : Nat := 2 * (rotl7 (j / 2) 1 ^^^ (j % 2)) + j % 2

theorem pi_map {α β} (f : α → β) : ∀ l : List α, Spec.pi (l.map f) = (Spec.pi l).map f
  | a :: b :: c :: d :: rest => by simp [Spec.pi, pi_map f rest]
  | [] => rfl
  | [_] => rfl
  | [_, _] => rfl
  | [_, _, _] => rfl

theorem evens_map {α β} (f : α → β) : ∀ l : List α, Spec.evens (l.map f) = (Spec.evens l).map f
  | a :: b :: rest => by simp [Spec.evens, evens_map f rest]
  | [] => rfl
  | [_] => rfl

theorem odds_map {α β} (f : α → β) : ∀ l : List α, Spec.odds (l.map f) = (Spec.odds l).map f
  | a :: b :: rest => by simp [Spec.odds, odds_map f rest]
  | [] => rfl
  | [_] => rfl

theorem swapPairs_map {α β} (f : α → β) : ∀ l : List α, Spec.swapPairs (l.map f) = (Spec.swapPairs l).map f
  | a :: b :: rest => by simp [Spec.swapPairs, swapPairs_map f rest]
  | [] => rfl
  | [_] => rfl

theorem phi_map {α β} (f : α → β) (l : List α) : Spec.phi (l.map f) = (Spec.phi l).map f := by
  rw [Spec.phi, Spec.phi, List.length_map, ← List.map_take, ← List.map_drop, swapPairs_map,
    List.map_append]

theorem pprime_map {α β} (f : α → β) (l : List α) : Spec.pprime (l.map f) = (Spec.pprime l).map f := by
  rw [Spec.pprime, Spec.pprime, evens_map, odds_map, List.map_append]

theorem P_map {α β} (f : α → β) (l : List α) : Spec.P (l.map f) = (Spec.P l).map f := by
  rw [Spec.P, Spec.P, pi_map, pprime_map, phi_map]

theorem P_range256 : Spec.P (List.range 256) = (List.range 256).map p8idx := by decide +kernel

theorem P_tab256 {α} (f : Nat → α) : Spec.P (Spec.tab 256 f) = Spec.tab 256 (fun j => f (p8idx j)) := by
  rw [Spec.tab, P_map, P_range256, List.map_map]; rfl

/-! ## S-box and linear layers on `tab` -/

theorem subst_tab (n : Nat) (c : Nat → Bool) (g : Nat → BitVec 4) :
    Spec.subst (Spec.tab n c) (Spec.tab n g) = Spec.tab n (fun j => Spec.sbox (c j) (g j)) :=
  tab_zipWith n c g Spec.sbox

theorem lin_tab (n : Nat) : ∀ g : Nat → BitVec 4,
    Spec.lin (Spec.tab (2 * n) g) = Spec.tab (2 * n) (fun j =>
      if j % 2 = 0 then (Spec.L (g j) (g (j + 1))).1 else (Spec.L (g (j - 1)) (g j)).2) := by
  induction n with
  | zero => intro g; rfl
  | succ n ih =>
    intro g
    rw [show 2 * (n + 1) = (2 * n + 1) + 1 by omega, tab_succ_front, tab_succ_front, Spec.lin,
      ih (fun i => g (i + 1 + 1)), tab_succ_front, tab_succ_front]
    congr 2
    apply tab_congr
    intro j _
    have h2 : (j + 1 + 1) % 2 = j % 2 := by omega
    by_cases hj : j % 2 = 0
    · simp only [hj, h2, if_true]
    · simp only [hj, h2, if_false]
      have : j - 1 + 1 + 1 = j + 1 + 1 - 1 := by omega
      rw [this]

/-- one specification round on `tab 256`, pointwise -/
theorem R_tab256 (c : Nat → Bool) (g : Nat → BitVec 4) :
    Spec.R (Spec.tab 256 c) (Spec.tab 256 g) = Spec.tab 256 (fun j =>
      let m := p8idx j
      if m % 2 = 0 then (Spec.L (Spec.sbox (c m) (g m)) (Spec.sbox (c (m + 1)) (g (m + 1)))).1
      else (Spec.L (Spec.sbox (c (m - 1)) (g (m - 1))) (Spec.sbox (c m) (g m))).2) := by
  rw [Spec.R, subst_tab, show (256 : Nat) = 2 * 128 from rfl, lin_tab, ← show (256 : Nat) = 2 * 128 from rfl,
    P_tab256]

/-! ## one model round on elements -/

theorem roundStep_nib (y : X8) (k : BitVec 256) (K jj : Nat) (hjj : 2 ^ jj = K)
    (hK : K = 1 ∨ K = 2 ∨ K = 4 ∨ K = 8 ∨ K = 16 ∨ K = 32 ∨ K = 64)
    (j : Nat) (hj : j < 128) :
    nibAt (roundStep Mach.ref y k jj) 0 j =
      (Spec.L (Spec.sbox ((lo128 k).getLsbD j) (nibAt y 0 j))
              (Spec.sbox ((hi128 k).getLsbD j) (nibAt y 1 j))).1 ∧
    nibAt (roundStep Mach.ref y k jj) 1 j =
      (Spec.L (Spec.sbox ((lo128 k).getLsbD (j ^^^ K)) (nibAt y 0 (j ^^^ K)))
              (Spec.sbox ((hi128 k).getLsbD (j ^^^ K)) (nibAt y 1 (j ^^^ K)))).2 := by
  have hx : j ^^^ K < 128 := Nat.xor_lt_two_pow (n := 7) hj (by omega)
  have hsw := swapOdd_ref_nib K hK (l Mach.ref (ss Mach.ref y k)) j hj
  rw [roundStep, hjj]
  constructor
  · rw [hsw.1]
    have hl := l_ref_nib (ss Mach.ref y k) j
    have hs := ss_ref_nib y k j hj
    rw [← hs.1, ← hs.2, ← hl]
  · rw [hsw.2]
    have hl := l_ref_nib (ss Mach.ref y k) (j ^^^ K)
    have hs := ss_ref_nib y k (j ^^^ K) hx
    rw [← hs.1, ← hs.2, ← hl]

/-! ## the abstraction -/

/-- bit position holding the elements `2i`, `2i+1` after `r` rounds -/
def pos (r i : Nat) : Nat := rotl7 i r ^^^ 7

/-- the 256 four-bit elements denoted by the bit-sliced state after `r` rounds -/
def absr (r : Nat) (y : X8) : List (BitVec 4) :=
  Spec.tab 256 fun j => nibAt y (j % 2) (pos r (j / 2))

/-! ## constants: the bit-sliced table is the specification's `C_r` placed through `pos r` -/

/-- the constant bit that the model applies to element `m` in round `r` -/
def kbit (r m : Nat) : Bool :=
  (if m % 2 = 0 then lo128 (rc r) else hi128 (rc r)).getLsbD (pos r (m / 2))

/-- the 64 four-bit elements whose bits are `kbit r 0 … kbit r 255` -/
def implC (r : Nat) : List (BitVec 4) :=
  Spec.tab 64 fun t => Spec.nib4 (kbit r (4 * t)) (kbit r (4 * t + 1)) (kbit r (4 * t + 2)) (kbit r (4 * t + 3))

theorem implC_zero : implC 0 = Spec.C0 := by decide +kernel

theorem implC_step : ∀ r, r < 41 → Spec.R (List.replicate 64 false) (implC r) = implC (r + 1) := by
  decide +kernel

theorem implC_bits : ∀ r, r < 42 → Spec.cbits (implC r) = Spec.tab 256 (kbit r) := by
  decide +kernel

theorem roundConst_eq_implC : ∀ r, r < 42 → Spec.roundConst r = implC r := by
  intro r
  induction r with
  | zero => intro _; exact implC_zero.symm
  | succ r ih =>
    intro h
    rw [Spec.roundConst, ih (by omega), implC_step r (by omega)]

/-- **constants.** For each of the 42 rounds, the 256 specification constant bits `C_r^m` are the
    bits of `E8_BITSLICE_ROUNDCONSTANT[r]` at the position the abstraction assigns to element `m`. -/
theorem cbits_roundConst (r : Nat) (hr : r < 42) :
    Spec.cbits (Spec.roundConst r) = Spec.tab 256 (kbit r) := by
  rw [roundConst_eq_implC r hr, implC_bits r hr]

/-! ## round refinement -/

/-- index facts behind the closed form `pos r i = rotl7^r(i) xor 7`: one round sends pair index `i`
    to `ror7(i)` (even elements) / `ror7(i xor 1)`-style (odd elements), and `swap_{2^{r mod 7}}`
    re-aligns the odd words. -/
theorem idx_facts : ∀ r, r < 42 → ∀ i, i < 128 →
    pos (r + 1) i < 128 ∧ pos (r + 1) i = pos r (rotl7 i 1) ∧
    pos (r + 1) i ^^^ 2 ^ (r % 7) = pos r (rotl7 i 1 ^^^ 1) := by
  decide +kernel

theorem pow_swap (r : Nat) :
    2 ^ (r % 7) = 1 ∨ 2 ^ (r % 7) = 2 ∨ 2 ^ (r % 7) = 4 ∨ 2 ^ (r % 7) = 8 ∨ 2 ^ (r % 7) = 16 ∨
    2 ^ (r % 7) = 32 ∨ 2 ^ (r % 7) = 64 := by
  have h : r % 7 < 7 := Nat.mod_lt _ (by omega)
  generalize r % 7 = t at h
  have : t = 0 ∨ t = 1 ∨ t = 2 ∨ t = 3 ∨ t = 4 ∨ t = 5 ∨ t = 6 := by omega
  rcases this with rfl | rfl | rfl | rfl | rfl | rfl | rfl <;> simp

/-- **(b) round refinement.**  One iteration of the `unroll7!` body (S-boxes, `l`, `swap` on the
    odd words) is one round `R_8` of the specification under the abstraction `absr`. -/
theorem round_refine (r : Nat) (hr : r < 42) (y : X8) :
    absr (r + 1) (roundStep Mach.ref y (rc r) (r % 7)) = Spec.R8 r (absr r y) := by
  rw [Spec.R8, cbits_roundConst r hr, absr, absr, R_tab256]
  apply tab_congr
  intro j hj
  have hi : j / 2 < 128 := by omega
  obtain ⟨hpos, h0, h1⟩ := idx_facts r hr (j / 2) hi
  have hrs := roundStep_nib y (rc r) (2 ^ (r % 7)) (r % 7) rfl (pow_swap r) (pos (r + 1) (j / 2)) hpos
  simp only []
  generalize ha : rotl7 (j / 2) 1 = a at h0 h1
  rcases Nat.mod_two_eq_zero_or_one j with hp | hp
  · have hm : p8idx j = 2 * a := by simp [p8idx, hp, ha]
    have e1 : 2 * a % 2 = 0 := by omega
    have e2 : 2 * a / 2 = a := by omega
    have e3 : (2 * a + 1) % 2 = 1 := by omega
    have e4 : (2 * a + 1) / 2 = a := by omega
    rw [hm, hp, hrs.1, h0]
    simp only [e1, e2, e3, e4, if_true, kbit, Nat.one_ne_zero, if_false]
  · have hm : p8idx j = 2 * (a ^^^ 1) + 1 := by simp [p8idx, hp, ha]
    have e1 : (2 * (a ^^^ 1) + 1) % 2 = 1 := by omega
    have e2 : (2 * (a ^^^ 1) + 1) / 2 = a ^^^ 1 := by omega
    have e3 : 2 * (a ^^^ 1) + 1 - 1 = 2 * (a ^^^ 1) := by omega
    have e4 : 2 * (a ^^^ 1) % 2 = 0 := by omega
    have e5 : 2 * (a ^^^ 1) / 2 = a ^^^ 1 := by omega
    rw [hm, hp, hrs.2, h1]
    simp only [e1, e2, e3, e4, e5, if_true, kbit, Nat.one_ne_zero, if_false]

/-! ## the 42 rounds -/

/-- `for rc in ….chunks_exact(7) { unroll7!(j, …) }` is 42 consecutive rounds, round `r` using
    `rc[r]` and `swap_{2^{r mod 7}}`. -/
theorem nested_fold {σ} (F : σ → Nat → Nat → σ) (y : σ) :
    (List.range 6).foldl (fun y c => (List.range 7).foldl (fun y j => F y (7 * c + j) j) y) y =
      (List.range 42).foldl (fun y r => F y r (r % 7)) y := by
  rfl

theorem rounds_eq_foldl (M : Mach) (y : X8) :
    rounds M y = (List.range 42).foldl (fun y r => roundStep M y (rc r) (r % 7)) y :=
  nested_fold (fun y r j => roundStep M y (rc r) j) y

theorem rounds8_eq : ∀ (k r : Nat) (q : List (BitVec 4)),
    Spec.rounds8 k (q, Spec.roundConst r) =
      ((List.range' r k).foldl (fun q r => Spec.R8 r q) q, Spec.roundConst (r + k)) := by
  intro k
  induction k with
  | zero => intro r q; rfl
  | succ k ih =>
    intro r q
    rw [Spec.rounds8]
    show Spec.rounds8 k (Spec.R8 r q, Spec.roundConst (r + 1)) = _
    rw [ih (r + 1) (Spec.R8 r q), List.range'_succ, List.foldl_cons]
    congr 2
    omega

theorem rounds_refine_upto (y : X8) : ∀ k, k ≤ 42 →
    absr k ((List.range k).foldl (fun y r => roundStep Mach.ref y (rc r) (r % 7)) y) =
      (List.range k).foldl (fun q r => Spec.R8 r q) (absr 0 y) := by
  intro k
  induction k with
  | zero => intro _; rfl
  | succ k ih =>
    intro hk
    rw [List.range_succ, List.foldl_append, List.foldl_append, List.foldl_cons, List.foldl_nil,
      List.foldl_cons, List.foldl_nil, round_refine k (by omega), ih (by omega)]

theorem absr_42 (y : X8) : absr 42 y = absr 0 y := rfl

/-- **(b) `E_8` core.**  The 42 bit-sliced rounds of `f8_impl` are the 42 rounds of `E_8` on the
    elements the state denotes. -/
theorem rounds_refine (y : X8) :
    absr 0 (rounds Mach.ref y) = (Spec.rounds8 42 (absr 0 y, Spec.C0)).1 := by
  have h := rounds8_eq 42 0 (absr 0 y)
  rw [show Spec.roundConst 0 = Spec.C0 from rfl] at h
  rw [h, rounds_eq_foldl, ← absr_42, rounds_refine_upto y 42 (Nat.le_refl _), List.range_eq_range']

end CC.JH.Lemmas
