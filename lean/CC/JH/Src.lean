/-
  CC.JH.Src — SOURCE TIE for JH (property C06): every definition that tools/inventory_kernels.py
  regenerates from hashes/jh/src/{compressor.rs,consts.rs,lib.rs} into `CC.Gen.Kernels` equals the
  hand-written model definition (`CC.JH.Model`) the theorems of `CC.Thm.C06` are about.
  `ss` is translated with `state.zip()` and `X8::unzip(m)` INLINED from their translated bodies (they are
  also tied separately as `src_jh_zip` / `src_jh_unzip`).
-/
import CC.Gen.Kernels
import CC.JH.Model
import CC.Lemmas.SrcGlue
namespace CC.Src
open CC CC.Simd CC.Buffer CC.JH.Model

/-- `X8(..)` from its eight components -/
def x8Of (t : BitVec 128 × BitVec 128 × BitVec 128 × BitVec 128 × BitVec 128 × BitVec 128 × BitVec 128 × BitVec 128) :
    X8 :=
  ⟨t.1, t.2.1, t.2.2.1, t.2.2.2.1, t.2.2.2.2.1, t.2.2.2.2.2.1, t.2.2.2.2.2.2.1, t.2.2.2.2.2.2.2⟩

theorem src_jh_clean : Gen.Kernels.jh_errors = [] := rfl

theorem src_jh_zip :
    X8.zip = fun M s => Gen.Kernels.jh_zip M s.x0 s.x1 s.x2 s.x3 s.x4 s.x5 s.x6 s.x7 := rfl
theorem src_jh_unzip :
    X8.unzip = fun M m => x8Of (Gen.Kernels.jh_unzip M m.1 m.2.1 m.2.2.1 m.2.2.2) := rfl
/-- compressor.rs `ss` (two S-boxes in parallel), statement by statement -/
theorem src_jh_ss :
    ss = fun M s k => x8Of (Gen.Kernels.jh_ss M s.x0 s.x1 s.x2 s.x3 s.x4 s.x5 s.x6 s.x7 k) := rfl
/-- compressor.rs `l` (the linear layer) -/
theorem src_jh_l :
    l = fun M y => x8Of (Gen.Kernels.jh_l M y.x0 y.x1 y.x2 y.x3 y.x4 y.x5 y.x6 y.x7) := rfl

/-- `match j { 0 => swap1, …, 6 => swap64 }` of `f8_impl`: arm `j` swaps `2^j`-bit groups (`roundStep`) -/
theorem src_jh_swap_table :
    Gen.Kernels.jh_swap_table = (List.range 7).map fun j => (j, 2 ^ j) := by decide +kernel

/-- all 42 × 32 bytes of `E8_BITSLICE_ROUNDCONSTANT` -/
theorem src_jh_roundconstants : rcHex = Gen.Kernels.jh_E8_BITSLICE_ROUNDCONSTANT := by decide +kernel

theorem src_jh_H0_224 : jh224H0Hex = Gen.Kernels.jh_JH224_H0 := by decide +kernel
theorem src_jh_H0_256 : jh256H0Hex = Gen.Kernels.jh_JH256_H0 := by decide +kernel
theorem src_jh_H0_384 : jh384H0Hex = Gen.Kernels.jh_JH384_H0 := by decide +kernel
theorem src_jh_H0_512 : jh512H0Hex = Gen.Kernels.jh_JH512_H0 := by decide +kernel

/-- `define_hasher!($name, $init, $OutputBytes)`: the hasher with `8·$OutputBytes` digest bits starts from `$init` -/
theorem src_jh_define_hasher :
    Gen.Kernels.jh_define_hasher =
      [("Jh224", "JH224_H0", 224 / 8), ("Jh256", "JH256_H0", 256 / 8),
       ("Jh384", "JH384_H0", 384 / 8), ("Jh512", "JH512_H0", 512 / 8)] ∧
    h0Bytes 224 = CC.toBeBytes Gen.Kernels.jh_JH224_H0 128 ∧ h0Bytes 256 = CC.toBeBytes Gen.Kernels.jh_JH256_H0 128 ∧
    h0Bytes 384 = CC.toBeBytes Gen.Kernels.jh_JH384_H0 128 ∧ h0Bytes 512 = CC.toBeBytes Gen.Kernels.jh_JH512_H0 128 :=
  ⟨rfl, by decide +kernel, by decide +kernel, by decide +kernel, by decide +kernel⟩


/-! ## phase 3: the glue of lib.rs (`define_hasher!`), the four instantiations (tools/inventory_kernels_glue.py)

  `Default::default`, `Update::update`, `FixedOutputDirty::finalize_into_dirty`, `Reset::reset`, regenerated from the
  source on every run.  The `block_buffer::BlockBuffer` methods are named primitives mapped to `CC.Buffer`
  (`inputBlock`, `len64PaddingBe`, `padWithIso7816`); `Compressor::new` / `input` / `finalize` (compressor.rs) are
  parameters of the generated definitions, instantiated here with the model's functions.  `datalen: usize` ↦ `Nat`
  below 2^64.  Panic messages are not compared (`noMsg`). -/

/-- the fields of the Rust `Jh*` struct -/
def jhEnc (h : Hasher) : Compressor × BB × Nat := (h.state, h.buffer, h.datalen)

/-- `Compressor::new(bytes)` on the table as the translator renders it (the big-endian reading of the hex string) -/
def jhNew (t : BitVec 1024) : Compressor := Compressor.new (toBeBytes t 128)

theorem toBe64_eq' (x : BitVec 64) : toBeBytes x 8 = toBe64 x := by
  simp only [toBe64, toLe64, toBeBytes, toLeBytes, List.range, List.range.loop, List.map, List.reverse_cons,
    List.reverse_nil, List.nil_append, List.cons_append, List.cons.injEq, and_true]
  refine ⟨?_, ?_, ?_, ?_, ?_, ?_, ?_, ?_⟩ <;> bv_decide

theorem src_jh_default_224 : jhEnc (Hasher.new 224) = Gen.Kernels.jh_default_224 jhNew := by
  simp only [jhEnc, Hasher.new, Gen.Kernels.jh_default_224, jhNew, src_jh_define_hasher.2.1]

theorem src_jh_update_224 (M : Mach) (p : Profile) (h : Hasher) (data : List (BitVec 8)) :
    noMsg (Gen.Kernels.jh_update_224 (Compressor.input M) p h.state h.buffer h.datalen data)
      = noMsg (h.update M p data >>= fun h' => .ok (jhEnc h')) := by
  unfold Gen.Kernels.jh_update_224 Hasher.update Gen.Kernels.jh_update_224_closure1 Gen.Kernels.usizeAdd
  by_cases hs : h.datalen + data.length < 18446744073709551616
  · have : ¬ (h.datalen + data.length ≥ 2 ^ 64) := by omega
    simp [hs, this, jhEnc, noMsg]
  · have : h.datalen + data.length ≥ 2 ^ 64 := by omega
    cases p <;> simp [hs, this, jhEnc, noMsg, bind_panic]

theorem src_jh_finalize_into_dirty_224 (M : Mach) (p : Profile) (h : Hasher) (hn : h.n = 224) (hd : h.datalen < 2 ^ 64)
    (out : List (BitVec 8)) :
    noMsg (Gen.Kernels.jh_finalize_into_dirty_224 (Compressor.input M) Compressor.finalize p h.state h.buffer h.datalen out)
      = noMsg (h.finalizeDirty M p >>= fun r => .ok (r.1.state, r.1.buffer, r.1.datalen, r.2)) := by
  unfold Gen.Kernels.jh_finalize_into_dirty_224 Hasher.finalizeDirty Gen.Kernels.jh_finalize_into_dirty_224_closure1
  have e1 : (BitVec.ofNat 64 h.datalen).toNat = h.datalen := by
    rw [BitVec.toNat_ofNat]; exact Nat.mod_eq_of_lt hd
  have e2 : BitVec.ofNat 64 h.datalen * 8#64 = BitVec.ofNat 64 (h.datalen * 8) := by
    rw [BitVec.ofNat_mul]
  have e3 : (8#64).toNat = 8 := rfl
  have e4 : List.take 56 (List.replicate 64 (0#8 : BitVec 8)) = List.replicate 56 0#8 := by decide
  simp only [e1, e2, e3, e4, hn, toBe64_eq']
  by_cases hov : h.datalen * 8 < 2 ^ 64
  · have : ¬ (h.datalen * 8 ≥ 2 ^ 64) := by omega
    simp only [hov, this, decide_true, Bool.true_eq_false, and_false, if_false]
    by_cases hp : h.buffer.pos = 0
    · simp [hp, noMsg]
    · have hp' : (h.buffer.pos == 0) = false := by simpa using hp
      simp only [hp', hp, Bool.false_eq_true, if_false, true_and]
      cases hq : padWithIso7816 64 h.buffer with
      | none => simp [noMsg, bind_panic]
      | some bb => obtain ⟨buf, blk⟩ := bb; simp [noMsg]
  · have : h.datalen * 8 ≥ 2 ^ 64 := by omega
    cases p
    · simp [hov, this, noMsg, bind_panic]
    · simp only [reduceCtorEq, false_and, if_false]
      by_cases hp : h.buffer.pos = 0
      · simp [hp, noMsg]
      · have hp' : (h.buffer.pos == 0) = false := by simpa using hp
        simp only [hp', hp, Bool.false_eq_true, if_false, true_and]
        cases hq : padWithIso7816 64 h.buffer with
        | none => simp [noMsg, bind_panic]
        | some bb => obtain ⟨buf, blk⟩ := bb; simp [noMsg]

theorem src_jh_reset_224 (h : Hasher) (hn : h.n = 224) :
    jhEnc h.reset = Gen.Kernels.jh_reset_224 jhNew h.state h.buffer h.datalen := by
  simp only [Hasher.reset, hn, Gen.Kernels.jh_reset_224, ← src_jh_default_224]

theorem src_jh_default_256 : jhEnc (Hasher.new 256) = Gen.Kernels.jh_default_256 jhNew := by
  simp only [jhEnc, Hasher.new, Gen.Kernels.jh_default_256, jhNew, src_jh_define_hasher.2.2.1]

theorem src_jh_update_256 (M : Mach) (p : Profile) (h : Hasher) (data : List (BitVec 8)) :
    noMsg (Gen.Kernels.jh_update_256 (Compressor.input M) p h.state h.buffer h.datalen data)
      = noMsg (h.update M p data >>= fun h' => .ok (jhEnc h')) := by
  unfold Gen.Kernels.jh_update_256 Hasher.update Gen.Kernels.jh_update_256_closure1 Gen.Kernels.usizeAdd
  by_cases hs : h.datalen + data.length < 18446744073709551616
  · have : ¬ (h.datalen + data.length ≥ 2 ^ 64) := by omega
    simp [hs, this, jhEnc, noMsg]
  · have : h.datalen + data.length ≥ 2 ^ 64 := by omega
    cases p <;> simp [hs, this, jhEnc, noMsg, bind_panic]

theorem src_jh_finalize_into_dirty_256 (M : Mach) (p : Profile) (h : Hasher) (hn : h.n = 256) (hd : h.datalen < 2 ^ 64)
    (out : List (BitVec 8)) :
    noMsg (Gen.Kernels.jh_finalize_into_dirty_256 (Compressor.input M) Compressor.finalize p h.state h.buffer h.datalen out)
      = noMsg (h.finalizeDirty M p >>= fun r => .ok (r.1.state, r.1.buffer, r.1.datalen, r.2)) := by
  unfold Gen.Kernels.jh_finalize_into_dirty_256 Hasher.finalizeDirty Gen.Kernels.jh_finalize_into_dirty_256_closure1
  have e1 : (BitVec.ofNat 64 h.datalen).toNat = h.datalen := by
    rw [BitVec.toNat_ofNat]; exact Nat.mod_eq_of_lt hd
  have e2 : BitVec.ofNat 64 h.datalen * 8#64 = BitVec.ofNat 64 (h.datalen * 8) := by
    rw [BitVec.ofNat_mul]
  have e3 : (8#64).toNat = 8 := rfl
  have e4 : List.take 56 (List.replicate 64 (0#8 : BitVec 8)) = List.replicate 56 0#8 := by decide
  simp only [e1, e2, e3, e4, hn, toBe64_eq']
  by_cases hov : h.datalen * 8 < 2 ^ 64
  · have : ¬ (h.datalen * 8 ≥ 2 ^ 64) := by omega
    simp only [hov, this, decide_true, Bool.true_eq_false, and_false, if_false]
    by_cases hp : h.buffer.pos = 0
    · simp [hp, noMsg]
    · have hp' : (h.buffer.pos == 0) = false := by simpa using hp
      simp only [hp', hp, Bool.false_eq_true, if_false, true_and]
      cases hq : padWithIso7816 64 h.buffer with
      | none => simp [noMsg, bind_panic]
      | some bb => obtain ⟨buf, blk⟩ := bb; simp [noMsg]
  · have : h.datalen * 8 ≥ 2 ^ 64 := by omega
    cases p
    · simp [hov, this, noMsg, bind_panic]
    · simp only [reduceCtorEq, false_and, if_false]
      by_cases hp : h.buffer.pos = 0
      · simp [hp, noMsg]
      · have hp' : (h.buffer.pos == 0) = false := by simpa using hp
        simp only [hp', hp, Bool.false_eq_true, if_false, true_and]
        cases hq : padWithIso7816 64 h.buffer with
        | none => simp [noMsg, bind_panic]
        | some bb => obtain ⟨buf, blk⟩ := bb; simp [noMsg]

theorem src_jh_reset_256 (h : Hasher) (hn : h.n = 256) :
    jhEnc h.reset = Gen.Kernels.jh_reset_256 jhNew h.state h.buffer h.datalen := by
  simp only [Hasher.reset, hn, Gen.Kernels.jh_reset_256, ← src_jh_default_256]

theorem src_jh_default_384 : jhEnc (Hasher.new 384) = Gen.Kernels.jh_default_384 jhNew := by
  simp only [jhEnc, Hasher.new, Gen.Kernels.jh_default_384, jhNew, src_jh_define_hasher.2.2.2.1]

theorem src_jh_update_384 (M : Mach) (p : Profile) (h : Hasher) (data : List (BitVec 8)) :
    noMsg (Gen.Kernels.jh_update_384 (Compressor.input M) p h.state h.buffer h.datalen data)
      = noMsg (h.update M p data >>= fun h' => .ok (jhEnc h')) := by
  unfold Gen.Kernels.jh_update_384 Hasher.update Gen.Kernels.jh_update_384_closure1 Gen.Kernels.usizeAdd
  by_cases hs : h.datalen + data.length < 18446744073709551616
  · have : ¬ (h.datalen + data.length ≥ 2 ^ 64) := by omega
    simp [hs, this, jhEnc, noMsg]
  · have : h.datalen + data.length ≥ 2 ^ 64 := by omega
    cases p <;> simp [hs, this, jhEnc, noMsg, bind_panic]

theorem src_jh_finalize_into_dirty_384 (M : Mach) (p : Profile) (h : Hasher) (hn : h.n = 384) (hd : h.datalen < 2 ^ 64)
    (out : List (BitVec 8)) :
    noMsg (Gen.Kernels.jh_finalize_into_dirty_384 (Compressor.input M) Compressor.finalize p h.state h.buffer h.datalen out)
      = noMsg (h.finalizeDirty M p >>= fun r => .ok (r.1.state, r.1.buffer, r.1.datalen, r.2)) := by
  unfold Gen.Kernels.jh_finalize_into_dirty_384 Hasher.finalizeDirty Gen.Kernels.jh_finalize_into_dirty_384_closure1
  have e1 : (BitVec.ofNat 64 h.datalen).toNat = h.datalen := by
    rw [BitVec.toNat_ofNat]; exact Nat.mod_eq_of_lt hd
  have e2 : BitVec.ofNat 64 h.datalen * 8#64 = BitVec.ofNat 64 (h.datalen * 8) := by
    rw [BitVec.ofNat_mul]
  have e3 : (8#64).toNat = 8 := rfl
  have e4 : List.take 56 (List.replicate 64 (0#8 : BitVec 8)) = List.replicate 56 0#8 := by decide
  simp only [e1, e2, e3, e4, hn, toBe64_eq']
  by_cases hov : h.datalen * 8 < 2 ^ 64
  · have : ¬ (h.datalen * 8 ≥ 2 ^ 64) := by omega
    simp only [hov, this, decide_true, Bool.true_eq_false, and_false, if_false]
    by_cases hp : h.buffer.pos = 0
    · simp [hp, noMsg]
    · have hp' : (h.buffer.pos == 0) = false := by simpa using hp
      simp only [hp', hp, Bool.false_eq_true, if_false, true_and]
      cases hq : padWithIso7816 64 h.buffer with
      | none => simp [noMsg, bind_panic]
      | some bb => obtain ⟨buf, blk⟩ := bb; simp [noMsg]
  · have : h.datalen * 8 ≥ 2 ^ 64 := by omega
    cases p
    · simp [hov, this, noMsg, bind_panic]
    · simp only [reduceCtorEq, false_and, if_false]
      by_cases hp : h.buffer.pos = 0
      · simp [hp, noMsg]
      · have hp' : (h.buffer.pos == 0) = false := by simpa using hp
        simp only [hp', hp, Bool.false_eq_true, if_false, true_and]
        cases hq : padWithIso7816 64 h.buffer with
        | none => simp [noMsg, bind_panic]
        | some bb => obtain ⟨buf, blk⟩ := bb; simp [noMsg]

theorem src_jh_reset_384 (h : Hasher) (hn : h.n = 384) :
    jhEnc h.reset = Gen.Kernels.jh_reset_384 jhNew h.state h.buffer h.datalen := by
  simp only [Hasher.reset, hn, Gen.Kernels.jh_reset_384, ← src_jh_default_384]

theorem src_jh_default_512 : jhEnc (Hasher.new 512) = Gen.Kernels.jh_default_512 jhNew := by
  simp only [jhEnc, Hasher.new, Gen.Kernels.jh_default_512, jhNew, src_jh_define_hasher.2.2.2.2]

theorem src_jh_update_512 (M : Mach) (p : Profile) (h : Hasher) (data : List (BitVec 8)) :
    noMsg (Gen.Kernels.jh_update_512 (Compressor.input M) p h.state h.buffer h.datalen data)
      = noMsg (h.update M p data >>= fun h' => .ok (jhEnc h')) := by
  unfold Gen.Kernels.jh_update_512 Hasher.update Gen.Kernels.jh_update_512_closure1 Gen.Kernels.usizeAdd
  by_cases hs : h.datalen + data.length < 18446744073709551616
  · have : ¬ (h.datalen + data.length ≥ 2 ^ 64) := by omega
    simp [hs, this, jhEnc, noMsg]
  · have : h.datalen + data.length ≥ 2 ^ 64 := by omega
    cases p <;> simp [hs, this, jhEnc, noMsg, bind_panic]

theorem src_jh_finalize_into_dirty_512 (M : Mach) (p : Profile) (h : Hasher) (hn : h.n = 512) (hd : h.datalen < 2 ^ 64)
    (out : List (BitVec 8)) :
    noMsg (Gen.Kernels.jh_finalize_into_dirty_512 (Compressor.input M) Compressor.finalize p h.state h.buffer h.datalen out)
      = noMsg (h.finalizeDirty M p >>= fun r => .ok (r.1.state, r.1.buffer, r.1.datalen, r.2)) := by
  unfold Gen.Kernels.jh_finalize_into_dirty_512 Hasher.finalizeDirty Gen.Kernels.jh_finalize_into_dirty_512_closure1
  have e1 : (BitVec.ofNat 64 h.datalen).toNat = h.datalen := by
    rw [BitVec.toNat_ofNat]; exact Nat.mod_eq_of_lt hd
  have e2 : BitVec.ofNat 64 h.datalen * 8#64 = BitVec.ofNat 64 (h.datalen * 8) := by
    rw [BitVec.ofNat_mul]
  have e3 : (8#64).toNat = 8 := rfl
  have e4 : List.take 56 (List.replicate 64 (0#8 : BitVec 8)) = List.replicate 56 0#8 := by decide
  simp only [e1, e2, e3, e4, hn, toBe64_eq']
  by_cases hov : h.datalen * 8 < 2 ^ 64
  · have : ¬ (h.datalen * 8 ≥ 2 ^ 64) := by omega
    simp only [hov, this, decide_true, Bool.true_eq_false, and_false, if_false]
    by_cases hp : h.buffer.pos = 0
    · simp [hp, noMsg]
    · have hp' : (h.buffer.pos == 0) = false := by simpa using hp
      simp only [hp', hp, Bool.false_eq_true, if_false, true_and]
      cases hq : padWithIso7816 64 h.buffer with
      | none => simp [noMsg, bind_panic]
      | some bb => obtain ⟨buf, blk⟩ := bb; simp [noMsg]
  · have : h.datalen * 8 ≥ 2 ^ 64 := by omega
    cases p
    · simp [hov, this, noMsg, bind_panic]
    · simp only [reduceCtorEq, false_and, if_false]
      by_cases hp : h.buffer.pos = 0
      · simp [hp, noMsg]
      · have hp' : (h.buffer.pos == 0) = false := by simpa using hp
        simp only [hp', hp, Bool.false_eq_true, if_false, true_and]
        cases hq : padWithIso7816 64 h.buffer with
        | none => simp [noMsg, bind_panic]
        | some bb => obtain ⟨buf, blk⟩ := bb; simp [noMsg]

theorem src_jh_reset_512 (h : Hasher) (hn : h.n = 512) :
    jhEnc h.reset = Gen.Kernels.jh_reset_512 jhNew h.state h.buffer h.datalen := by
  simp only [Hasher.reset, hn, Gen.Kernels.jh_reset_512, ← src_jh_default_512]

/-- the hasher structs (model `Hasher`: state, buffer, datalen; `n` is the type) and `Compressor` (model `Compressor`: cv):
    `Clone` is derived (field-wise copy), `Default` is the hand-written impl translated above -/
theorem src_jh_structs :
    Gen.Kernels.jh_structs =
      [("Jh224", "struct", ["state", "buffer", "datalen"], ["Clone"], ["Default"]),
       ("Jh256", "struct", ["state", "buffer", "datalen"], ["Clone"], ["Default"]),
       ("Jh384", "struct", ["state", "buffer", "datalen"], ["Clone"], ["Default"]),
       ("Jh512", "struct", ["state", "buffer", "datalen"], ["Clone"], ["Default"]),
       ("Compressor", "struct", ["cv"], ["Clone", "Copy"], [])] := rfl

end CC.Src
