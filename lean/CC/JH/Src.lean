/-
  CC.JH.Src — SOURCE TIE for JH (property C06): every definition that tools/inventory_kernels.py
  regenerates from hashes/jh/src/{compressor.rs,consts.rs,lib.rs} into `CC.Gen.Kernels` equals the
  hand-written model definition (`CC.JH.Model`) the theorems of `CC.Thm.C06` are about.
  `ss` is translated with `state.zip()` and `X8::unzip(m)` INLINED from their translated bodies (they are
  also tied separately as `src_jh_zip` / `src_jh_unzip`).
-/
import CC.Gen.Kernels
import CC.JH.Model
namespace CC.Src
open CC.Simd CC.JH.Model

/-- `X8(..)` from its eight components -/
def x8Of (t : BitVec 128 × BitVec 128 × BitVec 128 × BitVec 128 × BitVec 128 × BitVec 128 × BitVec 128 × BitVec 128) :
    X8 :=
  ⟨t.1, t.2.1, t.2.2.1, t.2.2.2.1, t.2.2.2.2.1, t.2.2.2.2.2.1, t.2.2.2.2.2.2.1, t.2.2.2.2.2.2.2⟩

theorem src_jh_clean : Gen.Kernels.jh_errors = [] := rfl

theorem src_jh_zip :
    X8.zip = fun M s => Gen.Kernels.jh_zip M s.x0 s.x1 s.x2 s.x3 s.x4 s.x5 s.x6 s.x7 := rfl
theorem src_jh_unzip :
    X8.unzip = fun M m => x8Of (Gen.Kernels.jh_unzip M m.1 m.2.1 m.2.2.1 m.2.2.2) := rfl
/-- compressor.rs `ss` (two S-boxes in parallel), statement by statement -/
theorem src_jh_ss :
    ss = fun M s k => x8Of (Gen.Kernels.jh_ss M s.x0 s.x1 s.x2 s.x3 s.x4 s.x5 s.x6 s.x7 k) := rfl
/-- compressor.rs `l` (the linear layer) -/
theorem src_jh_l :
    l = fun M y => x8Of (Gen.Kernels.jh_l M y.x0 y.x1 y.x2 y.x3 y.x4 y.x5 y.x6 y.x7) := rfl

/-- `match j { 0 => swap1, …, 6 => swap64 }` of `f8_impl`: arm `j` swaps `2^j`-bit groups (`roundStep`) -/
theorem src_jh_swap_table :
    Gen.Kernels.jh_swap_table = (List.range 7).map fun j => (j, 2 ^ j) := by decide +kernel

/-- all 42 × 32 bytes of `E8_BITSLICE_ROUNDCONSTANT` -/
theorem src_jh_roundconstants : rcHex = Gen.Kernels.jh_E8_BITSLICE_ROUNDCONSTANT := by decide +kernel

theorem src_jh_H0_224 : jh224H0Hex = Gen.Kernels.jh_JH224_H0 := by decide +kernel
theorem src_jh_H0_256 : jh256H0Hex = Gen.Kernels.jh_JH256_H0 := by decide +kernel
theorem src_jh_H0_384 : jh384H0Hex = Gen.Kernels.jh_JH384_H0 := by decide +kernel
theorem src_jh_H0_512 : jh512H0Hex = Gen.Kernels.jh_JH512_H0 := by decide +kernel

/-- `define_hasher!($name, $init, $OutputBytes)`: the hasher with `8·$OutputBytes` digest bits starts from `$init` -/
theorem src_jh_define_hasher :
    Gen.Kernels.jh_define_hasher =
      [("Jh224", "JH224_H0", 224 / 8), ("Jh256", "JH256_H0", 256 / 8),
       ("Jh384", "JH384_H0", 384 / 8), ("Jh512", "JH512_H0", 512 / 8)] ∧
    h0Bytes 224 = CC.toBeBytes Gen.Kernels.jh_JH224_H0 128 ∧ h0Bytes 256 = CC.toBeBytes Gen.Kernels.jh_JH256_H0 128 ∧
    h0Bytes 384 = CC.toBeBytes Gen.Kernels.jh_JH384_H0 128 ∧ h0Bytes 512 = CC.toBeBytes Gen.Kernels.jh_JH512_H0 128 :=
  ⟨rfl, by decide +kernel, by decide +kernel, by decide +kernel, by decide +kernel⟩

end CC.Src
