/-
  CC.JH.LemmasGroup — layer (b), bookkeeping: grouping / de-grouping of the specification vs the
  little-endian word loads of the implementation, the message xor before/after, and the resulting
  theorem `hF8 : HF8` (the model's compression function on the reference machine is `F_8`).
-/
import CC.JH.LemmasRound
namespace CC.JH.Lemmas
open CC CC.Simd CC.JH CC.JH.Model

/-! ## the bits of a 128-bit word as stored (little-endian bytes, each byte MSB first) -/

def wbits (x : BitVec 128) : List Bool := Spec.bytesToBits (toLeBytes x 16)

theorem range16 : List.range 16 = [0, 1, 2, 3, 4, 5, 6, 7, 8, 9, 10, 11, 12, 13, 14, 15] := by decide

theorem range128 : List.range 128 = (List.range 64) ++ (List.range 64).map (64 + ·) := by decide

/-- stored bit `t` of a word is its bit `t xor 7` -/
theorem wbits_tab (x : BitVec 128) : wbits x = Spec.tab 128 (fun t => x.getLsbD (t ^^^ 7)) := by
  simp [wbits, Spec.tab, range128, range64, toLeBytes, range16, Spec.bytesToBits, Spec.byteBits]

theorem wbits_length (x : BitVec 128) : (wbits x).length = 128 := by
  rw [wbits_tab, tab_length]

theorem wbits_xor (x m : BitVec 128) : wbits (x ^^^ m) = Spec.xorBits (wbits x) (wbits m) := by
  rw [wbits_tab, wbits_tab, wbits_tab, Spec.xorBits, tab_zipWith]
  apply tab_congr
  intro i _
  simp

/-- a 16-byte piece loaded little-endian and stored again -/
theorem toLe_ofLe_16 (piece : List (BitVec 8)) (h : piece.length = 16) :
    toLeBytes (ofLeBytes 128 piece) 16 = piece := by
  match piece, h with
  | [b0, b1, b2, b3, b4, b5, b6, b7, b8, b9, b10, b11, b12, b13, b14, b15], _ =>
    simp only [toLeBytes, ofLeBytes, range16, List.map, List.foldr, List.cons.injEq, and_true]
    refine ⟨?_, ?_, ?_, ?_, ?_, ?_, ?_, ?_, ?_, ?_, ?_, ?_, ?_, ?_, ?_, ?_⟩ <;> bv_decide

theorem wbits_read128 (data : List (BitVec 8)) (i : Nat) (h : 16 * i + 16 ≤ data.length) :
    wbits (read128 data i) = Spec.bytesToBits ((data.drop (16 * i)).take 16) := by
  rw [wbits, read128, toLe_ofLe_16]
  rw [List.length_take, List.length_drop]; omega

/-- the stored bits of the whole state -/
def bitsX (y : X8) : List Bool := Spec.bytesToBits (Compressor.mk y).finalize

theorem bitsX_eq (y : X8) :
    bitsX y = wbits y.x0 ++ (wbits y.x1 ++ (wbits y.x2 ++ (wbits y.x3 ++
      (wbits y.x4 ++ (wbits y.x5 ++ (wbits y.x6 ++ wbits y.x7)))))) := by
  simp only [bitsX, Compressor.finalize, bytesToBits_append, wbits, List.append_assoc]

/-! ## `evens`, `odds`, `interleave`, `zipNib` on `tab` -/

theorem evens_range256 : Spec.evens (List.range 256) = (List.range 128).map (2 * ·) := by decide +kernel
theorem odds_range256 : Spec.odds (List.range 256) = (List.range 128).map (2 * · + 1) := by decide +kernel

theorem evens_tab256 {α} (g : Nat → α) : Spec.evens (Spec.tab 256 g) = Spec.tab 128 (fun i => g (2 * i)) := by
  rw [Spec.tab, evens_map, evens_range256, List.map_map]; rfl

theorem odds_tab256 {α} (g : Nat → α) : Spec.odds (Spec.tab 256 g) = Spec.tab 128 (fun i => g (2 * i + 1)) := by
  rw [Spec.tab, odds_map, odds_range256, List.map_map]; rfl

theorem interleave_tab {α} (n : Nat) : ∀ (a b : Nat → α),
    Spec.interleave (Spec.tab n a) (Spec.tab n b) =
      Spec.tab (2 * n) (fun j => if j % 2 = 0 then a (j / 2) else b (j / 2)) := by
  induction n with
  | zero => intro a b; rfl
  | succ n ih =>
    intro a b
    rw [show 2 * (n + 1) = (2 * n + 1) + 1 by omega, tab_succ_front, tab_succ_front, tab_succ_front,
      tab_succ_front, Spec.interleave, ih]
    congr 2
    apply tab_congr
    intro j _
    have h2 : (j + 1 + 1) % 2 = j % 2 := by omega
    have h3 : (j + 1 + 1) / 2 = j / 2 + 1 := by omega
    simp only [h2, h3]

theorem zipNib_tab (n : Nat) (a b c d : Nat → Bool) :
    Spec.zipNib (Spec.tab n a) (Spec.tab n b) (Spec.tab n c) (Spec.tab n d) =
      Spec.tab n (fun i => Spec.nib4 (a i) (b i) (c i) (d i)) := by
  rw [Spec.zipNib, List.zip_eq_zipWith, List.zip_eq_zipWith, tab_zipWith, tab_zipWith, tab_zipWith]

/-! ## grouping and de-grouping of the stored state -/

theorem slice128_zero (a rest : List Bool) (ha : a.length = 128) : Spec.slice128 (a ++ rest) 0 = a := by
  rw [Spec.slice128, Nat.mul_zero, List.drop_zero, List.take_left' ha]

theorem slice128_succ (a rest : List Bool) (ha : a.length = 128) (k : Nat) :
    Spec.slice128 (a ++ rest) (k + 1) = Spec.slice128 rest k := by
  rw [Spec.slice128, Spec.slice128, Nat.mul_succ, Nat.add_comm, ← List.drop_drop, List.drop_left' ha]

theorem pos_zero : ∀ i, i < 128 → pos 0 i = i ^^^ 7 := by decide +kernel

theorem slices_bitsX (y : X8) :
    Spec.slice128 (bitsX y) 0 = wbits y.x0 ∧ Spec.slice128 (bitsX y) 1 = wbits y.x1 ∧
    Spec.slice128 (bitsX y) 2 = wbits y.x2 ∧ Spec.slice128 (bitsX y) 3 = wbits y.x3 ∧
    Spec.slice128 (bitsX y) 4 = wbits y.x4 ∧ Spec.slice128 (bitsX y) 5 = wbits y.x5 ∧
    Spec.slice128 (bitsX y) 6 = wbits y.x6 ∧ Spec.slice128 (bitsX y) 7 = wbits y.x7 := by
  have e : bitsX y = wbits y.x0 ++ (wbits y.x1 ++ (wbits y.x2 ++ (wbits y.x3 ++
      (wbits y.x4 ++ (wbits y.x5 ++ (wbits y.x6 ++ (wbits y.x7 ++ []))))))) := by
    rw [bitsX_eq, List.append_nil]
  have z := fun (x : BitVec 128) (rest : List Bool) => slice128_zero (wbits x) rest (wbits_length x)
  have s := fun (x : BitVec 128) (rest : List Bool) (k : Nat) =>
    slice128_succ (wbits x) rest (wbits_length x) k
  rw [e]
  refine ⟨z _ _, ?_, ?_, ?_, ?_, ?_, ?_, ?_⟩
  · rw [show (1 : Nat) = 0 + 1 from rfl, s, z]
  · rw [show (2 : Nat) = 0 + 1 + 1 from rfl, s, s, z]
  · rw [show (3 : Nat) = 0 + 1 + 1 + 1 from rfl, s, s, s, z]
  · rw [show (4 : Nat) = 0 + 1 + 1 + 1 + 1 from rfl, s, s, s, s, z]
  · rw [show (5 : Nat) = 0 + 1 + 1 + 1 + 1 + 1 from rfl, s, s, s, s, s, z]
  · rw [show (6 : Nat) = 0 + 1 + 1 + 1 + 1 + 1 + 1 from rfl, s, s, s, s, s, s, z]
  · rw [show (7 : Nat) = 0 + 1 + 1 + 1 + 1 + 1 + 1 + 1 from rfl, s, s, s, s, s, s, s, z]

/-- grouping the stored bits gives the elements the abstraction reads at round 0 -/
theorem group_bitsX (y : X8) : Spec.group (bitsX y) = absr 0 y := by
  obtain ⟨h0, h1, h2, h3, h4, h5, h6, h7⟩ := slices_bitsX y
  rw [Spec.group, h0, h1, h2, h3, h4, h5, h6, h7]
  simp only [wbits_tab]
  rw [zipNib_tab, zipNib_tab, interleave_tab, absr]
  apply tab_congr
  intro j hj
  rw [pos_zero (j / 2) (by omega)]
  rcases Nat.mod_two_eq_zero_or_one j with hp | hp <;> simp [hp, nibAt]

theorem nib4_bits (a b c d : Bool) :
    (Spec.nib4 a b c d).getLsbD 3 = a ∧ (Spec.nib4 a b c d).getLsbD 2 = b ∧
    (Spec.nib4 a b c d).getLsbD 1 = c ∧ (Spec.nib4 a b c d).getLsbD 0 = d := by
  revert a b c d; decide

/-- de-grouping the round-0/round-42 elements gives back the stored bits -/
theorem degroup_absr (y : X8) : Spec.degroup (absr 0 y) = bitsX y := by
  rw [Spec.degroup, absr, evens_tab256, odds_tab256, bitsX_eq]
  simp only [tab_map, wbits_tab, List.append_assoc]
  have e0 : ∀ i, 2 * i % 2 = 0 := by intro i; omega
  have e1 : ∀ i, (2 * i + 1) % 2 = 1 := by intro i; omega
  have e2 : ∀ i, 2 * i / 2 = i := by intro i; omega
  have e3 : ∀ i, (2 * i + 1) / 2 = i := by intro i; omega
  simp only [e0, e1, e2, e3, nibAt, if_true, Nat.one_ne_zero, if_false, nib4_bits]
  have p := pos_zero
  repeat' (first | (congr 1) | (apply tab_congr; intro i hi; rw [p i hi]))

/-! ## byte strings as 16-byte pieces -/

theorem flatten_blocksN {α} (c : Nat) : ∀ (k : Nat) (l : List α), l.length = c * k →
    (blocksN c k l).flatten = l := by
  intro k
  induction k with
  | zero => intro l h; simp [blocksN, List.eq_nil_of_length_eq_zero (by simpa using h)]
  | succ k ih =>
    intro l h
    rw [blocksN, List.flatten_cons, ih (l.drop c) (by rw [List.length_drop, h, Nat.mul_succ]; omega),
      List.take_append_drop]

/-- 64 bytes read as four little-endian words, stored bits -/
theorem bits_block (blk : List (BitVec 8)) (h : blk.length = 64) :
    Spec.bytesToBits blk =
      wbits (read128 blk 0) ++ (wbits (read128 blk 1) ++ (wbits (read128 blk 2) ++ wbits (read128 blk 3))) := by
  rw [wbits_read128 blk 0 (by omega), wbits_read128 blk 1 (by omega), wbits_read128 blk 2 (by omega),
    wbits_read128 blk 3 (by omega)]
  conv => lhs; rw [← flatten_blocksN 16 4 blk (by omega)]
  simp [blocksN, bytesToBits_append, List.drop_drop]

/-- 128 bytes read as eight little-endian words, stored bits -/
theorem bitsX_new (cv : List (BitVec 8)) (h : cv.length = 128) :
    bitsX (Compressor.new cv).cv = Spec.bytesToBits cv := by
  rw [bitsX_eq]
  simp only [Compressor.new]
  rw [wbits_read128 cv 0 (by omega), wbits_read128 cv 1 (by omega), wbits_read128 cv 2 (by omega),
    wbits_read128 cv 3 (by omega), wbits_read128 cv 4 (by omega), wbits_read128 cv 5 (by omega),
    wbits_read128 cv 6 (by omega), wbits_read128 cv 7 (by omega)]
  conv => rhs; rw [← flatten_blocksN 16 8 cv (by omega)]
  simp [blocksN, bytesToBits_append, List.drop_drop]

/-! ## the message xor before and after -/

/-- `y.0 ^= m0; …; y.3 ^= m3` -/
def xorIn (y : X8) (blk : List (BitVec 8)) : X8 :=
  { y with x0 := y.x0 ^^^ read128 blk 0, x1 := y.x1 ^^^ read128 blk 1,
           x2 := y.x2 ^^^ read128 blk 2, x3 := y.x3 ^^^ read128 blk 3 }

/-- `y.4 ^= m0; …; y.7 ^= m3` -/
def xorOut (y : X8) (blk : List (BitVec 8)) : X8 :=
  { y with x4 := y.x4 ^^^ read128 blk 0, x5 := y.x5 ^^^ read128 blk 1,
           x6 := y.x6 ^^^ read128 blk 2, x7 := y.x7 ^^^ read128 blk 3 }

theorem f8impl_ref (y : X8) (blk : List (BitVec 8)) :
    f8impl Mach.ref y blk = xorOut (rounds Mach.ref (xorIn y blk)) blk := rfl

theorem xorBits_append (a b c d : List Bool) (h : a.length = c.length) :
    Spec.xorBits (a ++ b) (c ++ d) = Spec.xorBits a c ++ Spec.xorBits b d := by
  rw [Spec.xorBits, List.zipWith_append h]; rfl

theorem bitsX_split (y : X8) :
    bitsX y = (wbits y.x0 ++ (wbits y.x1 ++ (wbits y.x2 ++ wbits y.x3))) ++
              (wbits y.x4 ++ (wbits y.x5 ++ (wbits y.x6 ++ wbits y.x7))) := by
  rw [bitsX_eq]; simp only [List.append_assoc]

theorem half_length (a b c d : BitVec 128) :
    (wbits a ++ (wbits b ++ (wbits c ++ wbits d))).length = 512 := by
  simp [wbits_length]

theorem bitsX_xorIn (y : X8) (blk : List (BitVec 8)) (h : blk.length = 64) :
    bitsX (xorIn y blk) =
      Spec.xorBits ((bitsX y).take 512) (Spec.bytesToBits blk) ++ (bitsX y).drop 512 := by
  rw [bitsX_split y, List.take_left' (half_length ..), List.drop_left' (half_length ..),
    bits_block blk h, bitsX_split]
  simp only [xorIn, wbits_xor]
  rw [xorBits_append _ _ _ _ (by simp [wbits_length]), xorBits_append _ _ _ _ (by simp [wbits_length]),
    xorBits_append _ _ _ _ (by simp [wbits_length])]

theorem bitsX_xorOut (y : X8) (blk : List (BitVec 8)) (h : blk.length = 64) :
    bitsX (xorOut y blk) =
      (bitsX y).take 512 ++ Spec.xorBits ((bitsX y).drop 512) (Spec.bytesToBits blk) := by
  rw [bitsX_split y, List.take_left' (half_length ..), List.drop_left' (half_length ..),
    bits_block blk h, bitsX_split]
  simp only [xorOut, wbits_xor]
  rw [xorBits_append _ _ _ _ (by simp [wbits_length]), xorBits_append _ _ _ _ (by simp [wbits_length]),
    xorBits_append _ _ _ _ (by simp [wbits_length])]

/-! ## the compression function -/

/-- **(b) complete.**  On the reference machine the model's compression function
    `Compressor::new(cv).input(blk).finalize()`, read as a bit string, is the specification's
    `F_8(cv, blk)` — for all 128-byte chaining values and all 64-byte blocks. -/
theorem hF8 : HF8 := by
  intro cv blk hcv hblk
  show bitsX (f8impl Mach.ref (Compressor.new cv).cv blk) = _
  rw [f8impl_ref, bitsX_xorOut _ _ hblk, ← degroup_absr (rounds Mach.ref _), rounds_refine,
    ← group_bitsX, bitsX_xorIn _ _ hblk, bitsX_new cv hcv]
  rfl

end CC.JH.Lemmas
