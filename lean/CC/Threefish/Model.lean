/-
  CC.Threefish.Model — implementation-shaped model of /repo/block-ciphers/threefish/src/lib.rs
  (`impl_threefish!`) and consts.rs.

  Conventions
    * arrays are lists; an index expression `a[i]` is `a.getD i 0` (every index the macro computes is
      in range for the three instantiations: `2*j+1 < n_w`, `$perm[k] < n_w`, `2*i + d/4 ≤ rounds/4`,
      `d % 8 < 8`, `j < n_w/2` — the table shapes are checked in `CC.Thm.C09.P_tables` — so no index
      panic exists to model);
    * `GenericArray<u8, $block_size>` fixes the byte length of key and block at `8·n_w`; the
      driver refuses other lengths (`bad-op`), and `readU64vLe n` reads exactly `n` words;
    * `wrapping_add/sub`, `rotate_left/right`, `^` are the `BitVec 64` operations;
    * `unroll8!`/`unroll8_rev!` exist in two shapes selected by the cargo feature `no_unroll`:
      eight literal copies of the body with `d` a constant, or `for d in 0..8` — both are modelled
      (`Shape.unrolled`, `Shape.loop`).
  Import-free (links into the driver).
-/
import CC.Prim
namespace CC.Threefish.Model

/-- `consts.rs`: `C240`. -/
def C240 : BitVec 64 := 0x1BD11BDAA9FC1A22#64

/-- `consts.rs`: `R_256`. -/
def R_256 : List (List Nat) :=
  [[14, 16], [52, 57], [23, 40], [5, 37], [25, 33], [46, 12], [58, 22], [32, 32]]
/-- `consts.rs`: `R_512`. -/
def R_512 : List (List Nat) :=
  [[46, 36, 19, 37], [33, 27, 14, 42], [17, 49, 36, 39], [44, 9, 54, 56],
   [39, 30, 34, 24], [13, 50, 10, 17], [25, 29, 39, 43], [8, 35, 56, 22]]
/-- `consts.rs`: `R_1024`. -/
def R_1024 : List (List Nat) :=
  [[24, 13, 8, 47, 8, 17, 22, 37], [38, 19, 10, 55, 49, 18, 23, 52],
   [33, 4, 51, 13, 34, 41, 59, 17], [5, 20, 48, 41, 47, 28, 16, 25],
   [41, 9, 37, 31, 12, 47, 44, 30], [16, 34, 56, 51, 4, 53, 42, 41],
   [31, 44, 47, 46, 19, 42, 44, 25], [9, 48, 35, 52, 23, 31, 37, 20]]

/-- `consts.rs`: `P_256`. -/
def P_256 : List Nat := [0, 3, 2, 1]
/-- `consts.rs`: `P_512`. -/
def P_512 : List Nat := [6, 1, 0, 7, 2, 5, 4, 3]
/-- `consts.rs`: `P_1024`. -/
def P_1024 : List Nat := [0, 15, 2, 11, 6, 13, 4, 9, 14, 1, 8, 5, 10, 3, 12, 7]

/-- The macro arguments `($rounds, $n_w, $rot, $perm)` of one `impl_threefish!` instantiation. -/
structure Params where
  rounds : Nat
  nw : Nat
  rot : List (List Nat)
  perm : List Nat

/-- `impl_threefish!(Threefish256, 72, 4, U32, R_256, P_256)` -/
def tf256 : Params := { rounds := 72, nw := 4, rot := R_256, perm := P_256 }
/-- `impl_threefish!(Threefish512, 72, 8, U64, R_512, P_512)` -/
def tf512 : Params := { rounds := 72, nw := 8, rot := R_512, perm := P_512 }
/-- `impl_threefish!(Threefish1024, 80, 16, U128, R_1024, P_1024)` -/
def tf1024 : Params := { rounds := 80, nw := 16, rot := R_1024, perm := P_1024 }

/-- `fn mix(r, x)` -/
def mix (r : Nat) (x : BitVec 64 × BitVec 64) : BitVec 64 × BitVec 64 :=
  let y0 := x.1 + x.2
  let y1 := x.2.rotateLeft r ^^^ y0
  (y0, y1)

/-- `fn inv_mix(r, y)` -/
def invMix (r : Nat) (y : BitVec 64 × BitVec 64) : BitVec 64 × BitVec 64 :=
  let x1 := (y.1 ^^^ y.2).rotateRight r
  let x0 := y.1 - x1
  (x0, x1)

/-- `read_u64v_le(&mut ns[..n], buf)`: `n` words, word `i` = `u64::from_le_bytes(buf[8i..8i+8])`. -/
def readU64vLe : Nat → List (BitVec 8) → List (BitVec 64)
  | 0, _ => []
  | n + 1, buf => read64le buf :: readU64vLe n (buf.drop 8)

/-- `write_u64v_le(buf, ns)` for `buf.len() = 8·ns.len()`. -/
def writeU64vLe (ns : List (BitVec 64)) : List (BitVec 8) := ns.flatMap toLe64

/-- `with_tweak`: the subkey table `sk : [[u64; n_w]; rounds/4 + 1]`.  The nested loop writes every
    `sk[s][i]` exactly once (base value, then at most one `wrapping_add` selected by `i`), so the
    table is the map of that per-cell computation. -/
def withTweak (p : Params) (key : List (BitVec 8)) (tweak0 tweak1 : BitVec 64) : List (List (BitVec 64)) :=
  let kw := readU64vLe p.nw key
  let k := kw ++ [kw.foldl (· ^^^ ·) C240]
  let t := [tweak0, tweak1, tweak0 ^^^ tweak1]
  (List.range (p.rounds / 4 + 1)).map fun s =>
    (List.range p.nw).map fun i =>
      let x := k.getD ((s + i) % (p.nw + 1)) 0
      if i == p.nw - 3 then x + t.getD (s % 3) 0
      else if i == p.nw - 2 then x + t.getD ((s + 1) % 3) 0
      else if i == p.nw - 1 then x + BitVec.ofNat 64 s
      else x

/-- `self.sk[s][k]` -/
def skAt (sk : List (List (BitVec 64))) (s k : Nat) : BitVec 64 := (sk.getD s []).getD k 0

/-- `$rot[d][j]` -/
def rotAt (p : Params) (d j : Nat) : Nat := (p.rot.getD d []).getD j 0

/-- The body of `unroll8!(d, {…})` in `encrypt_block`, for outer index `i` and inner `d`. -/
def encBody (p : Params) (sk : List (List (BitVec 64))) (i d : Nat) (v : List (BitVec 64)) :
    List (BitVec 64) :=
  let vTmp := v
  (List.range (p.nw / 2)).foldl (fun v j =>
    let v0 := vTmp.getD (2 * j) 0
    let v1 := vTmp.getD (2 * j + 1) 0
    let e := if d % 4 == 0 then (v0 + skAt sk (2 * i + d / 4) (2 * j), v1 + skAt sk (2 * i + d / 4) (2 * j + 1))
             else (v0, v1)
    let r := rotAt p (d % 8) j
    let f := mix r e
    let pi0 := p.perm.getD (2 * j) 0
    let pi1 := p.perm.getD (2 * j + 1) 0
    (v.set pi0 f.1).set pi1 f.2) v

/-- The body of `unroll8_rev!(d, {…})` in `decrypt_block`. -/
def decBody (p : Params) (sk : List (List (BitVec 64))) (i d : Nat) (v : List (BitVec 64)) :
    List (BitVec 64) :=
  let vTmp := v
  (List.range (p.nw / 2)).foldl (fun v j =>
    let invPi0 := p.perm.getD (2 * j) 0
    let invPi1 := p.perm.getD (2 * j + 1) 0
    let f := (vTmp.getD invPi0 0, vTmp.getD invPi1 0)
    let r := rotAt p (d % 8) j
    let e := invMix r f
    let w := if d % 4 == 0 then (e.1 - skAt sk (2 * i + d / 4) (2 * j), e.2 - skAt sk (2 * i + d / 4) (2 * j + 1))
             else e
    (v.set (2 * j) w.1).set (2 * j + 1) w.2) v

/-- Which expansion of `unroll8!` / `unroll8_rev!` is compiled. -/
inductive Shape where
  | unrolled   -- default: 8 literal copies, `const d`
  | loop       -- feature `no_unroll`: `for d in 0..8`
  deriving DecidableEq, Repr

/-- `unroll8!(d, body)` -/
def unroll8 (sh : Shape) (body : Nat → List (BitVec 64) → List (BitVec 64)) (v : List (BitVec 64)) :
    List (BitVec 64) :=
  match sh with
  | .unrolled =>
    let v := body 0 v
    let v := body 1 v
    let v := body 2 v
    let v := body 3 v
    let v := body 4 v
    let v := body 5 v
    let v := body 6 v
    let v := body 7 v
    v
  | .loop => (List.range 8).foldl (fun v d => body d v) v

/-- `unroll8_rev!(d, body)` -/
def unroll8Rev (sh : Shape) (body : Nat → List (BitVec 64) → List (BitVec 64)) (v : List (BitVec 64)) :
    List (BitVec 64) :=
  match sh with
  | .unrolled =>
    let v := body 7 v
    let v := body 6 v
    let v := body 5 v
    let v := body 4 v
    let v := body 3 v
    let v := body 2 v
    let v := body 1 v
    let v := body 0 v
    v
  | .loop => (List.range 8).reverse.foldl (fun v d => body d v) v

/-- `encrypt_block` between `read_u64v_le` and `write_u64v_le`. -/
def encWords (sh : Shape) (p : Params) (sk : List (List (BitVec 64))) (v : List (BitVec 64)) :
    List (BitVec 64) :=
  let v := (List.range (p.rounds / 8)).foldl (fun v i => unroll8 sh (encBody p sk i) v) v
  (List.range p.nw).foldl (fun v i => v.set i (v.getD i 0 + skAt sk (p.rounds / 4) i)) v

/-- `decrypt_block` between `read_u64v_le` and `write_u64v_le`. -/
def decWords (sh : Shape) (p : Params) (sk : List (List (BitVec 64))) (v : List (BitVec 64)) :
    List (BitVec 64) :=
  let v := (List.range p.nw).foldl (fun v i => v.set i (v.getD i 0 - skAt sk (p.rounds / 4) i)) v
  (List.range (p.rounds / 8)).reverse.foldl (fun v i => unroll8Rev sh (decBody p sk i) v) v

/-- `BlockEncrypt::encrypt_block` -/
def encryptBlock (sh : Shape) (p : Params) (sk : List (List (BitVec 64))) (block : List (BitVec 8)) :
    List (BitVec 8) :=
  writeU64vLe (encWords sh p sk (readU64vLe p.nw block))

/-- `BlockDecrypt::decrypt_block` -/
def decryptBlock (sh : Shape) (p : Params) (sk : List (List (BitVec 64))) (block : List (BitVec 8)) :
    List (BitVec 8) :=
  writeU64vLe (decWords sh p sk (readU64vLe p.nw block))

/-- `T::with_tweak(key, t0, t1).encrypt_block(block)` -/
def encrypt (sh : Shape) (p : Params) (key : List (BitVec 8)) (t0 t1 : BitVec 64) (block : List (BitVec 8)) :
    List (BitVec 8) :=
  encryptBlock sh p (withTweak p key t0 t1) block

/-- `T::with_tweak(key, t0, t1).decrypt_block(block)` -/
def decrypt (sh : Shape) (p : Params) (key : List (BitVec 8)) (t0 t1 : BitVec 64) (block : List (BitVec 8)) :
    List (BitVec 8) :=
  decryptBlock sh p (withTweak p key t0 t1) block

end CC.Threefish.Model
