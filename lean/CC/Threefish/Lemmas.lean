/-
  CC.Threefish.Lemmas — helper lemmas for C09 (conformance) and C10 (decryption inverts encryption).
    1. `mix` / `inv_mix` are mutually inverse for every rotation amount;
    2. the loop bodies with the round-dependent data abstracted (`encBodyG`, `decBodyG`), their
       inverse laws and `encBodyG = Spec.roundG` for the three word counts (by unfolding on a
       state of the right length);
    3. fold lemmas (inverse of a fold, 8-way regrouping of `List.range`);
    4. byte/word conversions;
    5. the three theorems on words and on bytes, for every parameter set satisfying `Good`.
-/
import CC.Threefish.Model
import CC.Threefish.Spec
import Std.Tactic.BVDecide
namespace CC.Threefish
open Model

/-! ## 1. MIX -/

theorem rotr_rotl (x : BitVec 64) (r : Nat) : (x.rotateLeft r).rotateRight r = x := by
  ext i hi
  simp only [BitVec.getElem_rotateRight, BitVec.getElem_rotateLeft]
  have : r % 64 < 64 := Nat.mod_lt _ (by decide)
  split <;> split <;> first | (congr 1; omega) | omega

theorem rotl_rotr (x : BitVec 64) (r : Nat) : (x.rotateRight r).rotateLeft r = x := by
  ext i hi
  simp only [BitVec.getElem_rotateRight, BitVec.getElem_rotateLeft]
  have : r % 64 < 64 := Nat.mod_lt _ (by decide)
  split <;> split <;> first | (congr 1; omega) | omega

/-- `inv_mix(r, mix(r, x)) = x` for every rotation amount `r` (in particular every `r < 64`). -/
theorem invMix_mix (r : Nat) (x : BitVec 64 × BitVec 64) : invMix r (mix r x) = x := by
  obtain ⟨a, b⟩ := x
  simp only [invMix, mix]
  have h : (a + b) ^^^ (b.rotateLeft r ^^^ (a + b)) = b.rotateLeft r := by
    generalize b.rotateLeft r = c; generalize a + b = d; bv_decide
  rw [h, rotr_rotl, BitVec.add_sub_cancel]

/-- `mix(r, inv_mix(r, y)) = y`. -/
theorem mix_invMix (r : Nat) (y : BitVec 64 × BitVec 64) : mix r (invMix r y) = y := by
  obtain ⟨a, b⟩ := y
  simp only [invMix, mix]
  rw [rotl_rotr, BitVec.sub_add_cancel]
  congr 1
  bv_decide

theorem invMix_mix' (r : Nat) (x : BitVec 64 × BitVec 64) : invMix r ((mix r x).1, (mix r x).2) = x :=
  invMix_mix r x
theorem mix_invMix' (r : Nat) (x : BitVec 64 × BitVec 64) : mix r ((invMix r x).1, (invMix r x).2) = x :=
  mix_invMix r x

/-! ## 2. loop bodies -/

/-- `encBody` with `d % 4 == 0`, the subkey row `sk[2*i + d/4]` and the rotation row `$rot[d % 8]` abstracted. -/
def encBodyG (nw : Nat) (perm : List Nat) (inj : Bool) (ks : List (BitVec 64)) (rot : List Nat)
    (v : List (BitVec 64)) : List (BitVec 64) :=
  (List.range (nw / 2)).foldl (fun v' j =>
    let v0 := v.getD (2 * j) 0
    let v1 := v.getD (2 * j + 1) 0
    let e := if inj then (v0 + ks.getD (2 * j) 0, v1 + ks.getD (2 * j + 1) 0) else (v0, v1)
    let f := mix (rot.getD j 0) e
    (v'.set (perm.getD (2 * j) 0) f.1).set (perm.getD (2 * j + 1) 0) f.2) v

def decBodyG (nw : Nat) (perm : List Nat) (inj : Bool) (ks : List (BitVec 64)) (rot : List Nat)
    (v : List (BitVec 64)) : List (BitVec 64) :=
  (List.range (nw / 2)).foldl (fun v' j =>
    let f := (v.getD (perm.getD (2 * j) 0) 0, v.getD (perm.getD (2 * j + 1) 0) 0)
    let e := invMix (rot.getD j 0) f
    let w := if inj then (e.1 - ks.getD (2 * j) 0, e.2 - ks.getD (2 * j + 1) 0) else e
    (v'.set (2 * j) w.1).set (2 * j + 1) w.2) v

/-- the final `for i in 0..n_w { v[i] = v[i].wrapping_add(sk[rounds/4][i]) }` -/
def finalAddG (nw : Nat) (ks : List (BitVec 64)) (v : List (BitVec 64)) : List (BitVec 64) :=
  (List.range nw).foldl (fun v i => v.set i (v.getD i 0 + ks.getD i 0)) v
def finalSubG (nw : Nat) (ks : List (BitVec 64)) (v : List (BitVec 64)) : List (BitVec 64) :=
  (List.range nw).foldl (fun v i => v.set i (v.getD i 0 - ks.getD i 0)) v

theorem encBody_eq (p : Params) (sk : List (List (BitVec 64))) (i d : Nat) (v : List (BitVec 64)) :
    encBody p sk i d v =
      encBodyG p.nw p.perm (d % 4 == 0) (sk.getD (2 * i + d / 4) []) (p.rot.getD (d % 8) []) v := rfl
theorem decBody_eq (p : Params) (sk : List (List (BitVec 64))) (i d : Nat) (v : List (BitVec 64)) :
    decBody p sk i d v =
      decBodyG p.nw p.perm (d % 4 == 0) (sk.getD (2 * i + d / 4) []) (p.rot.getD (d % 8) []) v := rfl

theorem foldl_set2_length {α β} (l : List β) (f h : β → Nat) (g k : β → α) (v : List α) :
    (l.foldl (fun v' j => (v'.set (f j) (g j)).set (h j) (k j)) v).length = v.length := by
  induction l generalizing v with
  | nil => rfl
  | cons b l ih => simp [List.foldl_cons, ih]

theorem foldl_set1_length {α β} (l : List β) (f : β → Nat) (g : List α → β → α) (v : List α) :
    (l.foldl (fun v' j => v'.set (f j) (g v' j)) v).length = v.length := by
  induction l generalizing v with
  | nil => rfl
  | cons b l ih => simp [List.foldl_cons, ih]

theorem encBodyG_length (nw perm inj ks rot) (v : List (BitVec 64)) :
    (encBodyG nw perm inj ks rot v).length = v.length := foldl_set2_length ..
theorem decBodyG_length (nw perm inj ks rot) (v : List (BitVec 64)) :
    (decBodyG nw perm inj ks rot v).length = v.length := foldl_set2_length ..
theorem finalAddG_length (nw ks) (v : List (BitVec 64)) : (finalAddG nw ks v).length = v.length :=
  foldl_set1_length _ (fun i => i) (fun v i => v.getD i 0 + ks.getD i 0) v
theorem finalSubG_length (nw ks) (v : List (BitVec 64)) : (finalSubG nw ks v).length = v.length :=
  foldl_set1_length _ (fun i => i) (fun v i => v.getD i 0 - ks.getD i 0) v

theorem len_succ {α} {n : Nat} (v : List α) (h : v.length = n + 1) : ∃ a t, v = a :: t ∧ t.length = n := by
  cases v with
  | nil => simp at h
  | cons a t => exact ⟨a, t, rfl, by simpa using h⟩

/-- What the generic proofs need from one `impl_threefish!` instantiation. -/
structure Good (p : Params) : Prop where
  dec_enc : ∀ inj ks rot (v : List (BitVec 64)), v.length = p.nw →
    decBodyG p.nw p.perm inj ks rot (encBodyG p.nw p.perm inj ks rot v) = v
  enc_dec : ∀ inj ks rot (v : List (BitVec 64)), v.length = p.nw →
    encBodyG p.nw p.perm inj ks rot (decBodyG p.nw p.perm inj ks rot v) = v
  spec : ∀ inj ks rot (v : List (BitVec 64)), v.length = p.nw →
    encBodyG p.nw p.perm inj ks rot v = Spec.roundG p.nw inj ks rot v
  finalAdd_spec : ∀ ks (v : List (BitVec 64)), v.length = p.nw →
    finalAddG p.nw ks v = (List.range p.nw).map (fun i => v.getD i 0 + ks.getD i 0)
  finalSub_finalAdd : ∀ ks (v : List (BitVec 64)), v.length = p.nw → finalSubG p.nw ks (finalAddG p.nw ks v) = v
  finalAdd_finalSub : ∀ ks (v : List (BitVec 64)), v.length = p.nw → finalAddG p.nw ks (finalSubG p.nw ks v) = v
  rounds8 : p.rounds % 8 = 0
  nr : p.rounds = Spec.Nr p.nw
  rot : p.rot = Spec.R p.nw

theorem len4 {α} (v : List α) (h0 : v.length = 4) : ∃ a0 a1 a2 a3, v = [a0, a1, a2, a3] := by
  obtain ⟨a0, v1, e0, h1⟩ := len_succ v h0
  obtain ⟨a1, v2, e1, h2⟩ := len_succ v1 h1
  obtain ⟨a2, v3, e2, h3⟩ := len_succ v2 h2
  obtain ⟨a3, v4, e3, h4⟩ := len_succ v3 h3
  have e : v4 = [] := List.eq_nil_of_length_eq_zero h4
  subst e e3 e2 e1 e0
  exact ⟨a0, a1, a2, a3, rfl⟩

theorem len8 {α} (v : List α) (h0 : v.length = 8) : ∃ a0 a1 a2 a3 a4 a5 a6 a7, v = [a0, a1, a2, a3, a4, a5, a6, a7] := by
  obtain ⟨a0, v1, e0, h1⟩ := len_succ v h0
  obtain ⟨a1, v2, e1, h2⟩ := len_succ v1 h1
  obtain ⟨a2, v3, e2, h3⟩ := len_succ v2 h2
  obtain ⟨a3, v4, e3, h4⟩ := len_succ v3 h3
  obtain ⟨a4, v5, e4, h5⟩ := len_succ v4 h4
  obtain ⟨a5, v6, e5, h6⟩ := len_succ v5 h5
  obtain ⟨a6, v7, e6, h7⟩ := len_succ v6 h6
  obtain ⟨a7, v8, e7, h8⟩ := len_succ v7 h7
  have e : v8 = [] := List.eq_nil_of_length_eq_zero h8
  subst e e7 e6 e5 e4 e3 e2 e1 e0
  exact ⟨a0, a1, a2, a3, a4, a5, a6, a7, rfl⟩

theorem len16 {α} (v : List α) (h0 : v.length = 16) : ∃ a0 a1 a2 a3 a4 a5 a6 a7 a8 a9 a10 a11 a12 a13 a14 a15, v = [a0, a1, a2, a3, a4, a5, a6, a7, a8, a9, a10, a11, a12, a13, a14, a15] := by
  obtain ⟨a0, v1, e0, h1⟩ := len_succ v h0
  obtain ⟨a1, v2, e1, h2⟩ := len_succ v1 h1
  obtain ⟨a2, v3, e2, h3⟩ := len_succ v2 h2
  obtain ⟨a3, v4, e3, h4⟩ := len_succ v3 h3
  obtain ⟨a4, v5, e4, h5⟩ := len_succ v4 h4
  obtain ⟨a5, v6, e5, h6⟩ := len_succ v5 h5
  obtain ⟨a6, v7, e6, h7⟩ := len_succ v6 h6
  obtain ⟨a7, v8, e7, h8⟩ := len_succ v7 h7
  obtain ⟨a8, v9, e8, h9⟩ := len_succ v8 h8
  obtain ⟨a9, v10, e9, h10⟩ := len_succ v9 h9
  obtain ⟨a10, v11, e10, h11⟩ := len_succ v10 h10
  obtain ⟨a11, v12, e11, h12⟩ := len_succ v11 h11
  obtain ⟨a12, v13, e12, h13⟩ := len_succ v12 h12
  obtain ⟨a13, v14, e13, h14⟩ := len_succ v13 h13
  obtain ⟨a14, v15, e14, h15⟩ := len_succ v14 h14
  obtain ⟨a15, v16, e15, h16⟩ := len_succ v15 h15
  have e : v16 = [] := List.eq_nil_of_length_eq_zero h16
  subst e e15 e14 e13 e12 e11 e10 e9 e8 e7 e6 e5 e4 e3 e2 e1 e0
  exact ⟨a0, a1, a2, a3, a4, a5, a6, a7, a8, a9, a10, a11, a12, a13, a14, a15, rfl⟩

theorem dec_enc_body4 (inj ks rot) (a0 a1 a2 a3 : BitVec 64) :
    decBodyG 4 P_256 inj ks rot (encBodyG 4 P_256 inj ks rot [a0, a1, a2, a3]) = [a0, a1, a2, a3] := by
  cases inj <;>
  simp [decBodyG, encBodyG, P_256, List.range, List.range.loop, invMix_mix', BitVec.add_sub_cancel]

theorem enc_dec_body4 (inj ks rot) (a0 a1 a2 a3 : BitVec 64) :
    encBodyG 4 P_256 inj ks rot (decBodyG 4 P_256 inj ks rot [a0, a1, a2, a3]) = [a0, a1, a2, a3] := by
  cases inj <;>
  simp [decBodyG, encBodyG, P_256, List.range, List.range.loop, mix_invMix', BitVec.sub_add_cancel]

theorem enc_spec_body4 (inj ks rot) (a0 a1 a2 a3 : BitVec 64) :
    encBodyG 4 P_256 inj ks rot [a0, a1, a2, a3] = Spec.roundG 4 inj ks rot [a0, a1, a2, a3] := by
  cases inj <;>
  simp [encBodyG, P_256, List.range, List.range.loop, Spec.roundG, Spec.π, Spec.mix, mix]

theorem finalAdd_spec4 (ks) (a0 a1 a2 a3 : BitVec 64) :
    finalAddG 4 ks [a0, a1, a2, a3] = (List.range 4).map (fun i => ([a0, a1, a2, a3] : List (BitVec 64)).getD i 0 + ks.getD i 0) := by
  simp [finalAddG, List.range, List.range.loop]

theorem finalSub_finalAdd4 (ks) (a0 a1 a2 a3 : BitVec 64) :
    finalSubG 4 ks (finalAddG 4 ks [a0, a1, a2, a3]) = [a0, a1, a2, a3] := by
  simp [finalAddG, finalSubG, List.range, List.range.loop, BitVec.add_sub_cancel]

theorem finalAdd_finalSub4 (ks) (a0 a1 a2 a3 : BitVec 64) :
    finalAddG 4 ks (finalSubG 4 ks [a0, a1, a2, a3]) = [a0, a1, a2, a3] := by
  simp [finalAddG, finalSubG, List.range, List.range.loop, BitVec.sub_add_cancel]

theorem dec_enc_body8 (inj ks rot) (a0 a1 a2 a3 a4 a5 a6 a7 : BitVec 64) :
    decBodyG 8 P_512 inj ks rot (encBodyG 8 P_512 inj ks rot [a0, a1, a2, a3, a4, a5, a6, a7]) = [a0, a1, a2, a3, a4, a5, a6, a7] := by
  cases inj <;>
  simp [decBodyG, encBodyG, P_512, List.range, List.range.loop, invMix_mix', BitVec.add_sub_cancel]

theorem enc_dec_body8 (inj ks rot) (a0 a1 a2 a3 a4 a5 a6 a7 : BitVec 64) :
    encBodyG 8 P_512 inj ks rot (decBodyG 8 P_512 inj ks rot [a0, a1, a2, a3, a4, a5, a6, a7]) = [a0, a1, a2, a3, a4, a5, a6, a7] := by
  cases inj <;>
  simp [decBodyG, encBodyG, P_512, List.range, List.range.loop, mix_invMix', BitVec.sub_add_cancel]

theorem enc_spec_body8 (inj ks rot) (a0 a1 a2 a3 a4 a5 a6 a7 : BitVec 64) :
    encBodyG 8 P_512 inj ks rot [a0, a1, a2, a3, a4, a5, a6, a7] = Spec.roundG 8 inj ks rot [a0, a1, a2, a3, a4, a5, a6, a7] := by
  cases inj <;>
  simp [encBodyG, P_512, List.range, List.range.loop, Spec.roundG, Spec.π, Spec.mix, mix]

theorem finalAdd_spec8 (ks) (a0 a1 a2 a3 a4 a5 a6 a7 : BitVec 64) :
    finalAddG 8 ks [a0, a1, a2, a3, a4, a5, a6, a7] = (List.range 8).map (fun i => ([a0, a1, a2, a3, a4, a5, a6, a7] : List (BitVec 64)).getD i 0 + ks.getD i 0) := by
  simp [finalAddG, List.range, List.range.loop]

theorem finalSub_finalAdd8 (ks) (a0 a1 a2 a3 a4 a5 a6 a7 : BitVec 64) :
    finalSubG 8 ks (finalAddG 8 ks [a0, a1, a2, a3, a4, a5, a6, a7]) = [a0, a1, a2, a3, a4, a5, a6, a7] := by
  simp [finalAddG, finalSubG, List.range, List.range.loop, BitVec.add_sub_cancel]

theorem finalAdd_finalSub8 (ks) (a0 a1 a2 a3 a4 a5 a6 a7 : BitVec 64) :
    finalAddG 8 ks (finalSubG 8 ks [a0, a1, a2, a3, a4, a5, a6, a7]) = [a0, a1, a2, a3, a4, a5, a6, a7] := by
  simp [finalAddG, finalSubG, List.range, List.range.loop, BitVec.sub_add_cancel]

theorem dec_enc_body16 (inj ks rot) (a0 a1 a2 a3 a4 a5 a6 a7 a8 a9 a10 a11 a12 a13 a14 a15 : BitVec 64) :
    decBodyG 16 P_1024 inj ks rot (encBodyG 16 P_1024 inj ks rot [a0, a1, a2, a3, a4, a5, a6, a7, a8, a9, a10, a11, a12, a13, a14, a15]) = [a0, a1, a2, a3, a4, a5, a6, a7, a8, a9, a10, a11, a12, a13, a14, a15] := by
  cases inj <;>
  simp [decBodyG, encBodyG, P_1024, List.range, List.range.loop, invMix_mix', BitVec.add_sub_cancel]

theorem enc_dec_body16 (inj ks rot) (a0 a1 a2 a3 a4 a5 a6 a7 a8 a9 a10 a11 a12 a13 a14 a15 : BitVec 64) :
    encBodyG 16 P_1024 inj ks rot (decBodyG 16 P_1024 inj ks rot [a0, a1, a2, a3, a4, a5, a6, a7, a8, a9, a10, a11, a12, a13, a14, a15]) = [a0, a1, a2, a3, a4, a5, a6, a7, a8, a9, a10, a11, a12, a13, a14, a15] := by
  cases inj <;>
  simp [decBodyG, encBodyG, P_1024, List.range, List.range.loop, mix_invMix', BitVec.sub_add_cancel]

theorem enc_spec_body16 (inj ks rot) (a0 a1 a2 a3 a4 a5 a6 a7 a8 a9 a10 a11 a12 a13 a14 a15 : BitVec 64) :
    encBodyG 16 P_1024 inj ks rot [a0, a1, a2, a3, a4, a5, a6, a7, a8, a9, a10, a11, a12, a13, a14, a15] = Spec.roundG 16 inj ks rot [a0, a1, a2, a3, a4, a5, a6, a7, a8, a9, a10, a11, a12, a13, a14, a15] := by
  cases inj <;>
  simp [encBodyG, P_1024, List.range, List.range.loop, Spec.roundG, Spec.π, Spec.mix, mix]

theorem finalAdd_spec16 (ks) (a0 a1 a2 a3 a4 a5 a6 a7 a8 a9 a10 a11 a12 a13 a14 a15 : BitVec 64) :
    finalAddG 16 ks [a0, a1, a2, a3, a4, a5, a6, a7, a8, a9, a10, a11, a12, a13, a14, a15] = (List.range 16).map (fun i => ([a0, a1, a2, a3, a4, a5, a6, a7, a8, a9, a10, a11, a12, a13, a14, a15] : List (BitVec 64)).getD i 0 + ks.getD i 0) := by
  simp [finalAddG, List.range, List.range.loop]

theorem finalSub_finalAdd16 (ks) (a0 a1 a2 a3 a4 a5 a6 a7 a8 a9 a10 a11 a12 a13 a14 a15 : BitVec 64) :
    finalSubG 16 ks (finalAddG 16 ks [a0, a1, a2, a3, a4, a5, a6, a7, a8, a9, a10, a11, a12, a13, a14, a15]) = [a0, a1, a2, a3, a4, a5, a6, a7, a8, a9, a10, a11, a12, a13, a14, a15] := by
  simp [finalAddG, finalSubG, List.range, List.range.loop, BitVec.add_sub_cancel]

theorem finalAdd_finalSub16 (ks) (a0 a1 a2 a3 a4 a5 a6 a7 a8 a9 a10 a11 a12 a13 a14 a15 : BitVec 64) :
    finalAddG 16 ks (finalSubG 16 ks [a0, a1, a2, a3, a4, a5, a6, a7, a8, a9, a10, a11, a12, a13, a14, a15]) = [a0, a1, a2, a3, a4, a5, a6, a7, a8, a9, a10, a11, a12, a13, a14, a15] := by
  simp [finalAddG, finalSubG, List.range, List.range.loop, BitVec.sub_add_cancel]

theorem good_tf256 : Good tf256 where
  dec_enc := by intro inj ks rot v hv; obtain ⟨a0, a1, a2, a3, rfl⟩ := len4 v hv; exact dec_enc_body4 ..
  enc_dec := by intro inj ks rot v hv; obtain ⟨a0, a1, a2, a3, rfl⟩ := len4 v hv; exact enc_dec_body4 ..
  spec := by intro inj ks rot v hv; obtain ⟨a0, a1, a2, a3, rfl⟩ := len4 v hv; exact enc_spec_body4 ..
  finalAdd_spec := by intro ks v hv; obtain ⟨a0, a1, a2, a3, rfl⟩ := len4 v hv; exact finalAdd_spec4 ..
  finalSub_finalAdd := by intro ks v hv; obtain ⟨a0, a1, a2, a3, rfl⟩ := len4 v hv; exact finalSub_finalAdd4 ..
  finalAdd_finalSub := by intro ks v hv; obtain ⟨a0, a1, a2, a3, rfl⟩ := len4 v hv; exact finalAdd_finalSub4 ..
  rounds8 := by decide
  nr := by decide
  rot := rfl

theorem good_tf512 : Good tf512 where
  dec_enc := by intro inj ks rot v hv; obtain ⟨a0, a1, a2, a3, a4, a5, a6, a7, rfl⟩ := len8 v hv; exact dec_enc_body8 ..
  enc_dec := by intro inj ks rot v hv; obtain ⟨a0, a1, a2, a3, a4, a5, a6, a7, rfl⟩ := len8 v hv; exact enc_dec_body8 ..
  spec := by intro inj ks rot v hv; obtain ⟨a0, a1, a2, a3, a4, a5, a6, a7, rfl⟩ := len8 v hv; exact enc_spec_body8 ..
  finalAdd_spec := by intro ks v hv; obtain ⟨a0, a1, a2, a3, a4, a5, a6, a7, rfl⟩ := len8 v hv; exact finalAdd_spec8 ..
  finalSub_finalAdd := by intro ks v hv; obtain ⟨a0, a1, a2, a3, a4, a5, a6, a7, rfl⟩ := len8 v hv; exact finalSub_finalAdd8 ..
  finalAdd_finalSub := by intro ks v hv; obtain ⟨a0, a1, a2, a3, a4, a5, a6, a7, rfl⟩ := len8 v hv; exact finalAdd_finalSub8 ..
  rounds8 := by decide
  nr := by decide
  rot := rfl

theorem good_tf1024 : Good tf1024 where
  dec_enc := by intro inj ks rot v hv; obtain ⟨a0, a1, a2, a3, a4, a5, a6, a7, a8, a9, a10, a11, a12, a13, a14, a15, rfl⟩ := len16 v hv; exact dec_enc_body16 ..
  enc_dec := by intro inj ks rot v hv; obtain ⟨a0, a1, a2, a3, a4, a5, a6, a7, a8, a9, a10, a11, a12, a13, a14, a15, rfl⟩ := len16 v hv; exact enc_dec_body16 ..
  spec := by intro inj ks rot v hv; obtain ⟨a0, a1, a2, a3, a4, a5, a6, a7, a8, a9, a10, a11, a12, a13, a14, a15, rfl⟩ := len16 v hv; exact enc_spec_body16 ..
  finalAdd_spec := by intro ks v hv; obtain ⟨a0, a1, a2, a3, a4, a5, a6, a7, a8, a9, a10, a11, a12, a13, a14, a15, rfl⟩ := len16 v hv; exact finalAdd_spec16 ..
  finalSub_finalAdd := by intro ks v hv; obtain ⟨a0, a1, a2, a3, a4, a5, a6, a7, a8, a9, a10, a11, a12, a13, a14, a15, rfl⟩ := len16 v hv; exact finalSub_finalAdd16 ..
  finalAdd_finalSub := by intro ks v hv; obtain ⟨a0, a1, a2, a3, a4, a5, a6, a7, a8, a9, a10, a11, a12, a13, a14, a15, rfl⟩ := len16 v hv; exact finalAdd_finalSub16 ..
  rounds8 := by decide
  nr := by decide
  rot := rfl

/-! ## 3. folds -/

theorem foldl_pres {α β} (P : α → Prop) (l : List β) (f : α → β → α)
    (h : ∀ a b, b ∈ l → P a → P (f a b)) (a : α) (ha : P a) : P (l.foldl f a) := by
  induction l generalizing a with
  | nil => exact ha
  | cons b l ih =>
    exact ih (fun a c hc => h a c (List.mem_cons_of_mem _ hc)) _ (h a b List.mem_cons_self ha)

theorem foldl_congr_inv {α β} (P : α → Prop) (l : List β) (f g : α → β → α)
    (h : ∀ a b, b ∈ l → P a → f a b = g a b ∧ P (f a b)) (a : α) (ha : P a) :
    l.foldl f a = l.foldl g a := by
  induction l generalizing a with
  | nil => rfl
  | cons b l ih =>
    have hb := h a b List.mem_cons_self ha
    simp only [List.foldl_cons]
    rw [← hb.1]
    exact ih (fun a c hc => h a c (List.mem_cons_of_mem _ hc)) _ hb.2

/-- undoing a fold step by step in reverse order -/
theorem foldl_inverse {α β} (P : α → Prop) (l : List β) (f g : α → β → α)
    (hP : ∀ a b, P a → P (f a b)) (hinv : ∀ a b, P a → g (f a b) b = a) (a : α) (ha : P a) :
    l.reverse.foldl g (l.foldl f a) = a := by
  induction l generalizing a with
  | nil => rfl
  | cons b l ih =>
    simp only [List.foldl_cons, List.reverse_cons, List.foldl_append, List.foldl_nil]
    rw [ih _ (hP a b ha)]
    exact hinv a b ha

theorem foldl_inverse' {α β} (P : α → Prop) (l : List β) (f g : α → β → α)
    (hP : ∀ a b, P a → P (g a b)) (hinv : ∀ a b, P a → f (g a b) b = a) (a : α) (ha : P a) :
    l.foldl f (l.reverse.foldl g a) = a := by
  have := foldl_inverse P l.reverse g f hP hinv a ha
  simpa using this

theorem range_mul8_foldl {α} (F : α → Nat → α) (n : Nat) (a : α) :
    (List.range (8 * n)).foldl F a =
      (List.range n).foldl (fun a i => (List.range 8).foldl (fun a d => F a (8 * i + d)) a) a := by
  induction n generalizing a with
  | zero => rfl
  | succ n ih =>
    rw [show 8 * (n + 1) = 8 * n + 8 by omega, List.range_add, List.foldl_append, ih,
      List.range_succ (n := n), List.foldl_append, List.foldl_map]
    rfl

/-! ## 4. bytes and words -/

theorem read64le_toLe64_append (w : BitVec 64) (rest : List (BitVec 8)) : read64le (toLe64 w ++ rest) = w := by
  simp only [read64le, toLe64, le64, List.cons_append, List.getD_cons_zero, List.getD_cons_succ]
  try bv_decide

theorem readU64vLe_write (v : List (BitVec 64)) : readU64vLe v.length (writeU64vLe v) = v := by
  induction v with
  | nil => rfl
  | cons w v ih =>
    simp only [List.length_cons, readU64vLe, writeU64vLe, List.flatMap_cons, read64le_toLe64_append]
    congr 1

theorem readU64vLe_length (n : Nat) (b : List (BitVec 8)) : (readU64vLe n b).length = n := by
  induction n generalizing b with
  | zero => rfl
  | succ n ih => simp [readU64vLe, ih]

theorem toLe64_le64 (b0 b1 b2 b3 b4 b5 b6 b7 : BitVec 8) :
    toLe64 (le64 b0 b1 b2 b3 b4 b5 b6 b7) = [b0, b1, b2, b3, b4, b5, b6, b7] := by
  simp only [toLe64, le64, List.cons.injEq, and_true]
  refine ⟨?_, ?_, ?_, ?_, ?_, ?_, ?_, ?_⟩ <;> bv_decide

theorem write_readU64vLe (n : Nat) (b : List (BitVec 8)) (h : b.length = 8 * n) :
    writeU64vLe (readU64vLe n b) = b := by
  induction n generalizing b with
  | zero =>
    have : b = [] := List.eq_nil_of_length_eq_zero (by simpa using h)
    subst this; rfl
  | succ n ih =>
    obtain ⟨b0, b1, b2, b3, b4, b5, b6, b7, rest, rfl⟩ :
        ∃ b0 b1 b2 b3 b4 b5 b6 b7 rest, b = b0 :: b1 :: b2 :: b3 :: b4 :: b5 :: b6 :: b7 :: rest := by
      match b, h with
      | b0 :: b1 :: b2 :: b3 :: b4 :: b5 :: b6 :: b7 :: rest, _ => exact ⟨_, _, _, _, _, _, _, _, _, rfl⟩
      | [], h | [_], h | [_, _], h | [_, _, _], h | [_, _, _, _], h | [_, _, _, _, _], h
      | [_, _, _, _, _, _], h | [_, _, _, _, _, _, _], h => simp at h <;> omega
    have hr : rest.length = 8 * n := by simp at h; omega
    simp only [readU64vLe, writeU64vLe, List.flatMap_cons, read64le, List.getD_cons_zero,
      List.getD_cons_succ, toLe64_le64, List.drop_succ_cons, List.drop_zero, List.cons_append, List.nil_append]
    have := ih rest hr
    simp only [writeU64vLe] at this
    rw [this]

theorem ofLeBytes_take8 (l : List (BitVec 8)) : ofLeBytes 64 (l.take 8) = read64le l := by
  rcases l with _ | ⟨b0, _ | ⟨b1, _ | ⟨b2, _ | ⟨b3, _ | ⟨b4, _ | ⟨b5, _ | ⟨b6, _ | ⟨b7, r⟩⟩⟩⟩⟩⟩⟩⟩ <;>
  simp only [ofLeBytes, read64le, le64, List.take, List.foldr, List.getD_cons_zero, List.getD_cons_succ,
    List.getD_nil] <;> bv_decide

theorem bytesToWords_eq (n : Nat) (b : List (BitVec 8)) : Spec.bytesToWords n b = readU64vLe n b := by
  induction n generalizing b with
  | zero => rfl
  | succ n ih =>
    rw [Spec.bytesToWords, List.range_succ_eq_map, List.map_cons, List.map_map, readU64vLe]
    congr 1
    · simpa using ofLeBytes_take8 b
    · rw [← ih (b.drop 8), Spec.bytesToWords]
      apply List.map_congr_left
      intro i _
      simp [List.drop_drop, Nat.mul_add, Nat.add_comm]

theorem toLeBytes8_eq (w : BitVec 64) : toLeBytes w 8 = toLe64 w := by
  simp only [toLeBytes, toLe64, List.range, List.range.loop, List.map, List.cons.injEq, and_true]
  refine ⟨?_, ?_, ?_, ?_, ?_, ?_, ?_, ?_⟩ <;> bv_decide

theorem wordsToBytes_eq (v : List (BitVec 64)) : Spec.wordsToBytes v = writeU64vLe v := by
  simp [Spec.wordsToBytes, writeU64vLe, toLeBytes8_eq]


/-! ## 5. the block functions -/

theorem unroll8_shape (sh : Shape) (body : Nat → List (BitVec 64) → List (BitVec 64)) (v : List (BitVec 64)) :
    unroll8 sh body v = (List.range 8).foldl (fun v d => body d v) v := by
  cases sh <;> rfl

theorem unroll8Rev_shape (sh : Shape) (body : Nat → List (BitVec 64) → List (BitVec 64)) (v : List (BitVec 64)) :
    unroll8Rev sh body v = (List.range 8).reverse.foldl (fun v d => body d v) v := by
  cases sh <;> rfl

theorem encWords_eq (sh : Shape) (p : Params) (sk : List (List (BitVec 64))) (v : List (BitVec 64)) :
    encWords sh p sk v = finalAddG p.nw (sk.getD (p.rounds / 4) [])
      ((List.range (p.rounds / 8)).foldl
        (fun v i => (List.range 8).foldl (fun v d => encBody p sk i d v) v) v) := by
  simp only [encWords, unroll8_shape]; rfl

theorem decWords_eq (sh : Shape) (p : Params) (sk : List (List (BitVec 64))) (v : List (BitVec 64)) :
    decWords sh p sk v = (List.range (p.rounds / 8)).reverse.foldl
        (fun v i => (List.range 8).reverse.foldl (fun v d => decBody p sk i d v) v)
        (finalSubG p.nw (sk.getD (p.rounds / 4) []) v) := by
  simp only [decWords, unroll8Rev_shape]; rfl

section
set_option linter.unusedSectionVars false
variable {p : Params} (G : Good p) (sk : List (List (BitVec 64)))
include G

theorem encBody_len (i d : Nat) (v : List (BitVec 64)) (hv : v.length = p.nw) :
    (encBody p sk i d v).length = p.nw := by rw [encBody_eq, encBodyG_length, hv]
theorem decBody_len (i d : Nat) (v : List (BitVec 64)) (hv : v.length = p.nw) :
    (decBody p sk i d v).length = p.nw := by rw [decBody_eq, decBodyG_length, hv]

theorem enc8_len (i : Nat) (v : List (BitVec 64)) (hv : v.length = p.nw) :
    ((List.range 8).foldl (fun v d => encBody p sk i d v) v).length = p.nw :=
  foldl_pres (fun v => v.length = p.nw) _ _ (fun a d _ ha => encBody_len G sk i d a ha) v hv
theorem dec8_len (i : Nat) (v : List (BitVec 64)) (hv : v.length = p.nw) :
    ((List.range 8).reverse.foldl (fun v d => decBody p sk i d v) v).length = p.nw :=
  foldl_pres (fun v => v.length = p.nw) _ _ (fun a d _ ha => decBody_len G sk i d a ha) v hv

theorem encWords_len (sh : Shape) (v : List (BitVec 64)) (hv : v.length = p.nw) :
    (encWords sh p sk v).length = p.nw := by
  rw [encWords_eq, finalAddG_length]
  exact foldl_pres (fun v => v.length = p.nw) _ _ (fun a i _ ha => enc8_len G sk i a ha) v hv
theorem decWords_len (sh : Shape) (v : List (BitVec 64)) (hv : v.length = p.nw) :
    (decWords sh p sk v).length = p.nw := by
  rw [decWords_eq]
  have hs : (finalSubG p.nw (sk.getD (p.rounds / 4) []) v).length = p.nw := by rw [finalSubG_length, hv]
  exact foldl_pres (fun v => v.length = p.nw) _ _ (fun a i _ ha => dec8_len G sk i a ha) _ hs

theorem decWords_encWords (sh : Shape) (v : List (BitVec 64)) (hv : v.length = p.nw) :
    decWords sh p sk (encWords sh p sk v) = v := by
  rw [decWords_eq, encWords_eq, G.finalSub_finalAdd]
  · refine foldl_inverse (fun v => v.length = p.nw) _ _ _ (fun a i ha => enc8_len G sk i a ha) ?_ v hv
    intro a i ha
    refine foldl_inverse (fun v => v.length = p.nw) _ _ _ (fun a d ha => encBody_len G sk i d a ha) ?_ a ha
    intro a d ha
    rw [encBody_eq, decBody_eq]; exact G.dec_enc _ _ _ a ha
  · exact foldl_pres (fun v => v.length = p.nw) _ _ (fun a i _ ha => enc8_len G sk i a ha) v hv

theorem encWords_decWords (sh : Shape) (v : List (BitVec 64)) (hv : v.length = p.nw) :
    encWords sh p sk (decWords sh p sk v) = v := by
  rw [decWords_eq, encWords_eq]
  have hs : (finalSubG p.nw (sk.getD (p.rounds / 4) []) v).length = p.nw := by rw [finalSubG_length, hv]
  rw [foldl_inverse' (fun v => v.length = p.nw) _ _ _ (fun a i ha => dec8_len G sk i a ha) ?_ _ hs]
  · exact G.finalAdd_finalSub _ v hv
  · intro a i ha
    refine foldl_inverse' (fun v => v.length = p.nw) _ _ _ (fun a d ha => decBody_len G sk i d a ha) ?_ a ha
    intro a d ha
    rw [encBody_eq, decBody_eq]; exact G.enc_dec _ _ _ a ha
end

theorem getD_map_range {α} (n : Nat) (f : Nat → α) (d : α) (s : Nat) (h : s < n) :
    ((List.range n).map f).getD s d = f s := by
  simp [List.getD_eq_getElem?_getD, h]

theorem withTweak_row (p : Params) (key : List (BitVec 8)) (t0 t1 : BitVec 64) (s : Nat) (h : s < p.rounds / 4 + 1) :
    (withTweak p key t0 t1).getD s [] =
      Spec.subkey p.nw (Spec.extKey (readU64vLe p.nw key)) (Spec.extTweak t0 t1) s := by
  rw [withTweak, getD_map_range _ _ _ _ h]
  simp only [Spec.subkey, Spec.extKey, Spec.extTweak, C240, Spec.C240, beq_iff_eq]

theorem encWords_spec {p : Params} (G : Good p) (sh : Shape) (key : List (BitVec 8)) (t0 t1 : BitVec 64)
    (v : List (BitVec 64)) (hv : v.length = p.nw) :
    encWords sh p (withTweak p key t0 t1) v = Spec.encWords p.nw (readU64vLe p.nw key) t0 t1 v := by
  have h8 := G.rounds8
  rw [encWords_eq, Spec.encWords, ← G.nr, withTweak_row p key t0 t1 _ (by omega)]
  have hfold : (List.range (p.rounds / 8)).foldl
        (fun v i => (List.range 8).foldl (fun v d => encBody p (withTweak p key t0 t1) i d v) v) v =
      (List.range p.rounds).foldl (fun v d => Spec.round p.nw (Spec.extKey (readU64vLe p.nw key))
        (Spec.extTweak t0 t1) d v) v := by
    conv => rhs; rw [show p.rounds = 8 * (p.rounds / 8) by omega, range_mul8_foldl]
    refine foldl_congr_inv (fun v => v.length = p.nw) _ _ _ ?_ v hv
    intro a i hi ha
    have hi' : i < p.rounds / 8 := List.mem_range.mp hi
    have key8 : (List.range 8).foldl (fun v d => encBody p (withTweak p key t0 t1) i d v) a =
        (List.range 8).foldl (fun v d => Spec.round p.nw (Spec.extKey (readU64vLe p.nw key))
          (Spec.extTweak t0 t1) (8 * i + d) v) a := by
      refine foldl_congr_inv (fun v => v.length = p.nw) _ _ _ ?_ a ha
      intro a d hd ha
      have hd' : d < 8 := List.mem_range.mp hd
      refine ⟨?_, encBody_len G _ i d a ha⟩
      rw [encBody_eq, G.spec _ _ _ a ha, Spec.round, withTweak_row p key t0 t1 _ (by omega), G.rot]
      rw [show (8 * i + d) % 4 = d % 4 by omega, show (8 * i + d) / 4 = 2 * i + d / 4 by omega,
        show (8 * i + d) % 8 = d % 8 by omega]
    exact ⟨key8, enc8_len G _ i a ha⟩
  rw [hfold]
  refine G.finalAdd_spec _ _ ?_
  rw [← hfold]
  exact foldl_pres (fun v => v.length = p.nw) _ _ (fun a i _ ha => enc8_len G _ i a ha) v hv

theorem encrypt_spec {p : Params} (G : Good p) (sh : Shape) (key : List (BitVec 8)) (t0 t1 : BitVec 64)
    (blk : List (BitVec 8)) : encrypt sh p key t0 t1 blk = Spec.threefish p.nw key t0 t1 blk := by
  rw [encrypt, encryptBlock, Spec.threefish, wordsToBytes_eq, bytesToWords_eq, bytesToWords_eq,
    encWords_spec G sh key t0 t1 _ (readU64vLe_length _ _)]

theorem decrypt_encrypt {p : Params} (G : Good p) (sh : Shape) (key : List (BitVec 8)) (t0 t1 : BitVec 64)
    (blk : List (BitVec 8)) (hb : blk.length = 8 * p.nw) :
    decrypt sh p key t0 t1 (encrypt sh p key t0 t1 blk) = blk := by
  simp only [decrypt, encrypt, decryptBlock, encryptBlock]
  have hl := encWords_len G (withTweak p key t0 t1) sh _ (readU64vLe_length p.nw blk)
  have := readU64vLe_write (encWords sh p (withTweak p key t0 t1) (readU64vLe p.nw blk))
  rw [hl] at this
  rw [this, decWords_encWords G _ sh _ (readU64vLe_length _ _), write_readU64vLe _ _ hb]

theorem encrypt_decrypt {p : Params} (G : Good p) (sh : Shape) (key : List (BitVec 8)) (t0 t1 : BitVec 64)
    (blk : List (BitVec 8)) (hb : blk.length = 8 * p.nw) :
    encrypt sh p key t0 t1 (decrypt sh p key t0 t1 blk) = blk := by
  simp only [decrypt, encrypt, decryptBlock, encryptBlock]
  have hl := decWords_len G (withTweak p key t0 t1) sh _ (readU64vLe_length p.nw blk)
  have := readU64vLe_write (decWords sh p (withTweak p key t0 t1) (readU64vLe p.nw blk))
  rw [hl] at this
  rw [this, encWords_decWords G _ sh _ (readU64vLe_length _ _), write_readU64vLe _ _ hb]

theorem good_of_mem {p : Params} (hp : p ∈ [tf256, tf512, tf1024]) : Good p := by
  simp only [List.mem_cons, List.not_mem_nil, or_false] at hp
  rcases hp with rfl | rfl | rfl
  · exact good_tf256
  · exact good_tf512
  · exact good_tf1024

end CC.Threefish
