/-
  CC.Threefish.Src — SOURCE TIE for Threefish (property C09; also used by C10): every definition that
  tools/inventory_kernels.py regenerates from block-ciphers/threefish/src/{lib.rs,consts.rs} into
  `CC.Gen.Kernels` equals the hand-written model definition (`CC.Threefish.Model`).
-/
import Std.Tactic.BVDecide
import CC.Gen.Kernels
import CC.Threefish.Model
namespace CC.Src
open CC.Threefish.Model

theorem src_threefish_clean : Gen.Kernels.threefish_errors = [] := rfl

/-- lib.rs `mix(r, x)` -/
theorem src_threefish_mix : mix = fun r x => Gen.Kernels.threefish_mix r x.1 x.2 := rfl
/-- lib.rs `inv_mix(r, y)` -/
theorem src_threefish_inv_mix : invMix = fun r y => Gen.Kernels.threefish_inv_mix r y.1 y.2 := rfl

theorem src_threefish_C240 : C240 = Gen.Kernels.threefish_C240 := by decide +kernel
theorem src_threefish_R_256 : R_256 = Gen.Kernels.threefish_R_256 := by decide +kernel
theorem src_threefish_R_512 : R_512 = Gen.Kernels.threefish_R_512 := by decide +kernel
theorem src_threefish_R_1024 : R_1024 = Gen.Kernels.threefish_R_1024 := by decide +kernel
theorem src_threefish_P_256 : P_256 = Gen.Kernels.threefish_P_256 := by decide +kernel
theorem src_threefish_P_512 : P_512 = Gen.Kernels.threefish_P_512 := by decide +kernel
theorem src_threefish_P_1024 : P_1024 = Gen.Kernels.threefish_P_1024 := by decide +kernel

/-- a generated constant by its Rust name -/
def tfRot : String → List (List Nat)
  | "R_256" => Gen.Kernels.threefish_R_256 | "R_512" => Gen.Kernels.threefish_R_512
  | "R_1024" => Gen.Kernels.threefish_R_1024 | _ => []
def tfPerm : String → List Nat
  | "P_256" => Gen.Kernels.threefish_P_256 | "P_512" => Gen.Kernels.threefish_P_512
  | "P_1024" => Gen.Kernels.threefish_P_1024 | _ => []

/-- `impl_threefish!($name, $rounds, $n_w, $block_size, $rot, $perm)`: the three instantiations are the model's
    `tf256`, `tf512`, `tf1024` (round count, word count, rotation table, permutation), and the block size is
    `8·$n_w` bytes -/
theorem src_threefish_instances :
    Gen.Kernels.threefish_impl_threefish.map (fun r => (r.1, (⟨r.2.1, r.2.2.1, tfRot r.2.2.2.2.1, tfPerm r.2.2.2.2.2⟩ : Params)))
      = [("Threefish256", tf256), ("Threefish512", tf512), ("Threefish1024", tf1024)] ∧
    Gen.Kernels.threefish_impl_threefish.map (fun r => r.2.2.2.1) = [8 * tf256.nw, 8 * tf512.nw, 8 * tf1024.nw] := by
  exact ⟨rfl, rfl⟩

/-! ## phase 2: the body of `impl_threefish!` — `with_tweak`, `encrypt_block`, `decrypt_block`, three instantiations,
    both shapes of `unroll8!` / `unroll8_rev!` -/

/-- `u64::from_le_bytes(s[..8])`: missing bytes read as zero on both sides -/
theorem ofLeBytes64_take8 (l : List (BitVec 8)) : ofLeBytes 64 (l.take 8) = read64le l := by
  match l with
  | [] => simp [ofLeBytes, read64le, le64]
  | [a] => simp [ofLeBytes, read64le, le64]; bv_decide
  | [a, b] => simp [ofLeBytes, read64le, le64]; bv_decide
  | [a, b, c] => simp [ofLeBytes, read64le, le64]; bv_decide
  | [a, b, c, d] => simp [ofLeBytes, read64le, le64]; bv_decide
  | [a, b, c, d, e] => simp [ofLeBytes, read64le, le64]; bv_decide
  | [a, b, c, d, e, f] => simp [ofLeBytes, read64le, le64]; bv_decide
  | [a, b, c, d, e, f, g] => simp [ofLeBytes, read64le, le64]; bv_decide
  | a :: b :: c :: d :: e :: f :: g :: h :: _ => simp [ofLeBytes, read64le, le64]; bv_decide

theorem foldl_length_inv {α β : Type} (f : List α → β → List α) (h : ∀ v x, (f v x).length = v.length) :
    ∀ (l : List β) (v : List α), (l.foldl f v).length = v.length := by
  intro l
  induction l with
  | nil => intro v; rfl
  | cons x l ih => intro v; exact (ih (f v x)).trans (h v x)

theorem encBody_length (p : Params) (sk : List (List (BitVec 64))) (i d : Nat) (v : List (BitVec 64)) :
    (encBody p sk i d v).length = v.length :=
  foldl_length_inv _ (fun _ _ => by simp) _ _

theorem decBody_length (p : Params) (sk : List (List (BitVec 64))) (i d : Nat) (v : List (BitVec 64)) :
    (decBody p sk i d v).length = v.length :=
  foldl_length_inv _ (fun _ _ => by simp) _ _

theorem unroll8_length (sh : Shape) (body : Nat → List (BitVec 64) → List (BitVec 64))
    (h : ∀ d v, (body d v).length = v.length) (v : List (BitVec 64)) : (unroll8 sh body v).length = v.length := by
  cases sh
  · simp [unroll8, h]
  · exact foldl_length_inv _ (fun v d => h d v) _ _

theorem unroll8Rev_length (sh : Shape) (body : Nat → List (BitVec 64) → List (BitVec 64))
    (h : ∀ d v, (body d v).length = v.length) (v : List (BitVec 64)) : (unroll8Rev sh body v).length = v.length := by
  cases sh
  · simp [unroll8Rev, h]
  · exact foldl_length_inv _ (fun v d => h d v) _ _

theorem encWords_length (sh : Shape) (p : Params) (sk : List (List (BitVec 64))) (v : List (BitVec 64)) :
    (encWords sh p sk v).length = v.length := by
  unfold encWords
  rw [foldl_length_inv _ (fun _ _ => by simp), foldl_length_inv _ (fun v i => unroll8_length sh _ (encBody_length p sk i) v)]

theorem decWords_length (sh : Shape) (p : Params) (sk : List (List (BitVec 64))) (v : List (BitVec 64)) :
    (decWords sh p sk v).length = v.length := by
  unfold decWords
  rw [foldl_length_inv _ (fun v i => unroll8Rev_length sh _ (decBody_length p sk i) v), foldl_length_inv _ (fun _ _ => by simp)]

/-- a list of known length is the list of its `getD`s -/
theorem eq_map_getD (r : List (BitVec 64)) (n : Nat) (h : r.length = n) :
    r = (List.range n).map (fun i => r.getD i 0) := by
  subst h
  apply List.ext_getElem
  · simp
  · intro i h1 h2
    simp [List.getD_eq_getElem?_getD, List.getElem?_eq_getElem h1]

theorem writeU64vLe_of_length (r : List (BitVec 64)) (n : Nat) (h : r.length = n) :
    writeU64vLe r = ((List.range n).map (fun i => r.getD i 0)).flatMap toLe64 := by
  unfold writeU64vLe
  exact congrArg (fun l => List.flatMap toLe64 l) (eq_map_getD r n h)

/-! ### `with_tweak` (counted loops unrolled: every `sk[s][i]` is one straight-line expression) -/

/-- `Threefish256::with_tweak(key, tweak0, tweak1)`: the subkey table -/
theorem src_threefish256_with_tweak (key : List (BitVec 8)) (t0 t1 : BitVec 64) :
    withTweak tf256 key t0 t1 = Gen.Kernels.threefish256_with_tweak key t0 t1 := by
  simp only [Gen.Kernels.threefish256_with_tweak, ofLeBytes64_take8, List.drop_zero]
  unfold withTweak
  simp only [show tf256.nw = 4 from rfl, readU64vLe, List.drop_drop, Nat.reduceAdd]
  rfl

/-- `Threefish512::with_tweak(key, tweak0, tweak1)`: the subkey table -/
theorem src_threefish512_with_tweak (key : List (BitVec 8)) (t0 t1 : BitVec 64) :
    withTweak tf512 key t0 t1 = Gen.Kernels.threefish512_with_tweak key t0 t1 := by
  simp only [Gen.Kernels.threefish512_with_tweak, ofLeBytes64_take8, List.drop_zero]
  unfold withTweak
  simp only [show tf512.nw = 8 from rfl, readU64vLe, List.drop_drop, Nat.reduceAdd]
  rfl

/-- `Threefish1024::with_tweak(key, tweak0, tweak1)`: the subkey table -/
theorem src_threefish1024_with_tweak (key : List (BitVec 8)) (t0 t1 : BitVec 64) :
    withTweak tf1024 key t0 t1 = Gen.Kernels.threefish1024_with_tweak key t0 t1 := by
  simp only [Gen.Kernels.threefish1024_with_tweak, ofLeBytes64_take8, List.drop_zero]
  unfold withTweak
  simp only [show tf1024.nw = 16 from rfl, readU64vLe, List.drop_drop, Nat.reduceAdd]
  rfl


/-! ### `encrypt_block` / `decrypt_block`, both shapes of `unroll8!` / `unroll8_rev!`.  The generated definitions are
    bytes → bytes (`read_u64v_le`, the round loops, `write_u64v_le`); the loops are `List.foldl … (List.range n)` with the
    loop bodies as separate definitions, tied first. -/

theorem readU64vLe_4 (block : List (BitVec 8)) :
    readU64vLe 4 block = [ofLeBytes 64 ((block.drop 0).take 8), ofLeBytes 64 ((block.drop 8).take 8), ofLeBytes 64 ((block.drop 16).take 8), ofLeBytes 64 ((block.drop 24).take 8)] := by
  simp only [readU64vLe, ofLeBytes64_take8, List.drop_drop, List.drop_zero, Nat.reduceAdd]

open CC.Gen.Kernels in
/-- body of `for i in 0..$rounds/8 { unroll8!(d, { … }) }`, unrolled shape -/
theorem src_threefish256_encrypt_block_loop9 (sk : List (List (BitVec 64))) (v : List (BitVec 64)) (i : Nat) :
    threefish256_encrypt_block_loop9 sk v i = unroll8 .unrolled (encBody tf256 sk i) v := by
  have h1 : ∀ v, List.foldl (threefish256_encrypt_block_loop1 v sk i) v (List.range 2) = encBody tf256 sk i 0 v := fun _ => rfl
  have h2 : ∀ v, List.foldl (threefish256_encrypt_block_loop2 v) v (List.range 2) = encBody tf256 sk i 1 v := fun _ => rfl
  have h3 : ∀ v, List.foldl (threefish256_encrypt_block_loop3 v) v (List.range 2) = encBody tf256 sk i 2 v := fun _ => rfl
  have h4 : ∀ v, List.foldl (threefish256_encrypt_block_loop4 v) v (List.range 2) = encBody tf256 sk i 3 v := fun _ => rfl
  have h5 : ∀ v, List.foldl (threefish256_encrypt_block_loop5 v sk i) v (List.range 2) = encBody tf256 sk i 4 v := fun _ => rfl
  have h6 : ∀ v, List.foldl (threefish256_encrypt_block_loop6 v) v (List.range 2) = encBody tf256 sk i 5 v := fun _ => rfl
  have h7 : ∀ v, List.foldl (threefish256_encrypt_block_loop7 v) v (List.range 2) = encBody tf256 sk i 6 v := fun _ => rfl
  have h8 : ∀ v, List.foldl (threefish256_encrypt_block_loop8 v) v (List.range 2) = encBody tf256 sk i 7 v := fun _ => rfl
  simp only [threefish256_encrypt_block_loop9, unroll8, h1, h2, h3, h4, h5, h6, h7, h8]

/-- `Threefish256::encrypt_block` (default build: `unroll8!` = eight literal copies) -/
theorem src_threefish256_encrypt_block (sk : List (List (BitVec 64))) (block : List (BitVec 8)) :
    encryptBlock .unrolled tf256 sk block = Gen.Kernels.threefish256_encrypt_block sk block := by
  have e9 : Gen.Kernels.threefish256_encrypt_block_loop9 sk = fun v i => unroll8 .unrolled (encBody tf256 sk i) v := by
    funext v i; exact src_threefish256_encrypt_block_loop9 sk v i
  have e10 : Gen.Kernels.threefish256_encrypt_block_loop10 sk = fun v i => v.set i (v.getD i 0 + skAt sk (tf256.rounds / 4) i) := by
    funext v i; rfl
  unfold encryptBlock
  rw [show tf256.nw = 4 from rfl, readU64vLe_4, writeU64vLe_of_length _ 4 (by rw [encWords_length]; rfl)]
  simp only [Gen.Kernels.threefish256_encrypt_block, e9, e10, List.append_assoc]
  rfl

/-- `Threefish256::encrypt_block`, feature `no_unroll` (`unroll8!` = `for d in 0..8`) -/
theorem src_threefish256_encrypt_block_no_unroll (sk : List (List (BitVec 64))) (block : List (BitVec 8)) :
    encryptBlock .loop tf256 sk block = Gen.Kernels.threefish256_encrypt_block_no_unroll sk block := by
  have e2 : ∀ i, Gen.Kernels.threefish256_encrypt_block_no_unroll_loop2 sk i = fun v d => encBody tf256 sk i d v := by
    intro i; funext v d; rfl
  have e3 : Gen.Kernels.threefish256_encrypt_block_no_unroll_loop3 sk = fun v i => unroll8 .loop (encBody tf256 sk i) v := by
    funext v i; simp only [Gen.Kernels.threefish256_encrypt_block_no_unroll_loop3, e2, unroll8]
  have e4 : Gen.Kernels.threefish256_encrypt_block_no_unroll_loop4 sk = fun v i => v.set i (v.getD i 0 + skAt sk (tf256.rounds / 4) i) := by
    funext v i; rfl
  unfold encryptBlock
  rw [show tf256.nw = 4 from rfl, readU64vLe_4, writeU64vLe_of_length _ 4 (by rw [encWords_length]; rfl)]
  simp only [Gen.Kernels.threefish256_encrypt_block_no_unroll, e3, e4, List.append_assoc]
  rfl

open CC.Gen.Kernels in
/-- body of `for i in (0..$rounds/8).rev() { unroll8_rev!(d, { … }) }`, unrolled shape -/
theorem src_threefish256_decrypt_block_loop10 (sk : List (List (BitVec 64))) (v : List (BitVec 64)) (i : Nat) :
    threefish256_decrypt_block_loop10 sk v i = unroll8Rev .unrolled (decBody tf256 sk i) v := by
  have h2 : ∀ v, List.foldl (threefish256_decrypt_block_loop2 v) v (List.range 2) = decBody tf256 sk i 7 v := fun _ => rfl
  have h3 : ∀ v, List.foldl (threefish256_decrypt_block_loop3 v) v (List.range 2) = decBody tf256 sk i 6 v := fun _ => rfl
  have h4 : ∀ v, List.foldl (threefish256_decrypt_block_loop4 v) v (List.range 2) = decBody tf256 sk i 5 v := fun _ => rfl
  have h5 : ∀ v, List.foldl (threefish256_decrypt_block_loop5 v sk i) v (List.range 2) = decBody tf256 sk i 4 v := fun _ => rfl
  have h6 : ∀ v, List.foldl (threefish256_decrypt_block_loop6 v) v (List.range 2) = decBody tf256 sk i 3 v := fun _ => rfl
  have h7 : ∀ v, List.foldl (threefish256_decrypt_block_loop7 v) v (List.range 2) = decBody tf256 sk i 2 v := fun _ => rfl
  have h8 : ∀ v, List.foldl (threefish256_decrypt_block_loop8 v) v (List.range 2) = decBody tf256 sk i 1 v := fun _ => rfl
  have h9 : ∀ v, List.foldl (threefish256_decrypt_block_loop9 v sk i) v (List.range 2) = decBody tf256 sk i 0 v := fun _ => rfl
  simp only [threefish256_decrypt_block_loop10, unroll8Rev, h2, h3, h4, h5, h6, h7, h8, h9]

/-- `Threefish256::decrypt_block` (default build) -/
theorem src_threefish256_decrypt_block (sk : List (List (BitVec 64))) (block : List (BitVec 8)) :
    decryptBlock .unrolled tf256 sk block = Gen.Kernels.threefish256_decrypt_block sk block := by
  have e10 : Gen.Kernels.threefish256_decrypt_block_loop10 sk = fun v i => unroll8Rev .unrolled (decBody tf256 sk i) v := by
    funext v i; exact src_threefish256_decrypt_block_loop10 sk v i
  have e1 : Gen.Kernels.threefish256_decrypt_block_loop1 sk = fun v i => v.set i (v.getD i 0 - skAt sk (tf256.rounds / 4) i) := by
    funext v i; rfl
  unfold decryptBlock
  rw [show tf256.nw = 4 from rfl, readU64vLe_4, writeU64vLe_of_length _ 4 (by rw [decWords_length]; rfl)]
  simp only [Gen.Kernels.threefish256_decrypt_block, e10, e1, List.append_assoc]
  rfl

/-- `Threefish256::decrypt_block`, feature `no_unroll` (`unroll8_rev!` = `for d in (0..8).rev()`) -/
theorem src_threefish256_decrypt_block_no_unroll (sk : List (List (BitVec 64))) (block : List (BitVec 8)) :
    decryptBlock .loop tf256 sk block = Gen.Kernels.threefish256_decrypt_block_no_unroll sk block := by
  have e3 : ∀ i, Gen.Kernels.threefish256_decrypt_block_no_unroll_loop3 sk i = fun v d => decBody tf256 sk i d v := by
    intro i; funext v d; rfl
  have e4 : Gen.Kernels.threefish256_decrypt_block_no_unroll_loop4 sk = fun v i => unroll8Rev .loop (decBody tf256 sk i) v := by
    funext v i; simp only [Gen.Kernels.threefish256_decrypt_block_no_unroll_loop4, e3, unroll8Rev]
  have e1 : Gen.Kernels.threefish256_decrypt_block_no_unroll_loop1 sk = fun v i => v.set i (v.getD i 0 - skAt sk (tf256.rounds / 4) i) := by
    funext v i; rfl
  unfold decryptBlock
  rw [show tf256.nw = 4 from rfl, readU64vLe_4, writeU64vLe_of_length _ 4 (by rw [decWords_length]; rfl)]
  simp only [Gen.Kernels.threefish256_decrypt_block_no_unroll, e4, e1, List.append_assoc]
  rfl

theorem readU64vLe_8 (block : List (BitVec 8)) :
    readU64vLe 8 block = [ofLeBytes 64 ((block.drop 0).take 8), ofLeBytes 64 ((block.drop 8).take 8), ofLeBytes 64 ((block.drop 16).take 8), ofLeBytes 64 ((block.drop 24).take 8), ofLeBytes 64 ((block.drop 32).take 8), ofLeBytes 64 ((block.drop 40).take 8), ofLeBytes 64 ((block.drop 48).take 8), ofLeBytes 64 ((block.drop 56).take 8)] := by
  simp only [readU64vLe, ofLeBytes64_take8, List.drop_drop, List.drop_zero, Nat.reduceAdd]

open CC.Gen.Kernels in
/-- body of `for i in 0..$rounds/8 { unroll8!(d, { … }) }`, unrolled shape -/
theorem src_threefish512_encrypt_block_loop9 (sk : List (List (BitVec 64))) (v : List (BitVec 64)) (i : Nat) :
    threefish512_encrypt_block_loop9 sk v i = unroll8 .unrolled (encBody tf512 sk i) v := by
  have h1 : ∀ v, List.foldl (threefish512_encrypt_block_loop1 v sk i) v (List.range 4) = encBody tf512 sk i 0 v := fun _ => rfl
  have h2 : ∀ v, List.foldl (threefish512_encrypt_block_loop2 v) v (List.range 4) = encBody tf512 sk i 1 v := fun _ => rfl
  have h3 : ∀ v, List.foldl (threefish512_encrypt_block_loop3 v) v (List.range 4) = encBody tf512 sk i 2 v := fun _ => rfl
  have h4 : ∀ v, List.foldl (threefish512_encrypt_block_loop4 v) v (List.range 4) = encBody tf512 sk i 3 v := fun _ => rfl
  have h5 : ∀ v, List.foldl (threefish512_encrypt_block_loop5 v sk i) v (List.range 4) = encBody tf512 sk i 4 v := fun _ => rfl
  have h6 : ∀ v, List.foldl (threefish512_encrypt_block_loop6 v) v (List.range 4) = encBody tf512 sk i 5 v := fun _ => rfl
  have h7 : ∀ v, List.foldl (threefish512_encrypt_block_loop7 v) v (List.range 4) = encBody tf512 sk i 6 v := fun _ => rfl
  have h8 : ∀ v, List.foldl (threefish512_encrypt_block_loop8 v) v (List.range 4) = encBody tf512 sk i 7 v := fun _ => rfl
  simp only [threefish512_encrypt_block_loop9, unroll8, h1, h2, h3, h4, h5, h6, h7, h8]

/-- `Threefish512::encrypt_block` (default build: `unroll8!` = eight literal copies) -/
theorem src_threefish512_encrypt_block (sk : List (List (BitVec 64))) (block : List (BitVec 8)) :
    encryptBlock .unrolled tf512 sk block = Gen.Kernels.threefish512_encrypt_block sk block := by
  have e9 : Gen.Kernels.threefish512_encrypt_block_loop9 sk = fun v i => unroll8 .unrolled (encBody tf512 sk i) v := by
    funext v i; exact src_threefish512_encrypt_block_loop9 sk v i
  have e10 : Gen.Kernels.threefish512_encrypt_block_loop10 sk = fun v i => v.set i (v.getD i 0 + skAt sk (tf512.rounds / 4) i) := by
    funext v i; rfl
  unfold encryptBlock
  rw [show tf512.nw = 8 from rfl, readU64vLe_8, writeU64vLe_of_length _ 8 (by rw [encWords_length]; rfl)]
  simp only [Gen.Kernels.threefish512_encrypt_block, e9, e10, List.append_assoc]
  rfl

/-- `Threefish512::encrypt_block`, feature `no_unroll` (`unroll8!` = `for d in 0..8`) -/
theorem src_threefish512_encrypt_block_no_unroll (sk : List (List (BitVec 64))) (block : List (BitVec 8)) :
    encryptBlock .loop tf512 sk block = Gen.Kernels.threefish512_encrypt_block_no_unroll sk block := by
  have e2 : ∀ i, Gen.Kernels.threefish512_encrypt_block_no_unroll_loop2 sk i = fun v d => encBody tf512 sk i d v := by
    intro i; funext v d; rfl
  have e3 : Gen.Kernels.threefish512_encrypt_block_no_unroll_loop3 sk = fun v i => unroll8 .loop (encBody tf512 sk i) v := by
    funext v i; simp only [Gen.Kernels.threefish512_encrypt_block_no_unroll_loop3, e2, unroll8]
  have e4 : Gen.Kernels.threefish512_encrypt_block_no_unroll_loop4 sk = fun v i => v.set i (v.getD i 0 + skAt sk (tf512.rounds / 4) i) := by
    funext v i; rfl
  unfold encryptBlock
  rw [show tf512.nw = 8 from rfl, readU64vLe_8, writeU64vLe_of_length _ 8 (by rw [encWords_length]; rfl)]
  simp only [Gen.Kernels.threefish512_encrypt_block_no_unroll, e3, e4, List.append_assoc]
  rfl

open CC.Gen.Kernels in
/-- body of `for i in (0..$rounds/8).rev() { unroll8_rev!(d, { … }) }`, unrolled shape -/
theorem src_threefish512_decrypt_block_loop10 (sk : List (List (BitVec 64))) (v : List (BitVec 64)) (i : Nat) :
    threefish512_decrypt_block_loop10 sk v i = unroll8Rev .unrolled (decBody tf512 sk i) v := by
  have h2 : ∀ v, List.foldl (threefish512_decrypt_block_loop2 v) v (List.range 4) = decBody tf512 sk i 7 v := fun _ => rfl
  have h3 : ∀ v, List.foldl (threefish512_decrypt_block_loop3 v) v (List.range 4) = decBody tf512 sk i 6 v := fun _ => rfl
  have h4 : ∀ v, List.foldl (threefish512_decrypt_block_loop4 v) v (List.range 4) = decBody tf512 sk i 5 v := fun _ => rfl
  have h5 : ∀ v, List.foldl (threefish512_decrypt_block_loop5 v sk i) v (List.range 4) = decBody tf512 sk i 4 v := fun _ => rfl
  have h6 : ∀ v, List.foldl (threefish512_decrypt_block_loop6 v) v (List.range 4) = decBody tf512 sk i 3 v := fun _ => rfl
  have h7 : ∀ v, List.foldl (threefish512_decrypt_block_loop7 v) v (List.range 4) = decBody tf512 sk i 2 v := fun _ => rfl
  have h8 : ∀ v, List.foldl (threefish512_decrypt_block_loop8 v) v (List.range 4) = decBody tf512 sk i 1 v := fun _ => rfl
  have h9 : ∀ v, List.foldl (threefish512_decrypt_block_loop9 v sk i) v (List.range 4) = decBody tf512 sk i 0 v := fun _ => rfl
  simp only [threefish512_decrypt_block_loop10, unroll8Rev, h2, h3, h4, h5, h6, h7, h8, h9]

/-- `Threefish512::decrypt_block` (default build) -/
theorem src_threefish512_decrypt_block (sk : List (List (BitVec 64))) (block : List (BitVec 8)) :
    decryptBlock .unrolled tf512 sk block = Gen.Kernels.threefish512_decrypt_block sk block := by
  have e10 : Gen.Kernels.threefish512_decrypt_block_loop10 sk = fun v i => unroll8Rev .unrolled (decBody tf512 sk i) v := by
    funext v i; exact src_threefish512_decrypt_block_loop10 sk v i
  have e1 : Gen.Kernels.threefish512_decrypt_block_loop1 sk = fun v i => v.set i (v.getD i 0 - skAt sk (tf512.rounds / 4) i) := by
    funext v i; rfl
  unfold decryptBlock
  rw [show tf512.nw = 8 from rfl, readU64vLe_8, writeU64vLe_of_length _ 8 (by rw [decWords_length]; rfl)]
  simp only [Gen.Kernels.threefish512_decrypt_block, e10, e1, List.append_assoc]
  rfl

/-- `Threefish512::decrypt_block`, feature `no_unroll` (`unroll8_rev!` = `for d in (0..8).rev()`) -/
theorem src_threefish512_decrypt_block_no_unroll (sk : List (List (BitVec 64))) (block : List (BitVec 8)) :
    decryptBlock .loop tf512 sk block = Gen.Kernels.threefish512_decrypt_block_no_unroll sk block := by
  have e3 : ∀ i, Gen.Kernels.threefish512_decrypt_block_no_unroll_loop3 sk i = fun v d => decBody tf512 sk i d v := by
    intro i; funext v d; rfl
  have e4 : Gen.Kernels.threefish512_decrypt_block_no_unroll_loop4 sk = fun v i => unroll8Rev .loop (decBody tf512 sk i) v := by
    funext v i; simp only [Gen.Kernels.threefish512_decrypt_block_no_unroll_loop4, e3, unroll8Rev]
  have e1 : Gen.Kernels.threefish512_decrypt_block_no_unroll_loop1 sk = fun v i => v.set i (v.getD i 0 - skAt sk (tf512.rounds / 4) i) := by
    funext v i; rfl
  unfold decryptBlock
  rw [show tf512.nw = 8 from rfl, readU64vLe_8, writeU64vLe_of_length _ 8 (by rw [decWords_length]; rfl)]
  simp only [Gen.Kernels.threefish512_decrypt_block_no_unroll, e4, e1, List.append_assoc]
  rfl

theorem readU64vLe_16 (block : List (BitVec 8)) :
    readU64vLe 16 block = [ofLeBytes 64 ((block.drop 0).take 8), ofLeBytes 64 ((block.drop 8).take 8), ofLeBytes 64 ((block.drop 16).take 8), ofLeBytes 64 ((block.drop 24).take 8), ofLeBytes 64 ((block.drop 32).take 8), ofLeBytes 64 ((block.drop 40).take 8), ofLeBytes 64 ((block.drop 48).take 8), ofLeBytes 64 ((block.drop 56).take 8), ofLeBytes 64 ((block.drop 64).take 8), ofLeBytes 64 ((block.drop 72).take 8), ofLeBytes 64 ((block.drop 80).take 8), ofLeBytes 64 ((block.drop 88).take 8), ofLeBytes 64 ((block.drop 96).take 8), ofLeBytes 64 ((block.drop 104).take 8), ofLeBytes 64 ((block.drop 112).take 8), ofLeBytes 64 ((block.drop 120).take 8)] := by
  simp only [readU64vLe, ofLeBytes64_take8, List.drop_drop, List.drop_zero, Nat.reduceAdd]

open CC.Gen.Kernels in
/-- body of `for i in 0..$rounds/8 { unroll8!(d, { … }) }`, unrolled shape -/
theorem src_threefish1024_encrypt_block_loop9 (sk : List (List (BitVec 64))) (v : List (BitVec 64)) (i : Nat) :
    threefish1024_encrypt_block_loop9 sk v i = unroll8 .unrolled (encBody tf1024 sk i) v := by
  have h1 : ∀ v, List.foldl (threefish1024_encrypt_block_loop1 v sk i) v (List.range 8) = encBody tf1024 sk i 0 v := fun _ => rfl
  have h2 : ∀ v, List.foldl (threefish1024_encrypt_block_loop2 v) v (List.range 8) = encBody tf1024 sk i 1 v := fun _ => rfl
  have h3 : ∀ v, List.foldl (threefish1024_encrypt_block_loop3 v) v (List.range 8) = encBody tf1024 sk i 2 v := fun _ => rfl
  have h4 : ∀ v, List.foldl (threefish1024_encrypt_block_loop4 v) v (List.range 8) = encBody tf1024 sk i 3 v := fun _ => rfl
  have h5 : ∀ v, List.foldl (threefish1024_encrypt_block_loop5 v sk i) v (List.range 8) = encBody tf1024 sk i 4 v := fun _ => rfl
  have h6 : ∀ v, List.foldl (threefish1024_encrypt_block_loop6 v) v (List.range 8) = encBody tf1024 sk i 5 v := fun _ => rfl
  have h7 : ∀ v, List.foldl (threefish1024_encrypt_block_loop7 v) v (List.range 8) = encBody tf1024 sk i 6 v := fun _ => rfl
  have h8 : ∀ v, List.foldl (threefish1024_encrypt_block_loop8 v) v (List.range 8) = encBody tf1024 sk i 7 v := fun _ => rfl
  simp only [threefish1024_encrypt_block_loop9, unroll8, h1, h2, h3, h4, h5, h6, h7, h8]

/-- `Threefish1024::encrypt_block` (default build: `unroll8!` = eight literal copies) -/
theorem src_threefish1024_encrypt_block (sk : List (List (BitVec 64))) (block : List (BitVec 8)) :
    encryptBlock .unrolled tf1024 sk block = Gen.Kernels.threefish1024_encrypt_block sk block := by
  have e9 : Gen.Kernels.threefish1024_encrypt_block_loop9 sk = fun v i => unroll8 .unrolled (encBody tf1024 sk i) v := by
    funext v i; exact src_threefish1024_encrypt_block_loop9 sk v i
  have e10 : Gen.Kernels.threefish1024_encrypt_block_loop10 sk = fun v i => v.set i (v.getD i 0 + skAt sk (tf1024.rounds / 4) i) := by
    funext v i; rfl
  unfold encryptBlock
  rw [show tf1024.nw = 16 from rfl, readU64vLe_16, writeU64vLe_of_length _ 16 (by rw [encWords_length]; rfl)]
  simp only [Gen.Kernels.threefish1024_encrypt_block, e9, e10, List.append_assoc]
  rfl

/-- `Threefish1024::encrypt_block`, feature `no_unroll` (`unroll8!` = `for d in 0..8`) -/
theorem src_threefish1024_encrypt_block_no_unroll (sk : List (List (BitVec 64))) (block : List (BitVec 8)) :
    encryptBlock .loop tf1024 sk block = Gen.Kernels.threefish1024_encrypt_block_no_unroll sk block := by
  have e2 : ∀ i, Gen.Kernels.threefish1024_encrypt_block_no_unroll_loop2 sk i = fun v d => encBody tf1024 sk i d v := by
    intro i; funext v d; rfl
  have e3 : Gen.Kernels.threefish1024_encrypt_block_no_unroll_loop3 sk = fun v i => unroll8 .loop (encBody tf1024 sk i) v := by
    funext v i; simp only [Gen.Kernels.threefish1024_encrypt_block_no_unroll_loop3, e2, unroll8]
  have e4 : Gen.Kernels.threefish1024_encrypt_block_no_unroll_loop4 sk = fun v i => v.set i (v.getD i 0 + skAt sk (tf1024.rounds / 4) i) := by
    funext v i; rfl
  unfold encryptBlock
  rw [show tf1024.nw = 16 from rfl, readU64vLe_16, writeU64vLe_of_length _ 16 (by rw [encWords_length]; rfl)]
  simp only [Gen.Kernels.threefish1024_encrypt_block_no_unroll, e3, e4, List.append_assoc]
  rfl

open CC.Gen.Kernels in
/-- body of `for i in (0..$rounds/8).rev() { unroll8_rev!(d, { … }) }`, unrolled shape -/
theorem src_threefish1024_decrypt_block_loop10 (sk : List (List (BitVec 64))) (v : List (BitVec 64)) (i : Nat) :
    threefish1024_decrypt_block_loop10 sk v i = unroll8Rev .unrolled (decBody tf1024 sk i) v := by
  have h2 : ∀ v, List.foldl (threefish1024_decrypt_block_loop2 v) v (List.range 8) = decBody tf1024 sk i 7 v := fun _ => rfl
  have h3 : ∀ v, List.foldl (threefish1024_decrypt_block_loop3 v) v (List.range 8) = decBody tf1024 sk i 6 v := fun _ => rfl
  have h4 : ∀ v, List.foldl (threefish1024_decrypt_block_loop4 v) v (List.range 8) = decBody tf1024 sk i 5 v := fun _ => rfl
  have h5 : ∀ v, List.foldl (threefish1024_decrypt_block_loop5 v sk i) v (List.range 8) = decBody tf1024 sk i 4 v := fun _ => rfl
  have h6 : ∀ v, List.foldl (threefish1024_decrypt_block_loop6 v) v (List.range 8) = decBody tf1024 sk i 3 v := fun _ => rfl
  have h7 : ∀ v, List.foldl (threefish1024_decrypt_block_loop7 v) v (List.range 8) = decBody tf1024 sk i 2 v := fun _ => rfl
  have h8 : ∀ v, List.foldl (threefish1024_decrypt_block_loop8 v) v (List.range 8) = decBody tf1024 sk i 1 v := fun _ => rfl
  have h9 : ∀ v, List.foldl (threefish1024_decrypt_block_loop9 v sk i) v (List.range 8) = decBody tf1024 sk i 0 v := fun _ => rfl
  simp only [threefish1024_decrypt_block_loop10, unroll8Rev, h2, h3, h4, h5, h6, h7, h8, h9]

/-- `Threefish1024::decrypt_block` (default build) -/
theorem src_threefish1024_decrypt_block (sk : List (List (BitVec 64))) (block : List (BitVec 8)) :
    decryptBlock .unrolled tf1024 sk block = Gen.Kernels.threefish1024_decrypt_block sk block := by
  have e10 : Gen.Kernels.threefish1024_decrypt_block_loop10 sk = fun v i => unroll8Rev .unrolled (decBody tf1024 sk i) v := by
    funext v i; exact src_threefish1024_decrypt_block_loop10 sk v i
  have e1 : Gen.Kernels.threefish1024_decrypt_block_loop1 sk = fun v i => v.set i (v.getD i 0 - skAt sk (tf1024.rounds / 4) i) := by
    funext v i; rfl
  unfold decryptBlock
  rw [show tf1024.nw = 16 from rfl, readU64vLe_16, writeU64vLe_of_length _ 16 (by rw [decWords_length]; rfl)]
  simp only [Gen.Kernels.threefish1024_decrypt_block, e10, e1, List.append_assoc]
  rfl

/-- `Threefish1024::decrypt_block`, feature `no_unroll` (`unroll8_rev!` = `for d in (0..8).rev()`) -/
theorem src_threefish1024_decrypt_block_no_unroll (sk : List (List (BitVec 64))) (block : List (BitVec 8)) :
    decryptBlock .loop tf1024 sk block = Gen.Kernels.threefish1024_decrypt_block_no_unroll sk block := by
  have e3 : ∀ i, Gen.Kernels.threefish1024_decrypt_block_no_unroll_loop3 sk i = fun v d => decBody tf1024 sk i d v := by
    intro i; funext v d; rfl
  have e4 : Gen.Kernels.threefish1024_decrypt_block_no_unroll_loop4 sk = fun v i => unroll8Rev .loop (decBody tf1024 sk i) v := by
    funext v i; simp only [Gen.Kernels.threefish1024_decrypt_block_no_unroll_loop4, e3, unroll8Rev]
  have e1 : Gen.Kernels.threefish1024_decrypt_block_no_unroll_loop1 sk = fun v i => v.set i (v.getD i 0 - skAt sk (tf1024.rounds / 4) i) := by
    funext v i; rfl
  unfold decryptBlock
  rw [show tf1024.nw = 16 from rfl, readU64vLe_16, writeU64vLe_of_length _ 16 (by rw [decWords_length]; rfl)]
  simp only [Gen.Kernels.threefish1024_decrypt_block_no_unroll, e4, e1, List.append_assoc]
  rfl

/-! ## phase 3: `NewBlockCipher::new`, the trait impls, the struct (tools/inventory_kernels_glue.py) -/

/-- `NewBlockCipher::new(key)` = `Self::with_tweak(key, 0, 0)` -/
theorem src_threefish256_new (key : List (BitVec 8)) :
    Gen.Kernels.threefish256_new key = Gen.Kernels.threefish256_with_tweak key 0#64 0#64 := rfl
theorem src_threefish512_new (key : List (BitVec 8)) :
    Gen.Kernels.threefish512_new key = Gen.Kernels.threefish512_with_tweak key 0#64 0#64 := rfl
theorem src_threefish1024_new (key : List (BitVec 8)) :
    Gen.Kernels.threefish1024_new key = Gen.Kernels.threefish1024_with_tweak key 0#64 0#64 := rfl

/-- `$name { sk }`, `#[derive(Clone, Copy)]` -/
theorem src_threefish_structs :
    Gen.Kernels.threefish_structs =
      [("Threefish256", "struct", ["sk"], ["Clone", "Copy"], []),
       ("Threefish512", "struct", ["sk"], ["Clone", "Copy"], []),
       ("Threefish1024", "struct", ["sk"], ["Clone", "Copy"], [])] := rfl

/-- the trait impls and the functions each DEFINES: `BlockEncrypt` only `encrypt_block`, `BlockDecrypt` only
    `decrypt_block` (the slice / par-blocks methods are the provided ones of the `cipher` crate, which call these);
    an override of a provided method (e.g. `decrypt_blocks`) changes this list -/
theorem src_threefish_trait_impls :
    Gen.Kernels.threefish_trait_impls =
      [("Threefish256", "NewBlockCipher", ["new"]), ("Threefish256", "BlockCipher", []),
       ("Threefish256", "BlockEncrypt", ["encrypt_block"]), ("Threefish256", "BlockDecrypt", ["decrypt_block"]),
       ("Threefish512", "NewBlockCipher", ["new"]), ("Threefish512", "BlockCipher", []),
       ("Threefish512", "BlockEncrypt", ["encrypt_block"]), ("Threefish512", "BlockDecrypt", ["decrypt_block"]),
       ("Threefish1024", "NewBlockCipher", ["new"]), ("Threefish1024", "BlockCipher", []),
       ("Threefish1024", "BlockEncrypt", ["encrypt_block"]), ("Threefish1024", "BlockDecrypt", ["decrypt_block"])] := rfl

end CC.Src
