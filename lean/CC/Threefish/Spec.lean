/-
  CC.Threefish.Spec — Threefish-256/512/1024 encryption, transcribed from
  "The Skein Hash Function Family", version 1.3 (1 Oct 2010), §3.3.

    * the key is `Nw` 64-bit words (bytes → words little-endian, §3.1 `BytesToWords`), the tweak two words;
    * key schedule (§3.3.2):  k_{Nw} = C240 ⊕ k_0 ⊕ … ⊕ k_{Nw-1},  t_2 = t_0 ⊕ t_1,
        k_{s,i} = k_{(s+i) mod (Nw+1)}                     i = 0 … Nw-4
        k_{s,i} = k_{(s+i) mod (Nw+1)} + t_{s mod 3}       i = Nw-3
        k_{s,i} = k_{(s+i) mod (Nw+1)} + t_{(s+1) mod 3}   i = Nw-2
        k_{s,i} = k_{(s+i) mod (Nw+1)} + s                 i = Nw-1
    * round d = 0 … Nr-1:
        e_{d,i} = v_{d,i} + k_{d/4,i}  if d mod 4 = 0, else v_{d,i}
        (f_{d,2j}, f_{d,2j+1}) = MIX_{d,j}(e_{d,2j}, e_{d,2j+1})    j = 0 … Nw/2-1
        v_{d+1,i} = f_{d,π(i)}
      MIX_{d,j}(x0,x1):  y0 = x0 + x1 mod 2^64,  y1 = (x1 <<< R_{d mod 8, j}) ⊕ y0
    * ciphertext c_i = v_{Nr,i} + k_{Nr/4,i};  Nr = 72 (Nw = 4, 8), 80 (Nw = 16).
  Tables 3 (π) and 4 (R) are the published ones.  Import-free (links into the driver).
-/
import CC.Prim
namespace CC.Threefish.Spec

def C240 : BitVec 64 := 0x1BD11BDAA9FC1A22#64

/-- Table 4: rotation constants `R_{d mod 8, j}`. -/
def R : Nat → List (List Nat)
  | 4 => [[14, 16], [52, 57], [23, 40], [5, 37], [25, 33], [46, 12], [58, 22], [32, 32]]
  | 8 => [[46, 36, 19, 37], [33, 27, 14, 42], [17, 49, 36, 39], [44, 9, 54, 56],
          [39, 30, 34, 24], [13, 50, 10, 17], [25, 29, 39, 43], [8, 35, 56, 22]]
  | 16 => [[24, 13, 8, 47, 8, 17, 22, 37], [38, 19, 10, 55, 49, 18, 23, 52],
           [33, 4, 51, 13, 34, 41, 59, 17], [5, 20, 48, 41, 47, 28, 16, 25],
           [41, 9, 37, 31, 12, 47, 44, 30], [16, 34, 56, 51, 4, 53, 42, 41],
           [31, 44, 47, 46, 19, 42, 44, 25], [9, 48, 35, 52, 23, 31, 37, 20]]
  | _ => []

/-- Table 3: the word permutation `π(i)`. -/
def π : Nat → List Nat
  | 4 => [0, 3, 2, 1]
  | 8 => [2, 1, 4, 7, 6, 5, 0, 3]
  | 16 => [0, 9, 2, 13, 6, 11, 4, 15, 10, 7, 12, 3, 14, 5, 8, 1]
  | _ => []

/-- Number of rounds `Nr`. -/
def Nr (nw : Nat) : Nat := if nw = 16 then 80 else 72

/-- `k_0 … k_{Nw}`: the key words followed by the parity word. -/
def extKey (key : List (BitVec 64)) : List (BitVec 64) :=
  key ++ [key.foldl (· ^^^ ·) C240]

/-- `t_0, t_1, t_2`. -/
def extTweak (t0 t1 : BitVec 64) : List (BitVec 64) := [t0, t1, t0 ^^^ t1]

/-- Subkey `k_{s,0} … k_{s,Nw-1}` from the extended key `k` and extended tweak `t`. -/
def subkey (nw : Nat) (k t : List (BitVec 64)) (s : Nat) : List (BitVec 64) :=
  (List.range nw).map fun i =>
    let b := k.getD ((s + i) % (nw + 1)) 0
    if i = nw - 3 then b + t.getD (s % 3) 0
    else if i = nw - 2 then b + t.getD ((s + 1) % 3) 0
    else if i = nw - 1 then b + BitVec.ofNat 64 s
    else b

/-- `MIX` with rotation `r`. -/
def mix (r : Nat) (x0 x1 : BitVec 64) : BitVec 64 × BitVec 64 :=
  let y0 := x0 + x1
  (y0, x1.rotateLeft r ^^^ y0)

/-- One round, parametrised by whether a subkey is injected (`d mod 4 = 0`), the subkey
    `k_{d/4}` and the rotation row `R_{d mod 8}`. -/
def roundG (nw : Nat) (inj : Bool) (ks : List (BitVec 64)) (rot : List Nat) (v : List (BitVec 64)) :
    List (BitVec 64) :=
  let e := (List.range nw).map fun i => if inj then v.getD i 0 + ks.getD i 0 else v.getD i 0
  let f := (List.range nw).map fun i =>
    let m := mix (rot.getD (i / 2) 0) (e.getD (2 * (i / 2)) 0) (e.getD (2 * (i / 2) + 1) 0)
    if i % 2 = 0 then m.1 else m.2
  (List.range nw).map fun i => f.getD ((π nw).getD i 0) 0

/-- Round `d`. -/
def round (nw : Nat) (k t : List (BitVec 64)) (d : Nat) (v : List (BitVec 64)) : List (BitVec 64) :=
  roundG nw (d % 4 == 0) (subkey nw k t (d / 4)) ((R nw).getD (d % 8) []) v

/-- Threefish on words: `Nr` rounds and the final subkey. -/
def encWords (nw : Nat) (key : List (BitVec 64)) (t0 t1 : BitVec 64) (p : List (BitVec 64)) :
    List (BitVec 64) :=
  let k := extKey key
  let t := extTweak t0 t1
  let v := (List.range (Nr nw)).foldl (fun v d => round nw k t d v) p
  let ks := subkey nw k t (Nr nw / 4)
  (List.range nw).map fun i => v.getD i 0 + ks.getD i 0

/-- `BytesToWords`: word `i` is the little-endian value of bytes `8i … 8i+7`. -/
def bytesToWords (nw : Nat) (bs : List (BitVec 8)) : List (BitVec 64) :=
  (List.range nw).map fun i => ofLeBytes 64 ((bs.drop (8 * i)).take 8)

/-- `WordsToBytes`. -/
def wordsToBytes (ws : List (BitVec 64)) : List (BitVec 8) :=
  ws.flatMap fun w => toLeBytes w 8

/-- Threefish-(64·nw) of a `8·nw`-byte key, a 128-bit tweak `(t0, t1)` and a `8·nw`-byte block. -/
def threefish (nw : Nat) (key : List (BitVec 8)) (t0 t1 : BitVec 64) (blk : List (BitVec 8)) :
    List (BitVec 8) :=
  wordsToBytes (encWords nw (bytesToWords nw key) t0 t1 (bytesToWords nw blk))

end CC.Threefish.Spec
