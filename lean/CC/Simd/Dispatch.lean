/-
  CC.Simd.Dispatch — model of the backend selection ladders of `dispatch!`,
  `dispatch_light128!`, `dispatch_light256!` in `ppv-lite86/src/x86_64/mod.rs`.

  Each macro has two expansions:
  * `std`   (`#[cfg(feature = "std")]`): an `if / else if` chain over
    `is_x86_feature_detected!(..)`, each arm calling an `impl_*` function that carries
    `#[target_feature(enable = ..)]` attributes and instantiates one `Machine` type; the final
    `else` is `unimplemented!()`.
  * `nostd` (`#[cfg(not(feature = "std"))]`): the same chain over `cfg!(target_feature = ..)`,
    calling `fn_impl` directly, final `else` = `SSE2`.
  The arms below are transcribed by hand from the three macros (guard, function called,
  `#[target_feature]` list on that function, `Machine` type instantiated), top to bottom.
  `light128` and `light256` have identical arms.
  The transcription is tied to the source: `tools/inventory_dispatch.py` re-extracts the arms from
  `x86_64/mod.rs` into `CC/Gen/Dispatch.lean` on every run and `CC.Thm.C03.ladder_extracted`,
  `final_else_as_modelled`, `machine_types_as_modelled` compare them with `ladder`, `finalElse`,
  `typeAliases` below.
-/
import CC.Simd.VOps
namespace CC.Simd.Dispatch

inductive F where
  | sse2 | ssse3 | sse41 | avx | avx2
  deriving DecidableEq, Repr

/-- a CPU / compile-time feature assignment -/
structure Feat where
  sse2 : Bool
  ssse3 : Bool
  sse41 : Bool
  avx : Bool
  avx2 : Bool
  deriving DecidableEq, Repr

def Feat.has (f : Feat) : F → Bool
  | .sse2 => f.sse2 | .ssse3 => f.ssse3 | .sse41 => f.sse41 | .avx => f.avx | .avx2 => f.avx2

/-- hardware implication order avx2 → avx → sse4.1 → ssse3 → sse2 -/
def Feat.consistent (f : Feat) : Bool :=
  (!f.avx2 || f.avx) && (!f.avx || f.sse41) && (!f.sse41 || f.ssse3) && (!f.ssse3 || f.sse2)

/-- features implied by one feature (itself included) under that order; this is also how rustc
    closes `#[target_feature(enable = ..)]` lists -/
def implied : F → List F
  | .sse2 => [.sse2]
  | .ssse3 => [.ssse3, .sse2]
  | .sse41 => [.sse41, .ssse3, .sse2]
  | .avx => [.avx, .sse41, .ssse3, .sse2]
  | .avx2 => [.avx2, .avx, .sse41, .ssse3, .sse2]

def closure (fs : List F) : List F := fs.flatMap implied

/-- what the code instantiated for a `Machine` type executes: `S3 = YesS3` uses SSSE3
    instructions, `S4 = YesS4` SSE4.1, `Avx2Machine` AVX2 (and with it AVX) -/
def needs : Backend → List F
  | .generic => []
  | .sse2 => [.sse2]
  | .ssse3 => [.sse2, .ssse3]
  | .sse41 => [.sse2, .ssse3, .sse41]
  | .avx => [.sse2, .ssse3, .sse41]
  | .avx2 => [.sse2, .ssse3, .sse41, .avx, .avx2]

structure Arm where
  /-- `none` = the unconditional final `else` -/
  guard : Option F
  fn : String
  /-- `#[target_feature(enable = ..)]` attributes of `fn` -/
  enabled : List F
  machine : Backend
  deriving Repr

inductive Macro where
  | dispatch | light128 | light256
  deriving DecidableEq, Repr
inductive Mode where
  | std | nostd
  deriving DecidableEq, Repr

def nostdArms : List Arm :=
  [⟨some .avx2, "fn_impl", [], .avx2⟩, ⟨some .avx, "fn_impl", [], .avx⟩, ⟨some .sse41, "fn_impl", [], .sse41⟩,
   ⟨some .ssse3, "fn_impl", [], .ssse3⟩, ⟨none, "fn_impl", [], .sse2⟩]

def lightStdArms : List Arm :=
  [⟨some .avx, "impl_avx", [.avx], .avx⟩, ⟨some .sse2, "impl_sse2", [.sse2], .sse2⟩]

def ladder : Macro → Mode → List Arm
  | .dispatch, .std =>
    [⟨some .avx2, "impl_avx2", [.avx2], .avx2⟩,
     ⟨some .avx, "impl_avx", [.avx, .sse41, .ssse3], .avx⟩,
     ⟨some .sse41, "impl_sse41", [.sse41, .ssse3], .sse41⟩,
     ⟨some .ssse3, "impl_ssse3", [.ssse3], .ssse3⟩,
     ⟨some .sse2, "impl_sse2", [.sse2], .sse2⟩]
  | .light128, .std => lightStdArms
  | .light256, .std => lightStdArms
  | _, .nostd => nostdArms

/-- what the final `else` of a chain does: it is the last arm (guard `none`) or `unimplemented!()` -/
def finalElse (m : Macro) (md : Mode) : String :=
  if (ladder m md).any (·.guard.isNone) then "arm" else "unimplemented!()"

/-- the `Machine` type aliases of `x86_64/mod.rs` and the backend each one denotes in the model
    (`pub type SSE2 = SseMachine<NoS3, NoS4, NoNI>` … `pub type AVX2 = Avx2Machine<NoNI>`) -/
def typeAliases : List (String × Backend) :=
  [("SSE2", .sse2), ("SSSE3", .ssse3), ("SSE41", .sse41), ("AVX", .avx), ("AVX2", .avx2)]

/-- instruction-set features used by the code of a `Machine` type with these parameters
    (`S3 = YesS3`, `S4 = YesS4`, `Avx2Machine`); x86-64 baseline `sse2` -/
def usesOf (s3 s4 isAvx2 : Bool) : List F :=
  [.sse2] ++ (if s3 then [.ssse3] else []) ++ (if s4 then [.sse41] else []) ++ (if isAvx2 then [.avx, .avx2] else [])

def Arm.fires (a : Arm) (f : Feat) : Bool :=
  match a.guard with
  | some g => f.has g
  | none => true

/-- the arm the `if / else if` chain takes; `none` = it falls through to `unimplemented!()` -/
def select (m : Macro) (md : Mode) (f : Feat) : Option Arm := (ladder m md).find? (·.fires f)

/-- every enabled `#[target_feature]` is implied by the tested feature -/
def Arm.guardImplies (a : Arm) : Bool :=
  a.enabled.all fun e => match a.guard with
    | some g => (implied g).contains e
    | none => true
/-- everything the `Machine` type uses is present in the assignment -/
def Arm.needsPresent (a : Arm) (f : Feat) : Bool := (needs a.machine).all f.has
/-- everything the `Machine` type uses is enabled on the called function (with the `sse2` baseline) -/
def Arm.needsEnabled (a : Arm) : Bool :=
  (needs a.machine).all fun r => (closure (.sse2 :: a.enabled)).contains r

def allFeats : List Feat :=
  [false, true].flatMap fun a => [false, true].flatMap fun b => [false, true].flatMap fun c =>
  [false, true].flatMap fun d => [false, true].map fun e => ⟨a, b, c, d, e⟩
def allMacros : List Macro := [.dispatch, .light128, .light256]
def allModes : List Mode := [.std, .nostd]

end CC.Simd.Dispatch
