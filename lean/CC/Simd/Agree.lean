/-
  CC.Simd.Agree — what it means for an implementation record to compute an operation as the
  meaning record does (the statement shape of every C12/C13 leaf).
-/
import CC.Simd.VOps
namespace CC.Simd

/-- `I` computes operation `o` exactly as `M` does, on every operand the operation admits
    (`cnt` = number of elements: indices `< cnt`, `from_lanes` of `cnt` elements;
    byte strings of exactly the storage size).  `transpose4` / `to_scalars` are not fields of
    `VOps` (they exist for `u32x4x4` only) and have their own theorems. -/
def OpAgree {n m : Nat} (cnt : Nat) (I M : VOps n m) : OpK → Prop
  | .add => ∀ a b, I.add a b = M.add a b
  | .xor => ∀ a b, I.xor a b = M.xor a b
  | .and => ∀ a b, I.and a b = M.and a b
  | .or => ∀ a b, I.or a b = M.or a b
  | .andnot => ∀ a b, I.andnot a b = M.andnot a b
  | .not => ∀ a, I.not a = M.not a
  | .rotr k => ∀ a, I.rotr k a = M.rotr k a
  | .shuffle c => ∀ a, I.shuffle c a = M.shuffle c a
  | .shuffleLane c => ∀ a, I.shuffleLane c a = M.shuffleLane c a
  | .swap k => ∀ a, I.swap k a = M.swap k a
  | .bswap => ∀ a, I.bswap a = M.bswap a
  | .extract => ∀ a i, i < cnt → I.extract a i = M.extract a i
  | .insert => ∀ a w i, i < cnt → I.insert a w i = M.insert a w i
  | .toLanes => ∀ a, I.toLanes a = M.toLanes a
  | .fromLanes => ∀ xs, xs.length = cnt → I.fromLanes xs = M.fromLanes xs
  | .readLe => ∀ bs, bs.length * 8 = n → I.readLe bs = M.readLe bs
  | .readBe => ∀ bs, bs.length * 8 = n → I.readBe bs = M.readBe bs
  | .writeLe => ∀ a, I.writeLe a = M.writeLe a
  | .writeBe => ∀ a, I.writeBe a = M.writeBe a
  | .transpose4 => True
  | .toScalars => True

end CC.Simd

namespace CC.Simd

/-- Which operations a leaf collection covers for one implementation record. -/
structure Cov where
  add : Bool := true
  rots : List Nat := []
  shufs : List Nat := []
  lshufs : List Nat := []
  swaps : List Nat := []
  bswap : Bool := true
  vec : Bool := true
  lanes : Bool := true
  bytes : Bool := true

def Cov.has (c : Cov) : OpK → Bool
  | .add => c.add
  | .xor | .and | .or | .andnot | .not => true
  | .rotr k => c.rots.contains k
  | .shuffle s => c.shufs.contains s
  | .shuffleLane s => c.lshufs.contains s
  | .swap k => c.swaps.contains k
  | .bswap => c.bswap
  | .extract | .insert => c.vec
  | .toLanes | .fromLanes => c.lanes
  | .readLe | .readBe | .writeLe | .writeBe => c.bytes
  | .transpose4 | .toScalars => true

/-- coverage of `x2<W>` / `x4<W>` given the coverage of `W`: word-wise operations and byte I/O are
    inherited; `Vec*` and `MultiLane` are structural (always there); no `Words4`. -/
def Cov.lift (c : Cov) : Cov := { c with shufs := [], vec := true, lanes := true }

/-- `I` agrees with `M` on everything `c` covers. -/
def Agrees {n m : Nat} (cnt : Nat) (I M : VOps n m) (c : Cov) : Prop :=
  ∀ o, c.has o = true → OpAgree cnt I M o

end CC.Simd
