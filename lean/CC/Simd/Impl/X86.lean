/-
  CC.Simd.Impl.X86 — transcription of `ppv-lite86/src/x86_64/sse2.rs`, the three 128-bit types
  `u32x4_sse2<S3,S4,NI>`, `u64x2_sse2<S3,S4,NI>`, `u128x1_sse2<S3,S4,NI>`, macro-expanded
  (`def_vec!`, `rotr_32!`, `rotr_32_s3!`, `rotr_64!`, `rotr_64_s3!`, `rotr_128!`, `swapi!`,
  `swap16_s2`, `bswap32_s2`), parameterised by the type-level flags `S3` (`YesS3` = `true`) and
  `S4`.  `NI` selects nothing in this file.  Each definition is the intrinsic sequence of the
  Rust body, in the same order, on the models of `CC/X86/Intrin.lean`.

  Fields of `VOps` that the Rust type does not implement are the identity (see `provided`).
-/
import CC.X86.Intrin
import CC.Simd.VOps
namespace CC.Simd.Impl.X86
open CC.X86

def neg1_64 : BitVec 64 := 0xffffffffffffffff#64
def neg1_32 : BitVec 32 := 0xffffffff#32

/-! ### `def_vec!` -/

/-- `Not`: `self ^ Self::new(_mm_set1_epi64x(-1))` -/
def vnot (x : BitVec 128) : BitVec 128 := _mm_xor_si128 x (_mm_set1_epi64x neg1_64)

/-! ### rotations -/

/-- `rotr_32!($name, $i)` -/
def rotr_32 (i : Nat) (x : BitVec 128) : BitVec 128 :=
  _mm_or_si128 (_mm_srli_epi32 x i) (_mm_slli_epi32 x (32 - i))
/-- `rotr_32_s3!($name, $k0, $k1)` (also `rotr_64_s3!`, the same body) -/
def rotr_s3 (k0 k1 : BitVec 64) (x : BitVec 128) : BitVec 128 :=
  _mm_shuffle_epi8 x (_mm_set_epi64x k0 k1)
/-- `swap16_s2` -/
def swap16_s2 (x : BitVec 128) : BitVec 128 :=
  _mm_shufflehi_epi16 (_mm_shufflelo_epi16 x 0b10110001) 0b10110001

/-- `impl RotateEachWord32 for u32x4_sse2<YesS3,…>` / `<NoS3,…>` -/
def u32x4_rotr (s3 : Bool) (k : Nat) (x : BitVec 128) : BitVec 128 :=
  match s3, k with
  | true, 7 => rotr_32 7 x
  | true, 8 => rotr_s3 0x0c0f0e0d080b0a09#64 0x0407060500030201#64 x
  | true, 11 => rotr_32 11 x
  | true, 12 => rotr_32 12 x
  | true, 16 => rotr_s3 0x0d0c0f0e09080b0a#64 0x0504070601000302#64 x
  | true, 20 => rotr_32 20 x
  | true, 24 => rotr_s3 0x0e0d0c0f0a09080b#64 0x0605040702010003#64 x
  | true, 25 => rotr_32 25 x
  | false, 7 => rotr_32 7 x
  | false, 8 => rotr_32 8 x
  | false, 11 => rotr_32 11 x
  | false, 12 => rotr_32 12 x
  | false, 16 => swap16_s2 x
  | false, 20 => rotr_32 20 x
  | false, 24 => rotr_32 24 x
  | false, 25 => rotr_32 25 x
  | _, _ => x

/-- `rotr_64!($name, $i)` -/
def rotr_64 (i : Nat) (x : BitVec 128) : BitVec 128 :=
  _mm_or_si128 (_mm_srli_epi64 x i) (_mm_slli_epi64 x (64 - i))

/-- `impl RotateEachWord32 + RotateEachWord64 for u64x2_sse2` -/
def u64x2_rotr (s3 : Bool) (k : Nat) (x : BitVec 128) : BitVec 128 :=
  match s3, k with
  | true, 7 => rotr_64 7 x
  | true, 8 => rotr_s3 0x080f0e0d0c0b0a09#64 0x0007060504030201#64 x
  | true, 11 => rotr_64 11 x
  | true, 12 => rotr_64 12 x
  | true, 16 => rotr_s3 0x09080f0e0d0c0b0a#64 0x0100070605040302#64 x
  | true, 20 => rotr_64 20 x
  | true, 24 => rotr_s3 0x0a09080f0e0d0c0b#64 0x0201000706050403#64 x
  | true, 25 => rotr_64 25 x
  | false, 7 => rotr_64 7 x
  | false, 8 => rotr_64 8 x
  | false, 11 => rotr_64 11 x
  | false, 12 => rotr_64 12 x
  | false, 16 => rotr_64 16 x
  | false, 20 => rotr_64 20 x
  | false, 24 => rotr_64 24 x
  | false, 25 => rotr_64 25 x
  | _, 32 => _mm_shuffle_epi32 x 0b10110001
  | _, _ => x

/-- `rotr_128!($name, $i)`: shift both halves, fill in from the opposite half -/
def rotr_128 (i : Nat) (x : BitVec 128) : BitVec 128 :=
  let swapped := _mm_shuffle_epi32 x 0b01001110
  _mm_or_si128 (_mm_srli_epi64 x i) (_mm_slli_epi64 swapped (64 - i))

def u128x1_rotr (k : Nat) (x : BitVec 128) : BitVec 128 :=
  match k with
  | 7 => rotr_128 7 x
  | 8 => rotr_128 8 x
  | 11 => rotr_128 11 x
  | 12 => rotr_128 12 x
  | 16 => rotr_128 16 x
  | 20 => rotr_128 20 x
  | 24 => rotr_128 24 x
  | 25 => rotr_128 25 x
  | 32 => rotr_128 32 x
  | _ => x

/-! ### `MultiLane` -/

def lo32 (x : BitVec 64) : BitVec 32 := x.setWidth 32
def hi32 (x : BitVec 64) : BitVec 32 := (x >>> 32).setWidth 32
/-- `xs[a] as u64 | ((xs[b] as u64) << 32)` -/
def join32 (a b : BitVec 32) : BitVec 64 := a.setWidth 64 ||| (b.setWidth 64 <<< 32)

def u32x4_toLanes (s4 : Bool) (v : BitVec 128) : List (BitVec 32) :=
  let x := _mm_cvtsi128_si64 v
  let y := if s4 then _mm_extract_epi64 v 1
           else _mm_cvtsi128_si64 (_mm_shuffle_epi32 v 0b11101110)
  [lo32 x, hi32 x, lo32 y, hi32 y]

def u32x4_fromLanes (s4 : Bool) (xs : List (BitVec 32)) : BitVec 128 :=
  let x := join32 (xs.getD 0 0) (xs.getD 1 0)
  let y := join32 (xs.getD 2 0) (xs.getD 3 0)
  if s4 then _mm_insert_epi64 (_mm_cvtsi64_si128 x) y 1
  else _mm_or_si128 (_mm_cvtsi64_si128 x) (_mm_slli_si128 (_mm_cvtsi64_si128 y) 8)

def u64x2_toLanes (s4 : Bool) (v : BitVec 128) : List (BitVec 64) :=
  if s4 then [_mm_cvtsi128_si64 v, _mm_extract_epi64 v 1]
  else [_mm_cvtsi128_si64 v, _mm_cvtsi128_si64 (_mm_srli_si128 v 8)]

def u64x2_fromLanes (s4 : Bool) (xs : List (BitVec 64)) : BitVec 128 :=
  if s4 then _mm_insert_epi64 (_mm_cvtsi64_si128 (xs.getD 0 0)) (xs.getD 1 0) 1
  else _mm_or_si128 (_mm_cvtsi64_si128 (xs.getD 0 0)) (_mm_slli_si128 (_mm_cvtsi64_si128 (xs.getD 1 0)) 8)

/-! ### `Vec4<u32>` / `Vec2<u64>` -/

/-- `self.to_lanes()[i as usize]` -/
def u32x4_extract (s4 : Bool) (v : BitVec 128) (i : Nat) : BitVec 32 := (u32x4_toLanes s4 v).getD i 0

def u32x4_insert (s4 : Bool) (v : BitVec 128) (w : BitVec 32) (i : Nat) : BitVec 128 :=
  if s4 then
    match i with
    | 0 => _mm_insert_epi32 v w 0
    | 1 => _mm_insert_epi32 v w 1
    | 2 => _mm_insert_epi32 v w 2
    | 3 => _mm_insert_epi32 v w 3
    | _ => v
  else
    match i with
    | 0 =>
      let x := _mm_andnot_si128 (_mm_cvtsi32_si128 neg1_32) v
      _mm_or_si128 x (_mm_cvtsi32_si128 w)
    | 1 =>
      let x := _mm_shuffle_epi32 v 0b01111000
      let x := _mm_slli_si128 x 4
      let x := _mm_or_si128 x (_mm_cvtsi32_si128 w)
      _mm_shuffle_epi32 x 0b11100001
    | 2 =>
      let x := _mm_shuffle_epi32 v 0b10110100
      let x := _mm_slli_si128 x 4
      let x := _mm_or_si128 x (_mm_cvtsi32_si128 w)
      _mm_shuffle_epi32 x 0b11001001
    | 3 =>
      let x := _mm_slli_si128 v 4
      let x := _mm_or_si128 x (_mm_cvtsi32_si128 w)
      _mm_shuffle_epi32 x 0b00111001
    | _ => v

def u64x2_extract (s4 : Bool) (v : BitVec 128) (i : Nat) : BitVec 64 :=
  match i with
  | 0 => _mm_cvtsi128_si64 v
  | 1 => if s4 then _mm_extract_epi64 v 1 else _mm_cvtsi128_si64 (_mm_shuffle_epi32 v 0b11101110)
  | _ => 0

def u64x2_insert (s4 : Bool) (v : BitVec 128) (x : BitVec 64) (i : Nat) : BitVec 128 :=
  if s4 then
    match i with
    | 0 => _mm_insert_epi64 v x 0
    | 1 => _mm_insert_epi64 v x 1
    | _ => v
  else
    match i with
    | 0 => _mm_or_si128 (_mm_andnot_si128 (_mm_cvtsi64_si128 neg1_64) v) (_mm_cvtsi64_si128 x)
    | 1 => _mm_or_si128 (_mm_move_epi64 v) (_mm_slli_si128 (_mm_cvtsi64_si128 x) 8)
    | _ => v

/-! ### `Words4` for `u32x4_sse2` -/

def u32x4_shuffle (c : Nat) (x : BitVec 128) : BitVec 128 :=
  match c with
  | 2301 => _mm_shuffle_epi32 x 0b01001110
  | 1230 => _mm_shuffle_epi32 x 0b10010011
  | 3012 => _mm_shuffle_epi32 x 0b00111001
  | _ => x

/-! ### `BSwap` -/

/-- `bswap32_s2` -/
def bswap32_s2 (x : BitVec 128) : BitVec 128 :=
  let y := _mm_unpacklo_epi8 x _mm_setzero_si128
  let y := _mm_shufflehi_epi16 y 0b00011011
  let y := _mm_shufflelo_epi16 y 0b00011011
  let z := _mm_unpackhi_epi8 x _mm_setzero_si128
  let z := _mm_shufflehi_epi16 z 0b00011011
  let z := _mm_shufflelo_epi16 z 0b00011011
  _mm_packus_epi16 y z

def u32x4_bswap (s3 : Bool) (x : BitVec 128) : BitVec 128 :=
  if s3 then _mm_shuffle_epi8 x (_mm_set_epi64x 0x0c0d0e0f08090a0b#64 0x0405060700010203#64)
  else bswap32_s2 x

def u64x2_bswap (s3 : Bool) (x : BitVec 128) : BitVec 128 :=
  if s3 then _mm_shuffle_epi8 x (_mm_set_epi64x 0x08090a0b0c0d0e0f#64 0x0001020304050607#64)
  else bswap32_s2 (_mm_shuffle_epi32 x 0b10110001)

def u128x1_bswap (s3 : Bool) (x : BitVec 128) : BitVec 128 :=
  if s3 then _mm_shuffle_epi8 x (_mm_set_epi64x 0x0001020304050607#64 0x08090a0b0c0d0e0f#64)
  else bswap32_s2 (_mm_shuffle_epi32 x 0b00011011)

/-! ### `Swap64` for `u128x1_sse2` -/

/-- `swapi!($x, $i, $k)` -/
def swapi (x : BitVec 128) (i : Nat) (k : BitVec 8) : BitVec 128 :=
  let kk := _mm_set1_epi8 k
  _mm_or_si128 (_mm_srli_epi16 (_mm_and_si128 x kk) i) (_mm_and_si128 (_mm_slli_epi16 x i) kk)

def u128x1_swap (s3 : Bool) (k : Nat) (x : BitVec 128) : BitVec 128 :=
  match k with
  | 1 => swapi x 1 0xaa#8
  | 2 => swapi x 2 0xcc#8
  | 4 => swapi x 4 0xf0#8
  | 8 =>
    if s3 then _mm_shuffle_epi8 x (_mm_set_epi64x 0x0e0f0c0d0a0b0809#64 0x0607040502030001#64)
    else _mm_or_si128 (_mm_slli_epi16 x 8) (_mm_srli_epi16 x 8)
  | 16 =>
    if s3 then _mm_shuffle_epi8 x (_mm_set_epi64x 0x0d0c0f0e09080b0a#64 0x0504070601000302#64)
    else swap16_s2 x
  | 32 => _mm_shuffle_epi32 x 0b10110001
  | 64 => _mm_shuffle_epi32 x 0b01001110
  | _ => x

/-! ### the three records -/

/-- `u32x4_sse2<S3,S4,NI>` -/
def u32x4 (s3 s4 : Bool) : VOps 128 32 where
  add := _mm_add_epi32
  xor := _mm_xor_si128
  and := _mm_and_si128
  or := _mm_or_si128
  andnot := _mm_andnot_si128
  not := vnot
  rotr := u32x4_rotr s3
  shuffle := u32x4_shuffle
  shuffleLane := u32x4_shuffle          -- `shuffle_lane_wordsABCD = self.shuffleABCD()`
  swap := fun _ x => x
  bswap := u32x4_bswap s3
  extract := u32x4_extract s4
  insert := u32x4_insert s4
  toLanes := u32x4_toLanes s4
  fromLanes := u32x4_fromLanes s4
  readLe := _mm_loadu_si128
  readBe := fun bs => u32x4_bswap s3 (_mm_loadu_si128 bs)
  writeLe := _mm_storeu_si128
  writeBe := fun v => _mm_storeu_si128 (u32x4_bswap s3 v)

/-- `u64x2_sse2<S3,S4,NI>` -/
def u64x2 (s3 s4 : Bool) : VOps 128 64 where
  add := _mm_add_epi64
  xor := _mm_xor_si128
  and := _mm_and_si128
  or := _mm_or_si128
  andnot := _mm_andnot_si128
  not := vnot
  rotr := u64x2_rotr s3
  shuffle := fun _ x => x
  shuffleLane := fun _ x => x
  swap := fun _ x => x
  bswap := u64x2_bswap s3
  extract := u64x2_extract s4
  insert := u64x2_insert s4
  toLanes := u64x2_toLanes s4
  fromLanes := u64x2_fromLanes s4
  readLe := _mm_loadu_si128
  readBe := fun bs => u64x2_bswap s3 (_mm_loadu_si128 bs)
  writeLe := _mm_storeu_si128
  writeBe := fun v => _mm_storeu_si128 (u64x2_bswap s3 v)

/-- `u128x1_sse2<S3,S4,NI>`; `to_lanes/from_lanes` go through the `u128x1: [u128; 1]` view of the
    `vec128_storage` union (a little-endian reinterpretation of the same 16 bytes). -/
def u128x1 (s3 : Bool) : VOps 128 128 where
  add := fun a _ => a
  xor := _mm_xor_si128
  and := _mm_and_si128
  or := _mm_or_si128
  andnot := _mm_andnot_si128
  not := vnot
  rotr := u128x1_rotr
  shuffle := fun _ x => x
  shuffleLane := fun _ x => x
  swap := u128x1_swap s3
  bswap := u128x1_bswap s3
  extract := fun v _ => v
  insert := fun v _ _ => v
  toLanes := fun v => [v]
  fromLanes := fun xs => xs.getD 0 0
  readLe := _mm_loadu_si128
  readBe := fun bs => u128x1_bswap s3 (_mm_loadu_si128 bs)
  writeLe := _mm_storeu_si128
  writeBe := fun v => _mm_storeu_si128 (u128x1_bswap s3 v)

end CC.Simd.Impl.X86
