/-
  CC.Simd.Impl.Soft — transcription of `ppv-lite86/src/soft.rs`: the generic wrappers
  `x2<W, G>([W; 2])` and `x4<W>([W; 4])` that implement every 256/512-bit operation by forwarding
  to the 128-bit element type (`fwd_binop_x2!`, `fwd_unop_x2!`, `fwd_binop_x4!`, `fwd_unop_x4!`
  and the hand-written `Vec2/Vec4/Vec4Ext/MultiLane/BSwap/StoreBytes/LaneWords4/Swap64` impls).

  The carrier of `x2<W,_>` is the concatenation of the carriers of `self.0[0]` (low) and
  `self.0[1]` (high) — the `repr(transparent)` array layout, and what `vec256_storage::new128` /
  `split128` see.  `x2g` is parameterised by the split/join functions so that the same
  transcription serves `x2<128-bit W>` (256 bits) and `x2<u32x4x2_avx2>` (512 bits).
-/
import CC.Simd.VOps
namespace CC.Simd.Impl.Soft

def lo256 (v : BitVec 512) : BitVec 256 := v.extractLsb' 0 256
def hi256 (v : BitVec 512) : BitVec 256 := v.extractLsb' 256 256
def pack512w (a b : BitVec 256) : BitVec 512 := b ++ a

/-- `x2<W, G>` -/
def x2g {n n2 m : Nat} (lo hi : BitVec n2 → BitVec n) (pack : BitVec n → BitVec n → BitVec n2)
    (W : VOps n m) : VOps n2 n where
  -- fwd_binop_x2!: x2::new([self.0[0].$fn(rhs.0[0]), self.0[1].$fn(rhs.0[1])])
  add := fun a b => pack (W.add (lo a) (lo b)) (W.add (hi a) (hi b))
  xor := fun a b => pack (W.xor (lo a) (lo b)) (W.xor (hi a) (hi b))
  and := fun a b => pack (W.and (lo a) (lo b)) (W.and (hi a) (hi b))
  or := fun a b => pack (W.or (lo a) (lo b)) (W.or (hi a) (hi b))
  andnot := fun a b => pack (W.andnot (lo a) (lo b)) (W.andnot (hi a) (hi b))
  not := fun a => pack (W.not (lo a)) (W.not (hi a))
  -- fwd_unop_x2!
  rotr := fun k a => pack (W.rotr k (lo a)) (W.rotr k (hi a))
  shuffle := fun _ a => a               -- no generic `Words4`
  shuffleLane := fun c a => pack (W.shuffleLane c (lo a)) (W.shuffleLane c (hi a))
  swap := fun k a => pack (W.swap k (lo a)) (W.swap k (hi a))
  bswap := fun a => pack (W.bswap (lo a)) (W.bswap (hi a))
  -- Vec2<W>: self.0[i as usize]
  extract := fun a i => match i with | 0 => lo a | 1 => hi a | _ => lo a
  insert := fun a w i => match i with | 0 => pack w (hi a) | 1 => pack (lo a) w | _ => a
  -- MultiLane<[W; 2]>
  toLanes := fun a => [lo a, hi a]
  fromLanes := fun xs => pack (xs.getD 0 0) (xs.getD 1 0)
  -- StoreBytes: input.split_at(input.len() / 2)
  readLe := fun bs => pack (W.readLe (bs.take (bs.length / 2))) (W.readLe (bs.drop (bs.length / 2)))
  readBe := fun bs => pack (W.readBe (bs.take (bs.length / 2))) (W.readBe (bs.drop (bs.length / 2)))
  writeLe := fun a => W.writeLe (lo a) ++ W.writeLe (hi a)
  writeBe := fun a => W.writeBe (lo a) ++ W.writeBe (hi a)

/-- `x2<W, G>` over a 128-bit `W` -/
def x2 {m : Nat} (W : VOps 128 m) : VOps 256 128 := x2g lo128 hi128 pack256 W
/-- `x2<W, G>` over a 256-bit `W` (`u32x4x4_avx2 = x2<u32x4x2_avx2, G0>`) -/
def x2w {m : Nat} (W : VOps 256 m) : VOps 512 256 := x2g lo256 hi256 pack512w W

/-- `x4<W>` -/
def x4 {m : Nat} (W : VOps 128 m) : VOps 512 128 where
  add := fun a b => pack512 (W.add (q128 a 0) (q128 b 0)) (W.add (q128 a 1) (q128 b 1))
                            (W.add (q128 a 2) (q128 b 2)) (W.add (q128 a 3) (q128 b 3))
  xor := fun a b => pack512 (W.xor (q128 a 0) (q128 b 0)) (W.xor (q128 a 1) (q128 b 1))
                            (W.xor (q128 a 2) (q128 b 2)) (W.xor (q128 a 3) (q128 b 3))
  and := fun a b => pack512 (W.and (q128 a 0) (q128 b 0)) (W.and (q128 a 1) (q128 b 1))
                            (W.and (q128 a 2) (q128 b 2)) (W.and (q128 a 3) (q128 b 3))
  or := fun a b => pack512 (W.or (q128 a 0) (q128 b 0)) (W.or (q128 a 1) (q128 b 1))
                           (W.or (q128 a 2) (q128 b 2)) (W.or (q128 a 3) (q128 b 3))
  andnot := fun a b => pack512 (W.andnot (q128 a 0) (q128 b 0)) (W.andnot (q128 a 1) (q128 b 1))
                               (W.andnot (q128 a 2) (q128 b 2)) (W.andnot (q128 a 3) (q128 b 3))
  not := fun a => pack512 (W.not (q128 a 0)) (W.not (q128 a 1)) (W.not (q128 a 2)) (W.not (q128 a 3))
  rotr := fun k a => pack512 (W.rotr k (q128 a 0)) (W.rotr k (q128 a 1)) (W.rotr k (q128 a 2)) (W.rotr k (q128 a 3))
  shuffle := fun _ a => a
  shuffleLane := fun c a => pack512 (W.shuffleLane c (q128 a 0)) (W.shuffleLane c (q128 a 1))
                                    (W.shuffleLane c (q128 a 2)) (W.shuffleLane c (q128 a 3))
  swap := fun k a => pack512 (W.swap k (q128 a 0)) (W.swap k (q128 a 1)) (W.swap k (q128 a 2)) (W.swap k (q128 a 3))
  bswap := fun a => pack512 (W.bswap (q128 a 0)) (W.bswap (q128 a 1)) (W.bswap (q128 a 2)) (W.bswap (q128 a 3))
  -- Vec4<W>: self.0[i as usize]
  extract := fun a i => q128 a i
  insert := fun a w i =>
    match i with
    | 0 => pack512 w (q128 a 1) (q128 a 2) (q128 a 3)
    | 1 => pack512 (q128 a 0) w (q128 a 2) (q128 a 3)
    | 2 => pack512 (q128 a 0) (q128 a 1) w (q128 a 3)
    | 3 => pack512 (q128 a 0) (q128 a 1) (q128 a 2) w
    | _ => a
  toLanes := fun a => [q128 a 0, q128 a 1, q128 a 2, q128 a 3]
  fromLanes := fun xs => pack512 (xs.getD 0 0) (xs.getD 1 0) (xs.getD 2 0) (xs.getD 3 0)
  -- StoreBytes: let n = input.len() / 4; &input[..n], [n..n*2], [n*2..n*3], [n*3..]
  readLe := fun bs =>
    let n := bs.length / 4
    pack512 (W.readLe (bs.take n)) (W.readLe ((bs.drop n).take n))
            (W.readLe ((bs.drop (n * 2)).take n)) (W.readLe (bs.drop (n * 3)))
  readBe := fun bs =>
    let n := bs.length / 4
    pack512 (W.readBe (bs.take n)) (W.readBe ((bs.drop n).take n))
            (W.readBe ((bs.drop (n * 2)).take n)) (W.readBe (bs.drop (n * 3)))
  writeLe := fun a => W.writeLe (q128 a 0) ++ W.writeLe (q128 a 1) ++ W.writeLe (q128 a 2) ++ W.writeLe (q128 a 3)
  writeBe := fun a => W.writeBe (q128 a 0) ++ W.writeBe (q128 a 1) ++ W.writeBe (q128 a 2) ++ W.writeBe (q128 a 3)

/-- `impl Vec4Ext<W> for x4<W>`: `transpose4` -/
def x4_transpose4 (a b c d : BitVec 512) : BitVec 512 × BitVec 512 × BitVec 512 × BitVec 512 :=
  (pack512 (q128 a 0) (q128 b 0) (q128 c 0) (q128 d 0),
   pack512 (q128 a 1) (q128 b 1) (q128 c 1) (q128 d 1),
   pack512 (q128 a 2) (q128 b 2) (q128 c 2) (q128 d 2),
   pack512 (q128 a 3) (q128 b 3) (q128 c 3) (q128 d 3))

end CC.Simd.Impl.Soft
