/-
  CC.Simd.Impl.X86Wide — transcription of the 256/512-bit parts of `x86_64/sse2.rs` that are not
  plain `x2/x4` forwarding:
  * `u64x4_sse2<S3,S4,NI> = x2<u64x2_sse2, G1>`: `MultiLane<[u64;4]>`, `Vec4<u64>`,
    `Words4` (`palignr` with `YesS3`, byte-shift/or with `NoS3`);
  * `Vector<[u32;16]> for u32x4x4_sse2` (`transmute!`);
  * `mod avx2`: `u32x4x2_avx2<NI>` (a real `__m256i`) and `u32x4x4_avx2<NI> = x2<u32x4x2_avx2, G0>`
    (`shuf_lane_bytes!`, `rotr_32!`, `Not`, `BSwap`, `LaneWords4`, `MultiLane`, `Vec2`, `Vec4`,
    `Vec4Ext::transpose4` via `vperm2i128 0x20/0x31`, `Vector::to_scalars`).
-/
import CC.X86.Intrin
import CC.Simd.VOps
import CC.Simd.Impl.Soft
import CC.Simd.Impl.X86
namespace CC.Simd.Impl.X86
open CC.X86

/-! ### `u64x4_sse2` -/

def u64x4_toLanes (_s3 s4 : Bool) (v : BitVec 256) : List (BitVec 64) :=
  u64x2_toLanes s4 (lo128 v) ++ u64x2_toLanes s4 (hi128 v)
def u64x4_fromLanes (_s3 s4 : Bool) (xs : List (BitVec 64)) : BitVec 256 :=
  pack256 (u64x2_fromLanes s4 [xs.getD 0 0, xs.getD 1 0])
          (u64x2_fromLanes s4 [xs.getD 2 0, xs.getD 3 0])

/-- `impl Words4 for u64x4_sse2<YesS3,…>` / `<NoS3,…>` -/
def u64x4_shuffle (s3 : Bool) (c : Nat) (v : BitVec 256) : BitVec 256 :=
  let x0 := lo128 v      -- self.0[0].x
  let x1 := hi128 v      -- self.0[1].x
  match c with
  | 2301 => pack256 x1 x0
  | 3012 =>
    if s3 then pack256 (_mm_alignr_epi8 x1 x0 8) (_mm_alignr_epi8 x0 x1 8)
    else
      let a := _mm_srli_si128 x0 8
      let b := _mm_slli_si128 x0 8
      let c := _mm_srli_si128 x1 8
      let d := _mm_slli_si128 x1 8
      let da := _mm_or_si128 d a
      let bc := _mm_or_si128 b c
      pack256 da bc
  | 1230 =>
    if s3 then pack256 (_mm_alignr_epi8 x0 x1 8) (_mm_alignr_epi8 x1 x0 8)
    else
      let a := _mm_srli_si128 x0 8
      let b := _mm_slli_si128 x0 8
      let c := _mm_srli_si128 x1 8
      let d := _mm_slli_si128 x1 8
      let da := _mm_or_si128 d a
      let bc := _mm_or_si128 b c
      pack256 bc da
  | _ => v

/-- `impl Vec4<u64> for u64x4_sse2` -/
def u64x4_extract (s4 : Bool) (v : BitVec 256) (i : Nat) : BitVec 64 :=
  match i with
  | 0 => u64x2_extract s4 (lo128 v) 0
  | 1 => u64x2_extract s4 (lo128 v) 1
  | 2 => u64x2_extract s4 (hi128 v) 0
  | 3 => u64x2_extract s4 (hi128 v) 1
  | _ => 0
def u64x4_insert (s4 : Bool) (v : BitVec 256) (w : BitVec 64) (i : Nat) : BitVec 256 :=
  match i with
  | 0 => pack256 (u64x2_insert s4 (lo128 v) w 0) (hi128 v)
  | 1 => pack256 (u64x2_insert s4 (lo128 v) w 1) (hi128 v)
  | 2 => pack256 (lo128 v) (u64x2_insert s4 (hi128 v) w 0)
  | 3 => pack256 (lo128 v) (u64x2_insert s4 (hi128 v) w 1)
  | _ => v

def u64x4 (s3 s4 : Bool) : VOps 256 64 :=
  let W := u64x2 s3 s4
  let X := Soft.x2 W
  { add := X.add, xor := X.xor, and := X.and, or := X.or, andnot := X.andnot, not := X.not,
    rotr := X.rotr, shuffleLane := X.shuffleLane, swap := X.swap, bswap := X.bswap,
    readLe := X.readLe, readBe := X.readBe, writeLe := X.writeLe, writeBe := X.writeBe,
    shuffle := u64x4_shuffle s3,
    extract := u64x4_extract s4,
    insert := u64x4_insert s4,
    toLanes := u64x4_toLanes s3 s4,
    fromLanes := u64x4_fromLanes s3 s4 }

/-- `transmute!(self)` of `x4<u32x4_sse2>` / `x2<u32x4x2_avx2>` to `[u32; 16]`: the sixteen
    little-endian words of the 64 storage bytes, in address order. -/
def toScalars (v : BitVec 512) : List (BitVec 32) :=
  (List.range 16).map fun i => v.extractLsb' (32 * i) 32

end CC.Simd.Impl.X86

namespace CC.Simd.Impl.Avx2
open CC.X86 CC.Simd.Impl.X86

/-- `shuf_lane_bytes!($name, $k0, $k1)` -/
def shuf_lane_bytes (k0 k1 : BitVec 64) (x : BitVec 256) : BitVec 256 :=
  _mm256_shuffle_epi8 x (_mm256_set_epi64x k0 k1 k0 k1)
/-- `rotr_32!($name, $i)` (the `mod avx2` one) -/
def rotr_32 (i : Nat) (x : BitVec 256) : BitVec 256 :=
  _mm256_or_si256 (_mm256_srli_epi32 x i) (_mm256_slli_epi32 x (32 - i))

def u32x4x2_rotr (k : Nat) (x : BitVec 256) : BitVec 256 :=
  match k with
  | 7 => rotr_32 7 x
  | 8 => shuf_lane_bytes 0x0c0f0e0d080b0a09#64 0x0407060500030201#64 x
  | 11 => rotr_32 11 x
  | 12 => rotr_32 12 x
  | 16 => shuf_lane_bytes 0x0d0c0f0e09080b0a#64 0x0504070601000302#64 x
  | 20 => rotr_32 20 x
  | 24 => shuf_lane_bytes 0x0e0d0c0f0a09080b#64 0x0605040702010003#64 x
  | 25 => rotr_32 25 x
  | _ => x

def u32x4x2_bswap (x : BitVec 256) : BitVec 256 :=
  shuf_lane_bytes 0x0c0d0e0f08090a0b#64 0x0405060700010203#64 x

def u32x4x2_shuffleLane (c : Nat) (x : BitVec 256) : BitVec 256 :=
  match c with
  | 1230 => _mm256_shuffle_epi32 x 0b10010011
  | 2301 => _mm256_shuffle_epi32 x 0b01001110
  | 3012 => _mm256_shuffle_epi32 x 0b00111001
  | _ => x

/-- `let f = _mm256_set1_epi8(-1); Self::new(f) ^ self` -/
def u32x4x2_not (x : BitVec 256) : BitVec 256 := _mm256_xor_si256 (_mm256_set1_epi8 0xff#8) x
def u32x4x2_extract (x : BitVec 256) (i : Nat) : BitVec 128 :=
  match i with
  | 0 => _mm256_extracti128_si256 x 0
  | 1 => _mm256_extracti128_si256 x 1
  | _ => 0
def u32x4x2_insert (x : BitVec 256) (w : BitVec 128) (i : Nat) : BitVec 256 :=
  match i with
  | 0 => _mm256_inserti128_si256 x w 0
  | 1 => _mm256_inserti128_si256 x w 1
  | _ => x
def u32x4x2_toLanes (x : BitVec 256) : List (BitVec 128) :=
  [_mm256_extracti128_si256 x 0, _mm256_extracti128_si256 x 1]
def u32x4x2_fromLanes (xs : List (BitVec 128)) : BitVec 256 :=
  _mm256_setr_m128i (xs.getD 0 0) (xs.getD 1 0)

/-- `u32x4x2_avx2<NI>` -/
def u32x4x2 : VOps 256 128 where
  add := _mm256_add_epi32
  xor := _mm256_xor_si256
  and := _mm256_and_si256
  or := _mm256_or_si256
  andnot := _mm256_andnot_si256
  not := u32x4x2_not
  rotr := u32x4x2_rotr
  shuffle := fun _ x => x
  shuffleLane := u32x4x2_shuffleLane
  swap := fun _ x => x
  bswap := u32x4x2_bswap
  extract := u32x4x2_extract
  insert := u32x4x2_insert
  toLanes := u32x4x2_toLanes
  fromLanes := u32x4x2_fromLanes
  readLe := _mm256_loadu_si256
  readBe := fun bs => u32x4x2_bswap (_mm256_loadu_si256 bs)
  writeLe := _mm256_storeu_si256
  writeBe := fun x => _mm256_storeu_si256 (u32x4x2_bswap x)

def u32x4x4_extract (v : BitVec 512) (i : Nat) : BitVec 128 :=
  match i with
  | 0 => u32x4x2_extract (Soft.lo256 v) 0
  | 1 => u32x4x2_extract (Soft.lo256 v) 1
  | 2 => u32x4x2_extract (Soft.hi256 v) 0
  | 3 => u32x4x2_extract (Soft.hi256 v) 1
  | _ => 0
/-- `0 | 1 => [self.0[0].insert(w, i), self.0[1]]`, `2 | 3 => [self.0[0], self.0[1].insert(w, i - 2)]` -/
def u32x4x4_insert (v : BitVec 512) (w : BitVec 128) (i : Nat) : BitVec 512 :=
  match i with
  | 0 => Soft.pack512w (u32x4x2_insert (Soft.lo256 v) w 0) (Soft.hi256 v)
  | 1 => Soft.pack512w (u32x4x2_insert (Soft.lo256 v) w 1) (Soft.hi256 v)
  | 2 => Soft.pack512w (Soft.lo256 v) (u32x4x2_insert (Soft.hi256 v) w (2 - 2))
  | 3 => Soft.pack512w (Soft.lo256 v) (u32x4x2_insert (Soft.hi256 v) w (3 - 2))
  | _ => v
def u32x4x4_toLanes (v : BitVec 512) : List (BitVec 128) :=
  u32x4x2_toLanes (Soft.lo256 v) ++ u32x4x2_toLanes (Soft.hi256 v)
def u32x4x4_fromLanes (xs : List (BitVec 128)) : BitVec 512 :=
  Soft.pack512w (u32x4x2_fromLanes [xs.getD 0 0, xs.getD 1 0])
                (u32x4x2_fromLanes [xs.getD 2 0, xs.getD 3 0])

/-- `u32x4x4_avx2<NI> = x2<u32x4x2_avx2<NI>, G0>`: word-wise ops, `BSwap`, `StoreBytes`,
    `LaneWords4` come from the generic `x2` impls; `MultiLane<[u32x4;4]>` and `Vec4<u32x4>`
    are specialised. -/
def u32x4x4 : VOps 512 128 :=
  let X := Soft.x2w u32x4x2
  { add := X.add, xor := X.xor, and := X.and, or := X.or, andnot := X.andnot, not := X.not,
    rotr := X.rotr, shuffle := X.shuffle, shuffleLane := X.shuffleLane, swap := X.swap,
    bswap := X.bswap,
    readLe := X.readLe, readBe := X.readBe, writeLe := X.writeLe, writeBe := X.writeBe,
    extract := u32x4x4_extract,
    insert := u32x4x4_insert,
    toLanes := u32x4x4_toLanes,
    fromLanes := u32x4x4_fromLanes }

/-- `impl Vec4Ext for u32x4x4_avx2`: `transpose4` -/
def transpose4 (a b c d : BitVec 512) : BitVec 512 × BitVec 512 × BitVec 512 × BitVec 512 :=
  let a0 := Soft.lo256 a; let a1 := Soft.hi256 a
  let b0 := Soft.lo256 b; let b1 := Soft.hi256 b
  let c0 := Soft.lo256 c; let c1 := Soft.hi256 c
  let d0 := Soft.lo256 d; let d1 := Soft.hi256 d
  let ab00 := _mm256_permute2x128_si256 a0 b0 0x20
  let ab01 := _mm256_permute2x128_si256 a0 b0 0x31
  let ab10 := _mm256_permute2x128_si256 a1 b1 0x20
  let ab11 := _mm256_permute2x128_si256 a1 b1 0x31
  let cd00 := _mm256_permute2x128_si256 c0 d0 0x20
  let cd01 := _mm256_permute2x128_si256 c0 d0 0x31
  let cd10 := _mm256_permute2x128_si256 c1 d1 0x20
  let cd11 := _mm256_permute2x128_si256 c1 d1 0x31
  (Soft.pack512w ab00 cd00, Soft.pack512w ab01 cd01, Soft.pack512w ab10 cd10, Soft.pack512w ab11 cd11)

end CC.Simd.Impl.Avx2
