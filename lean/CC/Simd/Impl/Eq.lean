/-
  CC.Simd.Impl.Eq — hand transcription of the EQUALITY implementations of ppv-lite86 (`PartialEq`):

    x86_64/sse2.rs   `eq128_s2` (pcmpeqd, psrldq 8, two movq, `(p & q) == -1`), `eq128_s4` (pcmpeqq, pshufd 0b11000110,
                     movq, `== -1`; `#[allow(unused)]`: no impl calls it), `impl PartialEq for u32x4_sse2 / u64x2_sse2`
                     (both call `eq128_s2`, whatever S3 / S4 / NI), `impl<W: PartialEq, G> PartialEq for x2<W, G>`
                     (`self.0[0] == rhs.0[0] && self.0[1] == rhs.0[1]`).  `u128x1_sse2`, `x4<W>`, `u32x4x2_avx2` and
                     `u32x4x4_avx2 = x2<u32x4x2_avx2, G0>` have NO `PartialEq`.
    x86_64/mod.rs    `vec128_storage` (`self.u128x1 == rhs.u128x1`), `vec256_storage` (`self.sse2 == rhs.sse2`: two
                     `vec128_storage` comparisons), `vec512_storage` (`self.avx == rhs.avx`: two `vec256_storage` comparisons)
    generic.rs       `vec128_storage` (`self.q == rhs.q`), derived `PartialEq` of `vec256_storage`, `vec512_storage`
                     (`[vec128_storage; 2 / 4]`), `u32x4_generic` / `u64x2_generic` / `u128x1_generic` (arrays of words).
                     In a build without the x86 module `x2<W, G>` has no `PartialEq` (its impl lives in x86_64/sse2.rs).

  Import-free of proofs, so that the driver links (`simd <backend> <type> eq <a> <b>`).  Tied to the source by
  lean/CC/Simd/SrcEq.lean, where `veq … = true ↔ a = b` is proved for every entry of `veq`.
-/
import CC.X86.Intrin
import CC.Simd.VOps
import CC.Simd.Impl.Soft
namespace CC.Simd.Impl
open CC.X86

namespace X86

def eq128_s2 (x y : BitVec 128) : Bool :=
  let q := _mm_cmpeq_epi32 x y
  let p := _mm_cvtsi128_si64 (_mm_srli_si128 q 8)
  let q := _mm_cvtsi128_si64 q
  (p &&& q) == 0xffffffffffffffff#64

def eq128_s4 (x y : BitVec 128) : Bool :=
  let q := _mm_shuffle_epi32 (_mm_cmpeq_epi64 x y) 0b11000110
  _mm_cvtsi128_si64 q == 0xffffffffffffffff#64

/-- `impl<S3, S4, NI> PartialEq for u32x4_sse2<S3, S4, NI>` -/
def u32x4_veq (a b : BitVec 128) : Bool := eq128_s2 a b
/-- `impl<S3, S4, NI> PartialEq for u64x2_sse2<S3, S4, NI>` -/
def u64x2_veq (a b : BitVec 128) : Bool := eq128_s2 a b

/-- mod.rs `vec128_storage`: `self.u128x1 == rhs.u128x1` (`[u128; 1]`) -/
def storage128_veq (a b : BitVec 128) : Bool := a == b
/-- mod.rs `vec256_storage`: `self.sse2 == rhs.sse2` (`[vec128_storage; 2]`) -/
def storage256_veq (a b : BitVec 256) : Bool :=
  storage128_veq (lo128 a) (lo128 b) && storage128_veq (hi128 a) (hi128 b)
/-- mod.rs `vec512_storage`: `self.avx == rhs.avx` (`[vec256_storage; 2]`) -/
def storage512_veq (a b : BitVec 512) : Bool :=
  storage256_veq (Soft.lo256 a) (Soft.lo256 b) && storage256_veq (Soft.hi256 a) (Soft.hi256 b)

end X86

namespace Soft
/-- `impl<W: PartialEq, G> PartialEq for x2<W, G>` (x86_64/sse2.rs) over a 128-bit `W` -/
def x2_veq (weq : BitVec 128 → BitVec 128 → Bool) (a b : BitVec 256) : Bool :=
  weq (lo128 a) (lo128 b) && weq (hi128 a) (hi128 b)
end Soft

namespace Generic

/-- `#[derive(PartialEq)] struct u32x4_generic([u32; 4])` -/
def u32x4_veq (a b : BitVec 128) : Bool :=
  lane32 a 0 == lane32 b 0 && lane32 a 1 == lane32 b 1 && lane32 a 2 == lane32 b 2 && lane32 a 3 == lane32 b 3
/-- `#[derive(PartialEq)] struct u64x2_generic([u64; 2])` -/
def u64x2_veq (a b : BitVec 128) : Bool := lane64 a 0 == lane64 b 0 && lane64 a 1 == lane64 b 1
/-- `#[derive(PartialEq)] struct u128x1_generic([u128; 1])` -/
def u128x1_veq (a b : BitVec 128) : Bool := a.extractLsb' 0 128 == b.extractLsb' 0 128
/-- generic.rs `vec128_storage`: `self.q == rhs.q` (`[u64; 2]`) -/
def storage128_veq (a b : BitVec 128) : Bool := lane64 a 0 == lane64 b 0 && lane64 a 1 == lane64 b 1
/-- `#[derive(PartialEq)] struct vec256_storage { v128: [vec128_storage; 2] }` -/
def storage256_veq (a b : BitVec 256) : Bool :=
  storage128_veq (lo128 a) (lo128 b) && storage128_veq (hi128 a) (hi128 b)
/-- `#[derive(PartialEq)] struct vec512_storage { v128: [vec128_storage; 4] }` -/
def storage512_veq (a b : BitVec 512) : Bool :=
  storage128_veq (q128 a 0) (q128 b 0) && storage128_veq (q128 a 1) (q128 b 1) &&
  storage128_veq (q128 a 2) (q128 b 2) && storage128_veq (q128 a 3) (q128 b 3)

end Generic
end CC.Simd.Impl

namespace CC.Simd
open Impl

/-- what can be compared with `==`: the ten vector types of `trait Machine` and the three storage types -/
inductive EqTy where
  | vec (τ : Ty) | storage128 | storage256 | storage512
  deriving DecidableEq, Repr

def EqTy.bits : EqTy → Nat
  | .vec τ => τ.bits | .storage128 => 128 | .storage256 => 256 | .storage512 => 512

def EqTy.all : List EqTy := Ty.all.map .vec ++ [.storage128, .storage256, .storage512]

def EqTy.ofName (s : String) : Option EqTy :=
  match s with
  | "vec128_storage" => some .storage128
  | "vec256_storage" => some .storage256
  | "vec512_storage" => some .storage512
  | _ => (Ty.ofName s).map .vec

/-- `==` of the Rust type that backend `b` uses for `t` (`impl Machine for …`: `CC.Simd.impl`), `none` where that Rust
    type has no `PartialEq`:  x86 machines — `u32x4`, `u64x2` = `u32x4_sse2`, `u64x2_sse2`; `u32x4x2`, `u64x2x2`, `u64x4`
    = `x2<…>` of those, except `u32x4x2` on AVX2 (`u32x4x2_avx2`: none); `u128x1_sse2` and every `x4<…>`: none.
    Portable machine — the three 128-bit types (derived); `x2` / `x4`: none. -/
def veq (b : Backend) : (t : EqTy) → Option (BitVec t.bits → BitVec t.bits → Bool)
  | .storage128 => some (match b with | .generic => Generic.storage128_veq | _ => X86.storage128_veq)
  | .storage256 => some (match b with | .generic => Generic.storage256_veq | _ => X86.storage256_veq)
  | .storage512 => some (match b with | .generic => Generic.storage512_veq | _ => X86.storage512_veq)
  | .vec .u32x4 => some (match b with | .generic => Generic.u32x4_veq | _ => X86.u32x4_veq)
  | .vec .u64x2 => some (match b with | .generic => Generic.u64x2_veq | _ => X86.u64x2_veq)
  | .vec .u128x1 => match b with | .generic => some Generic.u128x1_veq | _ => none
  | .vec .u32x4x2 => match b with
    | .generic | .avx2 => none
    | _ => some (Soft.x2_veq X86.u32x4_veq)
  | .vec .u64x2x2 => match b with | .generic => none | _ => some (Soft.x2_veq X86.u64x2_veq)
  | .vec .u64x4 => match b with | .generic => none | _ => some (Soft.x2_veq X86.u64x2_veq)
  | .vec .u128x2 | .vec .u32x4x4 | .vec .u64x2x4 | .vec .u128x4 => none

end CC.Simd
