/-
  CC.Simd.Impl.Generic — transcription of `ppv-lite86/src/generic.rs` (the portable backend,
  `GenericMachine`): `u32x4_generic([u32;4])`, `u64x2_generic([u64;2])`, `u128x1_generic([u128;1])`,
  the helpers `dmap/dmap2/qmap/qmap2/omap/omap2`, `o_of_q/q_of_o`, `rotate_u128_right`, and the
  `u64x4_generic = x2<u64x2_generic, G1>` specialisations (`MultiLane<[u64;4]>`, `Vec4<u64>`,
  `Words4`).

  Carrier: the 16 storage bytes read little-endian (the host is little-endian; `to_le()` is the
  identity, `to_be()` is `swap_bytes()`), i.e. word `i` of the array in bits `[w·i, w·(i+1))`.
  `vec128_storage { d }` / `{ q }` are two views of the same 16 bytes, so `dmap` on a value that
  was built through `q` (e.g. `swap16` on `u64x2_generic`) reinterprets exactly as the carrier does;
  `q_of_o`/`o_of_q` (`u128` ↔ `[u64;2]`, low half first) are the identity on the carrier.
-/
import CC.Simd.VOps
import CC.Simd.Impl.Soft
namespace CC.Simd.Impl.Generic

/-- `dmap(t, f)`: `d: [f(d[0]), f(d[1]), f(d[2]), f(d[3])]` -/
def dmap (f : BitVec 32 → BitVec 32) (t : BitVec 128) : BitVec 128 :=
  pack32 (f (lane32 t 0)) (f (lane32 t 1)) (f (lane32 t 2)) (f (lane32 t 3))
def dmap2 (f : BitVec 32 → BitVec 32 → BitVec 32) (a b : BitVec 128) : BitVec 128 :=
  pack32 (f (lane32 a 0) (lane32 b 0)) (f (lane32 a 1) (lane32 b 1))
         (f (lane32 a 2) (lane32 b 2)) (f (lane32 a 3) (lane32 b 3))
/-- `qmap(t, f)`: `q: [f(q[0]), f(q[1])]` -/
def qmap (f : BitVec 64 → BitVec 64) (t : BitVec 128) : BitVec 128 :=
  pack64 (f (lane64 t 0)) (f (lane64 t 1))
def qmap2 (f : BitVec 64 → BitVec 64 → BitVec 64) (a b : BitVec 128) : BitVec 128 :=
  pack64 (f (lane64 a 0) (lane64 b 0)) (f (lane64 a 1) (lane64 b 1))
/-- `o_of_q(q) = u128::from(q[0]) | (u128::from(q[1]) << 64)` -/
def o_of_q (q0 q1 : BitVec 64) : BitVec 128 := q0.setWidth 128 ||| (q1.setWidth 128 <<< 64)
/-- `q_of_o(o) = [o as u64, (o >> 64) as u64]`, repacked -/
def q_of_o (o : BitVec 128) : BitVec 128 := pack64 (o.setWidth 64) ((o >>> 64).setWidth 64)
/-- `omap(a, f)`: `q_of_o(f(o_of_q(a.q)))` -/
def omap (f : BitVec 128 → BitVec 128) (a : BitVec 128) : BitVec 128 :=
  q_of_o (f (o_of_q (lane64 a 0) (lane64 a 1)))
def omap2 (f : BitVec 128 → BitVec 128 → BitVec 128) (a b : BitVec 128) : BitVec 128 :=
  q_of_o (f (o_of_q (lane64 a 0) (lane64 a 1)) (o_of_q (lane64 b 0) (lane64 b 1)))

/-- `u32::swap_bytes` / `u64::swap_bytes` / `u128::swap_bytes` -/
def swapBytes32 (x : BitVec 32) : BitVec 32 :=
  x.extractLsb' 0 8 ++ x.extractLsb' 8 8 ++ x.extractLsb' 16 8 ++ x.extractLsb' 24 8
def swapBytes64 (x : BitVec 64) : BitVec 64 :=
  x.extractLsb' 0 8 ++ x.extractLsb' 8 8 ++ x.extractLsb' 16 8 ++ x.extractLsb' 24 8 ++
  x.extractLsb' 32 8 ++ x.extractLsb' 40 8 ++ x.extractLsb' 48 8 ++ x.extractLsb' 56 8
def swapBytes128 (x : BitVec 128) : BitVec 128 :=
  swapBytes64 (x.extractLsb' 0 64) ++ swapBytes64 (x.extractLsb' 64 64)

/-- `rotate_u128_right(x, i) = (x >> i) | (x << (128 - i))` -/
def rotate_u128_right (x : BitVec 128) (i : Nat) : BitVec 128 := (x >>> i) ||| (x <<< (128 - i))

/-! ### `impl_bitops!($vec)` — identical for the three 128-bit types -/

def vnot (x : BitVec 128) : BitVec 128 := omap (fun x => ~~~x) x
def vand (a b : BitVec 128) : BitVec 128 := omap2 (fun x y => x &&& y) a b
def vor (a b : BitVec 128) : BitVec 128 := omap2 (fun x y => x ||| y) a b
def vxor (a b : BitVec 128) : BitVec 128 := omap2 (fun x y => x ^^^ y) a b
def vandnot (a b : BitVec 128) : BitVec 128 := omap2 (fun x y => ~~~x &&& y) a b

/-- `impl Swap64 for $vec` -/
def vswap (k : Nat) (v : BitVec 128) : BitVec 128 :=
  match k with
  | 1 => qmap (fun x => ((x &&& 0x5555555555555555#64) <<< 1) ||| ((x &&& 0xaaaaaaaaaaaaaaaa#64) >>> 1)) v
  | 2 => qmap (fun x => ((x &&& 0x3333333333333333#64) <<< 2) ||| ((x &&& 0xcccccccccccccccc#64) >>> 2)) v
  | 4 => qmap (fun x => ((x &&& 0x0f0f0f0f0f0f0f0f#64) <<< 4) ||| ((x &&& 0xf0f0f0f0f0f0f0f0#64) >>> 4)) v
  | 8 => qmap (fun x => ((x &&& 0x00ff00ff00ff00ff#64) <<< 8) ||| ((x &&& 0xff00ff00ff00ff00#64) >>> 8)) v
  | 16 => dmap (fun x => x.rotateLeft 16) v
  | 32 => qmap (fun x => x.rotateLeft 32) v
  | 64 => omap (fun x => (x <<< 64) ||| (x >>> 64)) v
  | _ => v

/-! ### rotations -/

def u32x4_rotr (k : Nat) (v : BitVec 128) : BitVec 128 :=
  match k with
  | 7 => dmap (·.rotateRight 7) v
  | 8 => dmap (·.rotateRight 8) v
  | 11 => dmap (·.rotateRight 11) v
  | 12 => dmap (·.rotateRight 12) v
  | 16 => dmap (·.rotateRight 16) v
  | 20 => dmap (·.rotateRight 20) v
  | 24 => dmap (·.rotateRight 24) v
  | 25 => dmap (·.rotateRight 25) v
  | _ => v

def u64x2_rotr (k : Nat) (v : BitVec 128) : BitVec 128 :=
  match k with
  | 7 => qmap (·.rotateRight 7) v
  | 8 => qmap (·.rotateRight 8) v
  | 11 => qmap (·.rotateRight 11) v
  | 12 => qmap (·.rotateRight 12) v
  | 16 => qmap (·.rotateRight 16) v
  | 20 => qmap (·.rotateRight 20) v
  | 24 => qmap (·.rotateRight 24) v
  | 25 => qmap (·.rotateRight 25) v
  | 32 => qmap (·.rotateRight 32) v
  | _ => v

def u128x1_rotr (k : Nat) (v : BitVec 128) : BitVec 128 :=
  match k with
  | 7 => rotate_u128_right v 7
  | 8 => rotate_u128_right v 8
  | 11 => rotate_u128_right v 11
  | 12 => rotate_u128_right v 12
  | 16 => rotate_u128_right v 16
  | 20 => rotate_u128_right v 20
  | 24 => rotate_u128_right v 24
  | 25 => rotate_u128_right v 25
  | 32 => rotate_u128_right v 32
  | _ => v

/-! ### `Words4 for u32x4_generic` -/

def u32x4_shuffle (c : Nat) (v : BitVec 128) : BitVec 128 :=
  match c with
  | 2301 => vswap 64 v                                            -- `self.swap64()`
  | 1230 => pack32 (lane32 v 3) (lane32 v 0) (lane32 v 1) (lane32 v 2)   -- `[x[3], x[0], x[1], x[2]]`
  | 3012 => pack32 (lane32 v 1) (lane32 v 2) (lane32 v 3) (lane32 v 0)   -- `[x[1], x[2], x[3], x[0]]`
  | _ => v

/-! ### `StoreBytes` (`read_from_bytes` is a native-endian, i.e. little-endian, copy) -/

def readWords32 (bs : List (BitVec 8)) : BitVec 128 :=
  pack32 (read32le bs) (read32le (bs.drop 4)) (read32le (bs.drop 8)) (read32le (bs.drop 12))
def readWords64 (bs : List (BitVec 8)) : BitVec 128 :=
  pack64 (read64le bs) (read64le (bs.drop 8))
def writeWords32 (v : BitVec 128) : List (BitVec 8) :=
  toLe32 (lane32 v 0) ++ toLe32 (lane32 v 1) ++ toLe32 (lane32 v 2) ++ toLe32 (lane32 v 3)
def writeWords64 (v : BitVec 128) : List (BitVec 8) :=
  toLe64 (lane64 v 0) ++ toLe64 (lane64 v 1)

/-! ### `Vec4<u32>` / `Vec2<u64>` / `MultiLane` (plain array access) -/

/-- `self.0[i as usize] = v` -/
def u32x4_insert (v : BitVec 128) (w : BitVec 32) (i : Nat) : BitVec 128 :=
  pack32 (if i = 0 then w else lane32 v 0) (if i = 1 then w else lane32 v 1)
         (if i = 2 then w else lane32 v 2) (if i = 3 then w else lane32 v 3)
def u64x2_insert (v : BitVec 128) (w : BitVec 64) (i : Nat) : BitVec 128 :=
  pack64 (if i = 0 then w else lane64 v 0) (if i = 1 then w else lane64 v 1)
def u32x4_toLanes (v : BitVec 128) : List (BitVec 32) := [lane32 v 0, lane32 v 1, lane32 v 2, lane32 v 3]
def u32x4_fromLanes (xs : List (BitVec 32)) : BitVec 128 :=
  pack32 (xs.getD 0 0) (xs.getD 1 0) (xs.getD 2 0) (xs.getD 3 0)
def u64x2_toLanes (v : BitVec 128) : List (BitVec 64) := [lane64 v 0, lane64 v 1]
def u64x2_fromLanes (xs : List (BitVec 64)) : BitVec 128 := pack64 (xs.getD 0 0) (xs.getD 1 0)

/-! ### the three records -/

def u32x4 : VOps 128 32 where
  add := dmap2 (fun x y => x + y)                   -- `x.wrapping_add(y)`
  xor := vxor
  and := vand
  or := vor
  andnot := vandnot
  not := vnot
  rotr := u32x4_rotr
  shuffle := u32x4_shuffle
  shuffleLane := u32x4_shuffle
  swap := vswap
  bswap := dmap swapBytes32
  extract := fun v i => lane32 v i                  -- `self.0[i as usize]`
  insert := u32x4_insert
  toLanes := u32x4_toLanes
  fromLanes := u32x4_fromLanes
  readLe := fun bs => dmap (fun x => x) (readWords32 bs)          -- `x.to_le()`
  readBe := fun bs => dmap swapBytes32 (readWords32 bs)           -- `x.to_be()`
  writeLe := fun v => writeWords32 (dmap (fun x => x) v)
  writeBe := fun v => writeWords32 (dmap swapBytes32 v)

def u64x2 : VOps 128 64 where
  add := qmap2 (fun x y => x + y)
  xor := vxor
  and := vand
  or := vor
  andnot := vandnot
  not := vnot
  rotr := u64x2_rotr
  shuffle := fun _ v => v
  shuffleLane := fun _ v => v
  swap := vswap
  bswap := qmap swapBytes64
  extract := fun v i => lane64 v i
  insert := u64x2_insert
  toLanes := u64x2_toLanes
  fromLanes := u64x2_fromLanes
  readLe := fun bs => qmap (fun x => x) (readWords64 bs)
  readBe := fun bs => qmap swapBytes64 (readWords64 bs)
  writeLe := fun v => writeWords64 (qmap (fun x => x) v)
  writeBe := fun v => writeWords64 (qmap swapBytes64 v)

def u128x1 : VOps 128 128 where
  add := omap2 (fun x y => x + y)
  xor := vxor
  and := vand
  or := vor
  andnot := vandnot
  not := vnot
  rotr := u128x1_rotr
  shuffle := fun _ v => v
  shuffleLane := fun _ v => v
  swap := vswap
  bswap := omap swapBytes128
  extract := fun v _ => v
  insert := fun v _ _ => v
  toLanes := fun v => [v]
  fromLanes := fun xs => xs.getD 0 0
  readLe := fun _ => 0          -- no `StoreBytes for u128x1_generic`
  readBe := fun _ => 0
  writeLe := fun _ => []
  writeBe := fun _ => []

/-! ### `u64x4_generic = x2<u64x2_generic, G1>` -/

/-- `MultiLane<[u64;4]>::to_lanes`: `[a[0], a[1], b[0], b[1]]` with `a, b = self.0[k].to_lanes()` -/
def u64x4_toLanes (v : BitVec 256) : List (BitVec 64) :=
  u64x2_toLanes (lo128 v) ++ u64x2_toLanes (hi128 v)
def u64x4_fromLanes (xs : List (BitVec 64)) : BitVec 256 :=
  pack256 (u64x2_fromLanes [xs.getD 0 0, xs.getD 1 0]) (u64x2_fromLanes [xs.getD 2 0, xs.getD 3 0])

/-- `Words4 for u64x4_generic` -/
def u64x4_shuffle (c : Nat) (v : BitVec 256) : BitVec 256 :=
  match c with
  | 2301 => pack256 (hi128 v) (lo128 v)             -- `x2::new([self.0[1], self.0[0]])`
  | 1230 =>
    let l := u64x4_toLanes v                         -- `let [a, b, c, d] = self.to_lanes()`
    u64x4_fromLanes [l.getD 3 0, l.getD 0 0, l.getD 1 0, l.getD 2 0]   -- `from_lanes([d, a, b, c])`
  | 3012 =>
    let l := u64x4_toLanes v
    u64x4_fromLanes [l.getD 1 0, l.getD 2 0, l.getD 3 0, l.getD 0 0]   -- `from_lanes([b, c, d, a])`
  | _ => v

/-- `let d: [u64; 4] = self.to_lanes(); d[i as usize]` -/
def u64x4_extract (v : BitVec 256) (i : Nat) : BitVec 64 := (u64x4_toLanes v).getD i 0
/-- `self.0[(i / 2) as usize] = self.0[(i / 2) as usize].insert(v, i % 2)` -/
def u64x4_insert (v : BitVec 256) (w : BitVec 64) (i : Nat) : BitVec 256 :=
  if i / 2 = 0 then pack256 (u64x2_insert (lo128 v) w (i % 2)) (hi128 v)
  else pack256 (lo128 v) (u64x2_insert (hi128 v) w (i % 2))

def u64x4 : VOps 256 64 :=
  let X := Soft.x2 u64x2
  { add := X.add, xor := X.xor, and := X.and, or := X.or, andnot := X.andnot, not := X.not,
    rotr := X.rotr, shuffleLane := X.shuffleLane, swap := X.swap, bswap := X.bswap,
    readLe := X.readLe, readBe := X.readBe, writeLe := X.writeLe, writeBe := X.writeBe,
    shuffle := u64x4_shuffle,
    extract := u64x4_extract,
    insert := u64x4_insert,
    toLanes := u64x4_toLanes,
    fromLanes := u64x4_fromLanes }

/-- `Vector<[u32;16]> for u32x4x4_generic` -/
def toScalars (v : BitVec 512) : List (BitVec 32) :=
  u32x4_toLanes (q128 v 0) ++ u32x4_toLanes (q128 v 1) ++ u32x4_toLanes (q128 v 2) ++ u32x4_toLanes (q128 v 3)

end CC.Simd.Impl.Generic
