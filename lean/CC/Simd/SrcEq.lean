/-
  CC.Simd.SrcEq — the EQUALITY implementations of ppv-lite86 (`PartialEq` of the vector and storage types; C13, C15).

  1. SOURCE TIE (`CC.Src.EqTie`, `src_eq`): every definition that tools/inventory_simdeq.py regenerates from
     x86_64/sse2.rs, x86_64/mod.rs, generic.rs (and the derive lists of soft.rs, chacha/guts.rs) into `CC.Gen.SimdEqSrc`
     equals the hand-written model `CC.Simd.Impl.{X86, Soft, Generic}.*veq` (lean/CC/Simd/Impl/Eq.lean) — `rfl`; the lists
     of types with / without `PartialEq` and of derive lists are the ones the model's table `CC.Simd.veq` assumes.
  2. THEOREMS: for every backend and every type that has `==`, `veq a b = true ↔ a = b` on the storage bits
     (`bv_decide` for the 128-bit leaves — the two intrinsic sequences `eq128_s2`, `eq128_s4` and the word-wise
     comparisons —, lifting through `x2` and the 256 / 512-bit storage types): `CC.Simd.veq_is_equality`.
-/
import Std.Tactic.BVDecide
import CC.Gen.SimdEqSrc
import CC.Simd.Impl.Eq
namespace CC.Simd
open CC.X86 Impl

/-! ## leaves -/

theorem eq128_s2_iff (x y : BitVec 128) : X86.eq128_s2 x y = true ↔ x = y := by
  simp only [X86.eq128_s2, _mm_cmpeq_epi32, _mm_srli_si128, _mm_cvtsi128_si64, mk32, d32, Nat.reduceMod, Nat.reduceMul,
    Nat.reduceGT, ↓reduceIte]
  constructor
  · intro h; bv_decide
  · rintro rfl; bv_decide

theorem eq128_s4_iff (x y : BitVec 128) : X86.eq128_s4 x y = true ↔ x = y := by
  simp only [X86.eq128_s4, _mm_cmpeq_epi64, _mm_shuffle_epi32, _mm_cvtsi128_si64, mk64, mk32, d32, q64, Nat.reduceMod,
    Nat.reduceMul, Nat.reduceDiv, Nat.reducePow]
  constructor
  · intro h; bv_decide
  · rintro rfl; bv_decide

theorem beq128_iff (x y : BitVec 128) : (x == y) = true ↔ x = y := by simp

theorem generic_u32x4_iff (x y : BitVec 128) : Generic.u32x4_veq x y = true ↔ x = y := by
  simp only [Generic.u32x4_veq, lane32, Bool.and_eq_true, beq_iff_eq]
  constructor
  · intro h; bv_decide
  · rintro rfl; simp

theorem generic_u64x2_iff (x y : BitVec 128) : Generic.u64x2_veq x y = true ↔ x = y := by
  simp only [Generic.u64x2_veq, lane64, Bool.and_eq_true, beq_iff_eq]
  constructor
  · intro h; bv_decide
  · rintro rfl; simp

theorem generic_u128x1_iff (x y : BitVec 128) : Generic.u128x1_veq x y = true ↔ x = y := by
  simp only [Generic.u128x1_veq, beq_iff_eq]
  constructor
  · intro h; bv_decide
  · rintro rfl; rfl

theorem generic_storage128_iff (x y : BitVec 128) : Generic.storage128_veq x y = true ↔ x = y :=
  generic_u64x2_iff x y

/-! ## lifting -/

theorem halves256 (a b : BitVec 256) : (lo128 a = lo128 b ∧ hi128 a = hi128 b) ↔ a = b := by
  simp only [lo128, hi128]
  constructor
  · intro h; bv_decide
  · rintro rfl; exact ⟨rfl, rfl⟩

theorem halves512 (a b : BitVec 512) : (Soft.lo256 a = Soft.lo256 b ∧ Soft.hi256 a = Soft.hi256 b) ↔ a = b := by
  simp only [Soft.lo256, Soft.hi256]
  constructor
  · intro h; bv_decide
  · rintro rfl; exact ⟨rfl, rfl⟩

theorem quarters512 (a b : BitVec 512) :
    (q128 a 0 = q128 b 0 ∧ q128 a 1 = q128 b 1 ∧ q128 a 2 = q128 b 2 ∧ q128 a 3 = q128 b 3) ↔ a = b := by
  simp only [q128]
  constructor
  · intro h; bv_decide
  · rintro rfl; exact ⟨rfl, rfl, rfl, rfl⟩

/-- `x2<W, G>`: if `W`'s `==` is equality, so is `x2`'s -/
theorem x2_veq_iff (weq : BitVec 128 → BitVec 128 → Bool) (hw : ∀ x y, weq x y = true ↔ x = y) (a b : BitVec 256) :
    Soft.x2_veq weq a b = true ↔ a = b := by
  simp only [Soft.x2_veq, Bool.and_eq_true, hw]; exact halves256 a b

theorem x86_storage128_iff (x y : BitVec 128) : X86.storage128_veq x y = true ↔ x = y := beq128_iff x y

theorem x86_storage256_iff (a b : BitVec 256) : X86.storage256_veq a b = true ↔ a = b := by
  simp only [X86.storage256_veq, Bool.and_eq_true, x86_storage128_iff]; exact halves256 a b

theorem x86_storage512_iff (a b : BitVec 512) : X86.storage512_veq a b = true ↔ a = b := by
  simp only [X86.storage512_veq, Bool.and_eq_true, x86_storage256_iff]; exact halves512 a b

theorem generic_storage256_iff (a b : BitVec 256) : Generic.storage256_veq a b = true ↔ a = b := by
  simp only [Generic.storage256_veq, Bool.and_eq_true, generic_storage128_iff]; exact halves256 a b

theorem generic_storage512_iff (a b : BitVec 512) : Generic.storage512_veq a b = true ↔ a = b := by
  constructor
  · intro h
    simp only [Generic.storage512_veq, Bool.and_eq_true, generic_storage128_iff] at h
    obtain ⟨⟨⟨h0, h1⟩, h2⟩, h3⟩ := h
    exact (quarters512 a b).1 ⟨h0, h1, h2, h3⟩
  · rintro rfl
    have r : ∀ x : BitVec 128, Generic.storage128_veq x x = true := fun x => (generic_storage128_iff x x).2 rfl
    simp only [Generic.storage512_veq, r, Bool.and_self]

/-- `veq b t`, where defined, is equality (the form the case analysis proves) -/
theorem veq_spec (b : Backend) (t : EqTy) :
    match veq b t with
    | some f => ∀ x y, f x y = true ↔ x = y
    | none => True := by
  cases t with
  | storage128 => cases b <;> first | exact generic_storage128_iff | exact x86_storage128_iff
  | storage256 => cases b <;> first | exact generic_storage256_iff | exact x86_storage256_iff
  | storage512 => cases b <;> first | exact generic_storage512_iff | exact x86_storage512_iff
  | vec τ =>
    cases τ with
    | u32x4 => cases b <;> first | exact generic_u32x4_iff | exact eq128_s2_iff
    | u64x2 => cases b <;> first | exact generic_u64x2_iff | exact eq128_s2_iff
    | u128x1 => cases b <;> first | exact generic_u128x1_iff | exact True.intro
    | u32x4x2 => cases b <;> first | exact True.intro | exact x2_veq_iff _ eq128_s2_iff
    | u64x2x2 => cases b <;> first | exact True.intro | exact x2_veq_iff _ eq128_s2_iff
    | u64x4 => cases b <;> first | exact True.intro | exact x2_veq_iff _ eq128_s2_iff
    | u128x2 => exact True.intro
    | u32x4x4 => exact True.intro
    | u64x2x4 => exact True.intro
    | u128x4 => exact True.intro

/-- **`==` is equality**, for every backend and every vector / storage type that has a `PartialEq`:
    the comparison the Rust performs returns `true` exactly when the two values have the same storage bits. -/
theorem veq_is_equality (b : Backend) (t : EqTy) (f : BitVec t.bits → BitVec t.bits → Bool) (h : veq b t = some f)
    (x y : BitVec t.bits) : f x y = true ↔ x = y := by
  have := veq_spec b t
  rw [h] at this
  exact this x y

/-- which (backend, type) pairs have `==` at all (every other pair: the Rust type has no `PartialEq`) -/
theorem veq_defined :
    Backend.all.map (fun b => EqTy.all.filter fun t => (veq b t).isSome) =
      [[.vec .u32x4, .vec .u64x2, .vec .u128x1, .storage128, .storage256, .storage512],
       [.vec .u32x4, .vec .u64x2, .vec .u32x4x2, .vec .u64x2x2, .vec .u64x4, .storage128, .storage256, .storage512],
       [.vec .u32x4, .vec .u64x2, .vec .u32x4x2, .vec .u64x2x2, .vec .u64x4, .storage128, .storage256, .storage512],
       [.vec .u32x4, .vec .u64x2, .vec .u32x4x2, .vec .u64x2x2, .vec .u64x4, .storage128, .storage256, .storage512],
       [.vec .u32x4, .vec .u64x2, .vec .u32x4x2, .vec .u64x2x2, .vec .u64x4, .storage128, .storage256, .storage512],
       [.vec .u32x4, .vec .u64x2, .vec .u64x2x2, .vec .u64x4, .storage128, .storage256, .storage512]] := by
  decide

end CC.Simd

namespace CC.Src
open CC.Simd CC.Simd.Impl CC.Gen

/-- **Source tie**: the equality implementations, as regenerated from the current source, are the model's. -/
structure EqTie : Prop where
  /-- nothing was left untranslated -/
  clean : SimdEqSrc.simdeq_errors = []
  /-- sse2.rs `eq128_s2`, `eq128_s4` -/
  eq128_s2 : X86.eq128_s2 = SimdEqSrc.eq128_s2
  eq128_s4 : X86.eq128_s4 = SimdEqSrc.eq128_s4
  /-- `impl PartialEq for u32x4_sse2 / u64x2_sse2` (the same under every flag combination: one definition each) -/
  u32x4 : X86.u32x4_veq = SimdEqSrc.u32x4_sse2_eq
  u64x2 : X86.u64x2_veq = SimdEqSrc.u64x2_sse2_eq
  /-- `impl PartialEq for x2<W, G>` at the three instances that have it -/
  u32x4x2 : Soft.x2_veq X86.u32x4_veq = SimdEqSrc.u32x4x2_sse2_eq
  u64x2x2 : Soft.x2_veq X86.u64x2_veq = SimdEqSrc.u64x2x2_sse2_eq
  u64x4 : Soft.x2_veq X86.u64x2_veq = SimdEqSrc.u64x4_sse2_eq
  /-- mod.rs storage unions -/
  storage128 : X86.storage128_veq = SimdEqSrc.vec128_storage_eq
  storage256 : X86.storage256_veq = SimdEqSrc.vec256_storage_eq
  storage512 : X86.storage512_veq = SimdEqSrc.vec512_storage_eq
  /-- generic.rs: the hand-written `vec128_storage::eq` (translated by inventory_simdport) and the derived ones -/
  g_storage128 : Generic.storage128_veq = SimdPortSrc.vec128_storage_eq
  g_storage256 : Generic.storage256_veq = SimdEqSrc.generic_vec256_storage_eq
  g_storage512 : Generic.storage512_veq = SimdEqSrc.generic_vec512_storage_eq
  g_u32x4 : Generic.u32x4_veq = SimdEqSrc.generic_u32x4_generic_eq
  g_u64x2 : Generic.u64x2_veq = SimdEqSrc.generic_u64x2_generic_eq
  g_u128x1 : Generic.u128x1_veq = SimdEqSrc.generic_u128x1_generic_eq
  /-- the x86 types with a `PartialEq` (and the definition that is it) / without one: what `CC.Simd.veq` assumes -/
  provided : SimdEqSrc.eq_provided_rows.map (fun r => (r.1, r.2.1)) =
    [("u32x4_sse2", "u32x4_sse2_eq"), ("u64x2_sse2", "u64x2_sse2_eq"), ("u32x4x2_sse2", "u32x4x2_sse2_eq"),
     ("u64x2x2_sse2", "u64x2x2_sse2_eq"), ("u64x4_sse2", "u64x4_sse2_eq"), ("vec128_storage", "vec128_storage_eq"),
     ("vec256_storage", "vec256_storage_eq"), ("vec512_storage", "vec512_storage_eq")]
  missing : SimdEqSrc.eq_missing_rows =
    ["u128x1_sse2", "u128x2_sse2", "u32x4x4_sse2", "u64x2x4_sse2", "u128x4_sse2", "u32x4x2_avx2", "u32x4x4_avx2"]
  /-- the derive lists of generic.rs / soft.rs / guts.rs (who derives `PartialEq`) -/
  derives : SimdEqSrc.derive_rows.filterMap (fun r => if r.2.2.2.contains "PartialEq" then some (r.1, r.2.1) else none) =
    [("generic", "vec256_storage"), ("generic", "vec512_storage"), ("generic", "u32x4_generic"), ("generic", "u64x2_generic"),
     ("generic", "u128x1_generic"), ("guts", "ChaCha"), ("guts", "State")]
  structs : SimdEqSrc.derive_rows.map (fun r => (r.1, r.2.1, r.2.2.1)) =
    [("generic", "vec128_storage", "union"), ("generic", "vec256_storage", "struct"), ("generic", "vec512_storage", "struct"),
     ("generic", "GenericMachine", "struct"), ("generic", "u32x4_generic", "struct"), ("generic", "u64x2_generic", "struct"),
     ("generic", "u128x1_generic", "struct"), ("generic", "G0", "struct"), ("generic", "G1", "struct"),
     ("soft", "x2", "struct"), ("soft", "x4", "struct"), ("guts", "ChaCha", "struct"), ("guts", "State", "struct")]
  /-- **the table `CC.Simd.veq` is the source's**: for every backend, `veq b τ` is the `==` of the Rust type the backend's
      `impl Machine` gives `type τ` (regenerated per machine and associated type), and `none` exactly where that type has
      no `PartialEq` (`eq_machine_rows`) -/
  mach_sse : ∀ b ∈ [Backend.sse2, .ssse3, .sse41, .avx],
    veq b (.vec .u32x4) = some SimdEqSrc.SseMachine_u32x4_eq ∧ veq b (.vec .u64x2) = some SimdEqSrc.SseMachine_u64x2_eq ∧
    veq b (.vec .u32x4x2) = some SimdEqSrc.SseMachine_u32x4x2_eq ∧ veq b (.vec .u64x2x2) = some SimdEqSrc.SseMachine_u64x2x2_eq ∧
    veq b (.vec .u64x4) = some SimdEqSrc.SseMachine_u64x4_eq ∧
    veq b .storage128 = some SimdEqSrc.vec128_storage_eq ∧ veq b .storage256 = some SimdEqSrc.vec256_storage_eq ∧
    veq b .storage512 = some SimdEqSrc.vec512_storage_eq
  mach_avx2 :
    veq .avx2 (.vec .u32x4) = some SimdEqSrc.Avx2Machine_u32x4_eq ∧ veq .avx2 (.vec .u64x2) = some SimdEqSrc.Avx2Machine_u64x2_eq ∧
    veq .avx2 (.vec .u64x2x2) = some SimdEqSrc.Avx2Machine_u64x2x2_eq ∧ veq .avx2 (.vec .u64x4) = some SimdEqSrc.Avx2Machine_u64x4_eq ∧
    veq .avx2 .storage128 = some SimdEqSrc.vec128_storage_eq ∧ veq .avx2 .storage256 = some SimdEqSrc.vec256_storage_eq ∧
    veq .avx2 .storage512 = some SimdEqSrc.vec512_storage_eq
  mach_generic :
    veq .generic (.vec .u32x4) = some SimdEqSrc.generic_u32x4_generic_eq ∧
    veq .generic (.vec .u64x2) = some SimdEqSrc.generic_u64x2_generic_eq ∧
    veq .generic (.vec .u128x1) = some SimdEqSrc.generic_u128x1_generic_eq ∧
    veq .generic .storage128 = some SimdPortSrc.vec128_storage_eq ∧
    veq .generic .storage256 = some SimdEqSrc.generic_vec256_storage_eq ∧
    veq .generic .storage512 = some SimdEqSrc.generic_vec512_storage_eq
  /-- which associated types have a `==` at all, per machine — the `none` entries of `veq` (cf. `CC.Simd.veq_defined`) -/
  machine_rows : SimdEqSrc.eq_machine_rows =
    [("SseMachine", "u32x4", ["SseMachine_u32x4_eq"]), ("SseMachine", "u64x2", ["SseMachine_u64x2_eq"]),
     ("SseMachine", "u128x1", [""]), ("SseMachine", "u32x4x2", ["SseMachine_u32x4x2_eq"]),
     ("SseMachine", "u64x2x2", ["SseMachine_u64x2x2_eq"]), ("SseMachine", "u64x4", ["SseMachine_u64x4_eq"]),
     ("SseMachine", "u128x2", [""]), ("SseMachine", "u32x4x4", [""]), ("SseMachine", "u64x2x4", [""]),
     ("SseMachine", "u128x4", [""]),
     ("Avx2Machine", "u32x4", ["Avx2Machine_u32x4_eq"]), ("Avx2Machine", "u64x2", ["Avx2Machine_u64x2_eq"]),
     ("Avx2Machine", "u128x1", [""]), ("Avx2Machine", "u32x4x2", [""]),
     ("Avx2Machine", "u64x2x2", ["Avx2Machine_u64x2x2_eq"]), ("Avx2Machine", "u64x4", ["Avx2Machine_u64x4_eq"]),
     ("Avx2Machine", "u128x2", [""]), ("Avx2Machine", "u32x4x4", [""]), ("Avx2Machine", "u64x2x4", [""]),
     ("Avx2Machine", "u128x4", [""]),
     ("GenericMachine", "u32x4", ["generic_u32x4_generic_eq"]), ("GenericMachine", "u64x2", ["generic_u64x2_generic_eq"]),
     ("GenericMachine", "u128x1", ["generic_u128x1_generic_eq"]), ("GenericMachine", "u32x4x2", [""]),
     ("GenericMachine", "u64x2x2", [""]), ("GenericMachine", "u64x4", [""]), ("GenericMachine", "u128x2", [""]),
     ("GenericMachine", "u32x4x4", [""]), ("GenericMachine", "u64x2x4", [""]), ("GenericMachine", "u128x4", [""])]
  defs : SimdEqSrc.def_rows =
    ["eq128_s2", "eq128_s4", "u32x4_sse2_eq", "u64x2_sse2_eq", "u32x4x2_sse2_eq", "u64x2x2_sse2_eq", "u64x4_sse2_eq",
     "vec128_storage_eq", "vec256_storage_eq", "vec512_storage_eq", "SseMachine_u32x4_eq", "SseMachine_u64x2_eq",
     "SseMachine_u32x4x2_eq", "SseMachine_u64x2x2_eq", "SseMachine_u64x4_eq", "Avx2Machine_u32x4_eq", "Avx2Machine_u64x2_eq",
     "Avx2Machine_u64x2x2_eq", "Avx2Machine_u64x4_eq", "generic_vec256_storage_eq", "generic_vec512_storage_eq",
     "generic_u32x4_generic_eq", "generic_u64x2_generic_eq", "generic_u128x1_generic_eq", "guts_ChaCha_eq", "guts_State_eq"]

theorem src_eq : EqTie where
  clean := rfl
  eq128_s2 := rfl
  eq128_s4 := rfl
  u32x4 := rfl
  u64x2 := rfl
  u32x4x2 := rfl
  u64x2x2 := rfl
  u64x4 := rfl
  storage128 := rfl
  storage256 := rfl
  storage512 := rfl
  g_storage128 := rfl
  g_storage256 := rfl
  g_storage512 := rfl
  g_u32x4 := rfl
  g_u64x2 := rfl
  g_u128x1 := rfl
  provided := by decide
  missing := by decide
  derives := by decide
  structs := by decide
  mach_sse := by
    intro b hb
    simp only [List.mem_cons, List.not_mem_nil, or_false] at hb
    rcases hb with rfl | rfl | rfl | rfl <;> exact ⟨rfl, rfl, rfl, rfl, rfl, rfl, rfl, rfl⟩
  mach_avx2 := ⟨rfl, rfl, rfl, rfl, rfl, rfl, rfl⟩
  mach_generic := ⟨rfl, rfl, rfl, rfl, rfl, rfl⟩
  machine_rows := by decide
  defs := by decide

end CC.Src
