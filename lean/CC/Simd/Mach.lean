/-
  CC.Simd.Mach — the ppv-lite86 `Machine` abstraction as the algorithms use it.

  A `Mach` is the record of vector operations that ChaCha (narrow + wide), BLAKE-256/512 and JH
  call through the `Machine` trait.  Every vector type is carried by a plain bit vector of its
  storage size (`vec128_storage` = `BitVec 128`, little-endian word packing: word/lane 0 in the
  least significant bits, exactly the x86 register/`[u32;4]` layout), so that all backends share
  one carrier and `Mach.sse2 = Mach.ref` is a well-typed statement.

  `Mach.ref` is the *scalar meaning* of every operation (what its name says, lane by lane).
  Backends (`CC/Simd/Backends.lean`) are built from Lean models of the x86 intrinsics / of the
  portable Rust code, and are proved equal to `Mach.ref` field by field (C12/C13 leaves ⇒ C03).
-/
import CC.Prim
namespace CC.Simd

/-! ## lanes -/

def lane32 (v : BitVec 128) (i : Nat) : BitVec 32 := v.extractLsb' (32 * i) 32
def lane64 (v : BitVec 128) (i : Nat) : BitVec 64 := v.extractLsb' (64 * i) 64
def pack32 (w0 w1 w2 w3 : BitVec 32) : BitVec 128 := w3 ++ w2 ++ w1 ++ w0
def pack64 (w0 w1 : BitVec 64) : BitVec 128 := w1 ++ w0

def map32 (f : BitVec 32 → BitVec 32) (v : BitVec 128) : BitVec 128 :=
  pack32 (f (lane32 v 0)) (f (lane32 v 1)) (f (lane32 v 2)) (f (lane32 v 3))
def zip32 (f : BitVec 32 → BitVec 32 → BitVec 32) (a b : BitVec 128) : BitVec 128 :=
  pack32 (f (lane32 a 0) (lane32 b 0)) (f (lane32 a 1) (lane32 b 1))
         (f (lane32 a 2) (lane32 b 2)) (f (lane32 a 3) (lane32 b 3))
def map64 (f : BitVec 64 → BitVec 64) (v : BitVec 128) : BitVec 128 :=
  pack64 (f (lane64 v 0)) (f (lane64 v 1))
def zip64 (f : BitVec 64 → BitVec 64 → BitVec 64) (a b : BitVec 128) : BitVec 128 :=
  pack64 (f (lane64 a 0) (lane64 b 0)) (f (lane64 a 1) (lane64 b 1))

/-- 256-bit = two 128-bit halves, half 0 low. -/
def lo128 (v : BitVec 256) : BitVec 128 := v.extractLsb' 0 128
def hi128 (v : BitVec 256) : BitVec 128 := v.extractLsb' 128 128
def pack256 (a b : BitVec 128) : BitVec 256 := b ++ a
def map256 (f : BitVec 128 → BitVec 128) (v : BitVec 256) : BitVec 256 :=
  pack256 (f (lo128 v)) (f (hi128 v))
def zip256 (f : BitVec 128 → BitVec 128 → BitVec 128) (a b : BitVec 256) : BitVec 256 :=
  pack256 (f (lo128 a) (lo128 b)) (f (hi128 a) (hi128 b))

/-- 512-bit = four 128-bit lanes, lane 0 low. -/
def q128 (v : BitVec 512) (i : Nat) : BitVec 128 := v.extractLsb' (128 * i) 128
def pack512 (a b c d : BitVec 128) : BitVec 512 := d ++ c ++ b ++ a
def map512 (f : BitVec 128 → BitVec 128) (v : BitVec 512) : BitVec 512 :=
  pack512 (f (q128 v 0)) (f (q128 v 1)) (f (q128 v 2)) (f (q128 v 3))
def zip512 (f : BitVec 128 → BitVec 128 → BitVec 128) (a b : BitVec 512) : BitVec 512 :=
  pack512 (f (q128 a 0) (q128 b 0)) (f (q128 a 1) (q128 b 1))
          (f (q128 a 2) (q128 b 2)) (f (q128 a 3) (q128 b 3))

/-- the four u64 words of a 256-bit `u64x4` -/
def w64 (v : BitVec 256) (i : Nat) : BitVec 64 := v.extractLsb' (64 * i) 64
def pack64x4 (a b c d : BitVec 64) : BitVec 256 := d ++ c ++ b ++ a

/-! ## scalar meanings used by `Mach.ref` -/

/-- "word j moves to position name[j]": `shuffle1230 [x0,x1,x2,x3] = [x3,x0,x1,x2]`. -/
def shuf1230_32 (v : BitVec 128) : BitVec 128 := pack32 (lane32 v 3) (lane32 v 0) (lane32 v 1) (lane32 v 2)
def shuf2301_32 (v : BitVec 128) : BitVec 128 := pack32 (lane32 v 2) (lane32 v 3) (lane32 v 0) (lane32 v 1)
def shuf3012_32 (v : BitVec 128) : BitVec 128 := pack32 (lane32 v 1) (lane32 v 2) (lane32 v 3) (lane32 v 0)
def shuf1230_64 (v : BitVec 256) : BitVec 256 := pack64x4 (w64 v 3) (w64 v 0) (w64 v 1) (w64 v 2)
def shuf2301_64 (v : BitVec 256) : BitVec 256 := pack64x4 (w64 v 2) (w64 v 3) (w64 v 0) (w64 v 1)
def shuf3012_64 (v : BitVec 256) : BitVec 256 := pack64x4 (w64 v 1) (w64 v 2) (w64 v 3) (w64 v 0)

def insert32 (v : BitVec 128) (w : BitVec 32) (i : Nat) : BitVec 128 :=
  pack32 (if i = 0 then w else lane32 v 0) (if i = 1 then w else lane32 v 1)
         (if i = 2 then w else lane32 v 2) (if i = 3 then w else lane32 v 3)

/-- byte reversal within each 32-bit word -/
def bswap32 (w : BitVec 32) : BitVec 32 :=
  w.extractLsb' 0 8 ++ w.extractLsb' 8 8 ++ w.extractLsb' 16 8 ++ w.extractLsb' 24 8
def bswap64 (w : BitVec 64) : BitVec 64 :=
  w.extractLsb' 0 8 ++ w.extractLsb' 8 8 ++ w.extractLsb' 16 8 ++ w.extractLsb' 24 8 ++
  w.extractLsb' 32 8 ++ w.extractLsb' 40 8 ++ w.extractLsb' 48 8 ++ w.extractLsb' 56 8

/-- mask selecting, in every pair of adjacent `k`-bit groups, the more significant group -/
def swapMask : Nat → BitVec 128
  | 1 => 0xaaaaaaaaaaaaaaaaaaaaaaaaaaaaaaaa#128
  | 2 => 0xcccccccccccccccccccccccccccccccc#128
  | 4 => 0xf0f0f0f0f0f0f0f0f0f0f0f0f0f0f0f0#128
  | 8 => 0xff00ff00ff00ff00ff00ff00ff00ff00#128
  | 16 => 0xffff0000ffff0000ffff0000ffff0000#128
  | 32 => 0xffffffff00000000ffffffff00000000#128
  | 64 => 0xffffffffffffffff0000000000000000#128
  | _ => 0#128

/-- exchange adjacent `k`-bit groups (k ∈ {1,2,4,8,16,32,64}) of a 128-bit word; bit `i` of the
    result is bit `i xor k` of the input (`swapBits_getLsbD` in `CC/Simd/Lemmas.lean`). -/
def swapBits (k : Nat) (v : BitVec 128) : BitVec 128 :=
  ((v &&& swapMask k) >>> k) ||| ((v <<< k) &&& swapMask k)

def transpose4_512 (a b c d : BitVec 512) : BitVec 512 × BitVec 512 × BitVec 512 × BitVec 512 :=
  (pack512 (q128 a 0) (q128 b 0) (q128 c 0) (q128 d 0),
   pack512 (q128 a 1) (q128 b 1) (q128 c 1) (q128 d 1),
   pack512 (q128 a 2) (q128 b 2) (q128 c 2) (q128 d 2),
   pack512 (q128 a 3) (q128 b 3) (q128 c 3) (q128 d 3))

/-! ## the record -/

structure Mach where
  -- u32x4
  add32 : BitVec 128 → BitVec 128 → BitVec 128
  xor128 : BitVec 128 → BitVec 128 → BitVec 128
  rotr32 : Nat → BitVec 128 → BitVec 128          -- k ∈ {7,8,11,12,16,20,24,25}
  shuf1230 : BitVec 128 → BitVec 128
  shuf2301 : BitVec 128 → BitVec 128
  shuf3012 : BitVec 128 → BitVec 128
  vec32 : BitVec 32 → BitVec 32 → BitVec 32 → BitVec 32 → BitVec 128   -- `m.vec([a,b,c,d])`
  extract32 : BitVec 128 → Nat → BitVec 32
  insert32 : BitVec 128 → BitVec 32 → Nat → BitVec 128
  readLe32x4 : List (BitVec 8) → BitVec 128        -- 16 bytes
  writeLe32x4 : BitVec 128 → List (BitVec 8)
  writeBe32x4 : BitVec 128 → List (BitVec 8)
  -- u64x2
  add64 : BitVec 128 → BitVec 128 → BitVec 128
  vec64 : BitVec 64 → BitVec 64 → BitVec 128
  -- u32x4x4 / u64x2x4 (512-bit)
  fromLanes512 : BitVec 128 → BitVec 128 → BitVec 128 → BitVec 128 → BitVec 512
  toLanes512 : BitVec 512 → BitVec 128 × BitVec 128 × BitVec 128 × BitVec 128
  add32x16 : BitVec 512 → BitVec 512 → BitVec 512
  add64x8 : BitVec 512 → BitVec 512 → BitVec 512
  xor512 : BitVec 512 → BitVec 512 → BitVec 512
  rotr32x16 : Nat → BitVec 512 → BitVec 512
  shufLane1230 : BitVec 512 → BitVec 512
  shufLane2301 : BitVec 512 → BitVec 512
  shufLane3012 : BitVec 512 → BitVec 512
  transpose4 : BitVec 512 → BitVec 512 → BitVec 512 → BitVec 512 →
      BitVec 512 × BitVec 512 × BitVec 512 × BitVec 512
  writeLe32x16 : BitVec 512 → List (BitVec 8)
  -- u64x4 (256-bit; BLAKE-384/512)
  vec64x4 : BitVec 64 → BitVec 64 → BitVec 64 → BitVec 64 → BitVec 256
  add64x4 : BitVec 256 → BitVec 256 → BitVec 256
  xor256 : BitVec 256 → BitVec 256 → BitVec 256
  rotr64x4 : Nat → BitVec 256 → BitVec 256         -- k ∈ {32,25,16,11}
  shuf1230q : BitVec 256 → BitVec 256
  shuf2301q : BitVec 256 → BitVec 256
  shuf3012q : BitVec 256 → BitVec 256
  writeBe64x4 : BitVec 256 → List (BitVec 8)
  -- u128x1 / u128x2 (JH)
  swap128 : Nat → BitVec 128 → BitVec 128          -- k ∈ {1,2,4,8,16,32,64}
  vzip256 : BitVec 128 → BitVec 128 → BitVec 256   -- `[a,b].vzip()`
  extract256 : BitVec 256 → Nat → BitVec 128
  not256 : BitVec 256 → BitVec 256
  and256 : BitVec 256 → BitVec 256 → BitVec 256
  or256 : BitVec 256 → BitVec 256 → BitVec 256
  andnot256 : BitVec 256 → BitVec 256 → BitVec 256  -- `a.andnot(b) = !a & b`

/-- Scalar meaning of every operation. -/
def Mach.ref : Mach where
  add32 := zip32 (· + ·)
  xor128 := (· ^^^ ·)
  rotr32 := fun k => map32 (·.rotateRight k)
  shuf1230 := shuf1230_32
  shuf2301 := shuf2301_32
  shuf3012 := shuf3012_32
  vec32 := pack32
  extract32 := lane32
  insert32 := CC.Simd.insert32
  readLe32x4 := fun bs => ofLeBytes 128 (bs.take 16)
  writeLe32x4 := fun v => toLeBytes v 16
  writeBe32x4 := fun v => toBe32 (lane32 v 0) ++ toBe32 (lane32 v 1) ++ toBe32 (lane32 v 2) ++ toBe32 (lane32 v 3)
  add64 := zip64 (· + ·)
  vec64 := pack64
  fromLanes512 := pack512
  toLanes512 := fun v => (q128 v 0, q128 v 1, q128 v 2, q128 v 3)
  add32x16 := zip512 (zip32 (· + ·))
  add64x8 := zip512 (zip64 (· + ·))
  xor512 := (· ^^^ ·)
  rotr32x16 := fun k => map512 (map32 (·.rotateRight k))
  shufLane1230 := map512 shuf1230_32
  shufLane2301 := map512 shuf2301_32
  shufLane3012 := map512 shuf3012_32
  transpose4 := transpose4_512
  writeLe32x16 := fun v => toLeBytes v 64
  vec64x4 := pack64x4
  add64x4 := zip256 (zip64 (· + ·))
  xor256 := (· ^^^ ·)
  rotr64x4 := fun k => map256 (map64 (·.rotateRight k))
  shuf1230q := shuf1230_64
  shuf2301q := shuf2301_64
  shuf3012q := shuf3012_64
  writeBe64x4 := fun v => toBe64 (w64 v 0) ++ toBe64 (w64 v 1) ++ toBe64 (w64 v 2) ++ toBe64 (w64 v 3)
  swap128 := swapBits
  vzip256 := pack256
  extract256 := fun v i => if i = 0 then lo128 v else hi128 v
  not256 := fun v => ~~~v
  and256 := (· &&& ·)
  or256 := (· ||| ·)
  andnot256 := fun a b => ~~~a &&& b

end CC.Simd
