/-
  CC.Simd.SrcX86 — SOURCE TIE for the x86 backend of ppv-lite86 (properties C12, C13): every definition that
  tools/inventory_simdx86.py regenerates from utils-simd/ppv-lite86/src/x86_64/{sse2.rs, mod.rs} into
  `CC.Gen.SimdX86Src` (the intrinsic sequence of every trait method of `u32x4_sse2`, `u64x2_sse2`, `u128x1_sse2`,
  `u64x4_sse2`, `u32x4x2_avx2`, `u32x4x4_avx2` under every flag combination that selects a different impl, macro
  bodies expanded with the invocation's arguments) equals the hand-written model: the fields of the operation
  records `CC.Simd.Impl.X86.{u32x4, u64x2, u128x1, u64x4}`, `CC.Simd.Impl.Avx2.{u32x4x2, u32x4x4, transpose4}` and
  `CC.Simd.Impl.X86.toScalars`, i.e. what `CC.Simd.impl b τ` (and so every theorem of C12 / C13 / C03) is about.
  `s3` / `s4` range over the flags an impl header leaves generic.  The proofs are `rfl`: both sides are the same
  intrinsic sequence up to `let` and the unfolding of the model's helper definitions.

  Word-wise operations are collected in `CC.Thm.C12.source_x86_match`, data movement (lanes, insert / extract,
  bytes, storage views, conversions) in `CC.Thm.C13.source_x86_match`.
-/
import Std.Tactic.BVDecide
import CC.Gen.SimdX86Src
import CC.Simd.Impl.X86
import CC.Simd.Impl.X86Wide
import CC.Simd.Impl
namespace CC.Src
open CC.Simd CC.Simd.Impl CC.Gen

/-! ## C12: word-wise operations -/

/-- the word-wise operations of the x86 vector types, as translated from the source, are the model's -/
structure X86WordTie : Prop where
  /-- nothing in the translated files was left untranslated -/
  clean : SimdX86Src.simdx86_errors = []
  /-- `impl_binop!` / `def_vec!` for `u32x4_sse2`: `+ & | ^`, `andnot`, `!`, and the `*Assign` forms (`*self = self.op(rhs)`) -/
  u32x4_bitops : ∀ s3 s4 : Bool,
    (X86.u32x4 s3 s4).add = SimdX86Src.u32x4_sse2_add ∧
    (X86.u32x4 s3 s4).add = SimdX86Src.u32x4_sse2_add_assign ∧
    (X86.u32x4 s3 s4).xor = SimdX86Src.u32x4_sse2_bitxor ∧
    (X86.u32x4 s3 s4).xor = SimdX86Src.u32x4_sse2_bitxor_assign ∧
    (X86.u32x4 s3 s4).and = SimdX86Src.u32x4_sse2_bitand ∧
    (X86.u32x4 s3 s4).and = SimdX86Src.u32x4_sse2_bitand_assign ∧
    (X86.u32x4 s3 s4).or = SimdX86Src.u32x4_sse2_bitor ∧
    (X86.u32x4 s3 s4).or = SimdX86Src.u32x4_sse2_bitor_assign ∧
    (X86.u32x4 s3 s4).andnot = SimdX86Src.u32x4_sse2_andnot ∧
    (X86.u32x4 s3 s4).not = SimdX86Src.u32x4_sse2_not
  /-- `impl RotateEachWord32 for u32x4_sse2<YesS3, S4, NI>`: `rotr_32!` for 7, 11, 12, 20, 25, `rotr_32_s3!` (`pshufb`) for 8, 16, 24 -/
  u32x4_rotr_s3 : ∀ s4 : Bool, [7, 8, 11, 12, 16, 20, 24, 25].map (X86.u32x4 true s4).rotr =
      [SimdX86Src.u32x4_sse2_YesS3_rotate_each_word_right7, SimdX86Src.u32x4_sse2_YesS3_rotate_each_word_right8,
       SimdX86Src.u32x4_sse2_YesS3_rotate_each_word_right11, SimdX86Src.u32x4_sse2_YesS3_rotate_each_word_right12,
       SimdX86Src.u32x4_sse2_YesS3_rotate_each_word_right16, SimdX86Src.u32x4_sse2_YesS3_rotate_each_word_right20,
       SimdX86Src.u32x4_sse2_YesS3_rotate_each_word_right24, SimdX86Src.u32x4_sse2_YesS3_rotate_each_word_right25]
  /-- `impl RotateEachWord32 for u32x4_sse2<NoS3, S4, NI>`: `rotr_32!` except 16 (`swap16_s2`) -/
  u32x4_rotr_s2 : ∀ s4 : Bool, [7, 8, 11, 12, 16, 20, 24, 25].map (X86.u32x4 false s4).rotr =
      [SimdX86Src.u32x4_sse2_NoS3_rotate_each_word_right7, SimdX86Src.u32x4_sse2_NoS3_rotate_each_word_right8,
       SimdX86Src.u32x4_sse2_NoS3_rotate_each_word_right11, SimdX86Src.u32x4_sse2_NoS3_rotate_each_word_right12,
       SimdX86Src.u32x4_sse2_NoS3_rotate_each_word_right16, SimdX86Src.u32x4_sse2_NoS3_rotate_each_word_right20,
       SimdX86Src.u32x4_sse2_NoS3_rotate_each_word_right24, SimdX86Src.u32x4_sse2_NoS3_rotate_each_word_right25]
  /-- `impl Words4` / `impl LaneWords4 for u32x4_sse2` (`pshufd`) -/
  u32x4_shuffle : ∀ s3 s4 : Bool,
    [2301, 1230, 3012].map (X86.u32x4 s3 s4).shuffle =
      [SimdX86Src.u32x4_sse2_shuffle2301, SimdX86Src.u32x4_sse2_shuffle1230, SimdX86Src.u32x4_sse2_shuffle3012] ∧
    [2301, 1230, 3012].map (X86.u32x4 s3 s4).shuffleLane =
      [SimdX86Src.u32x4_sse2_shuffle_lane_words2301, SimdX86Src.u32x4_sse2_shuffle_lane_words1230,
       SimdX86Src.u32x4_sse2_shuffle_lane_words3012]
  /-- `impl BSwap for u32x4_sse2<YesS3, ..>` (`pshufb`) / `<NoS3, ..>` (`bswap32_s2`) -/
  u32x4_bswap : ∀ s4 : Bool, (X86.u32x4 true s4).bswap = SimdX86Src.u32x4_sse2_YesS3_bswap ∧
    (X86.u32x4 false s4).bswap = SimdX86Src.u32x4_sse2_NoS3_bswap
  /-- the same for `u64x2_sse2` (`_mm_add_epi64`) -/
  u64x2_bitops : ∀ s3 s4 : Bool,
    (X86.u64x2 s3 s4).add = SimdX86Src.u64x2_sse2_add ∧
    (X86.u64x2 s3 s4).add = SimdX86Src.u64x2_sse2_add_assign ∧
    (X86.u64x2 s3 s4).xor = SimdX86Src.u64x2_sse2_bitxor ∧
    (X86.u64x2 s3 s4).xor = SimdX86Src.u64x2_sse2_bitxor_assign ∧
    (X86.u64x2 s3 s4).and = SimdX86Src.u64x2_sse2_bitand ∧
    (X86.u64x2 s3 s4).and = SimdX86Src.u64x2_sse2_bitand_assign ∧
    (X86.u64x2 s3 s4).or = SimdX86Src.u64x2_sse2_bitor ∧
    (X86.u64x2 s3 s4).or = SimdX86Src.u64x2_sse2_bitor_assign ∧
    (X86.u64x2 s3 s4).andnot = SimdX86Src.u64x2_sse2_andnot ∧
    (X86.u64x2 s3 s4).not = SimdX86Src.u64x2_sse2_not
  /-- `impl RotateEachWord32 for u64x2_sse2<YesS3, S4, NI>`: `rotr_64!`, `rotr_64_s3!` for 8, 16, 24 -/
  u64x2_rotr_s3 : ∀ s4 : Bool, [7, 8, 11, 12, 16, 20, 24, 25].map (X86.u64x2 true s4).rotr =
      [SimdX86Src.u64x2_sse2_YesS3_rotate_each_word_right7, SimdX86Src.u64x2_sse2_YesS3_rotate_each_word_right8,
       SimdX86Src.u64x2_sse2_YesS3_rotate_each_word_right11, SimdX86Src.u64x2_sse2_YesS3_rotate_each_word_right12,
       SimdX86Src.u64x2_sse2_YesS3_rotate_each_word_right16, SimdX86Src.u64x2_sse2_YesS3_rotate_each_word_right20,
       SimdX86Src.u64x2_sse2_YesS3_rotate_each_word_right24, SimdX86Src.u64x2_sse2_YesS3_rotate_each_word_right25]
  /-- `impl RotateEachWord32 for u64x2_sse2<NoS3, S4, NI>`: `rotr_64!` throughout -/
  u64x2_rotr_s2 : ∀ s4 : Bool, [7, 8, 11, 12, 16, 20, 24, 25].map (X86.u64x2 false s4).rotr =
      [SimdX86Src.u64x2_sse2_NoS3_rotate_each_word_right7, SimdX86Src.u64x2_sse2_NoS3_rotate_each_word_right8,
       SimdX86Src.u64x2_sse2_NoS3_rotate_each_word_right11, SimdX86Src.u64x2_sse2_NoS3_rotate_each_word_right12,
       SimdX86Src.u64x2_sse2_NoS3_rotate_each_word_right16, SimdX86Src.u64x2_sse2_NoS3_rotate_each_word_right20,
       SimdX86Src.u64x2_sse2_NoS3_rotate_each_word_right24, SimdX86Src.u64x2_sse2_NoS3_rotate_each_word_right25]
  /-- `impl RotateEachWord64 for u64x2_sse2` (`pshufd 0b10110001`) -/
  u64x2_rotr32 : ∀ s3 s4 : Bool, (X86.u64x2 s3 s4).rotr 32 = SimdX86Src.u64x2_sse2_rotate_each_word_right32
  /-- `impl BSwap for u64x2_sse2` -/
  u64x2_bswap : ∀ s4 : Bool, (X86.u64x2 true s4).bswap = SimdX86Src.u64x2_sse2_YesS3_bswap ∧
    (X86.u64x2 false s4).bswap = SimdX86Src.u64x2_sse2_NoS3_bswap
  /-- the same for `u128x1_sse2` (no `Add`) -/
  u128x1_bitops : ∀ s3 : Bool,
    (X86.u128x1 s3).xor = SimdX86Src.u128x1_sse2_bitxor ∧
    (X86.u128x1 s3).xor = SimdX86Src.u128x1_sse2_bitxor_assign ∧
    (X86.u128x1 s3).and = SimdX86Src.u128x1_sse2_bitand ∧
    (X86.u128x1 s3).and = SimdX86Src.u128x1_sse2_bitand_assign ∧
    (X86.u128x1 s3).or = SimdX86Src.u128x1_sse2_bitor ∧
    (X86.u128x1 s3).or = SimdX86Src.u128x1_sse2_bitor_assign ∧
    (X86.u128x1 s3).andnot = SimdX86Src.u128x1_sse2_andnot ∧
    (X86.u128x1 s3).not = SimdX86Src.u128x1_sse2_not
  /-- `impl RotateEachWord32 / RotateEachWord64 for u128x1_sse2`: `rotr_128!` -/
  u128x1_rotr : ∀ s3 : Bool, [7, 8, 11, 12, 16, 20, 24, 25, 32].map (X86.u128x1 s3).rotr =
      [SimdX86Src.u128x1_sse2_rotate_each_word_right7, SimdX86Src.u128x1_sse2_rotate_each_word_right8,
       SimdX86Src.u128x1_sse2_rotate_each_word_right11, SimdX86Src.u128x1_sse2_rotate_each_word_right12,
       SimdX86Src.u128x1_sse2_rotate_each_word_right16, SimdX86Src.u128x1_sse2_rotate_each_word_right20,
       SimdX86Src.u128x1_sse2_rotate_each_word_right24, SimdX86Src.u128x1_sse2_rotate_each_word_right25,
       SimdX86Src.u128x1_sse2_rotate_each_word_right32]
  /-- `impl BSwap for u128x1_sse2` -/
  u128x1_bswap : (X86.u128x1 true).bswap = SimdX86Src.u128x1_sse2_YesS3_bswap ∧
    (X86.u128x1 false).bswap = SimdX86Src.u128x1_sse2_NoS3_bswap
  /-- `impl Swap64 for u128x1_sse2<YesS3, ..>`: `swapi!` for 1, 2, 4, `pshufb` for 8, 16, `pshufd` for 32, 64 -/
  u128x1_swap_s3 : [1, 2, 4, 8, 16, 32, 64].map (X86.u128x1 true).swap =
      [SimdX86Src.u128x1_sse2_YesS3_swap1, SimdX86Src.u128x1_sse2_YesS3_swap2, SimdX86Src.u128x1_sse2_YesS3_swap4,
       SimdX86Src.u128x1_sse2_YesS3_swap8, SimdX86Src.u128x1_sse2_YesS3_swap16, SimdX86Src.u128x1_sse2_YesS3_swap32,
       SimdX86Src.u128x1_sse2_YesS3_swap64]
  /-- `impl Swap64 for u128x1_sse2<NoS3, ..>`: 8 by 16-bit shifts, 16 by `swap16_s2` -/
  u128x1_swap_s2 : [1, 2, 4, 8, 16, 32, 64].map (X86.u128x1 false).swap =
      [SimdX86Src.u128x1_sse2_NoS3_swap1, SimdX86Src.u128x1_sse2_NoS3_swap2, SimdX86Src.u128x1_sse2_NoS3_swap4,
       SimdX86Src.u128x1_sse2_NoS3_swap8, SimdX86Src.u128x1_sse2_NoS3_swap16, SimdX86Src.u128x1_sse2_NoS3_swap32,
       SimdX86Src.u128x1_sse2_NoS3_swap64]
  /-- `impl Words4 for u64x4_sse2<YesS3, ..>` (`palignr`) -/
  u64x4_shuffle_s3 : ∀ s4 : Bool, [2301, 3012, 1230].map (X86.u64x4 true s4).shuffle =
      [SimdX86Src.u64x4_sse2_YesS3_shuffle2301, SimdX86Src.u64x4_sse2_YesS3_shuffle3012,
       SimdX86Src.u64x4_sse2_YesS3_shuffle1230]
  /-- `impl Words4 for u64x4_sse2<NoS3, ..>` (byte shifts and `por`) -/
  u64x4_shuffle_s2 : ∀ s4 : Bool, [2301, 3012, 1230].map (X86.u64x4 false s4).shuffle =
      [SimdX86Src.u64x4_sse2_NoS3_shuffle2301, SimdX86Src.u64x4_sse2_NoS3_shuffle3012,
       SimdX86Src.u64x4_sse2_NoS3_shuffle1230]
  /-- `mod avx2`: `impl_bitop!` / `impl_assign!` / `Not` for `u32x4x2_avx2` -/
  avx2_bitops : (Avx2.u32x4x2).add = SimdX86Src.u32x4x2_avx2_add ∧
    (Avx2.u32x4x2).add = SimdX86Src.u32x4x2_avx2_add_assign ∧
    (Avx2.u32x4x2).xor = SimdX86Src.u32x4x2_avx2_bitxor ∧
    (Avx2.u32x4x2).xor = SimdX86Src.u32x4x2_avx2_bitxor_assign ∧
    (Avx2.u32x4x2).and = SimdX86Src.u32x4x2_avx2_bitand ∧
    (Avx2.u32x4x2).and = SimdX86Src.u32x4x2_avx2_bitand_assign ∧
    (Avx2.u32x4x2).or = SimdX86Src.u32x4x2_avx2_bitor ∧
    (Avx2.u32x4x2).or = SimdX86Src.u32x4x2_avx2_bitor_assign ∧
    (Avx2.u32x4x2).andnot = SimdX86Src.u32x4x2_avx2_andnot ∧
    (Avx2.u32x4x2).not = SimdX86Src.u32x4x2_avx2_not
  /-- `impl RotateEachWord32 for u32x4x2_avx2`: `rotr_32!` (256-bit), `shuf_lane_bytes!` for 8, 16, 24 -/
  avx2_rotr : [7, 8, 11, 12, 16, 20, 24, 25].map Avx2.u32x4x2.rotr =
      [SimdX86Src.u32x4x2_avx2_rotate_each_word_right7, SimdX86Src.u32x4x2_avx2_rotate_each_word_right8,
       SimdX86Src.u32x4x2_avx2_rotate_each_word_right11, SimdX86Src.u32x4x2_avx2_rotate_each_word_right12,
       SimdX86Src.u32x4x2_avx2_rotate_each_word_right16, SimdX86Src.u32x4x2_avx2_rotate_each_word_right20,
       SimdX86Src.u32x4x2_avx2_rotate_each_word_right24, SimdX86Src.u32x4x2_avx2_rotate_each_word_right25]
  /-- `impl LaneWords4 for u32x4x2_avx2` (`vpshufd`) -/
  avx2_shuffle_lane : [1230, 2301, 3012].map Avx2.u32x4x2.shuffleLane =
      [SimdX86Src.u32x4x2_avx2_shuffle_lane_words1230, SimdX86Src.u32x4x2_avx2_shuffle_lane_words2301,
       SimdX86Src.u32x4x2_avx2_shuffle_lane_words3012]
  /-- `impl BSwap for u32x4x2_avx2` (`shuf_lane_bytes!`) -/
  avx2_bswap : Avx2.u32x4x2.bswap = SimdX86Src.u32x4x2_avx2_bswap

theorem src_x86_word : X86WordTie where
  clean := rfl
  u32x4_bitops := fun _ _ => ⟨rfl, rfl, rfl, rfl, rfl, rfl, rfl, rfl, rfl, rfl⟩
  u32x4_rotr_s3 := fun _ => rfl
  u32x4_rotr_s2 := fun _ => rfl
  u32x4_shuffle := fun _ _ => ⟨rfl, rfl⟩
  u32x4_bswap := fun _ => ⟨rfl, rfl⟩
  u64x2_bitops := fun _ _ => ⟨rfl, rfl, rfl, rfl, rfl, rfl, rfl, rfl, rfl, rfl⟩
  u64x2_rotr_s3 := fun _ => rfl
  u64x2_rotr_s2 := fun _ => rfl
  u64x2_rotr32 := fun s3 _ => by cases s3 <;> rfl
  u64x2_bswap := fun _ => ⟨rfl, rfl⟩
  u128x1_bitops := fun _ => ⟨rfl, rfl, rfl, rfl, rfl, rfl, rfl, rfl⟩
  u128x1_rotr := fun _ => rfl
  u128x1_bswap := ⟨rfl, rfl⟩
  u128x1_swap_s3 := rfl
  u128x1_swap_s2 := rfl
  u64x4_shuffle_s3 := fun _ => rfl
  u64x4_shuffle_s2 := fun _ => rfl
  avx2_bitops := ⟨rfl, rfl, rfl, rfl, rfl, rfl, rfl, rfl, rfl, rfl⟩
  avx2_rotr := rfl
  avx2_shuffle_lane := rfl
  avx2_bswap := rfl

/-- which macro defines which method for which flag (`rotr_32!` vs `rotr_32_s3!` …), with the macro's integer arguments -/
theorem src_x86_macro_rows : SimdX86Src.macro_rows =
  [("u32x4_sse2", "YesS3", "RotateEachWord32", "rotate_each_word_right7", "rotr_32", [7]),
   ("u32x4_sse2", "YesS3", "RotateEachWord32", "rotate_each_word_right8", "rotr_32_s3", [0xc0f0e0d080b0a09, 0x407060500030201]),
   ("u32x4_sse2", "YesS3", "RotateEachWord32", "rotate_each_word_right11", "rotr_32", [11]),
   ("u32x4_sse2", "YesS3", "RotateEachWord32", "rotate_each_word_right12", "rotr_32", [12]),
   ("u32x4_sse2", "YesS3", "RotateEachWord32", "rotate_each_word_right16", "rotr_32_s3", [0xd0c0f0e09080b0a, 0x504070601000302]),
   ("u32x4_sse2", "YesS3", "RotateEachWord32", "rotate_each_word_right20", "rotr_32", [20]),
   ("u32x4_sse2", "YesS3", "RotateEachWord32", "rotate_each_word_right24", "rotr_32_s3", [0xe0d0c0f0a09080b, 0x605040702010003]),
   ("u32x4_sse2", "YesS3", "RotateEachWord32", "rotate_each_word_right25", "rotr_32", [25]),
   ("u32x4_sse2", "NoS3", "RotateEachWord32", "rotate_each_word_right7", "rotr_32", [7]),
   ("u32x4_sse2", "NoS3", "RotateEachWord32", "rotate_each_word_right8", "rotr_32", [8]),
   ("u32x4_sse2", "NoS3", "RotateEachWord32", "rotate_each_word_right11", "rotr_32", [11]),
   ("u32x4_sse2", "NoS3", "RotateEachWord32", "rotate_each_word_right12", "rotr_32", [12]),
   ("u32x4_sse2", "NoS3", "RotateEachWord32", "rotate_each_word_right16", "fn", []),
   ("u32x4_sse2", "NoS3", "RotateEachWord32", "rotate_each_word_right20", "rotr_32", [20]),
   ("u32x4_sse2", "NoS3", "RotateEachWord32", "rotate_each_word_right24", "rotr_32", [24]),
   ("u32x4_sse2", "NoS3", "RotateEachWord32", "rotate_each_word_right25", "rotr_32", [25]),
   ("u64x2_sse2", "YesS3", "RotateEachWord32", "rotate_each_word_right7", "rotr_64", [7]),
   ("u64x2_sse2", "YesS3", "RotateEachWord32", "rotate_each_word_right8", "rotr_64_s3", [0x80f0e0d0c0b0a09, 0x7060504030201]),
   ("u64x2_sse2", "YesS3", "RotateEachWord32", "rotate_each_word_right11", "rotr_64", [11]),
   ("u64x2_sse2", "YesS3", "RotateEachWord32", "rotate_each_word_right12", "rotr_64", [12]),
   ("u64x2_sse2", "YesS3", "RotateEachWord32", "rotate_each_word_right16", "rotr_64_s3", [0x9080f0e0d0c0b0a, 0x100070605040302]),
   ("u64x2_sse2", "YesS3", "RotateEachWord32", "rotate_each_word_right20", "rotr_64", [20]),
   ("u64x2_sse2", "YesS3", "RotateEachWord32", "rotate_each_word_right24", "rotr_64_s3", [0xa09080f0e0d0c0b, 0x201000706050403]),
   ("u64x2_sse2", "YesS3", "RotateEachWord32", "rotate_each_word_right25", "rotr_64", [25]),
   ("u64x2_sse2", "NoS3", "RotateEachWord32", "rotate_each_word_right7", "rotr_64", [7]),
   ("u64x2_sse2", "NoS3", "RotateEachWord32", "rotate_each_word_right8", "rotr_64", [8]),
   ("u64x2_sse2", "NoS3", "RotateEachWord32", "rotate_each_word_right11", "rotr_64", [11]),
   ("u64x2_sse2", "NoS3", "RotateEachWord32", "rotate_each_word_right12", "rotr_64", [12]),
   ("u64x2_sse2", "NoS3", "RotateEachWord32", "rotate_each_word_right16", "rotr_64", [16]),
   ("u64x2_sse2", "NoS3", "RotateEachWord32", "rotate_each_word_right20", "rotr_64", [20]),
   ("u64x2_sse2", "NoS3", "RotateEachWord32", "rotate_each_word_right24", "rotr_64", [24]),
   ("u64x2_sse2", "NoS3", "RotateEachWord32", "rotate_each_word_right25", "rotr_64", [25]),
   ("u64x2_sse2", "", "RotateEachWord64", "rotate_each_word_right32", "fn", []),
   ("u128x1_sse2", "", "RotateEachWord32", "rotate_each_word_right7", "rotr_128", [7]),
   ("u128x1_sse2", "", "RotateEachWord32", "rotate_each_word_right8", "rotr_128", [8]),
   ("u128x1_sse2", "", "RotateEachWord32", "rotate_each_word_right11", "rotr_128", [11]),
   ("u128x1_sse2", "", "RotateEachWord32", "rotate_each_word_right12", "rotr_128", [12]),
   ("u128x1_sse2", "", "RotateEachWord32", "rotate_each_word_right16", "rotr_128", [16]),
   ("u128x1_sse2", "", "RotateEachWord32", "rotate_each_word_right20", "rotr_128", [20]),
   ("u128x1_sse2", "", "RotateEachWord32", "rotate_each_word_right24", "rotr_128", [24]),
   ("u128x1_sse2", "", "RotateEachWord32", "rotate_each_word_right25", "rotr_128", [25]),
   ("u128x1_sse2", "", "RotateEachWord64", "rotate_each_word_right32", "rotr_128", [32]),
   ("u32x4_sse2", "", "LaneWords4", "shuffle_lane_words2301", "fn", []),
   ("u32x4_sse2", "", "LaneWords4", "shuffle_lane_words1230", "fn", []),
   ("u32x4_sse2", "", "LaneWords4", "shuffle_lane_words3012", "fn", []),
   ("u32x4_sse2", "", "Words4", "shuffle2301", "fn", []),
   ("u32x4_sse2", "", "Words4", "shuffle1230", "fn", []),
   ("u32x4_sse2", "", "Words4", "shuffle3012", "fn", []),
   ("u64x4_sse2", "YesS3", "Words4", "shuffle2301", "fn", []),
   ("u64x4_sse2", "YesS3", "Words4", "shuffle3012", "fn", []),
   ("u64x4_sse2", "YesS3", "Words4", "shuffle1230", "fn", []),
   ("u64x4_sse2", "NoS3", "Words4", "shuffle2301", "fn", []),
   ("u64x4_sse2", "NoS3", "Words4", "shuffle3012", "fn", []),
   ("u64x4_sse2", "NoS3", "Words4", "shuffle1230", "fn", []),
   ("u32x4_sse2", "YesS3", "BSwap", "bswap", "fn", []),
   ("u32x4_sse2", "NoS3", "BSwap", "bswap", "fn", []),
   ("u64x2_sse2", "YesS3", "BSwap", "bswap", "fn", []),
   ("u64x2_sse2", "NoS3", "BSwap", "bswap", "fn", []),
   ("u128x1_sse2", "YesS3", "BSwap", "bswap", "fn", []),
   ("u128x1_sse2", "NoS3", "BSwap", "bswap", "fn", []),
   ("u128x1_sse2", "YesS3", "Swap64", "swap1", "fn", []),
   ("u128x1_sse2", "YesS3", "Swap64", "swap2", "fn", []),
   ("u128x1_sse2", "YesS3", "Swap64", "swap4", "fn", []),
   ("u128x1_sse2", "YesS3", "Swap64", "swap8", "fn", []),
   ("u128x1_sse2", "YesS3", "Swap64", "swap16", "fn", []),
   ("u128x1_sse2", "YesS3", "Swap64", "swap32", "fn", []),
   ("u128x1_sse2", "YesS3", "Swap64", "swap64", "fn", []),
   ("u128x1_sse2", "NoS3", "Swap64", "swap1", "fn", []),
   ("u128x1_sse2", "NoS3", "Swap64", "swap2", "fn", []),
   ("u128x1_sse2", "NoS3", "Swap64", "swap4", "fn", []),
   ("u128x1_sse2", "NoS3", "Swap64", "swap8", "fn", []),
   ("u128x1_sse2", "NoS3", "Swap64", "swap16", "fn", []),
   ("u128x1_sse2", "NoS3", "Swap64", "swap32", "fn", []),
   ("u128x1_sse2", "NoS3", "Swap64", "swap64", "fn", []),
   ("u32x4x2_avx2", "", "RotateEachWord32", "rotate_each_word_right7", "rotr_32", [7]),
   ("u32x4x2_avx2", "", "RotateEachWord32", "rotate_each_word_right8", "shuf_lane_bytes", [0xc0f0e0d080b0a09, 0x407060500030201]),
   ("u32x4x2_avx2", "", "RotateEachWord32", "rotate_each_word_right11", "rotr_32", [11]),
   ("u32x4x2_avx2", "", "RotateEachWord32", "rotate_each_word_right12", "rotr_32", [12]),
   ("u32x4x2_avx2", "", "RotateEachWord32", "rotate_each_word_right16", "shuf_lane_bytes", [0xd0c0f0e09080b0a, 0x504070601000302]),
   ("u32x4x2_avx2", "", "RotateEachWord32", "rotate_each_word_right20", "rotr_32", [20]),
   ("u32x4x2_avx2", "", "RotateEachWord32", "rotate_each_word_right24", "shuf_lane_bytes", [0xe0d0c0f0a09080b, 0x605040702010003]),
   ("u32x4x2_avx2", "", "RotateEachWord32", "rotate_each_word_right25", "rotr_32", [25]),
   ("u32x4x2_avx2", "", "BSwap", "bswap", "shuf_lane_bytes", [0xc0d0e0f08090a0b, 0x405060700010203]),
   ("u32x4x2_avx2", "", "LaneWords4", "shuffle_lane_words1230", "fn", []),
   ("u32x4x2_avx2", "", "LaneWords4", "shuffle_lane_words2301", "fn", []),
   ("u32x4x2_avx2", "", "LaneWords4", "shuffle_lane_words3012", "fn", [])] := rfl

/-- the item-level macro invocation lists of sse2.rs / mod.rs, in source order -/
theorem src_x86_invocation_rows : SimdX86Src.invocation_rows =
  [("", "", "impl_into", ["vec128_storage", "[u32; 4]", "u32x4"]),
   ("", "", "impl_into", ["vec128_storage", "[u64; 2]", "u64x2"]),
   ("", "", "impl_into", ["vec128_storage", "[u128; 1]", "u128x1"]),
   ("", "", "impl_into", ["vec256_storage", "[u32; 8]", "u32x8"]),
   ("", "", "impl_into", ["vec256_storage", "[u64; 4]", "u64x4"]),
   ("", "", "impl_into", ["vec256_storage", "[u128; 2]", "u128x2"]),
   ("", "", "impl_into", ["vec512_storage", "[u32; 16]", "u32x16"]),
   ("", "", "impl_into", ["vec512_storage", "[u64; 8]", "u64x8"]),
   ("", "", "impl_into", ["vec512_storage", "[u128; 4]", "u128x4"]),
   ("", "", "def_vec", ["u32x4_sse2", "u32"]),
   ("", "def_vec", "impl_binop", ["u32x4_sse2", "BitAnd", "bitand", "_mm_and_si128"]),
   ("", "def_vec", "impl_binop", ["u32x4_sse2", "BitOr", "bitor", "_mm_or_si128"]),
   ("", "def_vec", "impl_binop", ["u32x4_sse2", "BitXor", "bitxor", "_mm_xor_si128"]),
   ("", "def_vec", "impl_binop_assign", ["u32x4_sse2", "BitAndAssign", "bitand_assign", "bitand"]),
   ("", "def_vec", "impl_binop_assign", ["u32x4_sse2", "BitOrAssign", "bitor_assign", "bitor"]),
   ("", "def_vec", "impl_binop_assign", ["u32x4_sse2", "BitXorAssign", "bitxor_assign", "bitxor"]),
   ("", "", "def_vec", ["u64x2_sse2", "u64"]),
   ("", "def_vec", "impl_binop", ["u64x2_sse2", "BitAnd", "bitand", "_mm_and_si128"]),
   ("", "def_vec", "impl_binop", ["u64x2_sse2", "BitOr", "bitor", "_mm_or_si128"]),
   ("", "def_vec", "impl_binop", ["u64x2_sse2", "BitXor", "bitxor", "_mm_xor_si128"]),
   ("", "def_vec", "impl_binop_assign", ["u64x2_sse2", "BitAndAssign", "bitand_assign", "bitand"]),
   ("", "def_vec", "impl_binop_assign", ["u64x2_sse2", "BitOrAssign", "bitor_assign", "bitor"]),
   ("", "def_vec", "impl_binop_assign", ["u64x2_sse2", "BitXorAssign", "bitxor_assign", "bitxor"]),
   ("", "", "def_vec", ["u128x1_sse2", "u128"]),
   ("", "def_vec", "impl_binop", ["u128x1_sse2", "BitAnd", "bitand", "_mm_and_si128"]),
   ("", "def_vec", "impl_binop", ["u128x1_sse2", "BitOr", "bitor", "_mm_or_si128"]),
   ("", "def_vec", "impl_binop", ["u128x1_sse2", "BitXor", "bitxor", "_mm_xor_si128"]),
   ("", "def_vec", "impl_binop_assign", ["u128x1_sse2", "BitAndAssign", "bitand_assign", "bitand"]),
   ("", "def_vec", "impl_binop_assign", ["u128x1_sse2", "BitOrAssign", "bitor_assign", "bitor"]),
   ("", "def_vec", "impl_binop_assign", ["u128x1_sse2", "BitXorAssign", "bitxor_assign", "bitxor"]),
   ("", "", "impl_into", ["u128x1_sse2", "u32x4_sse2"]),
   ("", "", "impl_into", ["u128x1_sse2", "u64x2_sse2"]),
   ("", "", "impl_bitops32", ["u32x4_sse2"]),
   ("", "", "impl_bitops64", ["u64x2_sse2"]),
   ("", "impl_bitops64", "impl_bitops32", ["u64x2_sse2"]),
   ("", "", "impl_bitops128", ["u128x1_sse2"]),
   ("", "impl_bitops128", "impl_bitops64", ["u128x1_sse2"]),
   ("", "impl_bitops64", "impl_bitops32", ["u128x1_sse2"]),
   ("", "", "impl_binop", ["u32x4_sse2", "Add", "add", "_mm_add_epi32"]),
   ("", "", "impl_binop", ["u64x2_sse2", "Add", "add", "_mm_add_epi64"]),
   ("", "", "impl_binop_assign", ["u32x4_sse2", "AddAssign", "add_assign", "add"]),
   ("", "", "impl_binop_assign", ["u64x2_sse2", "AddAssign", "add_assign", "add"]),
   ("", "", "impl_into_x", ["u128x1_sse2", "u64x2_sse2"]),
   ("", "", "impl_into_x", ["u128x1_sse2", "u32x4_sse2"]),
   ("avx2", "", "impl_assign", ["u32x4x2_avx2", "BitXorAssign", "bitxor_assign", "bitxor"]),
   ("avx2", "", "impl_assign", ["u32x4x2_avx2", "BitOrAssign", "bitor_assign", "bitor"]),
   ("avx2", "", "impl_assign", ["u32x4x2_avx2", "BitAndAssign", "bitand_assign", "bitand"]),
   ("avx2", "", "impl_assign", ["u32x4x2_avx2", "AddAssign", "add_assign", "add"]),
   ("avx2", "", "impl_bitop", ["u32x4x2_avx2", "BitXor", "bitxor", "_mm256_xor_si256"]),
   ("avx2", "", "impl_bitop", ["u32x4x2_avx2", "BitOr", "bitor", "_mm256_or_si256"]),
   ("avx2", "", "impl_bitop", ["u32x4x2_avx2", "BitAnd", "bitand", "_mm256_and_si256"]),
   ("avx2", "", "impl_bitop", ["u32x4x2_avx2", "AndNot", "andnot", "_mm256_andnot_si256"]),
   ("avx2", "", "impl_bitop", ["u32x4x2_avx2", "Add", "add", "_mm256_add_epi32"])] := rfl

/-- the impl blocks the translator deliberately leaves out (`Debug`, `PartialEq` / `Eq`, `impl Machine`) -/
theorem src_x86_skipped_rows : SimdX86Src.skipped_rows =
  [("Machine", "impl<S3 : Copy, S4 : Copy, NI : Copy> Machine for SseMachine<S3, S4, NI>"),
   ("Machine", "impl<NI : Copy> Machine for Avx2Machine<NI>"),
   ("Eq", "impl Eq for vec128_storage"),
   ("PartialEq", "impl PartialEq for vec128_storage"),
   ("Eq", "impl Eq for vec256_storage"),
   ("PartialEq", "impl PartialEq for vec256_storage"),
   ("Eq", "impl Eq for vec512_storage"),
   ("PartialEq", "impl PartialEq for vec512_storage"),
   ("PartialEq", "impl<W : PartialEq, G> PartialEq for x2<W, G>"),
   ("PartialEq", "impl<S3, S4, NI> PartialEq for u32x4_sse2<S3, S4, NI>"),
   ("Debug", "impl<S3, S4, NI> Debug for u32x4_sse2<S3, S4, NI>"),
   ("PartialEq", "impl<S3, S4, NI> PartialEq for u64x2_sse2<S3, S4, NI>"),
   ("Debug", "impl<S3, S4, NI> Debug for u64x2_sse2<S3, S4, NI>"),
   ("Debug", "impl<S3, S4, NI> Debug for u64x4_sse2<S3, S4, NI>")] := rfl

/-! ## which Rust type each `Machine` uses for each associated vector type (`CC.Simd.impl`) -/

/-- the operation record of a Rust type of sse2.rs / soft.rs, by its shape (aliases expanded, flag arguments taken out):
    `x2<W, G0>` and `x4<W>` are the generic forwarders of soft.rs, `x2<u64x2_sse2, G1>` = `u64x4_sse2` has its own
    `Words4` / `MultiLane<[u64; 4]>` / `Vec4<u64>` -/
def recOfShape (s3 s4 : Bool) : String → (τ : Ty) → Option (VOps τ.bits τ.elem)
  | "u32x4_sse2", .u32x4 => some (X86.u32x4 s3 s4)
  | "u64x2_sse2", .u64x2 => some (X86.u64x2 s3 s4)
  | "u128x1_sse2", .u128x1 => some (X86.u128x1 s3)
  | "x2<u32x4_sse2, G0>", .u32x4x2 => some (Soft.x2 (X86.u32x4 s3 s4))
  | "x2<u64x2_sse2, G0>", .u64x2x2 => some (Soft.x2 (X86.u64x2 s3 s4))
  | "x2<u64x2_sse2, G1>", .u64x4 => some (X86.u64x4 s3 s4)
  | "x2<u128x1_sse2, G0>", .u128x2 => some (Soft.x2 (X86.u128x1 s3))
  | "x4<u32x4_sse2>", .u32x4x4 => some (Soft.x4 (X86.u32x4 s3 s4))
  | "x4<u64x2_sse2>", .u64x2x4 => some (Soft.x4 (X86.u64x2 s3 s4))
  | "x4<u128x1_sse2>", .u128x4 => some (Soft.x4 (X86.u128x1 s3))
  | "u32x4x2_avx2", .u32x4x2 => some Avx2.u32x4x2
  | "x2<u32x4x2_avx2, G0>", .u32x4x4 => some Avx2.u32x4x4
  | _, _ => none

/-- a flag argument of a row: a concrete `Yes*` / `No*`, or the machine's own parameter (looked up in the alias) -/
def flagOf (margs : List String) : String → Option Bool
  | "YesS3" => some true | "YesS4" => some true
  | "NoS3" => some false | "NoS4" => some false
  | "S3" => if margs.getD 0 "" = "YesS3" then some true else if margs.getD 0 "" = "NoS3" then some false else none
  | "S4" => if margs.getD 1 "" = "YesS4" then some true else if margs.getD 1 "" = "NoS4" then some false else none
  | "" => some false
  | _ => none

def aliasOf : Backend → String
  | .sse2 => "SSE2" | .ssse3 => "SSSE3" | .sse41 => "SSE41" | .avx => "AVX" | .avx2 => "AVX2" | .generic => ""

/-- what the SOURCE says backend `b` uses for vector type `τ`: alias row → machine → associated-type row → record -/
def srcImpl (b : Backend) (τ : Ty) : Option (VOps τ.bits τ.elem) :=
  match SimdX86Src.machine_alias_rows.find? (fun a => a.1 = aliasOf b) with
  | none => none
  | some a =>
    match SimdX86Src.machine_type_rows.find? (fun r => r.1 = a.2.1 ∧ r.2.1 = τ.name) with
    | none => none
    | some r =>
      match flagOf a.2.2 r.2.2.2.1, flagOf a.2.2 r.2.2.2.2 with
      | some s3, some s4 => recOfShape s3 s4 r.2.2.1 τ
      | _, _ => none

/-- `impl Machine for SseMachine<S3, S4, NI>` / `for Avx2Machine<NI>` and the aliases `SSE2 … AVX2` of mod.rs, as
    regenerated from the source, select exactly the records of `CC.Simd.impl` (lean/CC/Simd/Impl.lean) -/
theorem src_x86_machine_types (b : Backend) (τ : Ty) (h : b ≠ .generic) : srcImpl b τ = some (impl b τ) := by
  cases b <;> first | exact absurd rfl h | (cases τ <;> rfl)

/-- the list of translated definitions (every method of every non-skipped impl block, per selecting flag combination);
    each of them is a field of `X86WordTie` or `X86MoveTie` -/
theorem src_x86_def_rows : SimdX86Src.def_rows =
  ["vec128_storage_unpack", "ref_arr_u32_4_from_ref_vec128_storage", "vec128_storage_from_arr_u32_4",
   "vec128_storage_default", "vec256_storage_from_arr_u64_4", "vec256_storage_default",
   "vec256_storage_new128", "vec256_storage_split128", "vec512_storage_default",
   "vec512_storage_new128", "vec512_storage_split128", "arr_u32_4_from_vec128_storage",
   "arr_u64_2_from_vec128_storage", "arr_u128_1_from_vec128_storage", "arr_u32_8_from_vec256_storage",
   "arr_u64_4_from_vec256_storage", "arr_u128_2_from_vec256_storage", "arr_u32_16_from_vec512_storage",
   "arr_u64_8_from_vec512_storage", "arr_u128_4_from_vec512_storage", "u32x4_sse2_YesS3_rotate_each_word_right7",
   "u32x4_sse2_YesS3_rotate_each_word_right8", "u32x4_sse2_YesS3_rotate_each_word_right11", "u32x4_sse2_YesS3_rotate_each_word_right12",
   "u32x4_sse2_YesS3_rotate_each_word_right16", "u32x4_sse2_YesS3_rotate_each_word_right20", "u32x4_sse2_YesS3_rotate_each_word_right24",
   "u32x4_sse2_YesS3_rotate_each_word_right25", "u32x4_sse2_NoS3_rotate_each_word_right7", "u32x4_sse2_NoS3_rotate_each_word_right8",
   "u32x4_sse2_NoS3_rotate_each_word_right11", "u32x4_sse2_NoS3_rotate_each_word_right12", "u32x4_sse2_NoS3_rotate_each_word_right16",
   "u32x4_sse2_NoS3_rotate_each_word_right20", "u32x4_sse2_NoS3_rotate_each_word_right24", "u32x4_sse2_NoS3_rotate_each_word_right25",
   "u64x2_sse2_YesS3_rotate_each_word_right7", "u64x2_sse2_YesS3_rotate_each_word_right8", "u64x2_sse2_YesS3_rotate_each_word_right11",
   "u64x2_sse2_YesS3_rotate_each_word_right12", "u64x2_sse2_YesS3_rotate_each_word_right16", "u64x2_sse2_YesS3_rotate_each_word_right20",
   "u64x2_sse2_YesS3_rotate_each_word_right24", "u64x2_sse2_YesS3_rotate_each_word_right25", "u64x2_sse2_NoS3_rotate_each_word_right7",
   "u64x2_sse2_NoS3_rotate_each_word_right8", "u64x2_sse2_NoS3_rotate_each_word_right11", "u64x2_sse2_NoS3_rotate_each_word_right12",
   "u64x2_sse2_NoS3_rotate_each_word_right16", "u64x2_sse2_NoS3_rotate_each_word_right20", "u64x2_sse2_NoS3_rotate_each_word_right24",
   "u64x2_sse2_NoS3_rotate_each_word_right25", "u64x2_sse2_rotate_each_word_right32", "u128x1_sse2_rotate_each_word_right7",
   "u128x1_sse2_rotate_each_word_right8", "u128x1_sse2_rotate_each_word_right11", "u128x1_sse2_rotate_each_word_right12",
   "u128x1_sse2_rotate_each_word_right16", "u128x1_sse2_rotate_each_word_right20", "u128x1_sse2_rotate_each_word_right24",
   "u128x1_sse2_rotate_each_word_right25", "u128x1_sse2_rotate_each_word_right32", "u32x4_sse2_unpack",
   "vec128_storage_from_u32x4_sse2", "u32x4_sse2_new", "u32x4_sse2_unsafe_read_le",
   "u32x4_sse2_YesS3_unsafe_read_be", "u32x4_sse2_NoS3_unsafe_read_be", "u32x4_sse2_write_le",
   "u32x4_sse2_YesS3_write_be", "u32x4_sse2_NoS3_write_be", "u32x4_sse2_default",
   "u32x4_sse2_not", "u32x4_sse2_bitand", "u32x4_sse2_bitor",
   "u32x4_sse2_bitxor", "u32x4_sse2_bitand_assign", "u32x4_sse2_bitor_assign",
   "u32x4_sse2_bitxor_assign", "u32x4_sse2_andnot", "u64x2_sse2_unpack",
   "vec128_storage_from_u64x2_sse2", "u64x2_sse2_new", "u64x2_sse2_unsafe_read_le",
   "u64x2_sse2_YesS3_unsafe_read_be", "u64x2_sse2_NoS3_unsafe_read_be", "u64x2_sse2_write_le",
   "u64x2_sse2_YesS3_write_be", "u64x2_sse2_NoS3_write_be", "u64x2_sse2_default",
   "u64x2_sse2_not", "u64x2_sse2_bitand", "u64x2_sse2_bitor",
   "u64x2_sse2_bitxor", "u64x2_sse2_bitand_assign", "u64x2_sse2_bitor_assign",
   "u64x2_sse2_bitxor_assign", "u64x2_sse2_andnot", "u128x1_sse2_unpack",
   "vec128_storage_from_u128x1_sse2", "u128x1_sse2_new", "u128x1_sse2_unsafe_read_le",
   "u128x1_sse2_YesS3_unsafe_read_be", "u128x1_sse2_NoS3_unsafe_read_be", "u128x1_sse2_write_le",
   "u128x1_sse2_YesS3_write_be", "u128x1_sse2_NoS3_write_be", "u128x1_sse2_default",
   "u128x1_sse2_not", "u128x1_sse2_bitand", "u128x1_sse2_bitor",
   "u128x1_sse2_bitxor", "u128x1_sse2_bitand_assign", "u128x1_sse2_bitor_assign",
   "u128x1_sse2_bitxor_assign", "u128x1_sse2_andnot", "u32x4_sse2_YesS4_to_lanes",
   "u32x4_sse2_YesS4_from_lanes", "u32x4_sse2_NoS4_to_lanes", "u32x4_sse2_NoS4_from_lanes",
   "u64x2_sse2_YesS4_to_lanes", "u64x2_sse2_YesS4_from_lanes", "u64x2_sse2_NoS4_to_lanes",
   "u64x2_sse2_NoS4_from_lanes", "u128x1_sse2_to_lanes", "u128x1_sse2_from_lanes",
   "u64x4_sse2_YesS4_to_lanes", "u64x4_sse2_NoS4_to_lanes", "u64x4_sse2_YesS4_from_lanes",
   "u64x4_sse2_NoS4_from_lanes", "u32x4_sse2_from_u128x1_sse2", "u64x2_sse2_from_u128x1_sse2",
   "u32x4_sse2_add", "u64x2_sse2_add", "u32x4_sse2_add_assign",
   "u64x2_sse2_add_assign", "u32x4_sse2_unsafe_from", "u32x4_sse2_YesS4_extract",
   "u32x4_sse2_YesS4_insert", "u32x4_sse2_NoS4_extract", "u32x4_sse2_NoS4_insert",
   "u32x4_sse2_shuffle_lane_words2301", "u32x4_sse2_shuffle_lane_words1230", "u32x4_sse2_shuffle_lane_words3012",
   "u32x4_sse2_shuffle2301", "u32x4_sse2_shuffle1230", "u32x4_sse2_shuffle3012",
   "u64x4_sse2_YesS3_shuffle2301", "u64x4_sse2_YesS3_shuffle3012", "u64x4_sse2_YesS3_shuffle1230",
   "u64x4_sse2_NoS3_shuffle2301", "u64x4_sse2_NoS3_shuffle3012", "u64x4_sse2_NoS3_shuffle1230",
   "u64x2_sse2_unsafe_from", "u64x2_sse2_YesS4_extract", "u64x2_sse2_YesS4_insert",
   "u64x2_sse2_NoS4_extract", "u64x2_sse2_NoS4_insert", "u32x4_sse2_YesS3_bswap",
   "u32x4_sse2_NoS3_bswap", "u64x2_sse2_YesS3_bswap", "u64x2_sse2_NoS3_bswap",
   "u128x1_sse2_YesS3_bswap", "u128x1_sse2_NoS3_bswap", "u128x1_sse2_YesS3_swap1",
   "u128x1_sse2_YesS3_swap2", "u128x1_sse2_YesS3_swap4", "u128x1_sse2_YesS3_swap8",
   "u128x1_sse2_YesS3_swap16", "u128x1_sse2_YesS3_swap32", "u128x1_sse2_YesS3_swap64",
   "u128x1_sse2_NoS3_swap1", "u128x1_sse2_NoS3_swap2", "u128x1_sse2_NoS3_swap4",
   "u128x1_sse2_NoS3_swap8", "u128x1_sse2_NoS3_swap16", "u128x1_sse2_NoS3_swap32",
   "u128x1_sse2_NoS3_swap64", "u32x4x4_sse2_to_scalars", "u64x4_sse2_YesS4_extract",
   "u64x4_sse2_NoS4_extract", "u64x4_sse2_YesS4_insert", "u64x4_sse2_NoS4_insert",
   "x2_u64x2_sse2_from_x2_u128x1_sse2", "x4_u64x2_sse2_from_x4_u128x1_sse2", "x2_u32x4_sse2_from_x2_u128x1_sse2",
   "x4_u32x4_sse2_from_x4_u128x1_sse2", "u32x4x2_avx2_new", "u32x4x2_avx2_unpack",
   "u32x4x2_avx2_unsafe_read_le", "u32x4x2_avx2_unsafe_read_be", "u32x4x2_avx2_write_le",
   "u32x4x2_avx2_write_be", "u32x4x2_avx2_to_lanes", "u32x4x2_avx2_from_lanes",
   "u32x4x2_avx2_extract", "u32x4x2_avx2_insert", "u32x4x2_avx2_rotate_each_word_right7",
   "u32x4x2_avx2_rotate_each_word_right8", "u32x4x2_avx2_rotate_each_word_right11", "u32x4x2_avx2_rotate_each_word_right12",
   "u32x4x2_avx2_rotate_each_word_right16", "u32x4x2_avx2_rotate_each_word_right20", "u32x4x2_avx2_rotate_each_word_right24",
   "u32x4x2_avx2_rotate_each_word_right25", "vec256_storage_from_u32x4x2_avx2", "u32x4x2_avx2_bitxor_assign",
   "u32x4x2_avx2_bitor_assign", "u32x4x2_avx2_bitand_assign", "u32x4x2_avx2_add_assign",
   "u32x4x2_avx2_bitxor", "u32x4x2_avx2_bitor", "u32x4x2_avx2_bitand",
   "u32x4x2_avx2_andnot", "u32x4x2_avx2_add", "u32x4x2_avx2_not",
   "u32x4x2_avx2_bswap", "u32x4x2_avx2_from_x2_u128x1_sse2", "u32x4x2_avx2_shuffle_lane_words1230",
   "u32x4x2_avx2_shuffle_lane_words2301", "u32x4x2_avx2_shuffle_lane_words3012", "u32x4x4_avx2_unpack",
   "u32x4x4_avx2_to_lanes", "u32x4x4_avx2_from_lanes", "u32x4x4_avx2_extract",
   "u32x4x4_avx2_insert", "u32x4x4_avx2_transpose4", "u32x4x4_avx2_to_scalars",
   "vec512_storage_from_u32x4x4_avx2", "u32x4x4_avx2_from_x4_u128x1_sse2"] := rfl

/-! ## C13: data movement -/

theorem join256 (v : BitVec 256) : v.extractLsb' 128 128 ++ v.extractLsb' 0 128 = v := by bv_decide
theorem join512w (v : BitVec 512) : v.extractLsb' 256 256 ++ v.extractLsb' 0 256 = v := by bv_decide
theorem join512q (v : BitVec 512) :
    v.extractLsb' (128 * 3) 128 ++ v.extractLsb' (128 * 2) 128 ++ v.extractLsb' (128 * 1) 128 ++ v.extractLsb' (128 * 0) 128 = v := by
  bv_decide
theorem join512m (v : BitVec 512) :
    (v.extractLsb' (128 * 3) 128 ++ v.extractLsb' (128 * 2) 128) ++ (v.extractLsb' (128 * 1) 128 ++ v.extractLsb' (128 * 0) 128) = v := by
  bv_decide
theorem ofWords32x4 (a b c d : BitVec 32) : SimdX86Src.ofWords 128 [a, b, c, d] = pack32 a b c d := by
  simp only [SimdX86Src.ofWords, List.foldr, pack32]; bv_decide
theorem ofWords64x4 (a b c d : BitVec 64) : SimdX86Src.ofWords 256 [a, b, c, d] = pack64x4 a b c d := by
  simp only [SimdX86Src.ofWords, List.foldr, pack64x4]; bv_decide

/-- the data movement of the x86 vector types (lanes, insert / extract, bytes, conversions, storage views), as translated from the source, is the model's -/
structure X86MoveTie : Prop where
  /-- `impl MultiLane<[u32; 4]> for u32x4_sse2<S3, YesS4, NI>` -/
  u32x4_lanes_YesS4 : ∀ s3 : Bool, (X86.u32x4 s3 true).toLanes = SimdX86Src.u32x4_sse2_YesS4_to_lanes ∧
    (X86.u32x4 s3 true).fromLanes = SimdX86Src.u32x4_sse2_YesS4_from_lanes
  /-- `impl Vec4<u32> for u32x4_sse2<S3, YesS4, NI>`: `extract` = `self.to_lanes()[i]`; `insert` = one arm per index (`pinsrd`), `_ => unreachable!()` -/
  u32x4_vec4_YesS4 : ∀ s3 : Bool, (X86.u32x4 s3 true).extract = SimdX86Src.u32x4_sse2_YesS4_extract ∧
    SimdX86Src.u32x4_sse2_YesS4_insert = ([0, 1, 2, 3].map fun i => (i, fun v w => (X86.u32x4 s3 true).insert v w i)) ∧
    SimdX86Src.u32x4_sse2_YesS4_insert_default = "unreachable!()"
  /-- `impl MultiLane<[u32; 4]> for u32x4_sse2<S3, NoS4, NI>` -/
  u32x4_lanes_NoS4 : ∀ s3 : Bool, (X86.u32x4 s3 false).toLanes = SimdX86Src.u32x4_sse2_NoS4_to_lanes ∧
    (X86.u32x4 s3 false).fromLanes = SimdX86Src.u32x4_sse2_NoS4_from_lanes
  /-- `impl Vec4<u32> for u32x4_sse2<S3, NoS4, NI>`: `extract` = `self.to_lanes()[i]`; `insert` = one arm per index (shuffle / byte shift / or), `_ => unreachable!()` -/
  u32x4_vec4_NoS4 : ∀ s3 : Bool, (X86.u32x4 s3 false).extract = SimdX86Src.u32x4_sse2_NoS4_extract ∧
    SimdX86Src.u32x4_sse2_NoS4_insert = ([0, 1, 2, 3].map fun i => (i, fun v w => (X86.u32x4 s3 false).insert v w i)) ∧
    SimdX86Src.u32x4_sse2_NoS4_insert_default = "unreachable!()"
  /-- `impl StoreBytes for u32x4_sse2` (`def_vec!`) with `bswap` of `<YesS3, ..>` -/
  u32x4_bytes_YesS3 : ∀ s4 : Bool, (X86.u32x4 true s4).readLe = SimdX86Src.u32x4_sse2_unsafe_read_le ∧
    (X86.u32x4 true s4).readBe = SimdX86Src.u32x4_sse2_YesS3_unsafe_read_be ∧
    (X86.u32x4 true s4).writeLe = SimdX86Src.u32x4_sse2_write_le ∧
    (X86.u32x4 true s4).writeBe = SimdX86Src.u32x4_sse2_YesS3_write_be
  /-- `impl StoreBytes for u32x4_sse2` (`def_vec!`) with `bswap` of `<NoS3, ..>` -/
  u32x4_bytes_NoS3 : ∀ s4 : Bool, (X86.u32x4 false s4).readLe = SimdX86Src.u32x4_sse2_unsafe_read_le ∧
    (X86.u32x4 false s4).readBe = SimdX86Src.u32x4_sse2_NoS3_unsafe_read_be ∧
    (X86.u32x4 false s4).writeLe = SimdX86Src.u32x4_sse2_write_le ∧
    (X86.u32x4 false s4).writeBe = SimdX86Src.u32x4_sse2_NoS3_write_be
  /-- `impl MultiLane<[u64; 2]> for u64x2_sse2<S3, YesS4, NI>` -/
  u64x2_lanes_YesS4 : ∀ s3 : Bool, (X86.u64x2 s3 true).toLanes = SimdX86Src.u64x2_sse2_YesS4_to_lanes ∧
    (X86.u64x2 s3 true).fromLanes = SimdX86Src.u64x2_sse2_YesS4_from_lanes
  /-- `impl Vec2<u64> for u64x2_sse2<S3, YesS4, NI>`: one arm per index, `_ => unreachable!()` -/
  u64x2_vec2_YesS4 : ∀ s3 : Bool, SimdX86Src.u64x2_sse2_YesS4_extract = ([0, 1].map fun i => (i, fun v => (X86.u64x2 s3 true).extract v i)) ∧
    SimdX86Src.u64x2_sse2_YesS4_insert = ([0, 1].map fun i => (i, fun v w => (X86.u64x2 s3 true).insert v w i)) ∧
    SimdX86Src.u64x2_sse2_YesS4_extract_default = "unreachable!()" ∧ SimdX86Src.u64x2_sse2_YesS4_insert_default = "unreachable!()"
  /-- `impl MultiLane<[u64; 2]> for u64x2_sse2<S3, NoS4, NI>` -/
  u64x2_lanes_NoS4 : ∀ s3 : Bool, (X86.u64x2 s3 false).toLanes = SimdX86Src.u64x2_sse2_NoS4_to_lanes ∧
    (X86.u64x2 s3 false).fromLanes = SimdX86Src.u64x2_sse2_NoS4_from_lanes
  /-- `impl Vec2<u64> for u64x2_sse2<S3, NoS4, NI>`: one arm per index, `_ => unreachable!()` -/
  u64x2_vec2_NoS4 : ∀ s3 : Bool, SimdX86Src.u64x2_sse2_NoS4_extract = ([0, 1].map fun i => (i, fun v => (X86.u64x2 s3 false).extract v i)) ∧
    SimdX86Src.u64x2_sse2_NoS4_insert = ([0, 1].map fun i => (i, fun v w => (X86.u64x2 s3 false).insert v w i)) ∧
    SimdX86Src.u64x2_sse2_NoS4_extract_default = "unreachable!()" ∧ SimdX86Src.u64x2_sse2_NoS4_insert_default = "unreachable!()"
  /-- `impl StoreBytes for u64x2_sse2` with `bswap` of `<YesS3, ..>` -/
  u64x2_bytes_YesS3 : ∀ s4 : Bool, (X86.u64x2 true s4).readLe = SimdX86Src.u64x2_sse2_unsafe_read_le ∧
    (X86.u64x2 true s4).readBe = SimdX86Src.u64x2_sse2_YesS3_unsafe_read_be ∧
    (X86.u64x2 true s4).writeLe = SimdX86Src.u64x2_sse2_write_le ∧
    (X86.u64x2 true s4).writeBe = SimdX86Src.u64x2_sse2_YesS3_write_be
  /-- `impl StoreBytes for u64x2_sse2` with `bswap` of `<NoS3, ..>` -/
  u64x2_bytes_NoS3 : ∀ s4 : Bool, (X86.u64x2 false s4).readLe = SimdX86Src.u64x2_sse2_unsafe_read_le ∧
    (X86.u64x2 false s4).readBe = SimdX86Src.u64x2_sse2_NoS3_unsafe_read_be ∧
    (X86.u64x2 false s4).writeLe = SimdX86Src.u64x2_sse2_write_le ∧
    (X86.u64x2 false s4).writeBe = SimdX86Src.u64x2_sse2_NoS3_write_be
  /-- `impl MultiLane<[u128; 1]> for u128x1_sse2`: through the `u128x1` view of `vec128_storage` (`impl_into!` of mod.rs) -/
  u128x1_lanes : ∀ s3 : Bool, (X86.u128x1 s3).toLanes = SimdX86Src.u128x1_sse2_to_lanes ∧
    (X86.u128x1 s3).fromLanes = SimdX86Src.u128x1_sse2_from_lanes
  /-- `impl StoreBytes for u128x1_sse2` with `bswap` of `<YesS3, ..>` -/
  u128x1_bytes_YesS3 : (X86.u128x1 true).readLe = SimdX86Src.u128x1_sse2_unsafe_read_le ∧
    (X86.u128x1 true).readBe = SimdX86Src.u128x1_sse2_YesS3_unsafe_read_be ∧
    (X86.u128x1 true).writeLe = SimdX86Src.u128x1_sse2_write_le ∧
    (X86.u128x1 true).writeBe = SimdX86Src.u128x1_sse2_YesS3_write_be
  /-- `impl StoreBytes for u128x1_sse2` with `bswap` of `<NoS3, ..>` -/
  u128x1_bytes_NoS3 : (X86.u128x1 false).readLe = SimdX86Src.u128x1_sse2_unsafe_read_le ∧
    (X86.u128x1 false).readBe = SimdX86Src.u128x1_sse2_NoS3_unsafe_read_be ∧
    (X86.u128x1 false).writeLe = SimdX86Src.u128x1_sse2_write_le ∧
    (X86.u128x1 false).writeBe = SimdX86Src.u128x1_sse2_NoS3_write_be
  /-- `impl MultiLane<[u64; 4]> for u64x4_sse2` over `u64x2_sse2<S3, YesS4, NI>` -/
  u64x4_lanes_YesS4 : ∀ s3 : Bool, (X86.u64x4 s3 true).toLanes = SimdX86Src.u64x4_sse2_YesS4_to_lanes ∧
    (X86.u64x4 s3 true).fromLanes = SimdX86Src.u64x4_sse2_YesS4_from_lanes
  /-- `impl Vec4<u64> for u64x4_sse2` over `u64x2_sse2<S3, YesS4, NI>`: `0, 1 => self.0[0]`, `2, 3 => self.0[1]`, `_ => panic!()` -/
  u64x4_vec4_YesS4 : ∀ s3 : Bool, SimdX86Src.u64x4_sse2_YesS4_extract = ([0, 1, 2, 3].map fun i => (i, fun v => (X86.u64x4 s3 true).extract v i)) ∧
    SimdX86Src.u64x4_sse2_YesS4_insert = ([0, 1, 2, 3].map fun i => (i, fun v w => (X86.u64x4 s3 true).insert v w i)) ∧
    SimdX86Src.u64x4_sse2_YesS4_extract_default = "panic!()" ∧ SimdX86Src.u64x4_sse2_YesS4_insert_default = "panic!()"
  /-- `impl MultiLane<[u64; 4]> for u64x4_sse2` over `u64x2_sse2<S3, NoS4, NI>` -/
  u64x4_lanes_NoS4 : ∀ s3 : Bool, (X86.u64x4 s3 false).toLanes = SimdX86Src.u64x4_sse2_NoS4_to_lanes ∧
    (X86.u64x4 s3 false).fromLanes = SimdX86Src.u64x4_sse2_NoS4_from_lanes
  /-- `impl Vec4<u64> for u64x4_sse2` over `u64x2_sse2<S3, NoS4, NI>`: `0, 1 => self.0[0]`, `2, 3 => self.0[1]`, `_ => panic!()` -/
  u64x4_vec4_NoS4 : ∀ s3 : Bool, SimdX86Src.u64x4_sse2_NoS4_extract = ([0, 1, 2, 3].map fun i => (i, fun v => (X86.u64x4 s3 false).extract v i)) ∧
    SimdX86Src.u64x4_sse2_NoS4_insert = ([0, 1, 2, 3].map fun i => (i, fun v w => (X86.u64x4 s3 false).insert v w i)) ∧
    SimdX86Src.u64x4_sse2_NoS4_extract_default = "panic!()" ∧ SimdX86Src.u64x4_sse2_NoS4_insert_default = "panic!()"
  /-- `impl Vector<[u32; 16]>` for `u32x4x4_sse2` and `u32x4x4_avx2`: `transmute!(self)` -/
  to_scalars : X86.toScalars = SimdX86Src.u32x4x4_sse2_to_scalars ∧ X86.toScalars = SimdX86Src.u32x4x4_avx2_to_scalars
  /-- `impl MultiLane<[u32x4_sse2; 2]> for u32x4x2_avx2` (`vextracti128`, `_mm256_setr_m128i`) -/
  avx2_lanes : Avx2.u32x4x2.toLanes = SimdX86Src.u32x4x2_avx2_to_lanes ∧ Avx2.u32x4x2.fromLanes = SimdX86Src.u32x4x2_avx2_from_lanes
  /-- `impl Vec2<u32x4_sse2> for u32x4x2_avx2`: one arm per index, `_ => panic!()` -/
  avx2_vec2 : SimdX86Src.u32x4x2_avx2_extract = ([0, 1].map fun i => (i, fun v => Avx2.u32x4x2.extract v i)) ∧
    SimdX86Src.u32x4x2_avx2_insert = ([0, 1].map fun i => (i, fun v w => Avx2.u32x4x2.insert v w i)) ∧
    SimdX86Src.u32x4x2_avx2_extract_default = "panic!()" ∧ SimdX86Src.u32x4x2_avx2_insert_default = "panic!()"
  /-- `impl StoreBytes for u32x4x2_avx2` -/
  avx2_bytes : Avx2.u32x4x2.readLe = SimdX86Src.u32x4x2_avx2_unsafe_read_le ∧ Avx2.u32x4x2.readBe = SimdX86Src.u32x4x2_avx2_unsafe_read_be ∧
    Avx2.u32x4x2.writeLe = SimdX86Src.u32x4x2_avx2_write_le ∧ Avx2.u32x4x2.writeBe = SimdX86Src.u32x4x2_avx2_write_be
  /-- `impl MultiLane<[u32x4_sse2; 4]> for u32x4x4_avx2` -/
  avx2x4_lanes : Avx2.u32x4x4.toLanes = SimdX86Src.u32x4x4_avx2_to_lanes ∧ Avx2.u32x4x4.fromLanes = SimdX86Src.u32x4x4_avx2_from_lanes
  /-- `impl Vec4<u32x4_sse2> for u32x4x4_avx2`: `0 | 1 => self.0[0].insert(w, i)`, `2 | 3 => self.0[1].insert(w, i - 2)`, `_ => panic!()` -/
  avx2x4_vec4 : SimdX86Src.u32x4x4_avx2_extract = ([0, 1, 2, 3].map fun i => (i, fun v => Avx2.u32x4x4.extract v i)) ∧
    SimdX86Src.u32x4x4_avx2_insert = ([0, 1, 2, 3].map fun i => (i, fun v w => Avx2.u32x4x4.insert v w i)) ∧
    SimdX86Src.u32x4x4_avx2_extract_default = "panic!()" ∧ SimdX86Src.u32x4x4_avx2_insert_default = "panic!()"
  /-- `impl Vec4Ext for u32x4x4_avx2`: `transpose4` (`vperm2i128 0x20 / 0x31`) -/
  avx2_transpose4 : Avx2.transpose4 = SimdX86Src.u32x4x4_avx2_transpose4
  /-- `Store::unpack`, `$vec::new`, `From<$vec> for vec128_storage`, `impl_into!(u128x1_sse2, ..)`: the `sse2` / `avx` view of the union and the wrapper structs are the identity on the carrier (which is why the model has one carrier per width) -/
  conv_identity : SimdX86Src.u32x4_sse2_unpack = (fun v => v) ∧
    SimdX86Src.u64x2_sse2_unpack = (fun v => v) ∧
    SimdX86Src.u128x1_sse2_unpack = (fun v => v) ∧
    SimdX86Src.u32x4_sse2_new = (fun v => v) ∧
    SimdX86Src.u64x2_sse2_new = (fun v => v) ∧
    SimdX86Src.u128x1_sse2_new = (fun v => v) ∧
    SimdX86Src.vec128_storage_from_u32x4_sse2 = (fun v => v) ∧
    SimdX86Src.vec128_storage_from_u64x2_sse2 = (fun v => v) ∧
    SimdX86Src.vec128_storage_from_u128x1_sse2 = (fun v => v) ∧
    SimdX86Src.u32x4_sse2_from_u128x1_sse2 = (fun v => v) ∧
    SimdX86Src.u64x2_sse2_from_u128x1_sse2 = (fun v => v) ∧
    SimdX86Src.vec128_storage_unpack = (fun v => v) ∧
    SimdX86Src.u32x4x2_avx2_new = (fun v => v) ∧
    SimdX86Src.u32x4x2_avx2_unpack = (fun v => v) ∧
    SimdX86Src.vec256_storage_from_u32x4x2_avx2 = (fun v => v)
  /-- `impl_into_x!`, `From<x2<u128x1_sse2>> for u32x4x2_avx2`, `From<x4<u128x1_sse2>> for u32x4x4_avx2`, `Store<vec512_storage>` / `From<..> for vec512_storage` of `u32x4x4_avx2`: element-wise identity, i.e. the identity on the 256 / 512 storage bits -/
  conv_wide : (∀ v : BitVec 256, SimdX86Src.x2_u64x2_sse2_from_x2_u128x1_sse2 v = v ∧ SimdX86Src.x2_u32x4_sse2_from_x2_u128x1_sse2 v = v ∧ SimdX86Src.u32x4x2_avx2_from_x2_u128x1_sse2 v = v) ∧
    (∀ v : BitVec 512, SimdX86Src.x4_u64x2_sse2_from_x4_u128x1_sse2 v = v ∧
      SimdX86Src.x4_u32x4_sse2_from_x4_u128x1_sse2 v = v ∧
      SimdX86Src.u32x4x4_avx2_from_x4_u128x1_sse2 v = v ∧
      SimdX86Src.u32x4x4_avx2_unpack v = v ∧
      SimdX86Src.vec512_storage_from_u32x4x4_avx2 v = v)
  /-- `Default`: `_mm_setzero_si128()` / the all-zero `u128` views -/
  defaults : SimdX86Src.u32x4_sse2_default = 0 ∧ SimdX86Src.u64x2_sse2_default = 0 ∧ SimdX86Src.u128x1_sse2_default = 0 ∧
    SimdX86Src.vec128_storage_default = 0 ∧ SimdX86Src.vec256_storage_default = 0 ∧ SimdX86Src.vec512_storage_default = 0
  /-- `impl UnsafeFrom<[u32; 4]> for u32x4_sse2` (`_mm_set_epi32(xs[3], xs[2], xs[1], xs[0])`), `UnsafeFrom<[u64; 2]> for u64x2_sse2`: little-endian word packing -/
  unsafe_from : (∀ a b c d : BitVec 32, SimdX86Src.u32x4_sse2_unsafe_from [a, b, c, d] = pack32 a b c d) ∧
    (∀ a b : BitVec 64, SimdX86Src.u64x2_sse2_unsafe_from [a, b] = pack64 a b)
  /-- the views of `union vec128_storage` (`impl_into!` of mod.rs, `From<[u32; 4]>`, `From<&vec128_storage> for &[u32; 4]`): little-endian words of the 128 storage bits -/
  views128 : (∀ v, SimdX86Src.arr_u32_4_from_vec128_storage v = [lane32 v 0, lane32 v 1, lane32 v 2, lane32 v 3]) ∧
    (∀ v, SimdX86Src.ref_arr_u32_4_from_ref_vec128_storage v = [lane32 v 0, lane32 v 1, lane32 v 2, lane32 v 3]) ∧
    (∀ v, SimdX86Src.arr_u64_2_from_vec128_storage v = [lane64 v 0, lane64 v 1]) ∧
    (∀ v, SimdX86Src.arr_u128_1_from_vec128_storage v = [v]) ∧
    (∀ a b c d : BitVec 32, SimdX86Src.vec128_storage_from_arr_u32_4 [a, b, c, d] = pack32 a b c d)
  /-- the views of `vec256_storage` / `vec512_storage`: words, and `new128` / `split128` = the `[vec128_storage; n]` view (element 0 low) -/
  views_wide : (∀ v, SimdX86Src.arr_u64_4_from_vec256_storage v = [w64 v 0, w64 v 1, w64 v 2, w64 v 3]) ∧
    (∀ a b c d : BitVec 64, SimdX86Src.vec256_storage_from_arr_u64_4 [a, b, c, d] = pack64x4 a b c d) ∧
    SimdX86Src.arr_u32_8_from_vec256_storage = SimdX86Src.words 32 8 ∧ SimdX86Src.arr_u128_2_from_vec256_storage = SimdX86Src.words 128 2 ∧
    SimdX86Src.arr_u32_16_from_vec512_storage = SimdX86Src.words 32 16 ∧ SimdX86Src.arr_u64_8_from_vec512_storage = SimdX86Src.words 64 8 ∧
    SimdX86Src.arr_u128_4_from_vec512_storage = SimdX86Src.words 128 4 ∧
    (∀ a b, SimdX86Src.vec256_storage_new128 [a, b] = pack256 a b) ∧ (∀ v, SimdX86Src.vec256_storage_split128 v = [lo128 v, hi128 v]) ∧
    (∀ a b c d, SimdX86Src.vec512_storage_new128 [a, b, c, d] = pack512 a b c d) ∧
    (∀ v, SimdX86Src.vec512_storage_split128 v = [q128 v 0, q128 v 1, q128 v 2, q128 v 3])
  /-- the length assertions that guard every `loadu` / `storeu` (16 bytes; 32 for `u32x4x2_avx2`): the model's `readLe` / `writeLe` are used on exactly these lengths -/
  asserts : SimdX86Src.assert_rows =
      [("u32x4_sse2_unsafe_read_le", ["a0.len = 16"]),
       ("u32x4_sse2_YesS3_unsafe_read_be", ["a0.len = 16"]),
       ("u32x4_sse2_NoS3_unsafe_read_be", ["a0.len = 16"]),
       ("u32x4_sse2_write_le", ["a1.len = 16"]),
       ("u32x4_sse2_YesS3_write_be", ["a1.len = 16"]),
       ("u32x4_sse2_NoS3_write_be", ["a1.len = 16"]),
       ("u64x2_sse2_unsafe_read_le", ["a0.len = 16"]),
       ("u64x2_sse2_YesS3_unsafe_read_be", ["a0.len = 16"]),
       ("u64x2_sse2_NoS3_unsafe_read_be", ["a0.len = 16"]),
       ("u64x2_sse2_write_le", ["a1.len = 16"]),
       ("u64x2_sse2_YesS3_write_be", ["a1.len = 16"]),
       ("u64x2_sse2_NoS3_write_be", ["a1.len = 16"]),
       ("u128x1_sse2_unsafe_read_le", ["a0.len = 16"]),
       ("u128x1_sse2_YesS3_unsafe_read_be", ["a0.len = 16"]),
       ("u128x1_sse2_NoS3_unsafe_read_be", ["a0.len = 16"]),
       ("u128x1_sse2_write_le", ["a1.len = 16"]),
       ("u128x1_sse2_YesS3_write_be", ["a1.len = 16"]),
       ("u128x1_sse2_NoS3_write_be", ["a1.len = 16"]),
       ("u32x4x2_avx2_unsafe_read_le", ["a0.len = 32"]),
       ("u32x4x2_avx2_unsafe_read_be", ["a0.len = 32"]),
       ("u32x4x2_avx2_write_le", ["a1.len = 32"]),
       ("u32x4x2_avx2_write_be", ["a1.len = 32"])]

theorem src_x86_move : X86MoveTie where
  u32x4_lanes_YesS4 := fun _ => ⟨rfl, rfl⟩
  u32x4_vec4_YesS4 := fun _ => ⟨rfl, rfl, rfl⟩
  u32x4_lanes_NoS4 := fun _ => ⟨rfl, rfl⟩
  u32x4_vec4_NoS4 := fun _ => ⟨rfl, rfl, rfl⟩
  u32x4_bytes_YesS3 := fun _ => ⟨rfl, rfl, rfl, rfl⟩
  u32x4_bytes_NoS3 := fun _ => ⟨rfl, rfl, rfl, rfl⟩
  u64x2_lanes_YesS4 := fun _ => ⟨rfl, rfl⟩
  u64x2_vec2_YesS4 := fun _ => ⟨rfl, rfl, rfl, rfl⟩
  u64x2_lanes_NoS4 := fun _ => ⟨rfl, rfl⟩
  u64x2_vec2_NoS4 := fun _ => ⟨rfl, rfl, rfl, rfl⟩
  u64x2_bytes_YesS3 := fun _ => ⟨rfl, rfl, rfl, rfl⟩
  u64x2_bytes_NoS3 := fun _ => ⟨rfl, rfl, rfl, rfl⟩
  u128x1_lanes := fun _ => ⟨rfl, rfl⟩
  u128x1_bytes_YesS3 := ⟨rfl, rfl, rfl, rfl⟩
  u128x1_bytes_NoS3 := ⟨rfl, rfl, rfl, rfl⟩
  u64x4_lanes_YesS4 := fun _ => ⟨rfl, rfl⟩
  u64x4_vec4_YesS4 := fun _ => ⟨rfl, rfl, rfl, rfl⟩
  u64x4_lanes_NoS4 := fun _ => ⟨rfl, rfl⟩
  u64x4_vec4_NoS4 := fun _ => ⟨rfl, rfl, rfl, rfl⟩
  to_scalars := ⟨rfl, rfl⟩
  avx2_lanes := ⟨rfl, rfl⟩
  avx2_vec2 := ⟨rfl, rfl, rfl, rfl⟩
  avx2_bytes := ⟨rfl, rfl, rfl, rfl⟩
  avx2x4_lanes := ⟨rfl, rfl⟩
  avx2x4_vec4 := ⟨rfl, rfl, rfl, rfl⟩
  avx2_transpose4 := rfl
  conv_identity := ⟨rfl, rfl, rfl, rfl, rfl, rfl, rfl, rfl, rfl, rfl, rfl, rfl, rfl, rfl, rfl⟩
  conv_wide := ⟨fun v => ⟨join256 v, join256 v, join256 v⟩, fun v => ⟨join512q v, join512q v, join512m v, join512w v, join512w v⟩⟩
  defaults := ⟨rfl, rfl, rfl, rfl, by decide +kernel, by decide +kernel⟩
  unsafe_from := ⟨fun _ _ _ _ => rfl, fun _ _ => rfl⟩
  views128 := ⟨fun _ => rfl, fun _ => rfl, fun _ => rfl, fun _ => rfl, fun a b c d => ofWords32x4 a b c d⟩
  views_wide := ⟨fun _ => rfl, fun a b c d => ofWords64x4 a b c d, rfl, rfl, rfl, rfl, rfl, fun _ _ => rfl, fun _ => rfl, fun _ _ _ _ => rfl, fun _ => rfl⟩
  asserts := rfl

end CC.Src
