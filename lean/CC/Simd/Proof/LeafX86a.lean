/-
  CC.Simd.Proof.LeafX86a — C12/C13 leaves for `u32x4_sse2<S3,S4,NI>` (both values of each flag):
  the intrinsic sequence of every method equals its scalar meaning.  Also the leaves shared by
  the three 128-bit x86 types (`def_vec!`: bit operations, `Not`, unaligned load/store).
-/
import CC.Simd.Proof.Unfold
import CC.Simd.Proof.Lists
namespace CC.Simd.LeafX86
open CC CC.X86 CC.Simd CC.Simd.Impl

/-! ### shared by `u32x4_sse2`, `u64x2_sse2`, `u128x1_sse2` (`def_vec!`) -/

theorem xor (a b : BitVec 128) : _mm_xor_si128 a b = a ^^^ b := rfl
theorem and (a b : BitVec 128) : _mm_and_si128 a b = a &&& b := rfl
theorem or (a b : BitVec 128) : _mm_or_si128 a b = a ||| b := rfl
theorem andnot (a b : BitVec 128) : _mm_andnot_si128 a b = ~~~a &&& b := rfl
theorem not (a : BitVec 128) : X86.vnot a = ~~~a := by simd_leaf

/-- `_mm_loadu_si128` of (at least) 16 bytes is the little-endian value of the first 16 -/
theorem loadu_le (bs : List (BitVec 8)) (h : 16 ≤ bs.length) :
    _mm_loadu_si128 bs = ofLeBytes 128 (bs.take 16) := by
  obtain ⟨a0, a1, a2, a3, a4, a5, a6, a7, a8, a9, a10, a11, a12, a13, a14, a15, t, rfl⟩ := Lists.ge16 h
  simd_leaf

theorem storeu_le (a : BitVec 128) : _mm_storeu_si128 a = toLeBytes a 16 := by simd_leaf

/-! ### `u32x4_sse2` -/

theorem u32x4_add (a b : BitVec 128) : _mm_add_epi32 a b = zip32 (· + ·) a b := by simd_leaf

theorem u32x4_rotr (s3 : Bool) (k : Nat) (hk : k ∈ rot32Ks) (a : BitVec 128) :
    X86.u32x4_rotr s3 k a = map32 (·.rotateRight k) a := by
  simp only [rot32Ks, List.mem_cons, List.not_mem_nil, or_false] at hk
  rcases hk with rfl | rfl | rfl | rfl | rfl | rfl | rfl | rfl <;> cases s3 <;> simd_leaf

theorem u32x4_shuffle (c : Nat) (hc : c ∈ shufCodes) (a : BitVec 128) :
    X86.u32x4_shuffle c a = Meaning.shuf32 c a := by
  simp only [shufCodes, List.mem_cons, List.not_mem_nil, or_false] at hc
  rcases hc with rfl | rfl | rfl <;> simd_leaf

theorem u32x4_bswap (s3 : Bool) (a : BitVec 128) : X86.u32x4_bswap s3 a = map32 bswap32 a := by
  cases s3 <;> simd_leaf

theorem u32x4_toLanes (s4 : Bool) (a : BitVec 128) :
    X86.u32x4_toLanes s4 a = [lane32 a 0, lane32 a 1, lane32 a 2, lane32 a 3] := by
  cases s4 <;> simd_leaf

theorem u32x4_fromLanes (s4 : Bool) (xs : List (BitVec 32)) (h : xs.length = 4) :
    X86.u32x4_fromLanes s4 xs = pack32 (xs.getD 0 0) (xs.getD 1 0) (xs.getD 2 0) (xs.getD 3 0) := by
  obtain ⟨x0, x1, x2, x3, rfl⟩ := Lists.eq4 h
  cases s4 <;> simd_leaf

theorem u32x4_extract (s4 : Bool) (a : BitVec 128) (i : Nat) (hi : i < 4) :
    X86.u32x4_extract s4 a i = lane32 a i := by
  have : i = 0 ∨ i = 1 ∨ i = 2 ∨ i = 3 := by omega
  rcases this with rfl | rfl | rfl | rfl <;> cases s4 <;> simd_leaf

theorem u32x4_insert (s4 : Bool) (a : BitVec 128) (w : BitVec 32) (i : Nat) (hi : i < 4) :
    X86.u32x4_insert s4 a w i = insert32 a w i := by
  have : i = 0 ∨ i = 1 ∨ i = 2 ∨ i = 3 := by omega
  rcases this with rfl | rfl | rfl | rfl <;> cases s4 <;> simd_leaf

theorem u32x4_readBe (s3 : Bool) (bs : List (BitVec 8)) (h : bs.length = 16) :
    X86.u32x4_bswap s3 (_mm_loadu_si128 bs) =
      pack32 (read32be bs) (read32be (bs.drop 4)) (read32be (bs.drop 8)) (read32be (bs.drop 12)) := by
  obtain ⟨a0, a1, a2, a3, a4, a5, a6, a7, a8, a9, a10, a11, a12, a13, a14, a15, rfl⟩ := Lists.eq16 h
  cases s3 <;> simd_leaf

theorem u32x4_writeBe (s3 : Bool) (a : BitVec 128) :
    _mm_storeu_si128 (X86.u32x4_bswap s3 a) =
      toBe32 (lane32 a 0) ++ toBe32 (lane32 a 1) ++ toBe32 (lane32 a 2) ++ toBe32 (lane32 a 3) := by
  cases s3 <;> simd_leaf

end CC.Simd.LeafX86
