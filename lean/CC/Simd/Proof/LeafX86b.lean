/-
  CC.Simd.Proof.LeafX86b — C12/C13 leaves for `u64x2_sse2<S3,S4,NI>` (both values of each flag).
-/
import CC.Simd.Proof.Unfold
import CC.Simd.Proof.Lists
namespace CC.Simd.LeafX86
open CC CC.X86 CC.Simd CC.Simd.Impl

theorem u64x2_add (a b : BitVec 128) : _mm_add_epi64 a b = zip64 (· + ·) a b := by simd_leaf

theorem u64x2_rotr (s3 : Bool) (k : Nat) (hk : k ∈ rot64Ks) (a : BitVec 128) :
    X86.u64x2_rotr s3 k a = map64 (·.rotateRight k) a := by
  simp only [rot64Ks, List.mem_cons, List.not_mem_nil, or_false] at hk
  rcases hk with rfl | rfl | rfl | rfl | rfl | rfl | rfl | rfl | rfl <;> cases s3 <;> simd_leaf

theorem u64x2_bswap (s3 : Bool) (a : BitVec 128) : X86.u64x2_bswap s3 a = map64 bswap64 a := by
  cases s3 <;> simd_leaf

theorem u64x2_toLanes (s4 : Bool) (a : BitVec 128) :
    X86.u64x2_toLanes s4 a = [lane64 a 0, lane64 a 1] := by
  cases s4 <;> simd_leaf

theorem u64x2_fromLanes (s4 : Bool) (xs : List (BitVec 64)) (h : xs.length = 2) :
    X86.u64x2_fromLanes s4 xs = pack64 (xs.getD 0 0) (xs.getD 1 0) := by
  obtain ⟨x0, x1, rfl⟩ := Lists.eq2 h
  cases s4 <;> simd_leaf

theorem u64x2_extract (s4 : Bool) (a : BitVec 128) (i : Nat) (hi : i < 2) :
    X86.u64x2_extract s4 a i = lane64 a i := by
  have : i = 0 ∨ i = 1 := by omega
  rcases this with rfl | rfl <;> cases s4 <;> simd_leaf

theorem u64x2_insert (s4 : Bool) (a : BitVec 128) (w : BitVec 64) (i : Nat) (hi : i < 2) :
    X86.u64x2_insert s4 a w i = Meaning.insert64 a w i := by
  have : i = 0 ∨ i = 1 := by omega
  rcases this with rfl | rfl <;> cases s4 <;> simd_leaf

theorem u64x2_readBe (s3 : Bool) (bs : List (BitVec 8)) (h : bs.length = 16) :
    X86.u64x2_bswap s3 (_mm_loadu_si128 bs) = pack64 (read64be bs) (read64be (bs.drop 8)) := by
  obtain ⟨a0, a1, a2, a3, a4, a5, a6, a7, a8, a9, a10, a11, a12, a13, a14, a15, rfl⟩ := Lists.eq16 h
  cases s3 <;> simd_leaf

theorem u64x2_writeBe (s3 : Bool) (a : BitVec 128) :
    _mm_storeu_si128 (X86.u64x2_bswap s3 a) = toBe64 (lane64 a 0) ++ toBe64 (lane64 a 1) := by
  cases s3 <;> simd_leaf

end CC.Simd.LeafX86
