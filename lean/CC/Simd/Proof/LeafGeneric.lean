/-
  CC.Simd.Proof.LeafGeneric — C12/C13 leaves for the portable backend (`generic.rs`):
  `dmap/qmap/omap` bodies equal the lane-wise meaning, the `Swap64` mask/shift formulas exchange
  adjacent bit groups, `rotate_u128_right` is a rotation, `StoreBytes` is per-word LE/BE,
  and the `u64x4_generic` specialisations (`insert`, `shuffle1230/3012` included).
-/
import CC.Simd.Proof.Unfold
import CC.Simd.Proof.Lists
namespace CC.Simd.LeafGeneric
open CC CC.Simd CC.Simd.Impl

/-! ### `impl_bitops!` (the same code for the three 128-bit types) -/
theorem xor (a b : BitVec 128) : Generic.vxor a b = a ^^^ b := by simd_leaf
theorem and (a b : BitVec 128) : Generic.vand a b = a &&& b := by simd_leaf
theorem or (a b : BitVec 128) : Generic.vor a b = a ||| b := by simd_leaf
theorem andnot (a b : BitVec 128) : Generic.vandnot a b = ~~~a &&& b := by simd_leaf
theorem not (a : BitVec 128) : Generic.vnot a = ~~~a := by simd_leaf
theorem swap (k : Nat) (hk : k ∈ swapKs) (a : BitVec 128) : Generic.vswap k a = swapBits k a := by
  simp only [swapKs, List.mem_cons, List.not_mem_nil, or_false] at hk
  rcases hk with rfl | rfl | rfl | rfl | rfl | rfl | rfl <;> simd_leaf

/-! ### `u32x4_generic` -/
theorem u32x4_add (a b : BitVec 128) : Generic.dmap2 (fun x y => x + y) a b = zip32 (· + ·) a b := by simd_leaf
theorem u32x4_rotr (k : Nat) (hk : k ∈ rot32Ks) (a : BitVec 128) :
    Generic.u32x4_rotr k a = map32 (·.rotateRight k) a := by
  simp only [rot32Ks, List.mem_cons, List.not_mem_nil, or_false] at hk
  rcases hk with rfl | rfl | rfl | rfl | rfl | rfl | rfl | rfl <;> simd_leaf
theorem u32x4_shuffle (c : Nat) (hc : c ∈ shufCodes) (a : BitVec 128) :
    Generic.u32x4_shuffle c a = Meaning.shuf32 c a := by
  simp only [shufCodes, List.mem_cons, List.not_mem_nil, or_false] at hc
  rcases hc with rfl | rfl | rfl <;> simd_leaf
theorem u32x4_bswap (a : BitVec 128) : Generic.dmap Generic.swapBytes32 a = map32 bswap32 a := by simd_leaf
theorem u32x4_insert (a : BitVec 128) (w : BitVec 32) (i : Nat) :
    Generic.u32x4_insert a w i = insert32 a w i := rfl
theorem u32x4_toLanes (a : BitVec 128) :
    Generic.u32x4_toLanes a = [lane32 a 0, lane32 a 1, lane32 a 2, lane32 a 3] := rfl
theorem u32x4_fromLanes (xs : List (BitVec 32)) :
    Generic.u32x4_fromLanes xs = pack32 (xs.getD 0 0) (xs.getD 1 0) (xs.getD 2 0) (xs.getD 3 0) := rfl
theorem u32x4_readLe (bs : List (BitVec 8)) (h : bs.length = 16) :
    Generic.dmap (fun x => x) (Generic.readWords32 bs) = ofLeBytes 128 (bs.take 16) := by
  obtain ⟨a0, a1, a2, a3, a4, a5, a6, a7, a8, a9, a10, a11, a12, a13, a14, a15, rfl⟩ := Lists.eq16 h
  simd_leaf
theorem u32x4_readBe (bs : List (BitVec 8)) (h : bs.length = 16) :
    Generic.dmap Generic.swapBytes32 (Generic.readWords32 bs) =
      pack32 (read32be bs) (read32be (bs.drop 4)) (read32be (bs.drop 8)) (read32be (bs.drop 12)) := by
  obtain ⟨a0, a1, a2, a3, a4, a5, a6, a7, a8, a9, a10, a11, a12, a13, a14, a15, rfl⟩ := Lists.eq16 h
  simd_leaf
theorem u32x4_writeLe (a : BitVec 128) :
    Generic.writeWords32 (Generic.dmap (fun x => x) a) = toLeBytes a 16 := by simd_leaf
theorem u32x4_writeBe (a : BitVec 128) :
    Generic.writeWords32 (Generic.dmap Generic.swapBytes32 a) =
      toBe32 (lane32 a 0) ++ toBe32 (lane32 a 1) ++ toBe32 (lane32 a 2) ++ toBe32 (lane32 a 3) := by simd_leaf

/-! ### `u64x2_generic` -/
theorem u64x2_add (a b : BitVec 128) : Generic.qmap2 (fun x y => x + y) a b = zip64 (· + ·) a b := by simd_leaf
theorem u64x2_rotr (k : Nat) (hk : k ∈ rot64Ks) (a : BitVec 128) :
    Generic.u64x2_rotr k a = map64 (·.rotateRight k) a := by
  simp only [rot64Ks, List.mem_cons, List.not_mem_nil, or_false] at hk
  rcases hk with rfl | rfl | rfl | rfl | rfl | rfl | rfl | rfl | rfl <;> simd_leaf
theorem u64x2_bswap (a : BitVec 128) : Generic.qmap Generic.swapBytes64 a = map64 bswap64 a := by simd_leaf
theorem u64x2_insert (a : BitVec 128) (w : BitVec 64) (i : Nat) :
    Generic.u64x2_insert a w i = Meaning.insert64 a w i := rfl
theorem u64x2_readLe (bs : List (BitVec 8)) (h : bs.length = 16) :
    Generic.qmap (fun x => x) (Generic.readWords64 bs) = ofLeBytes 128 (bs.take 16) := by
  obtain ⟨a0, a1, a2, a3, a4, a5, a6, a7, a8, a9, a10, a11, a12, a13, a14, a15, rfl⟩ := Lists.eq16 h
  simd_leaf
theorem u64x2_readBe (bs : List (BitVec 8)) (h : bs.length = 16) :
    Generic.qmap Generic.swapBytes64 (Generic.readWords64 bs) = pack64 (read64be bs) (read64be (bs.drop 8)) := by
  obtain ⟨a0, a1, a2, a3, a4, a5, a6, a7, a8, a9, a10, a11, a12, a13, a14, a15, rfl⟩ := Lists.eq16 h
  simd_leaf
theorem u64x2_writeLe (a : BitVec 128) :
    Generic.writeWords64 (Generic.qmap (fun x => x) a) = toLeBytes a 16 := by simd_leaf
theorem u64x2_writeBe (a : BitVec 128) :
    Generic.writeWords64 (Generic.qmap Generic.swapBytes64 a) = toBe64 (lane64 a 0) ++ toBe64 (lane64 a 1) := by
  simd_leaf

/-! ### `u128x1_generic` -/
theorem u128x1_add (a b : BitVec 128) : Generic.omap2 (fun x y => x + y) a b = a + b := by simd_leaf
theorem u128x1_rotr (k : Nat) (hk : k ∈ rot64Ks) (a : BitVec 128) :
    Generic.u128x1_rotr k a = a.rotateRight k := by
  simp only [rot64Ks, List.mem_cons, List.not_mem_nil, or_false] at hk
  rcases hk with rfl | rfl | rfl | rfl | rfl | rfl | rfl | rfl | rfl <;> simd_leaf
theorem u128x1_bswap (a : BitVec 128) : Generic.omap Generic.swapBytes128 a = Meaning.bswap128 a := by simd_leaf

/-! ### `u64x4_generic` -/
theorem u64x4_shuffle (c : Nat) (hc : c ∈ shufCodes) (a : BitVec 256) :
    Generic.u64x4_shuffle c a = Meaning.shuf64 c a := by
  simp only [shufCodes, List.mem_cons, List.not_mem_nil, or_false] at hc
  rcases hc with rfl | rfl | rfl <;> simd_leaf
theorem u64x4_toLanes (a : BitVec 256) : Generic.u64x4_toLanes a = [w64 a 0, w64 a 1, w64 a 2, w64 a 3] := by simd_leaf
theorem u64x4_fromLanes (xs : List (BitVec 64)) (h : xs.length = 4) :
    Generic.u64x4_fromLanes xs = pack64x4 (xs.getD 0 0) (xs.getD 1 0) (xs.getD 2 0) (xs.getD 3 0) := by
  obtain ⟨x0, x1, x2, x3, rfl⟩ := Lists.eq4 h
  simd_leaf
theorem u64x4_extract (a : BitVec 256) (i : Nat) (hi : i < 4) : Generic.u64x4_extract a i = w64 a i := by
  have : i = 0 ∨ i = 1 ∨ i = 2 ∨ i = 3 := by omega
  rcases this with rfl | rfl | rfl | rfl <;> simd_leaf
theorem u64x4_insert (a : BitVec 256) (w : BitVec 64) (i : Nat) (hi : i < 4) :
    Generic.u64x4_insert a w i = Meaning.u64x4.insert a w i := by
  have : i = 0 ∨ i = 1 ∨ i = 2 ∨ i = 3 := by omega
  rcases this with rfl | rfl | rfl | rfl <;>
    (show _ = pack64x4 _ _ _ _; simd_leaf)

/-- `to_scalars` of `u32x4x4_generic` -/
theorem toScalars (a : BitVec 512) : Generic.toScalars a = Meaning.toScalars a := by
  show _ = ([q128 a 0, q128 a 1, q128 a 2, q128 a 3].flatMap fun v => [lane32 v 0, lane32 v 1, lane32 v 2, lane32 v 3])
  simd_leaf

end CC.Simd.LeafGeneric
