/-
  CC.Simd.Proof.BackendEq — every field of `Mach.ofBackend b` equals the field of `Mach.ref`
  (one C12/C13 leaf per field), hence the records are equal.
-/
import CC.Thm.C12
import CC.Simd.Backends
namespace CC.Simd.BackendEq
open CC CC.Simd CC.Thm.C12

/-- structure extensionality for `Mach` -/
theorem Mach.ext' (a b : Mach)
    (h_add32 : a.add32 = b.add32)
    (h_xor128 : a.xor128 = b.xor128)
    (h_rotr32 : a.rotr32 = b.rotr32)
    (h_shuf1230 : a.shuf1230 = b.shuf1230)
    (h_shuf2301 : a.shuf2301 = b.shuf2301)
    (h_shuf3012 : a.shuf3012 = b.shuf3012)
    (h_vec32 : a.vec32 = b.vec32)
    (h_extract32 : a.extract32 = b.extract32)
    (h_insert32 : a.insert32 = b.insert32)
    (h_readLe32x4 : a.readLe32x4 = b.readLe32x4)
    (h_writeLe32x4 : a.writeLe32x4 = b.writeLe32x4)
    (h_writeBe32x4 : a.writeBe32x4 = b.writeBe32x4)
    (h_add64 : a.add64 = b.add64)
    (h_vec64 : a.vec64 = b.vec64)
    (h_fromLanes512 : a.fromLanes512 = b.fromLanes512)
    (h_toLanes512 : a.toLanes512 = b.toLanes512)
    (h_add32x16 : a.add32x16 = b.add32x16)
    (h_add64x8 : a.add64x8 = b.add64x8)
    (h_xor512 : a.xor512 = b.xor512)
    (h_rotr32x16 : a.rotr32x16 = b.rotr32x16)
    (h_shufLane1230 : a.shufLane1230 = b.shufLane1230)
    (h_shufLane2301 : a.shufLane2301 = b.shufLane2301)
    (h_shufLane3012 : a.shufLane3012 = b.shufLane3012)
    (h_transpose4 : a.transpose4 = b.transpose4)
    (h_writeLe32x16 : a.writeLe32x16 = b.writeLe32x16)
    (h_vec64x4 : a.vec64x4 = b.vec64x4)
    (h_add64x4 : a.add64x4 = b.add64x4)
    (h_xor256 : a.xor256 = b.xor256)
    (h_rotr64x4 : a.rotr64x4 = b.rotr64x4)
    (h_shuf1230q : a.shuf1230q = b.shuf1230q)
    (h_shuf2301q : a.shuf2301q = b.shuf2301q)
    (h_shuf3012q : a.shuf3012q = b.shuf3012q)
    (h_writeBe64x4 : a.writeBe64x4 = b.writeBe64x4)
    (h_swap128 : a.swap128 = b.swap128)
    (h_vzip256 : a.vzip256 = b.vzip256)
    (h_extract256 : a.extract256 = b.extract256)
    (h_not256 : a.not256 = b.not256)
    (h_and256 : a.and256 = b.and256)
    (h_or256 : a.or256 = b.or256)
    (h_andnot256 : a.andnot256 = b.andnot256) : a = b := by
  cases a; cases b
  simp only at *
  simp only [Mach.mk.injEq]
  exact ⟨h_add32, h_xor128, h_rotr32, h_shuf1230, h_shuf2301, h_shuf3012, h_vec32, h_extract32, h_insert32, h_readLe32x4, h_writeLe32x4, h_writeBe32x4, h_add64, h_vec64, h_fromLanes512, h_toLanes512, h_add32x16, h_add64x8, h_xor512, h_rotr32x16, h_shufLane1230, h_shufLane2301, h_shufLane3012, h_transpose4, h_writeLe32x16, h_vec64x4, h_add64x4, h_xor256, h_rotr64x4, h_shuf1230q, h_shuf2301q, h_shuf3012q, h_writeBe64x4, h_swap128, h_vzip256, h_extract256, h_not256, h_and256, h_or256, h_andnot256⟩

theorem req (b : Backend) {τ : Ty} {o : OpK} (h : o ∈ required τ) : o ∈ provided b τ :=
  required_provided b τ o h

theorem rotr_req32 {k : Nat} (hk : k ∈ rot32Ks) : OpK.rotr k ∈ required .u32x4 := by
  have h := List.mem_map_of_mem (f := OpK.rotr) hk
  simp only [required, bitOps32, List.mem_append, h, true_or, or_true]
theorem rotr_req32x16 {k : Nat} (hk : k ∈ rot32Ks) : OpK.rotr k ∈ required .u32x4x4 := by
  have h := List.mem_map_of_mem (f := OpK.rotr) hk
  simp only [required, bitOps32, List.mem_append, h, true_or, or_true]
theorem rotr_req64x4 {k : Nat} (hk : k ∈ rot64Ks) : OpK.rotr k ∈ required .u64x4 := by
  have h := List.mem_map_of_mem (f := OpK.rotr) hk
  simp only [required, bitOps64, List.mem_append, h, true_or, or_true]
theorem swap_req128 {k : Nat} (hk : k ∈ swapKs) : OpK.swap k ∈ required .u128x1 := by
  have h := List.mem_map_of_mem (f := OpK.swap) hk
  simp only [required, swap64, List.mem_append, h, true_or, or_true]

/-! ### the meaning records and `Mach.ref` say the same thing in two notations -/

theorem range64 : List.range 64 = [0, 1, 2, 3, 4, 5, 6, 7, 8, 9, 10, 11, 12, 13, 14, 15, 16, 17, 18, 19, 20, 21,
    22, 23, 24, 25, 26, 27, 28, 29, 30, 31, 32, 33, 34, 35, 36, 37, 38, 39, 40, 41, 42, 43, 44, 45, 46, 47, 48, 49,
    50, 51, 52, 53, 54, 55, 56, 57, 58, 59, 60, 61, 62, 63] := by decide

theorem zip512_xor (a c : BitVec 512) : zip512 (· ^^^ ·) a c = a ^^^ c := by simd_leaf
theorem zip256_xor' (a c : BitVec 256) : zip256 (· ^^^ ·) a c = a ^^^ c := by simd_leaf
theorem zip256_and (a c : BitVec 256) : zip256 (· &&& ·) a c = a &&& c := by simd_leaf
theorem zip256_or (a c : BitVec 256) : zip256 (· ||| ·) a c = a ||| c := by simd_leaf
theorem zip256_andnot (a c : BitVec 256) : zip256 (fun x y => ~~~x &&& y) a c = ~~~a &&& c := by simd_leaf
theorem map256_not (a : BitVec 256) : map256 (fun x => ~~~x) a = ~~~a := by simd_leaf
theorem writeLe64 (v : BitVec 512) :
    toLeBytes (q128 v 0) 16 ++ toLeBytes (q128 v 1) 16 ++ toLeBytes (q128 v 2) 16 ++ toLeBytes (q128 v 3) 16 =
      toLeBytes v 64 := by
  simp only [simd_unfold, range64] <;> bv_decide
theorem writeBe64x4 (v : BitVec 256) :
    (toBe64 (lane64 (lo128 v) 0) ++ toBe64 (lane64 (lo128 v) 1)) ++ (toBe64 (lane64 (hi128 v) 0) ++ toBe64 (lane64 (hi128 v) 1)) =
      toBe64 (w64 v 0) ++ toBe64 (w64 v 1) ++ toBe64 (w64 v 2) ++ toBe64 (w64 v 3) := by simd_leaf

theorem ite_elim {α : Sort _} {c : Prop} [Decidable c] {x y : α} (h : c → x = y) : (if c then x else y) = y := by
  by_cases hc : c
  · rw [if_pos hc]; exact h hc
  · rw [if_neg hc]

/-- **Every backend's `Mach` record is the reference record.** -/
theorem ofBackend_eq_ref (b : Backend) : Mach.ofBackend b = Mach.ref := by
  apply Mach.ext'
  · funext a c; exact leaf b .u32x4 .add (req b (by decide)) a c
  · funext a c; exact leaf b .u32x4 .xor (req b (by decide)) a c
  · funext k
    show (if k ∈ rot32Ks then (impl b .u32x4 : VOps 128 32).rotr k else Mach.ref.rotr32 k) = Mach.ref.rotr32 k
    refine ite_elim (fun hc => ?_)
    funext a; exact leaf b .u32x4 (.rotr k) (req b (rotr_req32 hc)) a
  · funext a; exact leaf b .u32x4 (.shuffle 1230) (req b (by decide)) a
  · funext a; exact leaf b .u32x4 (.shuffle 2301) (req b (by decide)) a
  · funext a; exact leaf b .u32x4 (.shuffle 3012) (req b (by decide)) a
  · funext a c d e; exact leaf b .u32x4 .fromLanes (req b (by decide)) [a, c, d, e] rfl
  · funext v i
    show (if i < 4 then (impl b .u32x4 : VOps 128 32).extract v i else Mach.ref.extract32 v i) = Mach.ref.extract32 v i
    refine ite_elim (fun hc => ?_)
    exact leaf b .u32x4 .extract (req b (by decide)) v i hc
  · funext v w i
    show (if i < 4 then (impl b .u32x4 : VOps 128 32).insert v w i else Mach.ref.insert32 v w i) = Mach.ref.insert32 v w i
    refine ite_elim (fun hc => ?_)
    exact leaf b .u32x4 .insert (req b (by decide)) v w i hc
  · funext bs
    show (if bs.length * 8 = 128 then (impl b .u32x4 : VOps 128 32).readLe bs else Mach.ref.readLe32x4 bs) = Mach.ref.readLe32x4 bs
    refine ite_elim (fun hc => ?_)
    exact leaf b .u32x4 .readLe (req b (by decide)) bs hc
  · funext v; exact leaf b .u32x4 .writeLe (req b (by decide)) v
  · funext v; exact leaf b .u32x4 .writeBe (req b (by decide)) v
  · funext a c; exact leaf b .u64x2 .add (req b (by decide)) a c
  · funext a c; exact leaf b .u64x2 .fromLanes (req b (by decide)) [a, c] rfl
  · funext a c d e; exact leaf b .u32x4x4 .fromLanes (req b (by decide)) [a, c, d, e] rfl
  · funext v
    have h := leaf b .u32x4x4 .toLanes (req b (by decide)) v
    exact congrArg (fun l : List (BitVec 128) => (l.getD 0 0, l.getD 1 0, l.getD 2 0, l.getD 3 0)) h
  · funext a c; exact leaf b .u32x4x4 .add (req b (by decide)) a c
  · funext a c; exact leaf b .u64x2x4 .add (req b (by decide)) a c
  · funext a c; exact (leaf b .u32x4x4 .xor (req b (by decide)) a c).trans (zip512_xor a c)
  · funext k
    show (if k ∈ rot32Ks then (impl b .u32x4x4 : VOps 512 128).rotr k else Mach.ref.rotr32x16 k) = Mach.ref.rotr32x16 k
    refine ite_elim (fun hc => ?_)
    funext a; exact leaf b .u32x4x4 (.rotr k) (req b (rotr_req32x16 hc)) a
  · funext a; exact leaf b .u32x4x4 (.shuffleLane 1230) (req b (by decide)) a
  · funext a; exact leaf b .u32x4x4 (.shuffleLane 2301) (req b (by decide)) a
  · funext a; exact leaf b .u32x4x4 (.shuffleLane 3012) (req b (by decide)) a
  · funext a c d e; exact transpose4_eq b a c d e
  · funext v; exact (leaf b .u32x4x4 .writeLe (req b (by decide)) v).trans (writeLe64 v)
  · funext a c d e; exact leaf b .u64x4 .fromLanes (req b (by decide)) [a, c, d, e] rfl
  · funext a c; exact leaf b .u64x4 .add (req b (by decide)) a c
  · funext a c; exact (leaf b .u64x4 .xor (req b (by decide)) a c).trans (zip256_xor' a c)
  · funext k
    show (if k ∈ rot64Ks then (impl b .u64x4 : VOps 256 64).rotr k else Mach.ref.rotr64x4 k) = Mach.ref.rotr64x4 k
    refine ite_elim (fun hc => ?_)
    funext a; exact leaf b .u64x4 (.rotr k) (req b (rotr_req64x4 hc)) a
  · funext a; exact leaf b .u64x4 (.shuffle 1230) (req b (by decide)) a
  · funext a; exact leaf b .u64x4 (.shuffle 2301) (req b (by decide)) a
  · funext a; exact leaf b .u64x4 (.shuffle 3012) (req b (by decide)) a
  · funext v; exact (leaf b .u64x4 .writeBe (req b (by decide)) v).trans (writeBe64x4 v)
  · funext k
    show (if k ∈ swapKs then (impl b .u128x1 : VOps 128 128).swap k else Mach.ref.swap128 k) = Mach.ref.swap128 k
    refine ite_elim (fun hc => ?_)
    funext a; exact leaf b .u128x1 (.swap k) (req b (swap_req128 hc)) a
  · funext a c; exact leaf b .u128x2 .fromLanes (req b (by decide)) [a, c] rfl
  · funext v i
    show (if i < 2 then (impl b .u128x2 : VOps 256 128).extract v i else Mach.ref.extract256 v i) = Mach.ref.extract256 v i
    refine ite_elim (fun hc => ?_)
    exact leaf b .u128x2 .extract (req b (by decide)) v i hc
  · funext v; exact (leaf b .u128x2 .not (req b (by decide)) v).trans (map256_not v)
  · funext a c; exact (leaf b .u128x2 .and (req b (by decide)) a c).trans (zip256_and a c)
  · funext a c; exact (leaf b .u128x2 .or (req b (by decide)) a c).trans (zip256_or a c)
  · funext a c; exact (leaf b .u128x2 .andnot (req b (by decide)) a c).trans (zip256_andnot a c)

end CC.Simd.BackendEq
