/-
  CC.Simd.Proof.LeafX86c — C12/C13 leaves for `u128x1_sse2<S3,S4,NI>`: `rotr_128!` is a rotation
  of the full 128-bit word, `swapi!`/`pshufb`/`pshufd` swaps exchange adjacent bit groups,
  `bswap` reverses all sixteen bytes.
-/
import CC.Simd.Proof.Unfold
import CC.Simd.Proof.Lists
namespace CC.Simd.LeafX86
open CC CC.X86 CC.Simd CC.Simd.Impl

theorem u128x1_rotr (k : Nat) (hk : k ∈ rot64Ks) (a : BitVec 128) :
    X86.u128x1_rotr k a = a.rotateRight k := by
  simp only [rot64Ks, List.mem_cons, List.not_mem_nil, or_false] at hk
  rcases hk with rfl | rfl | rfl | rfl | rfl | rfl | rfl | rfl | rfl <;> simd_leaf

theorem u128x1_swap (s3 : Bool) (k : Nat) (hk : k ∈ swapKs) (a : BitVec 128) :
    X86.u128x1_swap s3 k a = swapBits k a := by
  simp only [swapKs, List.mem_cons, List.not_mem_nil, or_false] at hk
  rcases hk with rfl | rfl | rfl | rfl | rfl | rfl | rfl <;> cases s3 <;> simd_leaf

theorem u128x1_bswap (s3 : Bool) (a : BitVec 128) : X86.u128x1_bswap s3 a = Meaning.bswap128 a := by
  cases s3 <;> simd_leaf

theorem u128x1_readBe (s3 : Bool) (bs : List (BitVec 8)) (h : bs.length = 16) :
    X86.u128x1_bswap s3 (_mm_loadu_si128 bs) = ofBeBytes 128 (bs.take 16) := by
  obtain ⟨a0, a1, a2, a3, a4, a5, a6, a7, a8, a9, a10, a11, a12, a13, a14, a15, rfl⟩ := Lists.eq16 h
  cases s3 <;> simd_leaf

theorem u128x1_writeBe (s3 : Bool) (a : BitVec 128) :
    _mm_storeu_si128 (X86.u128x1_bswap s3 a) = toBeBytes a 16 := by
  cases s3 <;> simd_leaf

end CC.Simd.LeafX86
