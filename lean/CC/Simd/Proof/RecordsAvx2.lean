/-
  CC.Simd.Proof.RecordsAvx2 — `u32x4x4_avx2 = x2<u32x4x2_avx2, G0>` against the four-lane meaning
  of `u32x4`: word-wise operations by the `x2` forwarder over the 256-bit leaves
  (`map512_split` / `zip512_split`), byte I/O and the specialised `Vec4` / `MultiLane` directly.
-/
import CC.Simd.Proof.Records
namespace CC.Simd.Records
open CC CC.X86 CC.Simd CC.Simd.Impl

theorem len64 {bs : List (BitVec 8)} (h : bs.length * 8 = 512) : bs.length = 64 := by omega

theorem avx2_readLe (bs : List (BitVec 8)) (h : bs.length = 64) :
    Soft.pack512w (_mm256_loadu_si256 (bs.take (bs.length / 2))) (_mm256_loadu_si256 (bs.drop (bs.length / 2))) =
      pack512 (ofLeBytes 128 ((bs.take 16).take 16)) (ofLeBytes 128 (((bs.drop 16).take 16).take 16))
        (ofLeBytes 128 (((bs.drop 32).take 16).take 16)) (ofLeBytes 128 (((bs.drop 48).take 16).take 16)) := by
  rw [h]
  obtain ⟨a0, a1, a2, a3, a4, a5, a6, a7, a8, a9, a10, a11, a12, a13, a14, a15, a16, a17, a18, a19, a20,
    a21, a22, a23, a24, a25, a26, a27, a28, a29, a30, a31, a32, a33, a34, a35, a36, a37, a38, a39, a40,
    a41, a42, a43, a44, a45, a46, a47, a48, a49, a50, a51, a52, a53, a54, a55, a56, a57, a58, a59, a60,
    a61, a62, a63, rfl⟩ := Lists.eq64 h
  simp only [simd_unfold, Nat.reduceDiv] <;> bv_decide

theorem avx2_readBe (bs : List (BitVec 8)) (h : bs.length = 64) :
    Soft.pack512w (Avx2.u32x4x2_bswap (_mm256_loadu_si256 (bs.take (bs.length / 2))))
        (Avx2.u32x4x2_bswap (_mm256_loadu_si256 (bs.drop (bs.length / 2)))) =
      pack512 (Meaning.u32x4.readBe (bs.take 16)) (Meaning.u32x4.readBe ((bs.drop 16).take 16))
        (Meaning.u32x4.readBe ((bs.drop 32).take 16)) (Meaning.u32x4.readBe ((bs.drop 48).take 16)) := by
  rw [h]
  obtain ⟨a0, a1, a2, a3, a4, a5, a6, a7, a8, a9, a10, a11, a12, a13, a14, a15, a16, a17, a18, a19, a20,
    a21, a22, a23, a24, a25, a26, a27, a28, a29, a30, a31, a32, a33, a34, a35, a36, a37, a38, a39, a40,
    a41, a42, a43, a44, a45, a46, a47, a48, a49, a50, a51, a52, a53, a54, a55, a56, a57, a58, a59, a60,
    a61, a62, a63, rfl⟩ := Lists.eq64 h
  show _ = pack512 (pack32 (read32be _) (read32be _) (read32be _) (read32be _))
    (pack32 (read32be _) (read32be _) (read32be _) (read32be _))
    (pack32 (read32be _) (read32be _) (read32be _) (read32be _))
    (pack32 (read32be _) (read32be _) (read32be _) (read32be _))
  simp only [simd_unfold, Nat.reduceDiv] <;> bv_decide

theorem avx2_writeLe (a : BitVec 512) :
    _mm256_storeu_si256 (Soft.lo256 a) ++ _mm256_storeu_si256 (Soft.hi256 a) =
      toLeBytes (q128 a 0) 16 ++ toLeBytes (q128 a 1) 16 ++ toLeBytes (q128 a 2) 16 ++ toLeBytes (q128 a 3) 16 := by
  simd_leaf

theorem avx2_writeBe (a : BitVec 512) :
    _mm256_storeu_si256 (Avx2.u32x4x2_bswap (Soft.lo256 a)) ++ _mm256_storeu_si256 (Avx2.u32x4x2_bswap (Soft.hi256 a)) =
      Meaning.u32x4.writeBe (q128 a 0) ++ Meaning.u32x4.writeBe (q128 a 1) ++
        Meaning.u32x4.writeBe (q128 a 2) ++ Meaning.u32x4.writeBe (q128 a 3) := by
  show _ = (toBe32 _ ++ toBe32 _ ++ toBe32 _ ++ toBe32 _) ++ (toBe32 _ ++ toBe32 _ ++ toBe32 _ ++ toBe32 _) ++
    (toBe32 _ ++ toBe32 _ ++ toBe32 _ ++ toBe32 _) ++ (toBe32 _ ++ toBe32 _ ++ toBe32 _ ++ toBe32 _)
  simd_leaf

theorem avx2_u32x4x4 : Agrees 4 Avx2.u32x4x4 (Meaning.lift4 Meaning.u32x4) cov32x2a := by
  have U := avx2_u32x4x2
  intro o ho
  cases o with
  | add =>
    have h' : ∀ a b, Avx2.u32x4x2.add a b = zip256 Meaning.u32x4.add a b := U .add rfl
    intro a b
    show Soft.pack512w (Avx2.u32x4x2.add _ _) (Avx2.u32x4x2.add _ _) = zip512 _ a b
    rw [h', h', LeafAvx2.zip512_split]
  | xor =>
    have h' : ∀ a b, Avx2.u32x4x2.xor a b = zip256 Meaning.u32x4.xor a b := U .xor rfl
    intro a b
    show Soft.pack512w (Avx2.u32x4x2.xor _ _) (Avx2.u32x4x2.xor _ _) = zip512 _ a b
    rw [h', h', LeafAvx2.zip512_split]
  | and =>
    have h' : ∀ a b, Avx2.u32x4x2.and a b = zip256 Meaning.u32x4.and a b := U .and rfl
    intro a b
    show Soft.pack512w (Avx2.u32x4x2.and _ _) (Avx2.u32x4x2.and _ _) = zip512 _ a b
    rw [h', h', LeafAvx2.zip512_split]
  | or =>
    have h' : ∀ a b, Avx2.u32x4x2.or a b = zip256 Meaning.u32x4.or a b := U .or rfl
    intro a b
    show Soft.pack512w (Avx2.u32x4x2.or _ _) (Avx2.u32x4x2.or _ _) = zip512 _ a b
    rw [h', h', LeafAvx2.zip512_split]
  | andnot =>
    have h' : ∀ a b, Avx2.u32x4x2.andnot a b = zip256 Meaning.u32x4.andnot a b := U .andnot rfl
    intro a b
    show Soft.pack512w (Avx2.u32x4x2.andnot _ _) (Avx2.u32x4x2.andnot _ _) = zip512 _ a b
    rw [h', h', LeafAvx2.zip512_split]
  | not =>
    have h' : ∀ a, Avx2.u32x4x2.not a = map256 Meaning.u32x4.not a := U .not rfl
    intro a
    show Soft.pack512w (Avx2.u32x4x2.not _) (Avx2.u32x4x2.not _) = map512 _ a
    rw [h', h', LeafAvx2.map512_split]
  | rotr k =>
    have h' : ∀ a, Avx2.u32x4x2.rotr k a = map256 (Meaning.u32x4.rotr k) a := U (.rotr k) ho
    intro a
    show Soft.pack512w (Avx2.u32x4x2.rotr k _) (Avx2.u32x4x2.rotr k _) = map512 _ a
    rw [h', h', LeafAvx2.map512_split]
  | shuffle s => exact absurd ho (by simp [Cov.has, cov32x2a])
  | shuffleLane s =>
    have h' : ∀ a, Avx2.u32x4x2.shuffleLane s a = map256 (Meaning.u32x4.shuffleLane s) a := U (.shuffleLane s) ho
    intro a
    show Soft.pack512w (Avx2.u32x4x2.shuffleLane s _) (Avx2.u32x4x2.shuffleLane s _) = map512 _ a
    rw [h', h', LeafAvx2.map512_split]
  | swap k => exact absurd ho (by simp [Cov.has, cov32x2a])
  | bswap =>
    have h' : ∀ a, Avx2.u32x4x2.bswap a = map256 Meaning.u32x4.bswap a := U .bswap rfl
    intro a
    show Soft.pack512w (Avx2.u32x4x2.bswap _) (Avx2.u32x4x2.bswap _) = map512 _ a
    rw [h', h', LeafAvx2.map512_split]
  | extract => exact fun a i hi => LeafAvx2.extract4 a i hi
  | insert => exact fun a w i hi => LeafAvx2.insert4 a w i hi
  | toLanes => exact fun a => LeafAvx2.toLanes4 a
  | fromLanes => exact fun xs _ => LeafAvx2.fromLanes4 xs
  | readLe => exact fun bs h => avx2_readLe bs (len64 h)
  | readBe => exact fun bs h => avx2_readBe bs (len64 h)
  | writeLe => exact fun a => avx2_writeLe a
  | writeBe => exact fun a => avx2_writeBe a
  | transpose4 => trivial
  | toScalars => trivial

end CC.Simd.Records
