import Lean.Meta.Tactic.Simp.RegisterCommand
/-
  CC.Simd.Proof.Attr — simp set used to unfold the implementation models and the scalar meanings
  down to `BitVec` primitives before `bv_decide`.
-/
/-- unfolding set for the SIMD leaf proofs -/
register_simp_attr simd_unfold
