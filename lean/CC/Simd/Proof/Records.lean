/-
  CC.Simd.Proof.Records — assembles the leaves into one statement per implementation record:
  `Agrees cnt <impl record> <meaning record> <coverage>`.
-/
import CC.Simd.Proof.LeafX86a
import CC.Simd.Proof.LeafX86b
import CC.Simd.Proof.LeafX86c
import CC.Simd.Proof.LeafGeneric
import CC.Simd.Proof.LeafWide
import CC.Simd.Proof.LeafAvx2
import CC.Simd.Proof.Lift
namespace CC.Simd.Records
open CC CC.X86 CC.Simd CC.Simd.Impl

def cov32 : Cov := { rots := rot32Ks, shufs := shufCodes, lshufs := shufCodes }
def cov64 : Cov := { rots := rot64Ks }
def cov128x : Cov := { add := false, rots := rot64Ks, swaps := swapKs, vec := false }
def cov32g : Cov := { rots := rot32Ks, shufs := shufCodes, lshufs := shufCodes, swaps := swapKs }
def cov64g : Cov := { rots := rot64Ks, swaps := swapKs }
def cov128g : Cov := { rots := rot64Ks, swaps := swapKs, vec := false, bytes := false }
def cov64x4 : Cov := { rots := rot64Ks, shufs := shufCodes }
def cov64x4g : Cov := { rots := rot64Ks, shufs := shufCodes, swaps := swapKs }
def cov32x2a : Cov := { rots := rot32Ks, lshufs := shufCodes }

theorem mem_of_contains {l : List Nat} {k : Nat} (h : l.contains k = true) : k ∈ l := by
  simpa using h

theorem len16 {bs : List (BitVec 8)} (h : bs.length * 8 = 128) : bs.length = 16 := by omega

theorem x86_u32x4 (s3 s4 : Bool) : Agrees 4 (X86.u32x4 s3 s4) Meaning.u32x4 cov32 := by
  intro o ho
  cases o with
  | add => exact fun a b => LeafX86.u32x4_add a b
  | xor => exact fun a b => LeafX86.xor a b
  | and => exact fun a b => LeafX86.and a b
  | or => exact fun a b => LeafX86.or a b
  | andnot => exact fun a b => LeafX86.andnot a b
  | not => exact fun a => LeafX86.not a
  | rotr k => exact fun a => LeafX86.u32x4_rotr s3 k (mem_of_contains ho) a
  | shuffle s => exact fun a => LeafX86.u32x4_shuffle s (mem_of_contains ho) a
  | shuffleLane s => exact fun a => LeafX86.u32x4_shuffle s (mem_of_contains ho) a
  | swap k => exact absurd ho (by simp [Cov.has, cov32])
  | bswap => exact fun a => LeafX86.u32x4_bswap s3 a
  | extract => exact fun a i hi => LeafX86.u32x4_extract s4 a i hi
  | insert => exact fun a w i hi => LeafX86.u32x4_insert s4 a w i hi
  | toLanes => exact fun a => LeafX86.u32x4_toLanes s4 a
  | fromLanes => exact fun xs h => LeafX86.u32x4_fromLanes s4 xs h
  | readLe => exact fun bs h => LeafX86.loadu_le bs (by omega)
  | readBe => exact fun bs h => LeafX86.u32x4_readBe s3 bs (len16 h)
  | writeLe => exact fun a => LeafX86.storeu_le a
  | writeBe => exact fun a => LeafX86.u32x4_writeBe s3 a
  | transpose4 => trivial
  | toScalars => trivial

theorem x86_u64x2 (s3 s4 : Bool) : Agrees 2 (X86.u64x2 s3 s4) Meaning.u64x2 cov64 := by
  intro o ho
  cases o with
  | add => exact fun a b => LeafX86.u64x2_add a b
  | xor => exact fun a b => LeafX86.xor a b
  | and => exact fun a b => LeafX86.and a b
  | or => exact fun a b => LeafX86.or a b
  | andnot => exact fun a b => LeafX86.andnot a b
  | not => exact fun a => LeafX86.not a
  | rotr k => exact fun a => LeafX86.u64x2_rotr s3 k (mem_of_contains ho) a
  | shuffle s => exact absurd ho (by simp [Cov.has, cov64])
  | shuffleLane s => exact absurd ho (by simp [Cov.has, cov64])
  | swap k => exact absurd ho (by simp [Cov.has, cov64])
  | bswap => exact fun a => LeafX86.u64x2_bswap s3 a
  | extract => exact fun a i hi => LeafX86.u64x2_extract s4 a i hi
  | insert => exact fun a w i hi => LeafX86.u64x2_insert s4 a w i hi
  | toLanes => exact fun a => LeafX86.u64x2_toLanes s4 a
  | fromLanes => exact fun xs h => LeafX86.u64x2_fromLanes s4 xs h
  | readLe => exact fun bs h => LeafX86.loadu_le bs (by omega)
  | readBe => exact fun bs h => LeafX86.u64x2_readBe s3 bs (len16 h)
  | writeLe => exact fun a => LeafX86.storeu_le a
  | writeBe => exact fun a => LeafX86.u64x2_writeBe s3 a
  | transpose4 => trivial
  | toScalars => trivial

theorem x86_u128x1 (s3 : Bool) : Agrees 1 (X86.u128x1 s3) Meaning.u128x1 cov128x := by
  intro o ho
  cases o with
  | add => exact absurd ho (by simp [Cov.has, cov128x])
  | xor => exact fun a b => LeafX86.xor a b
  | and => exact fun a b => LeafX86.and a b
  | or => exact fun a b => LeafX86.or a b
  | andnot => exact fun a b => LeafX86.andnot a b
  | not => exact fun a => LeafX86.not a
  | rotr k => exact fun a => LeafX86.u128x1_rotr k (mem_of_contains ho) a
  | shuffle s => exact absurd ho (by simp [Cov.has, cov128x])
  | shuffleLane s => exact absurd ho (by simp [Cov.has, cov128x])
  | swap k => exact fun a => LeafX86.u128x1_swap s3 k (mem_of_contains ho) a
  | bswap => exact fun a => LeafX86.u128x1_bswap s3 a
  | extract => exact absurd ho (by simp [Cov.has, cov128x])
  | insert => exact absurd ho (by simp [Cov.has, cov128x])
  | toLanes => exact fun a => rfl
  | fromLanes => exact fun xs _ => rfl
  | readLe => exact fun bs h => LeafX86.loadu_le bs (by omega)
  | readBe => exact fun bs h => LeafX86.u128x1_readBe s3 bs (len16 h)
  | writeLe => exact fun a => LeafX86.storeu_le a
  | writeBe => exact fun a => LeafX86.u128x1_writeBe s3 a
  | transpose4 => trivial
  | toScalars => trivial

theorem generic_u32x4 : Agrees 4 Generic.u32x4 Meaning.u32x4 cov32g := by
  intro o ho
  cases o with
  | add => exact fun a b => LeafGeneric.u32x4_add a b
  | xor => exact fun a b => LeafGeneric.xor a b
  | and => exact fun a b => LeafGeneric.and a b
  | or => exact fun a b => LeafGeneric.or a b
  | andnot => exact fun a b => LeafGeneric.andnot a b
  | not => exact fun a => LeafGeneric.not a
  | rotr k => exact fun a => LeafGeneric.u32x4_rotr k (mem_of_contains ho) a
  | shuffle s => exact fun a => LeafGeneric.u32x4_shuffle s (mem_of_contains ho) a
  | shuffleLane s => exact fun a => LeafGeneric.u32x4_shuffle s (mem_of_contains ho) a
  | swap k => exact fun a => LeafGeneric.swap k (mem_of_contains ho) a
  | bswap => exact fun a => LeafGeneric.u32x4_bswap a
  | extract => exact fun a i _ => rfl
  | insert => exact fun a w i _ => rfl
  | toLanes => exact fun a => rfl
  | fromLanes => exact fun xs _ => rfl
  | readLe => exact fun bs h => LeafGeneric.u32x4_readLe bs (len16 h)
  | readBe => exact fun bs h => LeafGeneric.u32x4_readBe bs (len16 h)
  | writeLe => exact fun a => LeafGeneric.u32x4_writeLe a
  | writeBe => exact fun a => LeafGeneric.u32x4_writeBe a
  | transpose4 => trivial
  | toScalars => trivial

theorem generic_u64x2 : Agrees 2 Generic.u64x2 Meaning.u64x2 cov64g := by
  intro o ho
  cases o with
  | add => exact fun a b => LeafGeneric.u64x2_add a b
  | xor => exact fun a b => LeafGeneric.xor a b
  | and => exact fun a b => LeafGeneric.and a b
  | or => exact fun a b => LeafGeneric.or a b
  | andnot => exact fun a b => LeafGeneric.andnot a b
  | not => exact fun a => LeafGeneric.not a
  | rotr k => exact fun a => LeafGeneric.u64x2_rotr k (mem_of_contains ho) a
  | shuffle s => exact absurd ho (by simp [Cov.has, cov64g])
  | shuffleLane s => exact absurd ho (by simp [Cov.has, cov64g])
  | swap k => exact fun a => LeafGeneric.swap k (mem_of_contains ho) a
  | bswap => exact fun a => LeafGeneric.u64x2_bswap a
  | extract => exact fun a i _ => rfl
  | insert => exact fun a w i _ => rfl
  | toLanes => exact fun a => rfl
  | fromLanes => exact fun xs _ => rfl
  | readLe => exact fun bs h => LeafGeneric.u64x2_readLe bs (len16 h)
  | readBe => exact fun bs h => LeafGeneric.u64x2_readBe bs (len16 h)
  | writeLe => exact fun a => LeafGeneric.u64x2_writeLe a
  | writeBe => exact fun a => LeafGeneric.u64x2_writeBe a
  | transpose4 => trivial
  | toScalars => trivial

theorem generic_u128x1 : Agrees 1 Generic.u128x1 Meaning.u128x1 cov128g := by
  intro o ho
  cases o with
  | add => exact fun a b => LeafGeneric.u128x1_add a b
  | xor => exact fun a b => LeafGeneric.xor a b
  | and => exact fun a b => LeafGeneric.and a b
  | or => exact fun a b => LeafGeneric.or a b
  | andnot => exact fun a b => LeafGeneric.andnot a b
  | not => exact fun a => LeafGeneric.not a
  | rotr k => exact fun a => LeafGeneric.u128x1_rotr k (mem_of_contains ho) a
  | shuffle s => exact absurd ho (by simp [Cov.has, cov128g])
  | shuffleLane s => exact absurd ho (by simp [Cov.has, cov128g])
  | swap k => exact fun a => LeafGeneric.swap k (mem_of_contains ho) a
  | bswap => exact fun a => LeafGeneric.u128x1_bswap a
  | extract => exact absurd ho (by simp [Cov.has, cov128g])
  | insert => exact absurd ho (by simp [Cov.has, cov128g])
  | toLanes => exact fun a => rfl
  | fromLanes => exact fun xs _ => rfl
  | readLe => exact absurd ho (by simp [Cov.has, cov128g])
  | readBe => exact absurd ho (by simp [Cov.has, cov128g])
  | writeLe => exact absurd ho (by simp [Cov.has, cov128g])
  | writeBe => exact absurd ho (by simp [Cov.has, cov128g])
  | transpose4 => trivial
  | toScalars => trivial

/-- `u64x4_sse2`: word-wise operations and byte I/O are those of `x2<u64x2_sse2>`; `Vec4<u64>`,
    `MultiLane<[u64;4]>` and `Words4` are specialised. -/
theorem x86_u64x4 (s3 s4 : Bool) : Agrees 4 (X86.u64x4 s3 s4) Meaning.u64x4 cov64x4 := by
  have L := Lift.x2_agrees (x86_u64x2 s3 s4)
  intro o ho
  cases o with
  | add => exact L .add rfl
  | xor => exact L .xor rfl
  | and => exact L .and rfl
  | or => exact L .or rfl
  | andnot => exact L .andnot rfl
  | not => exact L .not rfl
  | rotr k => exact L (.rotr k) ho
  | shuffle s => exact fun a => LeafWide.u64x4_shuffle s3 s (mem_of_contains ho) a
  | shuffleLane s => exact absurd ho (by simp [Cov.has, cov64x4])
  | swap k => exact absurd ho (by simp [Cov.has, cov64x4])
  | bswap => exact L .bswap rfl
  | extract => exact fun a i hi => LeafWide.u64x4_extract s4 a i hi
  | insert => exact fun a w i hi => LeafWide.u64x4_insert s4 a w i hi
  | toLanes => exact fun a => LeafWide.u64x4_toLanes s3 s4 a
  | fromLanes => exact fun xs h => LeafWide.u64x4_fromLanes s3 s4 xs h
  | readLe => exact L .readLe rfl
  | readBe => exact L .readBe rfl
  | writeLe => exact L .writeLe rfl
  | writeBe => exact L .writeBe rfl
  | transpose4 => trivial
  | toScalars => trivial

theorem generic_u64x4 : Agrees 4 Generic.u64x4 Meaning.u64x4 cov64x4g := by
  have L := Lift.x2_agrees generic_u64x2
  intro o ho
  cases o with
  | add => exact L .add rfl
  | xor => exact L .xor rfl
  | and => exact L .and rfl
  | or => exact L .or rfl
  | andnot => exact L .andnot rfl
  | not => exact L .not rfl
  | rotr k => exact L (.rotr k) ho
  | shuffle s => exact fun a => LeafGeneric.u64x4_shuffle s (mem_of_contains ho) a
  | shuffleLane s => exact absurd ho (by simp [Cov.has, cov64x4g])
  | swap k => exact L (.swap k) ho
  | bswap => exact L .bswap rfl
  | extract => exact fun a i hi => LeafGeneric.u64x4_extract a i hi
  | insert => exact fun a w i hi => LeafGeneric.u64x4_insert a w i hi
  | toLanes => exact fun a => LeafGeneric.u64x4_toLanes a
  | fromLanes => exact fun xs h => LeafGeneric.u64x4_fromLanes xs h
  | readLe => exact L .readLe rfl
  | readBe => exact L .readBe rfl
  | writeLe => exact L .writeLe rfl
  | writeBe => exact L .writeBe rfl
  | transpose4 => trivial
  | toScalars => trivial

theorem len32 {bs : List (BitVec 8)} (h : bs.length * 8 = 256) : bs.length = 32 := by omega

/-- `u32x4x2_avx2` against the two-lane meaning of `u32x4` -/
theorem avx2_u32x4x2 : Agrees 2 Avx2.u32x4x2 (Meaning.lift2 Meaning.u32x4) cov32x2a := by
  intro o ho
  cases o with
  | add => exact fun a b => LeafAvx2.add a b
  | xor => exact fun a b => LeafAvx2.xor a b
  | and => exact fun a b => LeafAvx2.and a b
  | or => exact fun a b => LeafAvx2.or a b
  | andnot => exact fun a b => LeafAvx2.andnot a b
  | not => exact fun a => LeafAvx2.not a
  | rotr k => exact fun a => LeafAvx2.rotr k (mem_of_contains ho) a
  | shuffle s => exact absurd ho (by simp [Cov.has, cov32x2a])
  | shuffleLane s => exact fun a => LeafAvx2.shuffleLane s (mem_of_contains ho) a
  | swap k => exact absurd ho (by simp [Cov.has, cov32x2a])
  | bswap => exact fun a => LeafAvx2.bswap a
  | extract => exact fun a i hi => LeafAvx2.extract a i hi
  | insert => exact fun a w i hi => LeafAvx2.insert a w i hi
  | toLanes => exact fun a => LeafAvx2.toLanes a
  | fromLanes => exact fun xs _ => LeafAvx2.fromLanes xs
  | readLe => exact fun bs h => LeafAvx2.readLe bs (len32 h)
  | readBe => exact fun bs h => LeafAvx2.readBe bs (len32 h)
  | writeLe => exact fun a => LeafAvx2.writeLe a
  | writeBe => exact fun a => LeafAvx2.writeBe a
  | transpose4 => trivial
  | toScalars => trivial

end CC.Simd.Records
