/-
  CC.Simd.Proof.MeaningLaws — round-trip / order laws of the backend-free meaning
  (`CC/Simd/Meaning.lean`).  C13 transports them to every backend through C12's `leaf`.
-/
import CC.Simd.Proof.Unfold
import CC.Simd.Proof.Lists
namespace CC.Simd.MeaningLaws
open CC CC.Simd

/-! ### lanes -/
theorem lanes32 : (∀ xs : List (BitVec 32), xs.length = 4 → Meaning.u32x4.toLanes (Meaning.u32x4.fromLanes xs) = xs) ∧
    (∀ v, Meaning.u32x4.fromLanes (Meaning.u32x4.toLanes v) = v) := by
  constructor
  · intro xs h; obtain ⟨x0, x1, x2, x3, rfl⟩ := Lists.eq4 h
    show [lane32 (pack32 _ _ _ _) 0, lane32 (pack32 _ _ _ _) 1, lane32 (pack32 _ _ _ _) 2, lane32 (pack32 _ _ _ _) 3] = _
    simd_leaf
  · intro v; show pack32 (lane32 v 0) (lane32 v 1) (lane32 v 2) (lane32 v 3) = v; simd_leaf
theorem lanes64 : (∀ xs : List (BitVec 64), xs.length = 2 → Meaning.u64x2.toLanes (Meaning.u64x2.fromLanes xs) = xs) ∧
    (∀ v, Meaning.u64x2.fromLanes (Meaning.u64x2.toLanes v) = v) := by
  constructor
  · intro xs h; obtain ⟨x0, x1, rfl⟩ := Lists.eq2 h
    show [lane64 (pack64 _ _) 0, lane64 (pack64 _ _) 1] = _
    simd_leaf
  · intro v; show pack64 (lane64 v 0) (lane64 v 1) = v; simd_leaf
theorem lanes128 : (∀ xs : List (BitVec 128), xs.length = 1 → Meaning.u128x1.toLanes (Meaning.u128x1.fromLanes xs) = xs) ∧
    (∀ v, Meaning.u128x1.fromLanes (Meaning.u128x1.toLanes v) = v) := by
  constructor
  · intro xs h; obtain ⟨x0, rfl⟩ := Lists.eq1 h; rfl
  · intro v; rfl
theorem lanes2 {m} (M : VOps 128 m) :
    (∀ xs : List (BitVec 128), xs.length = 2 → (Meaning.lift2 M).toLanes ((Meaning.lift2 M).fromLanes xs) = xs) ∧
    (∀ v, (Meaning.lift2 M).fromLanes ((Meaning.lift2 M).toLanes v) = v) := by
  constructor
  · intro xs h; obtain ⟨x0, x1, rfl⟩ := Lists.eq2 h
    show [lo128 (pack256 _ _), hi128 (pack256 _ _)] = _
    simd_leaf
  · intro v; show pack256 (lo128 v) (hi128 v) = v; simd_leaf
theorem lanes4 {m} (M : VOps 128 m) :
    (∀ xs : List (BitVec 128), xs.length = 4 → (Meaning.lift4 M).toLanes ((Meaning.lift4 M).fromLanes xs) = xs) ∧
    (∀ v, (Meaning.lift4 M).fromLanes ((Meaning.lift4 M).toLanes v) = v) := by
  constructor
  · intro xs h; obtain ⟨x0, x1, x2, x3, rfl⟩ := Lists.eq4 h
    show [q128 (pack512 _ _ _ _) 0, q128 (pack512 _ _ _ _) 1, q128 (pack512 _ _ _ _) 2, q128 (pack512 _ _ _ _) 3] = _
    simd_leaf
  · intro v; show pack512 (q128 v 0) (q128 v 1) (q128 v 2) (q128 v 3) = v; simd_leaf
theorem lanes64x4 : (∀ xs : List (BitVec 64), xs.length = 4 → Meaning.u64x4.toLanes (Meaning.u64x4.fromLanes xs) = xs) ∧
    (∀ v, Meaning.u64x4.fromLanes (Meaning.u64x4.toLanes v) = v) := by
  constructor
  · intro xs h; obtain ⟨x0, x1, x2, x3, rfl⟩ := Lists.eq4 h
    show [w64 (pack64x4 _ _ _ _) 0, w64 (pack64x4 _ _ _ _) 1, w64 (pack64x4 _ _ _ _) 2, w64 (pack64x4 _ _ _ _) 3] = _
    simd_leaf
  · intro v; show pack64x4 (w64 v 0) (w64 v 1) (w64 v 2) (w64 v 3) = v; simd_leaf

theorem lanes : ∀ τ : Ty,
    (∀ xs : List (BitVec τ.elem), xs.length = τ.count → (meaning τ).toLanes ((meaning τ).fromLanes xs) = xs) ∧
    (∀ v, (meaning τ).fromLanes ((meaning τ).toLanes v) = v)
  | .u32x4 => lanes32 | .u64x2 => lanes64 | .u128x1 => lanes128
  | .u32x4x2 => lanes2 _ | .u64x2x2 => lanes2 _ | .u64x4 => lanes64x4 | .u128x2 => lanes2 _
  | .u32x4x4 => lanes4 _ | .u64x2x4 => lanes4 _ | .u128x4 => lanes4 _

/-! ### extract ∘ insert -/
def GetSet {n m} (cnt : Nat) (M : VOps n m) : Prop :=
  ∀ (v : BitVec n) (w : BitVec m) (i j : Nat), i < cnt → j < cnt →
    M.extract (M.insert v w i) j = if i = j then w else M.extract v j

theorem getset32 : GetSet 4 Meaning.u32x4 := by
  intro v w i j hi hj
  have : i = 0 ∨ i = 1 ∨ i = 2 ∨ i = 3 := by omega
  have : j = 0 ∨ j = 1 ∨ j = 2 ∨ j = 3 := by omega
  show lane32 (insert32 v w i) j = if i = j then w else lane32 v j
  rcases ‹i = 0 ∨ _› with rfl | rfl | rfl | rfl <;> rcases ‹j = 0 ∨ _› with rfl | rfl | rfl | rfl <;> simd_leaf
theorem getset64 : GetSet 2 Meaning.u64x2 := by
  intro v w i j hi hj
  have : i = 0 ∨ i = 1 := by omega
  have : j = 0 ∨ j = 1 := by omega
  show lane64 (Meaning.insert64 v w i) j = if i = j then w else lane64 v j
  rcases ‹i = 0 ∨ _› with rfl | rfl <;> rcases ‹j = 0 ∨ _› with rfl | rfl <;> simd_leaf
theorem getset2 {m} (M : VOps 128 m) : GetSet 2 (Meaning.lift2 M) := by
  intro v w i j hi hj
  have : i = 0 ∨ i = 1 := by omega
  have : j = 0 ∨ j = 1 := by omega
  show (if j = 0 then lo128 (pack256 _ _) else hi128 (pack256 _ _)) = if i = j then w else (if j = 0 then lo128 v else hi128 v)
  rcases ‹i = 0 ∨ _› with rfl | rfl <;> rcases ‹j = 0 ∨ _› with rfl | rfl <;> simd_leaf
theorem getset4 {m} (M : VOps 128 m) : GetSet 4 (Meaning.lift4 M) := by
  intro v w i j hi hj
  have : i = 0 ∨ i = 1 ∨ i = 2 ∨ i = 3 := by omega
  have : j = 0 ∨ j = 1 ∨ j = 2 ∨ j = 3 := by omega
  show q128 (pack512 _ _ _ _) j = if i = j then w else q128 v j
  rcases ‹i = 0 ∨ _› with rfl | rfl | rfl | rfl <;> rcases ‹j = 0 ∨ _› with rfl | rfl | rfl | rfl <;> simd_leaf
theorem getset64x4 : GetSet 4 Meaning.u64x4 := by
  intro v w i j hi hj
  have : i = 0 ∨ i = 1 ∨ i = 2 ∨ i = 3 := by omega
  have : j = 0 ∨ j = 1 ∨ j = 2 ∨ j = 3 := by omega
  show w64 (pack64x4 _ _ _ _) j = if i = j then w else w64 v j
  rcases ‹i = 0 ∨ _› with rfl | rfl | rfl | rfl <;> rcases ‹j = 0 ∨ _› with rfl | rfl | rfl | rfl <;> simd_leaf

theorem getset : ∀ τ : Ty, τ ≠ .u128x1 → GetSet τ.count (meaning τ)
  | .u32x4, _ => getset32 | .u64x2, _ => getset64 | .u128x1, h => absurd rfl h
  | .u32x4x2, _ => getset2 _ | .u64x2x2, _ => getset2 _ | .u64x4, _ => getset64x4 | .u128x2, _ => getset2 _
  | .u32x4x4, _ => getset4 _ | .u64x2x4, _ => getset4 _ | .u128x4, _ => getset4 _

/-! ### transpose, scalars -/
theorem transpose (a b c d : BitVec 512) (i j : Nat) (hi : i < 4) (hj : j < 4) :
    q128 ([(transpose4_512 a b c d).1, (transpose4_512 a b c d).2.1, (transpose4_512 a b c d).2.2.1,
      (transpose4_512 a b c d).2.2.2].getD i 0) j = q128 ([a, b, c, d].getD j 0) i := by
  have : i = 0 ∨ i = 1 ∨ i = 2 ∨ i = 3 := by omega
  have : j = 0 ∨ j = 1 ∨ j = 2 ∨ j = 3 := by omega
  rcases ‹i = 0 ∨ _› with rfl | rfl | rfl | rfl <;> rcases ‹j = 0 ∨ _› with rfl | rfl | rfl | rfl <;> simd_leaf

theorem scalars (v : BitVec 512) :
    Meaning.toScalars v = (List.range 16).map fun i => v.extractLsb' (32 * i) 32 := by
  show ([q128 v 0, q128 v 1, q128 v 2, q128 v 3].flatMap fun v => [lane32 v 0, lane32 v 1, lane32 v 2, lane32 v 3]) = _
  simd_leaf

/-! ### bytes -/
/-- a 128-bit value and its sixteen little-endian bytes -/
theorem le16 : (∀ bs : List (BitVec 8), bs.length = 16 → toLeBytes (ofLeBytes 128 (bs.take 16)) 16 = bs) ∧
    (∀ v : BitVec 128, ofLeBytes 128 ((toLeBytes v 16).take 16) = v) := by
  constructor
  · intro bs h
    obtain ⟨a0, a1, a2, a3, a4, a5, a6, a7, a8, a9, a10, a11, a12, a13, a14, a15, rfl⟩ := Lists.eq16 h
    simd_leaf
  · intro v; simd_leaf

end CC.Simd.MeaningLaws
