/-
  CC.Simd.Proof.LeafWide — C12/C13 leaves for the x86 types that are not plain forwarders:
  `u64x4_sse2` (`Words4` via `palignr` / byte shifts, `Vec4<u64>`, `MultiLane<[u64;4]>`),
  `to_scalars` (`transmute!`), `u32x4x2_avx2` (256-bit `bv_decide` leaves) and
  `u32x4x4_avx2` (`Vec4`, `MultiLane`, `transpose4` via `vperm2i128 0x20/0x31`).
-/
import CC.Simd.Proof.Unfold
import CC.Simd.Proof.Lists
namespace CC.Simd.LeafWide
open CC CC.X86 CC.Simd CC.Simd.Impl

/-! ### `u64x4_sse2` -/
theorem u64x4_shuffle (s3 : Bool) (c : Nat) (hc : c ∈ shufCodes) (a : BitVec 256) :
    X86.u64x4_shuffle s3 c a = Meaning.shuf64 c a := by
  simp only [shufCodes, List.mem_cons, List.not_mem_nil, or_false] at hc
  rcases hc with rfl | rfl | rfl <;> cases s3 <;> simd_leaf
theorem u64x4_toLanes (s3 s4 : Bool) (a : BitVec 256) :
    X86.u64x4_toLanes s3 s4 a = [w64 a 0, w64 a 1, w64 a 2, w64 a 3] := by
  cases s4 <;> simd_leaf
theorem u64x4_fromLanes (s3 s4 : Bool) (xs : List (BitVec 64)) (h : xs.length = 4) :
    X86.u64x4_fromLanes s3 s4 xs = pack64x4 (xs.getD 0 0) (xs.getD 1 0) (xs.getD 2 0) (xs.getD 3 0) := by
  obtain ⟨x0, x1, x2, x3, rfl⟩ := Lists.eq4 h
  cases s4 <;> simd_leaf
theorem u64x4_extract (s4 : Bool) (a : BitVec 256) (i : Nat) (hi : i < 4) :
    X86.u64x4_extract s4 a i = w64 a i := by
  have : i = 0 ∨ i = 1 ∨ i = 2 ∨ i = 3 := by omega
  rcases this with rfl | rfl | rfl | rfl <;> cases s4 <;> simd_leaf
theorem u64x4_insert (s4 : Bool) (a : BitVec 256) (w : BitVec 64) (i : Nat) (hi : i < 4) :
    X86.u64x4_insert s4 a w i = Meaning.u64x4.insert a w i := by
  have : i = 0 ∨ i = 1 ∨ i = 2 ∨ i = 3 := by omega
  rcases this with rfl | rfl | rfl | rfl <;> cases s4 <;>
    (show _ = pack64x4 _ _ _ _; simd_leaf)

/-- `transmute!` of the 64 storage bytes to `[u32;16]` lists the words in lane order -/
theorem toScalars (a : BitVec 512) : X86.toScalars a = Meaning.toScalars a := by
  show _ = ([q128 a 0, q128 a 1, q128 a 2, q128 a 3].flatMap fun v => [lane32 v 0, lane32 v 1, lane32 v 2, lane32 v 3])
  simd_leaf

end CC.Simd.LeafWide
