/-
  CC.Simd.Proof.LeafAvx2 — C12/C13 leaves for `mod avx2`: `u32x4x2_avx2` (a real 256-bit
  register; `bv_decide` on `BitVec 256`) against the two-lane meaning of `u32x4`, and the
  specialised parts of `u32x4x4_avx2` (`Vec4`, `MultiLane`, `transpose4`, byte I/O) against the
  four-lane meaning.
-/
import CC.Simd.Proof.Unfold
import CC.Simd.Proof.Lists
namespace CC.Simd.LeafAvx2
open CC CC.X86 CC.Simd CC.Simd.Impl

/-! ### `u32x4x2_avx2` -/
theorem add (a b : BitVec 256) : _mm256_add_epi32 a b = zip256 (zip32 (· + ·)) a b := by simd_leaf
theorem xor (a b : BitVec 256) : _mm256_xor_si256 a b = zip256 (· ^^^ ·) a b := by simd_leaf
theorem and (a b : BitVec 256) : _mm256_and_si256 a b = zip256 (· &&& ·) a b := by simd_leaf
theorem or (a b : BitVec 256) : _mm256_or_si256 a b = zip256 (· ||| ·) a b := by simd_leaf
theorem andnot (a b : BitVec 256) : _mm256_andnot_si256 a b = zip256 (fun x y => ~~~x &&& y) a b := by simd_leaf
/-- `Not` flips every bit (the constant is `_mm256_set1_epi8(-1)`) -/
theorem not (a : BitVec 256) : Avx2.u32x4x2_not a = map256 (fun x => ~~~x) a := by simd_leaf
theorem rotr (k : Nat) (hk : k ∈ rot32Ks) (a : BitVec 256) :
    Avx2.u32x4x2_rotr k a = map256 (map32 (·.rotateRight k)) a := by
  simp only [rot32Ks, List.mem_cons, List.not_mem_nil, or_false] at hk
  rcases hk with rfl | rfl | rfl | rfl | rfl | rfl | rfl | rfl <;> simd_leaf
theorem bswap (a : BitVec 256) : Avx2.u32x4x2_bswap a = map256 (map32 bswap32) a := by simd_leaf
theorem shuffleLane (c : Nat) (hc : c ∈ shufCodes) (a : BitVec 256) :
    Avx2.u32x4x2_shuffleLane c a = map256 (Meaning.shuf32 c) a := by
  simp only [shufCodes, List.mem_cons, List.not_mem_nil, or_false] at hc
  rcases hc with rfl | rfl | rfl <;> simd_leaf
theorem extract (a : BitVec 256) (i : Nat) (hi : i < 2) :
    Avx2.u32x4x2_extract a i = if i = 0 then lo128 a else hi128 a := by
  have : i = 0 ∨ i = 1 := by omega
  rcases this with rfl | rfl <;> simd_leaf
theorem insert (a : BitVec 256) (w : BitVec 128) (i : Nat) (hi : i < 2) :
    Avx2.u32x4x2_insert a w i = pack256 (if i = 0 then w else lo128 a) (if i = 1 then w else hi128 a) := by
  have : i = 0 ∨ i = 1 := by omega
  rcases this with rfl | rfl <;> simd_leaf
theorem toLanes (a : BitVec 256) : Avx2.u32x4x2_toLanes a = [lo128 a, hi128 a] := by simd_leaf
theorem fromLanes (xs : List (BitVec 128)) :
    Avx2.u32x4x2_fromLanes xs = pack256 (xs.getD 0 0) (xs.getD 1 0) := by simd_leaf
theorem readLe (bs : List (BitVec 8)) (h : bs.length = 32) :
    _mm256_loadu_si256 bs = pack256 (ofLeBytes 128 ((bs.take 16).take 16)) (ofLeBytes 128 (((bs.drop 16).take 16).take 16)) := by
  obtain ⟨a0, a1, a2, a3, a4, a5, a6, a7, a8, a9, a10, a11, a12, a13, a14, a15, a16, a17, a18, a19, a20,
    a21, a22, a23, a24, a25, a26, a27, a28, a29, a30, a31, rfl⟩ := Lists.eq32 h
  simd_leaf
theorem readBe (bs : List (BitVec 8)) (h : bs.length = 32) :
    Avx2.u32x4x2_bswap (_mm256_loadu_si256 bs) =
      pack256 (Meaning.u32x4.readBe (bs.take 16)) (Meaning.u32x4.readBe ((bs.drop 16).take 16)) := by
  obtain ⟨a0, a1, a2, a3, a4, a5, a6, a7, a8, a9, a10, a11, a12, a13, a14, a15, a16, a17, a18, a19, a20,
    a21, a22, a23, a24, a25, a26, a27, a28, a29, a30, a31, rfl⟩ := Lists.eq32 h
  show _ = pack256 (pack32 (read32be _) (read32be _) (read32be _) (read32be _)) (pack32 (read32be _) (read32be _) (read32be _) (read32be _))
  simd_leaf
theorem writeLe (a : BitVec 256) :
    _mm256_storeu_si256 a = toLeBytes (lo128 a) 16 ++ toLeBytes (hi128 a) 16 := by simd_leaf
theorem writeBe (a : BitVec 256) :
    _mm256_storeu_si256 (Avx2.u32x4x2_bswap a) = Meaning.u32x4.writeBe (lo128 a) ++ Meaning.u32x4.writeBe (hi128 a) := by
  show _ = (toBe32 _ ++ toBe32 _ ++ toBe32 _ ++ toBe32 _) ++ (toBe32 _ ++ toBe32 _ ++ toBe32 _ ++ toBe32 _)
  simd_leaf

/-! ### `u32x4x4_avx2` -/
theorem extract4 (a : BitVec 512) (i : Nat) (hi : i < 4) : Avx2.u32x4x4_extract a i = q128 a i := by
  have : i = 0 ∨ i = 1 ∨ i = 2 ∨ i = 3 := by omega
  rcases this with rfl | rfl | rfl | rfl <;> simd_leaf
theorem insert4 (a : BitVec 512) (w : BitVec 128) (i : Nat) (hi : i < 4) :
    Avx2.u32x4x4_insert a w i =
      pack512 (if i = 0 then w else q128 a 0) (if i = 1 then w else q128 a 1)
              (if i = 2 then w else q128 a 2) (if i = 3 then w else q128 a 3) := by
  have : i = 0 ∨ i = 1 ∨ i = 2 ∨ i = 3 := by omega
  rcases this with rfl | rfl | rfl | rfl <;> simd_leaf
theorem toLanes4 (a : BitVec 512) : Avx2.u32x4x4_toLanes a = [q128 a 0, q128 a 1, q128 a 2, q128 a 3] := by simd_leaf
theorem fromLanes4 (xs : List (BitVec 128)) :
    Avx2.u32x4x4_fromLanes xs = pack512 (xs.getD 0 0) (xs.getD 1 0) (xs.getD 2 0) (xs.getD 3 0) := by simd_leaf

/-- the AVX2 `transpose4` (eight `vperm2i128` with `0x20` / `0x31`) is the 4×4 lane transpose -/
theorem transpose4 (a b c d : BitVec 512) : Avx2.transpose4 a b c d = transpose4_512 a b c d := by
  simp only [simd_unfold, ↓reduceIte, Prod.mk.injEq]
  bv_decide

/-! ### splitting a four-lane map into two two-lane maps (`x2<u32x4x2_avx2>`) -/
theorem q0 (a : BitVec 512) : lo128 (Soft.lo256 a) = q128 a 0 := by simd_leaf
theorem q1 (a : BitVec 512) : hi128 (Soft.lo256 a) = q128 a 1 := by simd_leaf
theorem q2 (a : BitVec 512) : lo128 (Soft.hi256 a) = q128 a 2 := by simd_leaf
theorem q3 (a : BitVec 512) : hi128 (Soft.hi256 a) = q128 a 3 := by simd_leaf
theorem pack_split (x0 x1 x2 x3 : BitVec 128) :
    Soft.pack512w (pack256 x0 x1) (pack256 x2 x3) = pack512 x0 x1 x2 x3 := by simd_leaf

theorem map512_split (g : BitVec 128 → BitVec 128) (a : BitVec 512) :
    Soft.pack512w (map256 g (Soft.lo256 a)) (map256 g (Soft.hi256 a)) = map512 g a := by
  simp only [map256, map512, q0, q1, q2, q3, pack_split]
theorem zip512_split (g : BitVec 128 → BitVec 128 → BitVec 128) (a b : BitVec 512) :
    Soft.pack512w (zip256 g (Soft.lo256 a) (Soft.lo256 b)) (zip256 g (Soft.hi256 a) (Soft.hi256 b)) = zip512 g a b := by
  simp only [zip256, zip512, q0, q1, q2, q3, pack_split]

end CC.Simd.LeafAvx2
