/-
  CC.Simd.Proof.Lift — the two generic lifting lemmas for the forwarders of `soft.rs`:
  if the 128-bit element type `W` agrees with its meaning `M`, then `x2<W>` agrees with the
  two-lane meaning `lift2 M` and `x4<W>` with the four-lane meaning `lift4 M`
  (`Vec2/Vec4/MultiLane` of the wrappers are plain array accesses and agree unconditionally).
-/
import CC.Simd.Proof.Unfold
import CC.Simd.Proof.Lists
namespace CC.Simd.Lift
open CC CC.Simd CC.Simd.Impl

theorem take16_len {bs : List (BitVec 8)} (h : 16 ≤ bs.length) : (bs.take 16).length * 8 = 128 := by
  simp only [List.length_take]; omega

theorem x2_agrees {m cnt : Nat} {W M : VOps 128 m} {c : Cov} (h : Agrees cnt W M c) :
    Agrees 2 (Soft.x2 W) (Meaning.lift2 M) c.lift := by
  intro o ho
  cases o with
  | add => have h' : ∀ a b, W.add a b = M.add a b := h .add ho
           intro a b; show pack256 _ _ = zip256 _ _ _; simp only [zip256, h']
  | xor => have h' : ∀ a b, W.xor a b = M.xor a b := h .xor rfl
           intro a b; show pack256 _ _ = zip256 _ _ _; simp only [zip256, h']
  | and => have h' : ∀ a b, W.and a b = M.and a b := h .and rfl
           intro a b; show pack256 _ _ = zip256 _ _ _; simp only [zip256, h']
  | or => have h' : ∀ a b, W.or a b = M.or a b := h .or rfl
          intro a b; show pack256 _ _ = zip256 _ _ _; simp only [zip256, h']
  | andnot => have h' : ∀ a b, W.andnot a b = M.andnot a b := h .andnot rfl
              intro a b; show pack256 _ _ = zip256 _ _ _; simp only [zip256, h']
  | not => have h' : ∀ a, W.not a = M.not a := h .not rfl
           intro a; show pack256 _ _ = map256 _ _; simp only [map256, h']
  | rotr k => have h' : ∀ a, W.rotr k a = M.rotr k a := h (.rotr k) ho
              intro a; show pack256 _ _ = map256 _ _; simp only [map256, h']
  | shuffle s => simp [Cov.lift, Cov.has] at ho
  | shuffleLane s => have h' : ∀ a, W.shuffleLane s a = M.shuffleLane s a := h (.shuffleLane s) ho
                     intro a; show pack256 _ _ = map256 _ _; simp only [map256, h']
  | swap k => have h' : ∀ a, W.swap k a = M.swap k a := h (.swap k) ho
              intro a; show pack256 _ _ = map256 _ _; simp only [map256, h']
  | bswap => have h' : ∀ a, W.bswap a = M.bswap a := h .bswap ho
             intro a; show pack256 _ _ = map256 _ _; simp only [map256, h']
  | extract =>
    intro a i hi
    have : i = 0 ∨ i = 1 := by omega
    rcases this with rfl | rfl <;> rfl
  | insert =>
    intro a w i hi
    have : i = 0 ∨ i = 1 := by omega
    rcases this with rfl | rfl <;> rfl
  | toLanes => intro a; rfl
  | fromLanes => intro xs _; rfl
  | readLe =>
    have h' : ∀ bs, bs.length * 8 = 128 → W.readLe bs = M.readLe bs := h .readLe ho
    intro bs hb
    have hl : bs.length = 32 := by omega
    show pack256 (W.readLe (bs.take (bs.length / 2))) (W.readLe (bs.drop (bs.length / 2))) =
      pack256 (M.readLe (bs.take 16)) (M.readLe ((bs.drop 16).take 16))
    have e : (bs.drop 16).take 16 = bs.drop 16 := List.take_of_length_le (by simp only [List.length_drop]; omega)
    rw [hl, e, h' _ (take16_len (by omega)), h' (bs.drop 16) (by simp only [List.length_drop]; omega)]
  | readBe =>
    have h' : ∀ bs, bs.length * 8 = 128 → W.readBe bs = M.readBe bs := h .readBe ho
    intro bs hb
    have hl : bs.length = 32 := by omega
    show pack256 (W.readBe (bs.take (bs.length / 2))) (W.readBe (bs.drop (bs.length / 2))) =
      pack256 (M.readBe (bs.take 16)) (M.readBe ((bs.drop 16).take 16))
    have e : (bs.drop 16).take 16 = bs.drop 16 := List.take_of_length_le (by simp only [List.length_drop]; omega)
    rw [hl, e, h' _ (take16_len (by omega)), h' (bs.drop 16) (by simp only [List.length_drop]; omega)]
  | writeLe => have h' : ∀ a, W.writeLe a = M.writeLe a := h .writeLe ho
               intro a; show W.writeLe _ ++ W.writeLe _ = M.writeLe _ ++ M.writeLe _; simp only [h']
  | writeBe => have h' : ∀ a, W.writeBe a = M.writeBe a := h .writeBe ho
               intro a; show W.writeBe _ ++ W.writeBe _ = M.writeBe _ ++ M.writeBe _; simp only [h']
  | transpose4 => trivial
  | toScalars => trivial

theorem x4_agrees {m cnt : Nat} {W M : VOps 128 m} {c : Cov} (h : Agrees cnt W M c) :
    Agrees 4 (Soft.x4 W) (Meaning.lift4 M) c.lift := by
  intro o ho
  cases o with
  | add => have h' : ∀ a b, W.add a b = M.add a b := h .add ho
           intro a b; show pack512 _ _ _ _ = zip512 _ _ _; simp only [zip512, h']
  | xor => have h' : ∀ a b, W.xor a b = M.xor a b := h .xor rfl
           intro a b; show pack512 _ _ _ _ = zip512 _ _ _; simp only [zip512, h']
  | and => have h' : ∀ a b, W.and a b = M.and a b := h .and rfl
           intro a b; show pack512 _ _ _ _ = zip512 _ _ _; simp only [zip512, h']
  | or => have h' : ∀ a b, W.or a b = M.or a b := h .or rfl
          intro a b; show pack512 _ _ _ _ = zip512 _ _ _; simp only [zip512, h']
  | andnot => have h' : ∀ a b, W.andnot a b = M.andnot a b := h .andnot rfl
              intro a b; show pack512 _ _ _ _ = zip512 _ _ _; simp only [zip512, h']
  | not => have h' : ∀ a, W.not a = M.not a := h .not rfl
           intro a; show pack512 _ _ _ _ = map512 _ _; simp only [map512, h']
  | rotr k => have h' : ∀ a, W.rotr k a = M.rotr k a := h (.rotr k) ho
              intro a; show pack512 _ _ _ _ = map512 _ _; simp only [map512, h']
  | shuffle s => simp [Cov.lift, Cov.has] at ho
  | shuffleLane s => have h' : ∀ a, W.shuffleLane s a = M.shuffleLane s a := h (.shuffleLane s) ho
                     intro a; show pack512 _ _ _ _ = map512 _ _; simp only [map512, h']
  | swap k => have h' : ∀ a, W.swap k a = M.swap k a := h (.swap k) ho
              intro a; show pack512 _ _ _ _ = map512 _ _; simp only [map512, h']
  | bswap => have h' : ∀ a, W.bswap a = M.bswap a := h .bswap ho
             intro a; show pack512 _ _ _ _ = map512 _ _; simp only [map512, h']
  | extract => intro a i _; rfl
  | insert =>
    intro a w i hi
    have : i = 0 ∨ i = 1 ∨ i = 2 ∨ i = 3 := by omega
    rcases this with rfl | rfl | rfl | rfl <;> rfl
  | toLanes => intro a; rfl
  | fromLanes => intro xs _; rfl
  | readLe =>
    have h' : ∀ bs, bs.length * 8 = 128 → W.readLe bs = M.readLe bs := h .readLe ho
    intro bs hb
    have hl : bs.length = 64 := by omega
    show pack512 (W.readLe (bs.take (bs.length / 4))) (W.readLe ((bs.drop (bs.length / 4)).take (bs.length / 4)))
        (W.readLe ((bs.drop (bs.length / 4 * 2)).take (bs.length / 4))) (W.readLe (bs.drop (bs.length / 4 * 3))) =
      pack512 (M.readLe (bs.take 16)) (M.readLe ((bs.drop 16).take 16))
        (M.readLe ((bs.drop 32).take 16)) (M.readLe ((bs.drop 48).take 16))
    have e : (bs.drop 48).take 16 = bs.drop 48 := List.take_of_length_le (by simp only [List.length_drop]; omega)
    rw [hl, e]
    rw [h' (bs.take 16) (by simp only [List.length_take]; omega),
        h' ((bs.drop 16).take 16) (by simp only [List.length_take, List.length_drop]; omega),
        h' ((bs.drop (16 * 2)).take 16) (by simp only [List.length_take, List.length_drop]; omega),
        h' (bs.drop (16 * 3)) (by simp only [List.length_drop]; omega)]
  | readBe =>
    have h' : ∀ bs, bs.length * 8 = 128 → W.readBe bs = M.readBe bs := h .readBe ho
    intro bs hb
    have hl : bs.length = 64 := by omega
    show pack512 (W.readBe (bs.take (bs.length / 4))) (W.readBe ((bs.drop (bs.length / 4)).take (bs.length / 4)))
        (W.readBe ((bs.drop (bs.length / 4 * 2)).take (bs.length / 4))) (W.readBe (bs.drop (bs.length / 4 * 3))) =
      pack512 (M.readBe (bs.take 16)) (M.readBe ((bs.drop 16).take 16))
        (M.readBe ((bs.drop 32).take 16)) (M.readBe ((bs.drop 48).take 16))
    have e : (bs.drop 48).take 16 = bs.drop 48 := List.take_of_length_le (by simp only [List.length_drop]; omega)
    rw [hl, e]
    rw [h' (bs.take 16) (by simp only [List.length_take]; omega),
        h' ((bs.drop 16).take 16) (by simp only [List.length_take, List.length_drop]; omega),
        h' ((bs.drop (16 * 2)).take 16) (by simp only [List.length_take, List.length_drop]; omega),
        h' (bs.drop (16 * 3)) (by simp only [List.length_drop]; omega)]
  | writeLe => have h' : ∀ a, W.writeLe a = M.writeLe a := h .writeLe ho
               intro a
               show W.writeLe _ ++ W.writeLe _ ++ W.writeLe _ ++ W.writeLe _ = M.writeLe _ ++ M.writeLe _ ++ M.writeLe _ ++ M.writeLe _
               simp only [h']
  | writeBe => have h' : ∀ a, W.writeBe a = M.writeBe a := h .writeBe ho
               intro a
               show W.writeBe _ ++ W.writeBe _ ++ W.writeBe _ ++ W.writeBe _ = M.writeBe _ ++ M.writeBe _ ++ M.writeBe _ ++ M.writeBe _
               simp only [h']
  | transpose4 => trivial
  | toScalars => trivial

end CC.Simd.Lift
