/-
  CC.Simd.Proof.BytesLaws — byte-string round trips of the backend-free meaning:
  `write (read bs) = bs` for byte strings of the storage size, `read (write v) = v`, and
  `write` produces exactly the storage size; little- and big-endian; 16/32/64 bytes.
-/
import CC.Simd.Proof.MeaningLaws
namespace CC.Simd.BytesLaws
open CC CC.Simd

structure BytesRT (n : Nat) (rd : List (BitVec 8) → BitVec n) (wr : BitVec n → List (BitVec 8)) : Prop where
  wr_rd : ∀ bs, bs.length * 8 = n → wr (rd bs) = bs
  rd_wr : ∀ v, rd (wr v) = v
  len : ∀ v, (wr v).length * 8 = n

/-! ### 16 bytes -/
theorem le128 : BytesRT 128 (fun bs => ofLeBytes 128 (bs.take 16)) (fun v => toLeBytes v 16) where
  wr_rd := fun bs h => MeaningLaws.le16.1 bs (by omega)
  rd_wr := fun v => MeaningLaws.le16.2 v
  len := fun v => by simp [toLeBytes]

theorem be32x4 : BytesRT 128 Meaning.u32x4.readBe Meaning.u32x4.writeBe where
  wr_rd := by
    intro bs h
    obtain ⟨a0, a1, a2, a3, a4, a5, a6, a7, a8, a9, a10, a11, a12, a13, a14, a15, rfl⟩ := Lists.eq16 (xs := bs) (by omega)
    show toBe32 (lane32 (pack32 (read32be _) (read32be _) (read32be _) (read32be _)) 0) ++
      toBe32 (lane32 (pack32 (read32be _) (read32be _) (read32be _) (read32be _)) 1) ++
      toBe32 (lane32 (pack32 (read32be _) (read32be _) (read32be _) (read32be _)) 2) ++
      toBe32 (lane32 (pack32 (read32be _) (read32be _) (read32be _) (read32be _)) 3) = _
    simd_leaf
  rd_wr := by
    intro v
    show pack32 (read32be (toBe32 _ ++ toBe32 _ ++ toBe32 _ ++ toBe32 _))
      (read32be ((toBe32 _ ++ toBe32 _ ++ toBe32 _ ++ toBe32 _).drop 4))
      (read32be ((toBe32 _ ++ toBe32 _ ++ toBe32 _ ++ toBe32 _).drop 8))
      (read32be ((toBe32 _ ++ toBe32 _ ++ toBe32 _ ++ toBe32 _).drop 12)) = v
    simd_leaf
  len := fun v => rfl

theorem be64x2 : BytesRT 128 Meaning.u64x2.readBe Meaning.u64x2.writeBe where
  wr_rd := by
    intro bs h
    obtain ⟨a0, a1, a2, a3, a4, a5, a6, a7, a8, a9, a10, a11, a12, a13, a14, a15, rfl⟩ := Lists.eq16 (xs := bs) (by omega)
    show toBe64 (lane64 (pack64 (read64be _) (read64be _)) 0) ++ toBe64 (lane64 (pack64 (read64be _) (read64be _)) 1) = _
    simd_leaf
  rd_wr := by
    intro v
    show pack64 (read64be (toBe64 _ ++ toBe64 _)) (read64be ((toBe64 _ ++ toBe64 _).drop 8)) = v
    simd_leaf
  len := fun v => rfl

theorem be128 : BytesRT 128 Meaning.u128x1.readBe Meaning.u128x1.writeBe where
  wr_rd := by
    intro bs h
    obtain ⟨a0, a1, a2, a3, a4, a5, a6, a7, a8, a9, a10, a11, a12, a13, a14, a15, rfl⟩ := Lists.eq16 (xs := bs) (by omega)
    show toBeBytes (ofBeBytes 128 (List.take 16 _)) 16 = _
    simd_leaf
  rd_wr := by
    intro v
    show ofBeBytes 128 ((toBeBytes v 16).take 16) = v
    simd_leaf
  len := fun v => by simp [Meaning.u128x1, toBeBytes, toLeBytes]

/-! ### two and four lanes -/
def rd2 (rd : List (BitVec 8) → BitVec 128) (bs : List (BitVec 8)) : BitVec 256 :=
  pack256 (rd (bs.take 16)) (rd ((bs.drop 16).take 16))
def wr2 (wr : BitVec 128 → List (BitVec 8)) (v : BitVec 256) : List (BitVec 8) := wr (lo128 v) ++ wr (hi128 v)
def rd4 (rd : List (BitVec 8) → BitVec 128) (bs : List (BitVec 8)) : BitVec 512 :=
  pack512 (rd (bs.take 16)) (rd ((bs.drop 16).take 16)) (rd ((bs.drop 32).take 16)) (rd ((bs.drop 48).take 16))
def wr4 (wr : BitVec 128 → List (BitVec 8)) (v : BitVec 512) : List (BitVec 8) :=
  wr (q128 v 0) ++ wr (q128 v 1) ++ wr (q128 v 2) ++ wr (q128 v 3)

theorem lo_pack (x y : BitVec 128) : lo128 (pack256 x y) = x := by simd_leaf
theorem hi_pack (x y : BitVec 128) : hi128 (pack256 x y) = y := by simd_leaf
theorem pack_lo_hi (v : BitVec 256) : pack256 (lo128 v) (hi128 v) = v := by simd_leaf
theorem q0_pack (a b c d : BitVec 128) : q128 (pack512 a b c d) 0 = a := by simd_leaf
theorem q1_pack (a b c d : BitVec 128) : q128 (pack512 a b c d) 1 = b := by simd_leaf
theorem q2_pack (a b c d : BitVec 128) : q128 (pack512 a b c d) 2 = c := by simd_leaf
theorem q3_pack (a b c d : BitVec 128) : q128 (pack512 a b c d) 3 = d := by simd_leaf
theorem pack_q (v : BitVec 512) : pack512 (q128 v 0) (q128 v 1) (q128 v 2) (q128 v 3) = v := by simd_leaf

theorem rt2 {rd wr} (h : BytesRT 128 rd wr) : BytesRT 256 (rd2 rd) (wr2 wr) where
  wr_rd := by
    intro bs hb
    have hl : bs.length = 32 := by omega
    have e : (bs.drop 16).take 16 = bs.drop 16 := List.take_of_length_le (by simp only [List.length_drop]; omega)
    show wr (lo128 (pack256 _ _)) ++ wr (hi128 (pack256 _ _)) = bs
    rw [lo_pack, hi_pack, e, h.wr_rd _ (by simp only [List.length_take]; omega),
      h.wr_rd _ (by simp only [List.length_drop]; omega), List.take_append_drop]
  rd_wr := by
    intro v
    have la : (wr (lo128 v)).length = 16 := by have := h.len (lo128 v); omega
    have lb : (wr (hi128 v)).length = 16 := by have := h.len (hi128 v); omega
    show pack256 (rd ((wr (lo128 v) ++ wr (hi128 v)).take 16)) (rd (((wr (lo128 v) ++ wr (hi128 v)).drop 16).take 16)) = v
    rw [List.take_left' la, List.drop_left' la, List.take_of_length_le (by omega), h.rd_wr, h.rd_wr, pack_lo_hi]
  len := by
    intro v
    have la := h.len (lo128 v); have lb := h.len (hi128 v)
    show (wr (lo128 v) ++ wr (hi128 v)).length * 8 = 256
    rw [List.length_append]; omega

theorem rt4 {rd wr} (h : BytesRT 128 rd wr) : BytesRT 512 (rd4 rd) (wr4 wr) where
  wr_rd := by
    intro bs hb
    have hl : bs.length = 64 := by omega
    show wr (q128 (pack512 _ _ _ _) 0) ++ wr (q128 (pack512 _ _ _ _) 1) ++ wr (q128 (pack512 _ _ _ _) 2) ++
      wr (q128 (pack512 _ _ _ _) 3) = bs
    rw [q0_pack, q1_pack, q2_pack, q3_pack,
      h.wr_rd _ (by simp only [List.length_take]; omega),
      h.wr_rd _ (by simp only [List.length_take, List.length_drop]; omega),
      h.wr_rd _ (by simp only [List.length_take, List.length_drop]; omega),
      h.wr_rd _ (by simp only [List.length_take, List.length_drop]; omega)]
    obtain ⟨a0, a1, a2, a3, a4, a5, a6, a7, a8, a9, a10, a11, a12, a13, a14, a15, a16, a17, a18, a19, a20,
      a21, a22, a23, a24, a25, a26, a27, a28, a29, a30, a31, a32, a33, a34, a35, a36, a37, a38, a39, a40,
      a41, a42, a43, a44, a45, a46, a47, a48, a49, a50, a51, a52, a53, a54, a55, a56, a57, a58, a59, a60,
      a61, a62, a63, rfl⟩ := Lists.eq64 hl
    rfl
  rd_wr := by
    intro v
    have la : (wr (q128 v 0)).length = 16 := by have := h.len (q128 v 0); omega
    have lb : (wr (q128 v 1)).length = 16 := by have := h.len (q128 v 1); omega
    have lc : (wr (q128 v 2)).length = 16 := by have := h.len (q128 v 2); omega
    have ld : (wr (q128 v 3)).length = 16 := by have := h.len (q128 v 3); omega
    have e0 : (wr (q128 v 0) ++ wr (q128 v 1) ++ wr (q128 v 2) ++ wr (q128 v 3)).take 16 = wr (q128 v 0) := by
      rw [List.append_assoc, List.append_assoc]; exact List.take_left' la
    have e1 : ((wr (q128 v 0) ++ wr (q128 v 1) ++ wr (q128 v 2) ++ wr (q128 v 3)).drop 16).take 16 = wr (q128 v 1) := by
      rw [List.append_assoc, List.append_assoc, List.drop_left' la]; exact List.take_left' lb
    have e2 : ((wr (q128 v 0) ++ wr (q128 v 1) ++ wr (q128 v 2) ++ wr (q128 v 3)).drop 32).take 16 = wr (q128 v 2) := by
      rw [List.append_assoc (wr (q128 v 0) ++ wr (q128 v 1)),
        List.drop_left' (by rw [List.length_append]; omega)]
      exact List.take_left' lc
    have e3 : ((wr (q128 v 0) ++ wr (q128 v 1) ++ wr (q128 v 2) ++ wr (q128 v 3)).drop 48).take 16 = wr (q128 v 3) := by
      rw [List.drop_left' (by simp only [List.length_append]; omega)]
      exact List.take_of_length_le (by omega)
    show pack512 (rd ((wr (q128 v 0) ++ wr (q128 v 1) ++ wr (q128 v 2) ++ wr (q128 v 3)).take 16)) (rd (((wr (q128 v 0) ++ wr (q128 v 1) ++ wr (q128 v 2) ++ wr (q128 v 3)).drop 16).take 16))
      (rd (((wr (q128 v 0) ++ wr (q128 v 1) ++ wr (q128 v 2) ++ wr (q128 v 3)).drop 32).take 16)) (rd (((wr (q128 v 0) ++ wr (q128 v 1) ++ wr (q128 v 2) ++ wr (q128 v 3)).drop 48).take 16)) = v
    rw [e0, e1, e2, e3, h.rd_wr, h.rd_wr, h.rd_wr, h.rd_wr, pack_q]
  len := by
    intro v
    have la := h.len (q128 v 0); have lb := h.len (q128 v 1); have lc := h.len (q128 v 2); have ld := h.len (q128 v 3)
    show (wr (q128 v 0) ++ wr (q128 v 1) ++ wr (q128 v 2) ++ wr (q128 v 3)).length * 8 = 512
    simp only [List.length_append]; omega

end CC.Simd.BytesLaws
