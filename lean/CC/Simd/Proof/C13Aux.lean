/-
  CC.Simd.Proof.C13Aux — the meaning-level byte round trips for every vector type, and the
  membership facts C13 needs.
-/
import CC.Simd.Proof.BytesLaws
import CC.Thm.C12
namespace CC.Simd.C13Aux
open CC CC.Simd CC.Simd.BytesLaws

theorem meaningLe : ∀ τ : Ty, BytesRT τ.bits (meaning τ).readLe (meaning τ).writeLe
  | .u32x4 => le128 | .u64x2 => le128 | .u128x1 => le128
  | .u32x4x2 => rt2 le128 | .u64x2x2 => rt2 le128 | .u64x4 => rt2 le128 | .u128x2 => rt2 le128
  | .u32x4x4 => rt4 le128 | .u64x2x4 => rt4 le128 | .u128x4 => rt4 le128

theorem meaningBe : ∀ τ : Ty, BytesRT τ.bits (meaning τ).readBe (meaning τ).writeBe
  | .u32x4 => be32x4 | .u64x2 => be64x2 | .u128x1 => be128
  | .u32x4x2 => rt2 be32x4 | .u64x2x2 => rt2 be64x2 | .u64x4 => rt2 be64x2 | .u128x2 => rt2 be128
  | .u32x4x4 => rt4 be32x4 | .u64x2x4 => rt4 be64x2 | .u128x4 => rt4 be128

theorem lanes_mem (b : Backend) (τ : Ty) : OpK.toLanes ∈ provided b τ ∧ OpK.fromLanes ∈ provided b τ := by
  constructor <;> (apply CC.Thm.C12.required_provided; cases τ <;> decide)

theorem vec_mem (b : Backend) (τ : Ty) (h : τ ≠ .u128x1) :
    OpK.extract ∈ provided b τ ∧ OpK.insert ∈ provided b τ := by
  constructor <;> (apply CC.Thm.C12.required_provided; cases τ <;> first | exact absurd rfl h | decide)

theorem bytes_mem (b : Backend) (τ : Ty) (h : OpK.readLe ∈ provided b τ) :
    OpK.writeLe ∈ provided b τ ∧ OpK.readBe ∈ provided b τ ∧ OpK.writeBe ∈ provided b τ := by
  revert h; cases b <;> cases τ <;> decide

/-- transporting a byte round trip from the meaning to an implementation that agrees with it -/
theorem transport {n : Nat} {rdI rdM : List (BitVec 8) → BitVec n} {wrI wrM : BitVec n → List (BitVec 8)}
    (hr : ∀ bs, bs.length * 8 = n → rdI bs = rdM bs) (hw : ∀ v, wrI v = wrM v) (h : BytesRT n rdM wrM) :
    BytesRT n rdI wrI where
  wr_rd := fun bs hb => by rw [hw, hr bs hb]; exact h.wr_rd bs hb
  rd_wr := fun v => by rw [hw, hr _ (h.len v)]; exact h.rd_wr v
  len := fun v => by rw [hw]; exact h.len v

end CC.Simd.C13Aux
