/-
  CC.Simd.Proof.Unfold — tags every definition of the intrinsic models, the implementation
  transcriptions and the scalar meanings with `simd_unfold`, and provides the leaf tactic
  `simd_leaf` = unfold everything to `BitVec` primitives, then `bv_decide`.
-/
import CC.Simd.Proof.Attr
import CC.Simd.Impl
import CC.Simd.Meaning
import CC.Simd.Agree
import Std.Tactic.BVDecide
namespace CC.Simd
open CC.X86

attribute [simd_unfold]
  b8 w16 d32 q64 mk8 mk16 mk32 mk64 lo hi mk256
  _mm_add_epi32 _mm_add_epi64 _mm_and_si128 _mm_or_si128 _mm_xor_si128 _mm_andnot_si128
  _mm_srli_epi16 _mm_slli_epi16 _mm_srli_epi32 _mm_slli_epi32 _mm_srli_epi64 _mm_slli_epi64
  _mm_srli_si128 _mm_slli_si128 _mm_shuffle_epi32 _mm_shufflelo_epi16 _mm_shufflehi_epi16
  pshufbByte _mm_shuffle_epi8 _mm_unpacklo_epi8 _mm_unpackhi_epi8 satU8 _mm_packus_epi16
  _mm_alignr_epi8 _mm_set_epi64x _mm_set_epi32 _mm_set1_epi8 _mm_set1_epi64x _mm_setzero_si128
  _mm_cvtsi64_si128 _mm_cvtsi128_si64 _mm_cvtsi32_si128 _mm_extract_epi64 _mm_insert_epi64
  _mm_insert_epi32 _mm_move_epi64 _mm_loadu_si128 _mm_storeu_si128
  _mm256_add_epi32 _mm256_and_si256 _mm256_or_si256 _mm256_xor_si256 _mm256_andnot_si256
  _mm256_srli_epi32 _mm256_slli_epi32 _mm256_shuffle_epi8 _mm256_shuffle_epi32 select4
  _mm256_permute2x128_si256 _mm256_extracti128_si256 _mm256_inserti128_si256 _mm256_setr_m128i
  _mm256_set1_epi8 _mm256_set_epi64x _mm256_loadu_si256 _mm256_storeu_si256

attribute [simd_unfold]
  lane32 lane64 pack32 pack64 map32 zip32 map64 zip64 lo128 hi128 pack256 map256 zip256
  q128 pack512 map512 zip512 w64 pack64x4
  shuf1230_32 shuf2301_32 shuf3012_32 shuf1230_64 shuf2301_64 shuf3012_64 insert32 bswap32 bswap64
  swapMask swapBits transpose4_512
  Meaning.insert64 Meaning.bswap128 Meaning.shuf32 Meaning.shuf64
  

open Impl in
attribute [simd_unfold]
  X86.neg1_64 X86.neg1_32 X86.vnot X86.rotr_32 X86.rotr_s3 X86.swap16_s2 X86.u32x4_rotr X86.rotr_64
  X86.u64x2_rotr X86.rotr_128 X86.u128x1_rotr X86.lo32 X86.hi32 X86.join32
  X86.u32x4_toLanes X86.u32x4_fromLanes X86.u64x2_toLanes X86.u64x2_fromLanes
  X86.u32x4_extract X86.u32x4_insert X86.u64x2_extract X86.u64x2_insert X86.u32x4_shuffle
  X86.bswap32_s2 X86.u32x4_bswap X86.u64x2_bswap X86.u128x1_bswap X86.swapi X86.u128x1_swap

  X86.u64x4_toLanes X86.u64x4_fromLanes X86.u64x4_shuffle
  Avx2.shuf_lane_bytes Avx2.rotr_32 Avx2.u32x4x2_rotr Avx2.u32x4x2_bswap Avx2.u32x4x2_shuffleLane
  Avx2.transpose4
  Soft.lo256 Soft.hi256 Soft.pack512w Soft.x4_transpose4
  Generic.dmap Generic.dmap2 Generic.qmap Generic.qmap2 Generic.o_of_q Generic.q_of_o Generic.omap
  Generic.omap2 Generic.swapBytes32 Generic.swapBytes64 Generic.swapBytes128 Generic.rotate_u128_right
  Generic.vnot Generic.vand Generic.vor Generic.vxor Generic.vandnot Generic.vswap
  Generic.u32x4_rotr Generic.u64x2_rotr Generic.u128x1_rotr Generic.u32x4_shuffle

  Generic.u64x4_toLanes Generic.u64x4_fromLanes Generic.u64x4_shuffle Generic.u64x4_extract Generic.u64x4_insert
  Generic.u32x4_insert Generic.u64x2_insert Generic.u32x4_toLanes Generic.u32x4_fromLanes Generic.u64x2_toLanes Generic.u64x2_fromLanes Generic.toScalars
  X86.u64x4_extract X86.u64x4_insert X86.toScalars Avx2.u32x4x2_not Avx2.u32x4x2_extract Avx2.u32x4x2_insert Avx2.u32x4x2_toLanes Avx2.u32x4x2_fromLanes
  Avx2.u32x4x4_extract Avx2.u32x4x4_insert Avx2.u32x4x4_toLanes Avx2.u32x4x4_fromLanes

attribute [simd_unfold] List.getD_cons_zero List.getD_cons_succ List.getD_nil List.cons.injEq
  and_true true_and List.cons_append List.nil_append List.append_nil

theorem range16 : List.range 16 = [0, 1, 2, 3, 4, 5, 6, 7, 8, 9, 10, 11, 12, 13, 14, 15] := by decide

attribute [simd_unfold] le32 be32 toLe32 toBe32 le64 be64 toLe64 toBe64 read32le read32be read64le read64be
  ofLeBytes ofBeBytes toLeBytes toBeBytes range16
  List.foldr_cons List.foldr_nil List.map_cons List.map_nil List.reverse_cons List.reverse_nil
  List.drop_succ_cons List.drop_zero List.take_succ_cons List.take_zero List.take_nil List.drop_nil
  List.flatMap_cons List.flatMap_nil
  Impl.Generic.readWords32 Impl.Generic.readWords64 Impl.Generic.writeWords32 Impl.Generic.writeWords64

/-- unfold to `BitVec` primitives, then decide -/
macro "simd_leaf" : tactic =>
  `(tactic| (simp only [simd_unfold, ↓reduceIte, Bool.false_eq_true] <;> bv_decide))

end CC.Simd
