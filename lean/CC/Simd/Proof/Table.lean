/-
  CC.Simd.Proof.Table — for every (backend, type): which coverage the assembled leaves give
  (`cov`), the agreement theorem (`agrees`), and the check that the coverage includes every
  provided operation (`provided_covered`).
-/
import CC.Simd.Proof.RecordsAvx2
namespace CC.Simd.Table
open CC CC.Simd CC.Simd.Impl CC.Simd.Records

def cov : Backend → Ty → Cov
  | .generic, .u32x4 => cov32g
  | .generic, .u64x2 => cov64g
  | .generic, .u128x1 => cov128g
  | .generic, .u32x4x2 => cov32g.lift
  | .generic, .u64x2x2 => cov64g.lift
  | .generic, .u64x4 => cov64x4g
  | .generic, .u128x2 => cov128g.lift
  | .generic, .u32x4x4 => cov32g.lift
  | .generic, .u64x2x4 => cov64g.lift
  | .generic, .u128x4 => cov128g.lift
  | .sse2, .u32x4 => cov32
  | .sse2, .u64x2 => cov64
  | .sse2, .u128x1 => cov128x
  | .sse2, .u32x4x2 => cov32.lift
  | .sse2, .u64x2x2 => cov64.lift
  | .sse2, .u64x4 => cov64x4
  | .sse2, .u128x2 => cov128x.lift
  | .sse2, .u32x4x4 => cov32.lift
  | .sse2, .u64x2x4 => cov64.lift
  | .sse2, .u128x4 => cov128x.lift
  | .ssse3, .u32x4 => cov32
  | .ssse3, .u64x2 => cov64
  | .ssse3, .u128x1 => cov128x
  | .ssse3, .u32x4x2 => cov32.lift
  | .ssse3, .u64x2x2 => cov64.lift
  | .ssse3, .u64x4 => cov64x4
  | .ssse3, .u128x2 => cov128x.lift
  | .ssse3, .u32x4x4 => cov32.lift
  | .ssse3, .u64x2x4 => cov64.lift
  | .ssse3, .u128x4 => cov128x.lift
  | .sse41, .u32x4 => cov32
  | .sse41, .u64x2 => cov64
  | .sse41, .u128x1 => cov128x
  | .sse41, .u32x4x2 => cov32.lift
  | .sse41, .u64x2x2 => cov64.lift
  | .sse41, .u64x4 => cov64x4
  | .sse41, .u128x2 => cov128x.lift
  | .sse41, .u32x4x4 => cov32.lift
  | .sse41, .u64x2x4 => cov64.lift
  | .sse41, .u128x4 => cov128x.lift
  | .avx, .u32x4 => cov32
  | .avx, .u64x2 => cov64
  | .avx, .u128x1 => cov128x
  | .avx, .u32x4x2 => cov32.lift
  | .avx, .u64x2x2 => cov64.lift
  | .avx, .u64x4 => cov64x4
  | .avx, .u128x2 => cov128x.lift
  | .avx, .u32x4x4 => cov32.lift
  | .avx, .u64x2x4 => cov64.lift
  | .avx, .u128x4 => cov128x.lift
  | .avx2, .u32x4 => cov32
  | .avx2, .u64x2 => cov64
  | .avx2, .u128x1 => cov128x
  | .avx2, .u32x4x2 => cov32x2a
  | .avx2, .u64x2x2 => cov64.lift
  | .avx2, .u64x4 => cov64x4
  | .avx2, .u128x2 => cov128x.lift
  | .avx2, .u32x4x4 => cov32x2a
  | .avx2, .u64x2x4 => cov64.lift
  | .avx2, .u128x4 => cov128x.lift

theorem agrees : ∀ (b : Backend) (τ : Ty), Agrees τ.count (impl b τ) (meaning τ) (cov b τ)
  | .generic, .u32x4 => generic_u32x4
  | .generic, .u64x2 => generic_u64x2
  | .generic, .u128x1 => generic_u128x1
  | .generic, .u32x4x2 => Lift.x2_agrees (generic_u32x4)
  | .generic, .u64x2x2 => Lift.x2_agrees (generic_u64x2)
  | .generic, .u64x4 => generic_u64x4
  | .generic, .u128x2 => Lift.x2_agrees (generic_u128x1)
  | .generic, .u32x4x4 => Lift.x4_agrees (generic_u32x4)
  | .generic, .u64x2x4 => Lift.x4_agrees (generic_u64x2)
  | .generic, .u128x4 => Lift.x4_agrees (generic_u128x1)
  | .sse2, .u32x4 => x86_u32x4 _ _
  | .sse2, .u64x2 => x86_u64x2 _ _
  | .sse2, .u128x1 => x86_u128x1 _
  | .sse2, .u32x4x2 => Lift.x2_agrees (x86_u32x4 _ _)
  | .sse2, .u64x2x2 => Lift.x2_agrees (x86_u64x2 _ _)
  | .sse2, .u64x4 => x86_u64x4 _ _
  | .sse2, .u128x2 => Lift.x2_agrees (x86_u128x1 _)
  | .sse2, .u32x4x4 => Lift.x4_agrees (x86_u32x4 _ _)
  | .sse2, .u64x2x4 => Lift.x4_agrees (x86_u64x2 _ _)
  | .sse2, .u128x4 => Lift.x4_agrees (x86_u128x1 _)
  | .ssse3, .u32x4 => x86_u32x4 _ _
  | .ssse3, .u64x2 => x86_u64x2 _ _
  | .ssse3, .u128x1 => x86_u128x1 _
  | .ssse3, .u32x4x2 => Lift.x2_agrees (x86_u32x4 _ _)
  | .ssse3, .u64x2x2 => Lift.x2_agrees (x86_u64x2 _ _)
  | .ssse3, .u64x4 => x86_u64x4 _ _
  | .ssse3, .u128x2 => Lift.x2_agrees (x86_u128x1 _)
  | .ssse3, .u32x4x4 => Lift.x4_agrees (x86_u32x4 _ _)
  | .ssse3, .u64x2x4 => Lift.x4_agrees (x86_u64x2 _ _)
  | .ssse3, .u128x4 => Lift.x4_agrees (x86_u128x1 _)
  | .sse41, .u32x4 => x86_u32x4 _ _
  | .sse41, .u64x2 => x86_u64x2 _ _
  | .sse41, .u128x1 => x86_u128x1 _
  | .sse41, .u32x4x2 => Lift.x2_agrees (x86_u32x4 _ _)
  | .sse41, .u64x2x2 => Lift.x2_agrees (x86_u64x2 _ _)
  | .sse41, .u64x4 => x86_u64x4 _ _
  | .sse41, .u128x2 => Lift.x2_agrees (x86_u128x1 _)
  | .sse41, .u32x4x4 => Lift.x4_agrees (x86_u32x4 _ _)
  | .sse41, .u64x2x4 => Lift.x4_agrees (x86_u64x2 _ _)
  | .sse41, .u128x4 => Lift.x4_agrees (x86_u128x1 _)
  | .avx, .u32x4 => x86_u32x4 _ _
  | .avx, .u64x2 => x86_u64x2 _ _
  | .avx, .u128x1 => x86_u128x1 _
  | .avx, .u32x4x2 => Lift.x2_agrees (x86_u32x4 _ _)
  | .avx, .u64x2x2 => Lift.x2_agrees (x86_u64x2 _ _)
  | .avx, .u64x4 => x86_u64x4 _ _
  | .avx, .u128x2 => Lift.x2_agrees (x86_u128x1 _)
  | .avx, .u32x4x4 => Lift.x4_agrees (x86_u32x4 _ _)
  | .avx, .u64x2x4 => Lift.x4_agrees (x86_u64x2 _ _)
  | .avx, .u128x4 => Lift.x4_agrees (x86_u128x1 _)
  | .avx2, .u32x4 => x86_u32x4 _ _
  | .avx2, .u64x2 => x86_u64x2 _ _
  | .avx2, .u128x1 => x86_u128x1 _
  | .avx2, .u32x4x2 => avx2_u32x4x2
  | .avx2, .u64x2x2 => Lift.x2_agrees (x86_u64x2 _ _)
  | .avx2, .u64x4 => x86_u64x4 _ _
  | .avx2, .u128x2 => Lift.x2_agrees (x86_u128x1 _)
  | .avx2, .u32x4x4 => avx2_u32x4x4
  | .avx2, .u64x2x4 => Lift.x4_agrees (x86_u64x2 _ _)
  | .avx2, .u128x4 => Lift.x4_agrees (x86_u128x1 _)

theorem provided_covered (b : Backend) (τ : Ty) : ∀ o ∈ provided b τ, (cov b τ).has o = true := by
  cases b <;> cases τ <;> decide

theorem x4_transpose4 (a c d e : BitVec 512) : Soft.x4_transpose4 a c d e = transpose4_512 a c d e := by
  unfold Soft.x4_transpose4 transpose4_512; rfl

/-- `transpose4` of every backend's `u32x4x4` is the 4×4 lane transpose -/
theorem transpose4 : ∀ (b : Backend) (a c d e : BitVec 512), implTranspose4 b a c d e = transpose4_512 a c d e
  | .generic, a, c, d, e => x4_transpose4 a c d e
  | .sse2, a, c, d, e => x4_transpose4 a c d e
  | .ssse3, a, c, d, e => x4_transpose4 a c d e
  | .sse41, a, c, d, e => x4_transpose4 a c d e
  | .avx, a, c, d, e => x4_transpose4 a c d e
  | .avx2, a, c, d, e => LeafAvx2.transpose4 a c d e

/-- `to_scalars` of every backend's `u32x4x4` lists the sixteen words in lane order -/
theorem toScalars : ∀ (b : Backend) (a : BitVec 512), implToScalars b a = Meaning.toScalars a
  | .generic, a => LeafGeneric.toScalars a
  | .sse2, a => LeafWide.toScalars a
  | .ssse3, a => LeafWide.toScalars a
  | .sse41, a => LeafWide.toScalars a
  | .avx, a => LeafWide.toScalars a
  | .avx2, a => LeafWide.toScalars a

end CC.Simd.Table
