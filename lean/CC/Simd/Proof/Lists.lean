/-
  CC.Simd.Proof.Lists — destructuring byte/element lists of a known length.
-/
import CC.Prim
namespace CC.Simd.Lists

theorem exists_cons {α} {xs : List α} {n : Nat} (h : n + 1 ≤ xs.length) :
    ∃ a t, xs = a :: t ∧ n ≤ t.length := by
  cases xs with
  | nil => simp at h
  | cons a t => exact ⟨a, t, rfl, by simpa using h⟩

theorem ge1 {α} {xs : List α} (h0 : 1 ≤ xs.length) :
    ∃ a0 t, xs = a0 :: t := by
  obtain ⟨a0, t0, e0, h1⟩ := exists_cons (xs := xs) (n := 0) h0
  subst e0
  exact ⟨a0, t0, rfl⟩

theorem eq1 {α} {xs : List α} (h : xs.length = 1) :
    ∃ a0, xs = [a0] := by
  obtain ⟨a0, t, e⟩ := ge1 (xs := xs) (by omega)
  subst e
  have ht : t = [] := by
    apply List.eq_nil_of_length_eq_zero
    simp only [List.length_cons] at h
    omega
  subst ht; exact ⟨a0, rfl⟩

theorem ge2 {α} {xs : List α} (h0 : 2 ≤ xs.length) :
    ∃ a0 a1 t, xs = a0 :: a1 :: t := by
  obtain ⟨a0, t0, e0, h1⟩ := exists_cons (xs := xs) (n := 1) h0
  obtain ⟨a1, t1, e1, h2⟩ := exists_cons (xs := t0) (n := 0) h1
  subst e1 e0
  exact ⟨a0, a1, t1, rfl⟩

theorem eq2 {α} {xs : List α} (h : xs.length = 2) :
    ∃ a0 a1, xs = [a0, a1] := by
  obtain ⟨a0, a1, t, e⟩ := ge2 (xs := xs) (by omega)
  subst e
  have ht : t = [] := by
    apply List.eq_nil_of_length_eq_zero
    simp only [List.length_cons] at h
    omega
  subst ht; exact ⟨a0, a1, rfl⟩

theorem ge4 {α} {xs : List α} (h0 : 4 ≤ xs.length) :
    ∃ a0 a1 a2 a3 t, xs = a0 :: a1 :: a2 :: a3 :: t := by
  obtain ⟨a0, t0, e0, h1⟩ := exists_cons (xs := xs) (n := 3) h0
  obtain ⟨a1, t1, e1, h2⟩ := exists_cons (xs := t0) (n := 2) h1
  obtain ⟨a2, t2, e2, h3⟩ := exists_cons (xs := t1) (n := 1) h2
  obtain ⟨a3, t3, e3, h4⟩ := exists_cons (xs := t2) (n := 0) h3
  subst e3 e2 e1 e0
  exact ⟨a0, a1, a2, a3, t3, rfl⟩

theorem eq4 {α} {xs : List α} (h : xs.length = 4) :
    ∃ a0 a1 a2 a3, xs = [a0, a1, a2, a3] := by
  obtain ⟨a0, a1, a2, a3, t, e⟩ := ge4 (xs := xs) (by omega)
  subst e
  have ht : t = [] := by
    apply List.eq_nil_of_length_eq_zero
    simp only [List.length_cons] at h
    omega
  subst ht; exact ⟨a0, a1, a2, a3, rfl⟩

theorem ge16 {α} {xs : List α} (h0 : 16 ≤ xs.length) :
    ∃ a0 a1 a2 a3 a4 a5 a6 a7 a8 a9 a10 a11 a12 a13 a14 a15 t, xs = a0 :: a1 :: a2 :: a3 :: a4 :: a5 :: a6 :: a7 :: a8 :: a9 :: a10 :: a11 :: a12 :: a13 :: a14 :: a15 :: t := by
  obtain ⟨a0, t0, e0, h1⟩ := exists_cons (xs := xs) (n := 15) h0
  obtain ⟨a1, t1, e1, h2⟩ := exists_cons (xs := t0) (n := 14) h1
  obtain ⟨a2, t2, e2, h3⟩ := exists_cons (xs := t1) (n := 13) h2
  obtain ⟨a3, t3, e3, h4⟩ := exists_cons (xs := t2) (n := 12) h3
  obtain ⟨a4, t4, e4, h5⟩ := exists_cons (xs := t3) (n := 11) h4
  obtain ⟨a5, t5, e5, h6⟩ := exists_cons (xs := t4) (n := 10) h5
  obtain ⟨a6, t6, e6, h7⟩ := exists_cons (xs := t5) (n := 9) h6
  obtain ⟨a7, t7, e7, h8⟩ := exists_cons (xs := t6) (n := 8) h7
  obtain ⟨a8, t8, e8, h9⟩ := exists_cons (xs := t7) (n := 7) h8
  obtain ⟨a9, t9, e9, h10⟩ := exists_cons (xs := t8) (n := 6) h9
  obtain ⟨a10, t10, e10, h11⟩ := exists_cons (xs := t9) (n := 5) h10
  obtain ⟨a11, t11, e11, h12⟩ := exists_cons (xs := t10) (n := 4) h11
  obtain ⟨a12, t12, e12, h13⟩ := exists_cons (xs := t11) (n := 3) h12
  obtain ⟨a13, t13, e13, h14⟩ := exists_cons (xs := t12) (n := 2) h13
  obtain ⟨a14, t14, e14, h15⟩ := exists_cons (xs := t13) (n := 1) h14
  obtain ⟨a15, t15, e15, h16⟩ := exists_cons (xs := t14) (n := 0) h15
  subst e15 e14 e13 e12 e11 e10 e9 e8 e7 e6 e5 e4 e3 e2 e1 e0
  exact ⟨a0, a1, a2, a3, a4, a5, a6, a7, a8, a9, a10, a11, a12, a13, a14, a15, t15, rfl⟩

theorem eq16 {α} {xs : List α} (h : xs.length = 16) :
    ∃ a0 a1 a2 a3 a4 a5 a6 a7 a8 a9 a10 a11 a12 a13 a14 a15, xs = [a0, a1, a2, a3, a4, a5, a6, a7, a8, a9, a10, a11, a12, a13, a14, a15] := by
  obtain ⟨a0, a1, a2, a3, a4, a5, a6, a7, a8, a9, a10, a11, a12, a13, a14, a15, t, e⟩ := ge16 (xs := xs) (by omega)
  subst e
  have ht : t = [] := by
    apply List.eq_nil_of_length_eq_zero
    simp only [List.length_cons] at h
    omega
  subst ht; exact ⟨a0, a1, a2, a3, a4, a5, a6, a7, a8, a9, a10, a11, a12, a13, a14, a15, rfl⟩

theorem ge32 {α} {xs : List α} (h0 : 32 ≤ xs.length) :
    ∃ a0 a1 a2 a3 a4 a5 a6 a7 a8 a9 a10 a11 a12 a13 a14 a15 a16 a17 a18 a19 a20 a21 a22 a23 a24 a25 a26 a27 a28 a29 a30 a31 t, xs = a0 :: a1 :: a2 :: a3 :: a4 :: a5 :: a6 :: a7 :: a8 :: a9 :: a10 :: a11 :: a12 :: a13 :: a14 :: a15 :: a16 :: a17 :: a18 :: a19 :: a20 :: a21 :: a22 :: a23 :: a24 :: a25 :: a26 :: a27 :: a28 :: a29 :: a30 :: a31 :: t := by
  obtain ⟨a0, t0, e0, h1⟩ := exists_cons (xs := xs) (n := 31) h0
  obtain ⟨a1, t1, e1, h2⟩ := exists_cons (xs := t0) (n := 30) h1
  obtain ⟨a2, t2, e2, h3⟩ := exists_cons (xs := t1) (n := 29) h2
  obtain ⟨a3, t3, e3, h4⟩ := exists_cons (xs := t2) (n := 28) h3
  obtain ⟨a4, t4, e4, h5⟩ := exists_cons (xs := t3) (n := 27) h4
  obtain ⟨a5, t5, e5, h6⟩ := exists_cons (xs := t4) (n := 26) h5
  obtain ⟨a6, t6, e6, h7⟩ := exists_cons (xs := t5) (n := 25) h6
  obtain ⟨a7, t7, e7, h8⟩ := exists_cons (xs := t6) (n := 24) h7
  obtain ⟨a8, t8, e8, h9⟩ := exists_cons (xs := t7) (n := 23) h8
  obtain ⟨a9, t9, e9, h10⟩ := exists_cons (xs := t8) (n := 22) h9
  obtain ⟨a10, t10, e10, h11⟩ := exists_cons (xs := t9) (n := 21) h10
  obtain ⟨a11, t11, e11, h12⟩ := exists_cons (xs := t10) (n := 20) h11
  obtain ⟨a12, t12, e12, h13⟩ := exists_cons (xs := t11) (n := 19) h12
  obtain ⟨a13, t13, e13, h14⟩ := exists_cons (xs := t12) (n := 18) h13
  obtain ⟨a14, t14, e14, h15⟩ := exists_cons (xs := t13) (n := 17) h14
  obtain ⟨a15, t15, e15, h16⟩ := exists_cons (xs := t14) (n := 16) h15
  obtain ⟨a16, t16, e16, h17⟩ := exists_cons (xs := t15) (n := 15) h16
  obtain ⟨a17, t17, e17, h18⟩ := exists_cons (xs := t16) (n := 14) h17
  obtain ⟨a18, t18, e18, h19⟩ := exists_cons (xs := t17) (n := 13) h18
  obtain ⟨a19, t19, e19, h20⟩ := exists_cons (xs := t18) (n := 12) h19
  obtain ⟨a20, t20, e20, h21⟩ := exists_cons (xs := t19) (n := 11) h20
  obtain ⟨a21, t21, e21, h22⟩ := exists_cons (xs := t20) (n := 10) h21
  obtain ⟨a22, t22, e22, h23⟩ := exists_cons (xs := t21) (n := 9) h22
  obtain ⟨a23, t23, e23, h24⟩ := exists_cons (xs := t22) (n := 8) h23
  obtain ⟨a24, t24, e24, h25⟩ := exists_cons (xs := t23) (n := 7) h24
  obtain ⟨a25, t25, e25, h26⟩ := exists_cons (xs := t24) (n := 6) h25
  obtain ⟨a26, t26, e26, h27⟩ := exists_cons (xs := t25) (n := 5) h26
  obtain ⟨a27, t27, e27, h28⟩ := exists_cons (xs := t26) (n := 4) h27
  obtain ⟨a28, t28, e28, h29⟩ := exists_cons (xs := t27) (n := 3) h28
  obtain ⟨a29, t29, e29, h30⟩ := exists_cons (xs := t28) (n := 2) h29
  obtain ⟨a30, t30, e30, h31⟩ := exists_cons (xs := t29) (n := 1) h30
  obtain ⟨a31, t31, e31, h32⟩ := exists_cons (xs := t30) (n := 0) h31
  subst e31 e30 e29 e28 e27 e26 e25 e24 e23 e22 e21 e20 e19 e18 e17 e16 e15 e14 e13 e12 e11 e10 e9 e8 e7 e6 e5 e4 e3 e2 e1 e0
  exact ⟨a0, a1, a2, a3, a4, a5, a6, a7, a8, a9, a10, a11, a12, a13, a14, a15, a16, a17, a18, a19, a20, a21, a22, a23, a24, a25, a26, a27, a28, a29, a30, a31, t31, rfl⟩

theorem eq32 {α} {xs : List α} (h : xs.length = 32) :
    ∃ a0 a1 a2 a3 a4 a5 a6 a7 a8 a9 a10 a11 a12 a13 a14 a15 a16 a17 a18 a19 a20 a21 a22 a23 a24 a25 a26 a27 a28 a29 a30 a31, xs = [a0, a1, a2, a3, a4, a5, a6, a7, a8, a9, a10, a11, a12, a13, a14, a15, a16, a17, a18, a19, a20, a21, a22, a23, a24, a25, a26, a27, a28, a29, a30, a31] := by
  obtain ⟨a0, a1, a2, a3, a4, a5, a6, a7, a8, a9, a10, a11, a12, a13, a14, a15, a16, a17, a18, a19, a20, a21, a22, a23, a24, a25, a26, a27, a28, a29, a30, a31, t, e⟩ := ge32 (xs := xs) (by omega)
  subst e
  have ht : t = [] := by
    apply List.eq_nil_of_length_eq_zero
    simp only [List.length_cons] at h
    omega
  subst ht; exact ⟨a0, a1, a2, a3, a4, a5, a6, a7, a8, a9, a10, a11, a12, a13, a14, a15, a16, a17, a18, a19, a20, a21, a22, a23, a24, a25, a26, a27, a28, a29, a30, a31, rfl⟩

theorem ge64 {α} {xs : List α} (h0 : 64 ≤ xs.length) :
    ∃ a0 a1 a2 a3 a4 a5 a6 a7 a8 a9 a10 a11 a12 a13 a14 a15 a16 a17 a18 a19 a20 a21 a22 a23 a24 a25 a26 a27 a28 a29 a30 a31 a32 a33 a34 a35 a36 a37 a38 a39 a40 a41 a42 a43 a44 a45 a46 a47 a48 a49 a50 a51 a52 a53 a54 a55 a56 a57 a58 a59 a60 a61 a62 a63 t, xs = a0 :: a1 :: a2 :: a3 :: a4 :: a5 :: a6 :: a7 :: a8 :: a9 :: a10 :: a11 :: a12 :: a13 :: a14 :: a15 :: a16 :: a17 :: a18 :: a19 :: a20 :: a21 :: a22 :: a23 :: a24 :: a25 :: a26 :: a27 :: a28 :: a29 :: a30 :: a31 :: a32 :: a33 :: a34 :: a35 :: a36 :: a37 :: a38 :: a39 :: a40 :: a41 :: a42 :: a43 :: a44 :: a45 :: a46 :: a47 :: a48 :: a49 :: a50 :: a51 :: a52 :: a53 :: a54 :: a55 :: a56 :: a57 :: a58 :: a59 :: a60 :: a61 :: a62 :: a63 :: t := by
  obtain ⟨a0, t0, e0, h1⟩ := exists_cons (xs := xs) (n := 63) h0
  obtain ⟨a1, t1, e1, h2⟩ := exists_cons (xs := t0) (n := 62) h1
  obtain ⟨a2, t2, e2, h3⟩ := exists_cons (xs := t1) (n := 61) h2
  obtain ⟨a3, t3, e3, h4⟩ := exists_cons (xs := t2) (n := 60) h3
  obtain ⟨a4, t4, e4, h5⟩ := exists_cons (xs := t3) (n := 59) h4
  obtain ⟨a5, t5, e5, h6⟩ := exists_cons (xs := t4) (n := 58) h5
  obtain ⟨a6, t6, e6, h7⟩ := exists_cons (xs := t5) (n := 57) h6
  obtain ⟨a7, t7, e7, h8⟩ := exists_cons (xs := t6) (n := 56) h7
  obtain ⟨a8, t8, e8, h9⟩ := exists_cons (xs := t7) (n := 55) h8
  obtain ⟨a9, t9, e9, h10⟩ := exists_cons (xs := t8) (n := 54) h9
  obtain ⟨a10, t10, e10, h11⟩ := exists_cons (xs := t9) (n := 53) h10
  obtain ⟨a11, t11, e11, h12⟩ := exists_cons (xs := t10) (n := 52) h11
  obtain ⟨a12, t12, e12, h13⟩ := exists_cons (xs := t11) (n := 51) h12
  obtain ⟨a13, t13, e13, h14⟩ := exists_cons (xs := t12) (n := 50) h13
  obtain ⟨a14, t14, e14, h15⟩ := exists_cons (xs := t13) (n := 49) h14
  obtain ⟨a15, t15, e15, h16⟩ := exists_cons (xs := t14) (n := 48) h15
  obtain ⟨a16, t16, e16, h17⟩ := exists_cons (xs := t15) (n := 47) h16
  obtain ⟨a17, t17, e17, h18⟩ := exists_cons (xs := t16) (n := 46) h17
  obtain ⟨a18, t18, e18, h19⟩ := exists_cons (xs := t17) (n := 45) h18
  obtain ⟨a19, t19, e19, h20⟩ := exists_cons (xs := t18) (n := 44) h19
  obtain ⟨a20, t20, e20, h21⟩ := exists_cons (xs := t19) (n := 43) h20
  obtain ⟨a21, t21, e21, h22⟩ := exists_cons (xs := t20) (n := 42) h21
  obtain ⟨a22, t22, e22, h23⟩ := exists_cons (xs := t21) (n := 41) h22
  obtain ⟨a23, t23, e23, h24⟩ := exists_cons (xs := t22) (n := 40) h23
  obtain ⟨a24, t24, e24, h25⟩ := exists_cons (xs := t23) (n := 39) h24
  obtain ⟨a25, t25, e25, h26⟩ := exists_cons (xs := t24) (n := 38) h25
  obtain ⟨a26, t26, e26, h27⟩ := exists_cons (xs := t25) (n := 37) h26
  obtain ⟨a27, t27, e27, h28⟩ := exists_cons (xs := t26) (n := 36) h27
  obtain ⟨a28, t28, e28, h29⟩ := exists_cons (xs := t27) (n := 35) h28
  obtain ⟨a29, t29, e29, h30⟩ := exists_cons (xs := t28) (n := 34) h29
  obtain ⟨a30, t30, e30, h31⟩ := exists_cons (xs := t29) (n := 33) h30
  obtain ⟨a31, t31, e31, h32⟩ := exists_cons (xs := t30) (n := 32) h31
  obtain ⟨a32, t32, e32, h33⟩ := exists_cons (xs := t31) (n := 31) h32
  obtain ⟨a33, t33, e33, h34⟩ := exists_cons (xs := t32) (n := 30) h33
  obtain ⟨a34, t34, e34, h35⟩ := exists_cons (xs := t33) (n := 29) h34
  obtain ⟨a35, t35, e35, h36⟩ := exists_cons (xs := t34) (n := 28) h35
  obtain ⟨a36, t36, e36, h37⟩ := exists_cons (xs := t35) (n := 27) h36
  obtain ⟨a37, t37, e37, h38⟩ := exists_cons (xs := t36) (n := 26) h37
  obtain ⟨a38, t38, e38, h39⟩ := exists_cons (xs := t37) (n := 25) h38
  obtain ⟨a39, t39, e39, h40⟩ := exists_cons (xs := t38) (n := 24) h39
  obtain ⟨a40, t40, e40, h41⟩ := exists_cons (xs := t39) (n := 23) h40
  obtain ⟨a41, t41, e41, h42⟩ := exists_cons (xs := t40) (n := 22) h41
  obtain ⟨a42, t42, e42, h43⟩ := exists_cons (xs := t41) (n := 21) h42
  obtain ⟨a43, t43, e43, h44⟩ := exists_cons (xs := t42) (n := 20) h43
  obtain ⟨a44, t44, e44, h45⟩ := exists_cons (xs := t43) (n := 19) h44
  obtain ⟨a45, t45, e45, h46⟩ := exists_cons (xs := t44) (n := 18) h45
  obtain ⟨a46, t46, e46, h47⟩ := exists_cons (xs := t45) (n := 17) h46
  obtain ⟨a47, t47, e47, h48⟩ := exists_cons (xs := t46) (n := 16) h47
  obtain ⟨a48, t48, e48, h49⟩ := exists_cons (xs := t47) (n := 15) h48
  obtain ⟨a49, t49, e49, h50⟩ := exists_cons (xs := t48) (n := 14) h49
  obtain ⟨a50, t50, e50, h51⟩ := exists_cons (xs := t49) (n := 13) h50
  obtain ⟨a51, t51, e51, h52⟩ := exists_cons (xs := t50) (n := 12) h51
  obtain ⟨a52, t52, e52, h53⟩ := exists_cons (xs := t51) (n := 11) h52
  obtain ⟨a53, t53, e53, h54⟩ := exists_cons (xs := t52) (n := 10) h53
  obtain ⟨a54, t54, e54, h55⟩ := exists_cons (xs := t53) (n := 9) h54
  obtain ⟨a55, t55, e55, h56⟩ := exists_cons (xs := t54) (n := 8) h55
  obtain ⟨a56, t56, e56, h57⟩ := exists_cons (xs := t55) (n := 7) h56
  obtain ⟨a57, t57, e57, h58⟩ := exists_cons (xs := t56) (n := 6) h57
  obtain ⟨a58, t58, e58, h59⟩ := exists_cons (xs := t57) (n := 5) h58
  obtain ⟨a59, t59, e59, h60⟩ := exists_cons (xs := t58) (n := 4) h59
  obtain ⟨a60, t60, e60, h61⟩ := exists_cons (xs := t59) (n := 3) h60
  obtain ⟨a61, t61, e61, h62⟩ := exists_cons (xs := t60) (n := 2) h61
  obtain ⟨a62, t62, e62, h63⟩ := exists_cons (xs := t61) (n := 1) h62
  obtain ⟨a63, t63, e63, h64⟩ := exists_cons (xs := t62) (n := 0) h63
  subst e63 e62 e61 e60 e59 e58 e57 e56 e55 e54 e53 e52 e51 e50 e49 e48 e47 e46 e45 e44 e43 e42 e41 e40 e39 e38 e37 e36 e35 e34 e33 e32 e31 e30 e29 e28 e27 e26 e25 e24 e23 e22 e21 e20 e19 e18 e17 e16 e15 e14 e13 e12 e11 e10 e9 e8 e7 e6 e5 e4 e3 e2 e1 e0
  exact ⟨a0, a1, a2, a3, a4, a5, a6, a7, a8, a9, a10, a11, a12, a13, a14, a15, a16, a17, a18, a19, a20, a21, a22, a23, a24, a25, a26, a27, a28, a29, a30, a31, a32, a33, a34, a35, a36, a37, a38, a39, a40, a41, a42, a43, a44, a45, a46, a47, a48, a49, a50, a51, a52, a53, a54, a55, a56, a57, a58, a59, a60, a61, a62, a63, t63, rfl⟩

theorem eq64 {α} {xs : List α} (h : xs.length = 64) :
    ∃ a0 a1 a2 a3 a4 a5 a6 a7 a8 a9 a10 a11 a12 a13 a14 a15 a16 a17 a18 a19 a20 a21 a22 a23 a24 a25 a26 a27 a28 a29 a30 a31 a32 a33 a34 a35 a36 a37 a38 a39 a40 a41 a42 a43 a44 a45 a46 a47 a48 a49 a50 a51 a52 a53 a54 a55 a56 a57 a58 a59 a60 a61 a62 a63, xs = [a0, a1, a2, a3, a4, a5, a6, a7, a8, a9, a10, a11, a12, a13, a14, a15, a16, a17, a18, a19, a20, a21, a22, a23, a24, a25, a26, a27, a28, a29, a30, a31, a32, a33, a34, a35, a36, a37, a38, a39, a40, a41, a42, a43, a44, a45, a46, a47, a48, a49, a50, a51, a52, a53, a54, a55, a56, a57, a58, a59, a60, a61, a62, a63] := by
  obtain ⟨a0, a1, a2, a3, a4, a5, a6, a7, a8, a9, a10, a11, a12, a13, a14, a15, a16, a17, a18, a19, a20, a21, a22, a23, a24, a25, a26, a27, a28, a29, a30, a31, a32, a33, a34, a35, a36, a37, a38, a39, a40, a41, a42, a43, a44, a45, a46, a47, a48, a49, a50, a51, a52, a53, a54, a55, a56, a57, a58, a59, a60, a61, a62, a63, t, e⟩ := ge64 (xs := xs) (by omega)
  subst e
  have ht : t = [] := by
    apply List.eq_nil_of_length_eq_zero
    simp only [List.length_cons] at h
    omega
  subst ht; exact ⟨a0, a1, a2, a3, a4, a5, a6, a7, a8, a9, a10, a11, a12, a13, a14, a15, a16, a17, a18, a19, a20, a21, a22, a23, a24, a25, a26, a27, a28, a29, a30, a31, a32, a33, a34, a35, a36, a37, a38, a39, a40, a41, a42, a43, a44, a45, a46, a47, a48, a49, a50, a51, a52, a53, a54, a55, a56, a57, a58, a59, a60, a61, a62, a63, rfl⟩

end CC.Simd.Lists
