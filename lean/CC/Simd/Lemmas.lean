/-
  CC.Simd.Lemmas — lane algebra for the scalar meanings (`lane32 (pack32 …) i`, xor/lanes, rotations).
-/
import CC.Simd.Mach
import Std.Tactic.BVDecide
namespace CC.Simd

@[simp] theorem lane32_pack32_0 (a b c d : BitVec 32) : lane32 (pack32 a b c d) 0 = a := by
  unfold lane32 pack32; bv_decide
@[simp] theorem lane32_pack32_1 (a b c d : BitVec 32) : lane32 (pack32 a b c d) 1 = b := by
  unfold lane32 pack32; bv_decide
@[simp] theorem lane32_pack32_2 (a b c d : BitVec 32) : lane32 (pack32 a b c d) 2 = c := by
  unfold lane32 pack32; bv_decide
@[simp] theorem lane32_pack32_3 (a b c d : BitVec 32) : lane32 (pack32 a b c d) 3 = d := by
  unfold lane32 pack32; bv_decide

theorem pack32_lanes (v : BitVec 128) :
    pack32 (lane32 v 0) (lane32 v 1) (lane32 v 2) (lane32 v 3) = v := by
  unfold lane32 pack32; bv_decide

theorem pack32_inj {a b c d a' b' c' d' : BitVec 32} :
    pack32 a b c d = pack32 a' b' c' d' ↔ a = a' ∧ b = b' ∧ c = c' ∧ d = d' := by
  constructor
  · intro h
    have h0 := congrArg (lane32 · 0) h
    have h1 := congrArg (lane32 · 1) h
    have h2 := congrArg (lane32 · 2) h
    have h3 := congrArg (lane32 · 3) h
    simp at h0 h1 h2 h3
    exact ⟨h0, h1, h2, h3⟩
  · rintro ⟨rfl, rfl, rfl, rfl⟩; rfl

@[simp] theorem lane32_xor_0 (a b : BitVec 128) : lane32 (a ^^^ b) 0 = lane32 a 0 ^^^ lane32 b 0 := by
  unfold lane32; bv_decide
@[simp] theorem lane32_xor_1 (a b : BitVec 128) : lane32 (a ^^^ b) 1 = lane32 a 1 ^^^ lane32 b 1 := by
  unfold lane32; bv_decide
@[simp] theorem lane32_xor_2 (a b : BitVec 128) : lane32 (a ^^^ b) 2 = lane32 a 2 ^^^ lane32 b 2 := by
  unfold lane32; bv_decide
@[simp] theorem lane32_xor_3 (a b : BitVec 128) : lane32 (a ^^^ b) 3 = lane32 a 3 ^^^ lane32 b 3 := by
  unfold lane32; bv_decide

theorem rotr16_eq (x : BitVec 32) : x.rotateRight 16 = x.rotateLeft 16 := by bv_decide
theorem rotr20_eq (x : BitVec 32) : x.rotateRight 20 = x.rotateLeft 12 := by bv_decide
theorem rotr24_eq (x : BitVec 32) : x.rotateRight 24 = x.rotateLeft 8 := by bv_decide
theorem rotr25_eq (x : BitVec 32) : x.rotateRight 25 = x.rotateLeft 7 := by bv_decide

end CC.Simd

/-! ### projections of `Mach.ref` (cheap `rfl` lemmas; use these instead of unfolding `Mach.ref`) -/
namespace CC.Simd
theorem ref_add32 : Mach.ref.add32 = (zip32 (· + ·)) := rfl
theorem ref_xor128 : Mach.ref.xor128 = ((· ^^^ ·)) := rfl
theorem ref_rotr32 : Mach.ref.rotr32 = (fun k => map32 (·.rotateRight k)) := rfl
theorem ref_shuf1230 : Mach.ref.shuf1230 = (shuf1230_32) := rfl
theorem ref_shuf2301 : Mach.ref.shuf2301 = (shuf2301_32) := rfl
theorem ref_shuf3012 : Mach.ref.shuf3012 = (shuf3012_32) := rfl
theorem ref_vec32 : Mach.ref.vec32 = (pack32) := rfl
theorem ref_extract32 : Mach.ref.extract32 = (lane32) := rfl
theorem ref_insert32 : Mach.ref.insert32 = (CC.Simd.insert32) := rfl
theorem ref_readLe32x4 : Mach.ref.readLe32x4 = (fun bs => ofLeBytes 128 (bs.take 16)) := rfl
theorem ref_writeLe32x4 : Mach.ref.writeLe32x4 = (fun v => toLeBytes v 16) := rfl
theorem ref_writeBe32x4 : Mach.ref.writeBe32x4 = (fun v => toBe32 (lane32 v 0) ++ toBe32 (lane32 v 1) ++ toBe32 (lane32 v 2) ++ toBe32 (lane32 v 3)) := rfl
theorem ref_add64 : Mach.ref.add64 = (zip64 (· + ·)) := rfl
theorem ref_vec64 : Mach.ref.vec64 = (pack64) := rfl
theorem ref_fromLanes512 : Mach.ref.fromLanes512 = (pack512) := rfl
theorem ref_toLanes512 : Mach.ref.toLanes512 = (fun v => (q128 v 0, q128 v 1, q128 v 2, q128 v 3)) := rfl
theorem ref_add32x16 : Mach.ref.add32x16 = (zip512 (zip32 (· + ·))) := rfl
theorem ref_add64x8 : Mach.ref.add64x8 = (zip512 (zip64 (· + ·))) := rfl
theorem ref_xor512 : Mach.ref.xor512 = ((· ^^^ ·)) := rfl
theorem ref_rotr32x16 : Mach.ref.rotr32x16 = (fun k => map512 (map32 (·.rotateRight k))) := rfl
theorem ref_shufLane1230 : Mach.ref.shufLane1230 = (map512 shuf1230_32) := rfl
theorem ref_shufLane2301 : Mach.ref.shufLane2301 = (map512 shuf2301_32) := rfl
theorem ref_shufLane3012 : Mach.ref.shufLane3012 = (map512 shuf3012_32) := rfl
theorem ref_transpose4 : Mach.ref.transpose4 = (transpose4_512) := rfl
theorem ref_writeLe32x16 : Mach.ref.writeLe32x16 = (fun v => toLeBytes v 64) := rfl
theorem ref_vec64x4 : Mach.ref.vec64x4 = (pack64x4) := rfl
theorem ref_add64x4 : Mach.ref.add64x4 = (zip256 (zip64 (· + ·))) := rfl
theorem ref_xor256 : Mach.ref.xor256 = ((· ^^^ ·)) := rfl
theorem ref_rotr64x4 : Mach.ref.rotr64x4 = (fun k => map256 (map64 (·.rotateRight k))) := rfl
theorem ref_shuf1230q : Mach.ref.shuf1230q = (shuf1230_64) := rfl
theorem ref_shuf2301q : Mach.ref.shuf2301q = (shuf2301_64) := rfl
theorem ref_shuf3012q : Mach.ref.shuf3012q = (shuf3012_64) := rfl
theorem ref_writeBe64x4 : Mach.ref.writeBe64x4 = (fun v => toBe64 (w64 v 0) ++ toBe64 (w64 v 1) ++ toBe64 (w64 v 2) ++ toBe64 (w64 v 3)) := rfl
theorem ref_swap128 : Mach.ref.swap128 = (swapBits) := rfl
theorem ref_vzip256 : Mach.ref.vzip256 = (pack256) := rfl
theorem ref_extract256 : Mach.ref.extract256 = (fun v i => if i = 0 then lo128 v else hi128 v) := rfl
theorem ref_not256 : Mach.ref.not256 = (fun v => ~~~v) := rfl
theorem ref_and256 : Mach.ref.and256 = ((· &&& ·)) := rfl
theorem ref_or256 : Mach.ref.or256 = ((· ||| ·)) := rfl
theorem ref_andnot256 : Mach.ref.andnot256 = (fun a b => ~~~a &&& b) := rfl
end CC.Simd
