/-
  CC.Simd.Lemmas — lane algebra for the scalar meanings (`lane32 (pack32 …) i`, xor/lanes, rotations).
-/
import CC.Simd.Mach
import Std.Tactic.BVDecide
namespace CC.Simd

@[simp] theorem lane32_pack32_0 (a b c d : BitVec 32) : lane32 (pack32 a b c d) 0 = a := by
  unfold lane32 pack32; bv_decide
@[simp] theorem lane32_pack32_1 (a b c d : BitVec 32) : lane32 (pack32 a b c d) 1 = b := by
  unfold lane32 pack32; bv_decide
@[simp] theorem lane32_pack32_2 (a b c d : BitVec 32) : lane32 (pack32 a b c d) 2 = c := by
  unfold lane32 pack32; bv_decide
@[simp] theorem lane32_pack32_3 (a b c d : BitVec 32) : lane32 (pack32 a b c d) 3 = d := by
  unfold lane32 pack32; bv_decide

theorem pack32_lanes (v : BitVec 128) :
    pack32 (lane32 v 0) (lane32 v 1) (lane32 v 2) (lane32 v 3) = v := by
  unfold lane32 pack32; bv_decide

theorem pack32_inj {a b c d a' b' c' d' : BitVec 32} :
    pack32 a b c d = pack32 a' b' c' d' ↔ a = a' ∧ b = b' ∧ c = c' ∧ d = d' := by
  constructor
  · intro h
    have h0 := congrArg (lane32 · 0) h
    have h1 := congrArg (lane32 · 1) h
    have h2 := congrArg (lane32 · 2) h
    have h3 := congrArg (lane32 · 3) h
    simp at h0 h1 h2 h3
    exact ⟨h0, h1, h2, h3⟩
  · rintro ⟨rfl, rfl, rfl, rfl⟩; rfl

@[simp] theorem lane32_xor_0 (a b : BitVec 128) : lane32 (a ^^^ b) 0 = lane32 a 0 ^^^ lane32 b 0 := by
  unfold lane32; bv_decide
@[simp] theorem lane32_xor_1 (a b : BitVec 128) : lane32 (a ^^^ b) 1 = lane32 a 1 ^^^ lane32 b 1 := by
  unfold lane32; bv_decide
@[simp] theorem lane32_xor_2 (a b : BitVec 128) : lane32 (a ^^^ b) 2 = lane32 a 2 ^^^ lane32 b 2 := by
  unfold lane32; bv_decide
@[simp] theorem lane32_xor_3 (a b : BitVec 128) : lane32 (a ^^^ b) 3 = lane32 a 3 ^^^ lane32 b 3 := by
  unfold lane32; bv_decide

theorem rotr16_eq (x : BitVec 32) : x.rotateRight 16 = x.rotateLeft 16 := by bv_decide
theorem rotr20_eq (x : BitVec 32) : x.rotateRight 20 = x.rotateLeft 12 := by bv_decide
theorem rotr24_eq (x : BitVec 32) : x.rotateRight 24 = x.rotateLeft 8 := by bv_decide
theorem rotr25_eq (x : BitVec 32) : x.rotateRight 25 = x.rotateLeft 7 := by bv_decide

end CC.Simd
