/-
  CC.Simd.VOps — vocabulary shared by the ppv-lite86 implementation models (`CC/Simd/Impl/*`),
  their scalar meaning (`CC/Simd/Meaning.lean`), the driver (`CC/Drv/Simd.lean`) and C12/C13.

  * `Backend` — the six `Machine` implementations.
  * `Ty` — the ten vector types of `trait Machine`.
  * `VOps n m` — the record of operations one vector type offers: `n` = storage bits,
    `m` = bits of one element in the sense of `Vec2/Vec4/MultiLane` (`u32` for `u32x4`, a whole
    `u32x4` for `u32x4x2`, …).  Every vector is carried by its storage bits (`BitVec n`,
    little-endian: element/lane/byte 0 in the least significant bits), the same carrier for every
    backend, so `impl b τ` and `meaning τ` have the same type and can be compared by `=`.
    Operations a (backend, type) pair does not provide are filled with the identity and are never
    looked at: `provided b τ` says which fields are real.
  * `OpK` — names of the operations; `required τ` = what the trait bounds of `types.rs` demand,
    `provided b τ` = what the model (and the Rust harness) exposes: `required τ` plus a few
    extras every backend happens to implement.
-/
import CC.Prim
import CC.Simd.Mach
namespace CC.Simd

inductive Backend where
  | generic | sse2 | ssse3 | sse41 | avx | avx2
  deriving DecidableEq, Repr, Inhabited

def Backend.all : List Backend := [.generic, .sse2, .ssse3, .sse41, .avx, .avx2]

def Backend.name : Backend → String
  | .generic => "generic" | .sse2 => "sse2" | .ssse3 => "ssse3"
  | .sse41 => "sse41" | .avx => "avx" | .avx2 => "avx2"

def Backend.ofName : String → Option Backend
  | "generic" => some .generic | "sse2" => some .sse2 | "ssse3" => some .ssse3
  | "sse41" => some .sse41 | "avx" => some .avx | "avx2" => some .avx2
  | _ => none

/-- `S3` type parameter of `SseMachine` (`YesS3`): SSSE3 code paths (`pshufb`, `palignr`). -/
def Backend.s3 : Backend → Bool
  | .generic | .sse2 => false
  | _ => true
/-- `S4` type parameter (`YesS4`): SSE4.1 code paths (`pinsrd/q`, `pextrq`). -/
def Backend.s4 : Backend → Bool
  | .generic | .sse2 | .ssse3 => false
  | _ => true

inductive Ty where
  | u32x4 | u64x2 | u128x1
  | u32x4x2 | u64x2x2 | u64x4 | u128x2
  | u32x4x4 | u64x2x4 | u128x4
  deriving DecidableEq, Repr, Inhabited

def Ty.all : List Ty :=
  [.u32x4, .u64x2, .u128x1, .u32x4x2, .u64x2x2, .u64x4, .u128x2, .u32x4x4, .u64x2x4, .u128x4]

def Ty.name : Ty → String
  | .u32x4 => "u32x4" | .u64x2 => "u64x2" | .u128x1 => "u128x1"
  | .u32x4x2 => "u32x4x2" | .u64x2x2 => "u64x2x2" | .u64x4 => "u64x4" | .u128x2 => "u128x2"
  | .u32x4x4 => "u32x4x4" | .u64x2x4 => "u64x2x4" | .u128x4 => "u128x4"

def Ty.ofName : String → Option Ty
  | "u32x4" => some .u32x4 | "u64x2" => some .u64x2 | "u128x1" => some .u128x1
  | "u32x4x2" => some .u32x4x2 | "u64x2x2" => some .u64x2x2 | "u64x4" => some .u64x4
  | "u128x2" => some .u128x2
  | "u32x4x4" => some .u32x4x4 | "u64x2x4" => some .u64x2x4 | "u128x4" => some .u128x4
  | _ => none

/-- storage bits -/
def Ty.bits : Ty → Nat
  | .u32x4 | .u64x2 | .u128x1 => 128
  | .u32x4x2 | .u64x2x2 | .u64x4 | .u128x2 => 256
  | .u32x4x4 | .u64x2x4 | .u128x4 => 512
/-- bits of one `Vec*/MultiLane` element -/
def Ty.elem : Ty → Nat
  | .u32x4 => 32 | .u64x2 => 64 | .u128x1 => 128
  | .u64x4 => 64
  | .u32x4x2 | .u64x2x2 | .u128x2 | .u32x4x4 | .u64x2x4 | .u128x4 => 128
/-- number of elements -/
def Ty.count : Ty → Nat
  | .u32x4 => 4 | .u64x2 => 2 | .u128x1 => 1
  | .u32x4x2 | .u64x2x2 | .u128x2 => 2
  | .u64x4 => 4
  | .u32x4x4 | .u64x2x4 | .u128x4 => 4

structure VOps (n m : Nat) where
  add : BitVec n → BitVec n → BitVec n
  xor : BitVec n → BitVec n → BitVec n
  and : BitVec n → BitVec n → BitVec n
  or : BitVec n → BitVec n → BitVec n
  /-- `a.andnot(b)` -/
  andnot : BitVec n → BitVec n → BitVec n
  not : BitVec n → BitVec n
  /-- `rotate_each_word_right<k>` -/
  rotr : Nat → BitVec n → BitVec n
  /-- `shuffle1230 / 2301 / 3012` (the argument is that number) -/
  shuffle : Nat → BitVec n → BitVec n
  /-- `shuffle_lane_words1230 / 2301 / 3012` -/
  shuffleLane : Nat → BitVec n → BitVec n
  /-- `swap1 … swap64` -/
  swap : Nat → BitVec n → BitVec n
  bswap : BitVec n → BitVec n
  extract : BitVec n → Nat → BitVec m
  insert : BitVec n → BitVec m → Nat → BitVec n
  toLanes : BitVec n → List (BitVec m)
  fromLanes : List (BitVec m) → BitVec n
  /-- `unsafe_read_le` of exactly `n/8` bytes -/
  readLe : List (BitVec 8) → BitVec n
  readBe : List (BitVec 8) → BitVec n
  writeLe : BitVec n → List (BitVec 8)
  writeBe : BitVec n → List (BitVec 8)

inductive OpK where
  | add | xor | and | or | andnot | not
  | rotr (k : Nat)
  | shuffle (c : Nat)
  | shuffleLane (c : Nat)
  | swap (k : Nat)
  | bswap
  | extract | insert | toLanes | fromLanes
  | readLe | readBe | writeLe | writeBe
  | transpose4 | toScalars
  deriving DecidableEq, Repr

def OpK.name : OpK → String
  | .add => "add" | .xor => "xor" | .and => "and" | .or => "or" | .andnot => "andnot" | .not => "not"
  | .rotr k => "rotr" ++ toString k
  | .shuffle c => "shuffle" ++ toString c
  | .shuffleLane c => "shuffle_lane_words" ++ toString c
  | .swap k => "swap" ++ toString k
  | .bswap => "bswap"
  | .extract => "extract" | .insert => "insert" | .toLanes => "to_lanes" | .fromLanes => "from_lanes"
  | .readLe => "read_le" | .readBe => "read_be" | .writeLe => "write_le" | .writeBe => "write_be"
  | .transpose4 => "transpose4" | .toScalars => "to_scalars"

def rot32Ks : List Nat := [7, 8, 11, 12, 16, 20, 24, 25]
def rot64Ks : List Nat := [7, 8, 11, 12, 16, 20, 24, 25, 32]
def shufCodes : List Nat := [1230, 2301, 3012]
def swapKs : List Nat := [1, 2, 4, 8, 16, 32, 64]

def bitOps0 : List OpK := [.xor, .and, .or, .andnot, .not]
def bitOps32 : List OpK := bitOps0 ++ rot32Ks.map .rotr
def bitOps64 : List OpK := bitOps0 ++ rot64Ks.map .rotr
def arithOps : List OpK := [.add, .bswap]
def vecOps : List OpK := [.extract, .insert]
def multiLane : List OpK := [.toLanes, .fromLanes]
def storeBytes : List OpK := [.readLe, .readBe, .writeLe, .writeBe]
def words4 : List OpK := shufCodes.map .shuffle
def laneWords4 : List OpK := shufCodes.map .shuffleLane
def swap64 : List OpK := swapKs.map .swap

/-- What the trait bounds of `types.rs` require of each associated type of `Machine`
    (`Store`/`Into<vecN_storage>` are the carrier itself and have no entry). -/
def required : Ty → List OpK
  | .u32x4 => bitOps32 ++ arithOps ++ vecOps ++ words4 ++ laneWords4 ++ storeBytes ++ multiLane
  | .u64x2 => bitOps64 ++ arithOps ++ vecOps ++ multiLane
  | .u128x1 => bitOps64 ++ swap64 ++ multiLane
  | .u32x4x2 => bitOps32 ++ vecOps ++ multiLane ++ arithOps ++ storeBytes
  | .u64x2x2 => bitOps64 ++ vecOps ++ multiLane ++ arithOps ++ storeBytes
  | .u64x4 => bitOps64 ++ vecOps ++ multiLane ++ arithOps ++ words4 ++ storeBytes
  | .u128x2 => bitOps64 ++ vecOps ++ multiLane ++ swap64
  | .u32x4x4 => bitOps32 ++ vecOps ++ [.transpose4, .toScalars] ++ multiLane ++ arithOps ++ laneWords4 ++ storeBytes
  | .u64x2x4 => bitOps64 ++ vecOps ++ multiLane ++ arithOps
  | .u128x4 => bitOps64 ++ vecOps ++ multiLane ++ swap64

/-- Operations beyond the trait bounds that the model and the harness also exercise, because the
    Rust provides them (on every backend unless stated):
    `StoreBytes` for `u64x2` and `u64x2x4`; `shuffle_lane_words*` for `u32x4x2`;
    `bswap` for the `u128` types; `StoreBytes` for the `u128` types on x86 only (the generic
    `u128x1_generic` has none); `+` for the `u128` types on the generic backend only. -/
def extras (b : Backend) : Ty → List OpK
  | .u64x2 | .u64x2x4 => storeBytes
  | .u32x4x2 => laneWords4
  | .u128x1 | .u128x2 | .u128x4 =>
    [.bswap] ++ (if b = .generic then [.add] else storeBytes)
  | _ => []

def provided (b : Backend) (τ : Ty) : List OpK := required τ ++ extras b τ

end CC.Simd
