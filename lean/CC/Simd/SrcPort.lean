/-
  CC.Simd.SrcPort — SOURCE TIE for the portable parts of ppv-lite86 (properties C12 / C13): every definition that
  tools/inventory_simdport.py regenerates from `utils-simd/ppv-lite86/src/generic.rs` and `src/soft.rs` into
  `CC.Gen.SimdPortSrc` equals the hand-written model (`CC.Simd.Impl.Generic`, `CC.Simd.Impl.Soft`), field by field of
  the operation records the theorems of C12 / C13 are about (`impl .generic τ`, `Soft.x2 W`, `Soft.x4 W`, `x2w`).

  * `PortWordwise` (→ `CC.Thm.C12.source_portable_match`): `+ & | ^ andnot !` and their `*_assign` forms, the rotations,
    `swap1…64`, `bswap`, `shuffle*`, `shuffle_lane_words*`, for `u32x4_generic`, `u64x2_generic`, `u128x1_generic`,
    `u64x4_generic`, `x2<W,G>` (every `lo hi pack W`), `x4<W>` (every `W`); the impl / free-fn inventories; no
    translation errors.
  * `PortMovement` (→ `CC.Thm.C13.source_portable_match`): `extract` / `insert` (as `Out`: in range the model's value,
    outside the Rust panics), `to_lanes` / `from_lanes` / `new` / `unsafe_from`, `StoreBytes`, `transpose4`, `to_scalars`,
    the storage conversions (`From`, `Store::unpack`, `new128` / `split128`, `Default`, `PartialEq`), the declarations.

  Where the source goes through another view of `vec128_storage` (`omap` on a `u32x4_generic`, `dmap` on a
  `u64x2_generic`, everything on `u128x1_generic`) the generated term re-packs through the carrier and the model does
  not: those obligations are closed by `bv_decide` after unfolding both sides; all others are `rfl`.
  (Written by tools/mk_srcport.py, which checks that every generated definition has an obligation.)
-/
import Std.Tactic.BVDecide
import CC.Simd.Lemmas
import CC.Gen.SimdPortSrc
import CC.Simd.Impl
namespace CC.Src
open CC CC.Simd CC.Simd.Impl CC.Gen

set_option linter.unusedSimpArgs false
set_option linter.unusedVariables false

theorem lane64_pack64_0 (a b : BitVec 64) : lane64 (pack64 a b) 0 = a := by unfold lane64 pack64; bv_decide
theorem lane64_pack64_1 (a b : BitVec 64) : lane64 (pack64 a b) 1 = b := by unfold lane64 pack64; bv_decide

open Lean.Parser.Tactic in
/-- unfold the model and one generated definition down to `BitVec` operations -/
macro "port_unfold" "[" ls:simpLemma,* "]" : tactic =>
  `(tactic| simp only [Generic.u32x4, Generic.u64x2, Generic.u128x1, Generic.u64x4, Generic.vnot, Generic.vand, Generic.vor,
      Generic.vxor, Generic.vandnot, Generic.vswap, Generic.u32x4_rotr, Generic.u64x2_rotr, Generic.u128x1_rotr,
      Generic.u32x4_shuffle, Generic.u64x4_shuffle, Generic.dmap, Generic.dmap2, Generic.qmap, Generic.qmap2, Generic.omap,
      Generic.omap2, Generic.q_of_o, Generic.o_of_q, Generic.rotate_u128_right, Generic.swapBytes32, Generic.swapBytes64,
      Generic.swapBytes128, bswap32, bswap64, lane32, lane64, pack32, pack64, lo128, hi128, pack256, $ls,*])

open Lean.Parser.Tactic in
/-- `StoreBytes` of the 128-bit types: the model maps the identity / `swap_bytes` over re-packed words -/
macro "port_bytes" "[" ls:simpLemma,* "]" : tactic =>
  `(tactic| simp only [Generic.u32x4, Generic.u64x2, Generic.dmap, Generic.qmap, Generic.readWords32, Generic.readWords64,
      Generic.writeWords32, Generic.writeWords64, Generic.swapBytes32, Generic.swapBytes64, bswap32, bswap64,
      lane32_pack32_0, lane32_pack32_1, lane32_pack32_2, lane32_pack32_3, lane64_pack64_0, lane64_pack64_1, $ls,*])

/-- one in-range index of `Vec4<u64> for u64x4_generic :: insert` -/
macro "port_insert64x4" : tactic =>
  `(tactic| (simp only [SimdPortSrc.u64x4_generic_insert, Generic.u64x4, Generic.u64x4_insert, Generic.u64x2_insert]
             simp
             simp only [lane64, pack64, lo128, hi128, pack256]
             bv_decide))

theorem src_port_u32x4_generic_bitand : Generic.u32x4.and = SimdPortSrc.u32x4_generic_bitand := by funext a b; port_unfold [SimdPortSrc.u32x4_generic_bitand]; bv_decide
theorem src_port_u32x4_generic_bitor : Generic.u32x4.or = SimdPortSrc.u32x4_generic_bitor := by funext a b; port_unfold [SimdPortSrc.u32x4_generic_bitor]; bv_decide
theorem src_port_u32x4_generic_bitxor : Generic.u32x4.xor = SimdPortSrc.u32x4_generic_bitxor := by funext a b; port_unfold [SimdPortSrc.u32x4_generic_bitxor]; bv_decide
theorem src_port_u32x4_generic_andnot : Generic.u32x4.andnot = SimdPortSrc.u32x4_generic_andnot := by funext a b; port_unfold [SimdPortSrc.u32x4_generic_andnot]; bv_decide
theorem src_port_u32x4_generic_add : Generic.u32x4.add = SimdPortSrc.u32x4_generic_add := rfl
theorem src_port_u32x4_generic_bitand_assign : Generic.u32x4.and = SimdPortSrc.u32x4_generic_bitand_assign := by funext a b; port_unfold [SimdPortSrc.u32x4_generic_bitand_assign]; bv_decide
theorem src_port_u32x4_generic_bitor_assign : Generic.u32x4.or = SimdPortSrc.u32x4_generic_bitor_assign := by funext a b; port_unfold [SimdPortSrc.u32x4_generic_bitor_assign]; bv_decide
theorem src_port_u32x4_generic_bitxor_assign : Generic.u32x4.xor = SimdPortSrc.u32x4_generic_bitxor_assign := by funext a b; port_unfold [SimdPortSrc.u32x4_generic_bitxor_assign]; bv_decide
theorem src_port_u32x4_generic_add_assign : Generic.u32x4.add = SimdPortSrc.u32x4_generic_add_assign := rfl
theorem src_port_u32x4_generic_not : Generic.u32x4.not = SimdPortSrc.u32x4_generic_not := by funext a; port_unfold [SimdPortSrc.u32x4_generic_not]; bv_decide
theorem src_port_u32x4_generic_bswap : Generic.u32x4.bswap = SimdPortSrc.u32x4_generic_bswap := rfl
theorem src_port_u32x4_generic_rotate_each_word_right7 : Generic.u32x4.rotr 7 = SimdPortSrc.u32x4_generic_rotate_each_word_right7 := rfl
theorem src_port_u32x4_generic_rotate_each_word_right8 : Generic.u32x4.rotr 8 = SimdPortSrc.u32x4_generic_rotate_each_word_right8 := rfl
theorem src_port_u32x4_generic_rotate_each_word_right11 : Generic.u32x4.rotr 11 = SimdPortSrc.u32x4_generic_rotate_each_word_right11 := rfl
theorem src_port_u32x4_generic_rotate_each_word_right12 : Generic.u32x4.rotr 12 = SimdPortSrc.u32x4_generic_rotate_each_word_right12 := rfl
theorem src_port_u32x4_generic_rotate_each_word_right16 : Generic.u32x4.rotr 16 = SimdPortSrc.u32x4_generic_rotate_each_word_right16 := rfl
theorem src_port_u32x4_generic_rotate_each_word_right20 : Generic.u32x4.rotr 20 = SimdPortSrc.u32x4_generic_rotate_each_word_right20 := rfl
theorem src_port_u32x4_generic_rotate_each_word_right24 : Generic.u32x4.rotr 24 = SimdPortSrc.u32x4_generic_rotate_each_word_right24 := rfl
theorem src_port_u32x4_generic_rotate_each_word_right25 : Generic.u32x4.rotr 25 = SimdPortSrc.u32x4_generic_rotate_each_word_right25 := rfl
theorem src_port_u32x4_generic_swap1 : Generic.u32x4.swap 1 = SimdPortSrc.u32x4_generic_swap1 := by funext a; port_unfold [SimdPortSrc.u32x4_generic_swap1]; bv_decide
theorem src_port_u32x4_generic_swap2 : Generic.u32x4.swap 2 = SimdPortSrc.u32x4_generic_swap2 := by funext a; port_unfold [SimdPortSrc.u32x4_generic_swap2]; bv_decide
theorem src_port_u32x4_generic_swap4 : Generic.u32x4.swap 4 = SimdPortSrc.u32x4_generic_swap4 := by funext a; port_unfold [SimdPortSrc.u32x4_generic_swap4]; bv_decide
theorem src_port_u32x4_generic_swap8 : Generic.u32x4.swap 8 = SimdPortSrc.u32x4_generic_swap8 := by funext a; port_unfold [SimdPortSrc.u32x4_generic_swap8]; bv_decide
theorem src_port_u32x4_generic_swap16 : Generic.u32x4.swap 16 = SimdPortSrc.u32x4_generic_swap16 := rfl
theorem src_port_u32x4_generic_swap32 : Generic.u32x4.swap 32 = SimdPortSrc.u32x4_generic_swap32 := by funext a; port_unfold [SimdPortSrc.u32x4_generic_swap32]; bv_decide
theorem src_port_u32x4_generic_swap64 : Generic.u32x4.swap 64 = SimdPortSrc.u32x4_generic_swap64 := by funext a; port_unfold [SimdPortSrc.u32x4_generic_swap64]; bv_decide
theorem src_port_u64x2_generic_bitand : Generic.u64x2.and = SimdPortSrc.u64x2_generic_bitand := rfl
theorem src_port_u64x2_generic_bitor : Generic.u64x2.or = SimdPortSrc.u64x2_generic_bitor := rfl
theorem src_port_u64x2_generic_bitxor : Generic.u64x2.xor = SimdPortSrc.u64x2_generic_bitxor := rfl
theorem src_port_u64x2_generic_andnot : Generic.u64x2.andnot = SimdPortSrc.u64x2_generic_andnot := rfl
theorem src_port_u64x2_generic_add : Generic.u64x2.add = SimdPortSrc.u64x2_generic_add := rfl
theorem src_port_u64x2_generic_bitand_assign : Generic.u64x2.and = SimdPortSrc.u64x2_generic_bitand_assign := rfl
theorem src_port_u64x2_generic_bitor_assign : Generic.u64x2.or = SimdPortSrc.u64x2_generic_bitor_assign := rfl
theorem src_port_u64x2_generic_bitxor_assign : Generic.u64x2.xor = SimdPortSrc.u64x2_generic_bitxor_assign := rfl
theorem src_port_u64x2_generic_add_assign : Generic.u64x2.add = SimdPortSrc.u64x2_generic_add_assign := rfl
theorem src_port_u64x2_generic_not : Generic.u64x2.not = SimdPortSrc.u64x2_generic_not := rfl
theorem src_port_u64x2_generic_bswap : Generic.u64x2.bswap = SimdPortSrc.u64x2_generic_bswap := rfl
theorem src_port_u64x2_generic_rotate_each_word_right7 : Generic.u64x2.rotr 7 = SimdPortSrc.u64x2_generic_rotate_each_word_right7 := rfl
theorem src_port_u64x2_generic_rotate_each_word_right8 : Generic.u64x2.rotr 8 = SimdPortSrc.u64x2_generic_rotate_each_word_right8 := rfl
theorem src_port_u64x2_generic_rotate_each_word_right11 : Generic.u64x2.rotr 11 = SimdPortSrc.u64x2_generic_rotate_each_word_right11 := rfl
theorem src_port_u64x2_generic_rotate_each_word_right12 : Generic.u64x2.rotr 12 = SimdPortSrc.u64x2_generic_rotate_each_word_right12 := rfl
theorem src_port_u64x2_generic_rotate_each_word_right16 : Generic.u64x2.rotr 16 = SimdPortSrc.u64x2_generic_rotate_each_word_right16 := rfl
theorem src_port_u64x2_generic_rotate_each_word_right20 : Generic.u64x2.rotr 20 = SimdPortSrc.u64x2_generic_rotate_each_word_right20 := rfl
theorem src_port_u64x2_generic_rotate_each_word_right24 : Generic.u64x2.rotr 24 = SimdPortSrc.u64x2_generic_rotate_each_word_right24 := rfl
theorem src_port_u64x2_generic_rotate_each_word_right25 : Generic.u64x2.rotr 25 = SimdPortSrc.u64x2_generic_rotate_each_word_right25 := rfl
theorem src_port_u64x2_generic_rotate_each_word_right32 : Generic.u64x2.rotr 32 = SimdPortSrc.u64x2_generic_rotate_each_word_right32 := rfl
theorem src_port_u64x2_generic_swap1 : Generic.u64x2.swap 1 = SimdPortSrc.u64x2_generic_swap1 := rfl
theorem src_port_u64x2_generic_swap2 : Generic.u64x2.swap 2 = SimdPortSrc.u64x2_generic_swap2 := rfl
theorem src_port_u64x2_generic_swap4 : Generic.u64x2.swap 4 = SimdPortSrc.u64x2_generic_swap4 := rfl
theorem src_port_u64x2_generic_swap8 : Generic.u64x2.swap 8 = SimdPortSrc.u64x2_generic_swap8 := rfl
theorem src_port_u64x2_generic_swap16 : Generic.u64x2.swap 16 = SimdPortSrc.u64x2_generic_swap16 := by funext a; port_unfold [SimdPortSrc.u64x2_generic_swap16]; bv_decide
theorem src_port_u64x2_generic_swap32 : Generic.u64x2.swap 32 = SimdPortSrc.u64x2_generic_swap32 := rfl
theorem src_port_u64x2_generic_swap64 : Generic.u64x2.swap 64 = SimdPortSrc.u64x2_generic_swap64 := rfl
theorem src_port_u128x1_generic_bitand : Generic.u128x1.and = SimdPortSrc.u128x1_generic_bitand := by funext a b; port_unfold [SimdPortSrc.u128x1_generic_bitand]; bv_decide
theorem src_port_u128x1_generic_bitor : Generic.u128x1.or = SimdPortSrc.u128x1_generic_bitor := by funext a b; port_unfold [SimdPortSrc.u128x1_generic_bitor]; bv_decide
theorem src_port_u128x1_generic_bitxor : Generic.u128x1.xor = SimdPortSrc.u128x1_generic_bitxor := by funext a b; port_unfold [SimdPortSrc.u128x1_generic_bitxor]; bv_decide
theorem src_port_u128x1_generic_andnot : Generic.u128x1.andnot = SimdPortSrc.u128x1_generic_andnot := by funext a b; port_unfold [SimdPortSrc.u128x1_generic_andnot]; bv_decide
theorem src_port_u128x1_generic_add : Generic.u128x1.add = SimdPortSrc.u128x1_generic_add := by funext a b; port_unfold [SimdPortSrc.u128x1_generic_add]; bv_decide
theorem src_port_u128x1_generic_bitand_assign : Generic.u128x1.and = SimdPortSrc.u128x1_generic_bitand_assign := by funext a b; port_unfold [SimdPortSrc.u128x1_generic_bitand_assign]; bv_decide
theorem src_port_u128x1_generic_bitor_assign : Generic.u128x1.or = SimdPortSrc.u128x1_generic_bitor_assign := by funext a b; port_unfold [SimdPortSrc.u128x1_generic_bitor_assign]; bv_decide
theorem src_port_u128x1_generic_bitxor_assign : Generic.u128x1.xor = SimdPortSrc.u128x1_generic_bitxor_assign := by funext a b; port_unfold [SimdPortSrc.u128x1_generic_bitxor_assign]; bv_decide
theorem src_port_u128x1_generic_add_assign : Generic.u128x1.add = SimdPortSrc.u128x1_generic_add_assign := by funext a b; port_unfold [SimdPortSrc.u128x1_generic_add_assign]; bv_decide
theorem src_port_u128x1_generic_not : Generic.u128x1.not = SimdPortSrc.u128x1_generic_not := by funext a; port_unfold [SimdPortSrc.u128x1_generic_not]; bv_decide
theorem src_port_u128x1_generic_bswap : Generic.u128x1.bswap = SimdPortSrc.u128x1_generic_bswap := by funext a; port_unfold [SimdPortSrc.u128x1_generic_bswap]; bv_decide
theorem src_port_u128x1_generic_rotate_each_word_right7 : Generic.u128x1.rotr 7 = SimdPortSrc.u128x1_generic_rotate_each_word_right7 := rfl
theorem src_port_u128x1_generic_rotate_each_word_right8 : Generic.u128x1.rotr 8 = SimdPortSrc.u128x1_generic_rotate_each_word_right8 := rfl
theorem src_port_u128x1_generic_rotate_each_word_right11 : Generic.u128x1.rotr 11 = SimdPortSrc.u128x1_generic_rotate_each_word_right11 := rfl
theorem src_port_u128x1_generic_rotate_each_word_right12 : Generic.u128x1.rotr 12 = SimdPortSrc.u128x1_generic_rotate_each_word_right12 := rfl
theorem src_port_u128x1_generic_rotate_each_word_right16 : Generic.u128x1.rotr 16 = SimdPortSrc.u128x1_generic_rotate_each_word_right16 := rfl
theorem src_port_u128x1_generic_rotate_each_word_right20 : Generic.u128x1.rotr 20 = SimdPortSrc.u128x1_generic_rotate_each_word_right20 := rfl
theorem src_port_u128x1_generic_rotate_each_word_right24 : Generic.u128x1.rotr 24 = SimdPortSrc.u128x1_generic_rotate_each_word_right24 := rfl
theorem src_port_u128x1_generic_rotate_each_word_right25 : Generic.u128x1.rotr 25 = SimdPortSrc.u128x1_generic_rotate_each_word_right25 := rfl
theorem src_port_u128x1_generic_rotate_each_word_right32 : Generic.u128x1.rotr 32 = SimdPortSrc.u128x1_generic_rotate_each_word_right32 := rfl
theorem src_port_u128x1_generic_swap1 : Generic.u128x1.swap 1 = SimdPortSrc.u128x1_generic_swap1 := by funext a; port_unfold [SimdPortSrc.u128x1_generic_swap1]; bv_decide
theorem src_port_u128x1_generic_swap2 : Generic.u128x1.swap 2 = SimdPortSrc.u128x1_generic_swap2 := by funext a; port_unfold [SimdPortSrc.u128x1_generic_swap2]; bv_decide
theorem src_port_u128x1_generic_swap4 : Generic.u128x1.swap 4 = SimdPortSrc.u128x1_generic_swap4 := by funext a; port_unfold [SimdPortSrc.u128x1_generic_swap4]; bv_decide
theorem src_port_u128x1_generic_swap8 : Generic.u128x1.swap 8 = SimdPortSrc.u128x1_generic_swap8 := by funext a; port_unfold [SimdPortSrc.u128x1_generic_swap8]; bv_decide
theorem src_port_u128x1_generic_swap16 : Generic.u128x1.swap 16 = SimdPortSrc.u128x1_generic_swap16 := by funext a; port_unfold [SimdPortSrc.u128x1_generic_swap16]; bv_decide
theorem src_port_u128x1_generic_swap32 : Generic.u128x1.swap 32 = SimdPortSrc.u128x1_generic_swap32 := by funext a; port_unfold [SimdPortSrc.u128x1_generic_swap32]; bv_decide
theorem src_port_u128x1_generic_swap64 : Generic.u128x1.swap 64 = SimdPortSrc.u128x1_generic_swap64 := by funext a; port_unfold [SimdPortSrc.u128x1_generic_swap64]; bv_decide
theorem src_port_u32x4_generic_shuffle2301 : Generic.u32x4.shuffle 2301 = SimdPortSrc.u32x4_generic_shuffle2301 := by funext a; port_unfold [SimdPortSrc.u32x4_generic_shuffle2301]; bv_decide
theorem src_port_u32x4_generic_shuffle_lane_words2301 : Generic.u32x4.shuffleLane 2301 = SimdPortSrc.u32x4_generic_shuffle_lane_words2301 := by funext a; port_unfold [SimdPortSrc.u32x4_generic_shuffle_lane_words2301]; bv_decide
theorem src_port_u64x4_generic_shuffle2301 : Generic.u64x4.shuffle 2301 = SimdPortSrc.u64x4_generic_shuffle2301 := by funext a; port_unfold [SimdPortSrc.u64x4_generic_shuffle2301, Generic.u64x4_toLanes, Generic.u64x4_fromLanes, Generic.u64x2_toLanes, Generic.u64x2_fromLanes, List.getD_cons_zero, List.getD_cons_succ, List.cons_append, List.nil_append] <;> bv_decide
theorem src_port_u32x4_generic_shuffle1230 : Generic.u32x4.shuffle 1230 = SimdPortSrc.u32x4_generic_shuffle1230 := rfl
theorem src_port_u32x4_generic_shuffle_lane_words1230 : Generic.u32x4.shuffleLane 1230 = SimdPortSrc.u32x4_generic_shuffle_lane_words1230 := rfl
theorem src_port_u64x4_generic_shuffle1230 : Generic.u64x4.shuffle 1230 = SimdPortSrc.u64x4_generic_shuffle1230 := by funext a; port_unfold [SimdPortSrc.u64x4_generic_shuffle1230, Generic.u64x4_toLanes, Generic.u64x4_fromLanes, Generic.u64x2_toLanes, Generic.u64x2_fromLanes, List.getD_cons_zero, List.getD_cons_succ, List.cons_append, List.nil_append] <;> bv_decide
theorem src_port_u32x4_generic_shuffle3012 : Generic.u32x4.shuffle 3012 = SimdPortSrc.u32x4_generic_shuffle3012 := rfl
theorem src_port_u32x4_generic_shuffle_lane_words3012 : Generic.u32x4.shuffleLane 3012 = SimdPortSrc.u32x4_generic_shuffle_lane_words3012 := rfl
theorem src_port_u64x4_generic_shuffle3012 : Generic.u64x4.shuffle 3012 = SimdPortSrc.u64x4_generic_shuffle3012 := by funext a; port_unfold [SimdPortSrc.u64x4_generic_shuffle3012, Generic.u64x4_toLanes, Generic.u64x4_fromLanes, Generic.u64x2_toLanes, Generic.u64x2_fromLanes, List.getD_cons_zero, List.getD_cons_succ, List.cons_append, List.nil_append] <;> bv_decide
theorem src_port_x2_bitand : ∀ {n n2 m : Nat} (lo hi : BitVec n2 → BitVec n) (pack : BitVec n → BitVec n → BitVec n2) (W : VOps n m), (Soft.x2g lo hi pack W).and = SimdPortSrc.x2_bitand lo hi pack W := fun _ _ _ _ => rfl
theorem src_port_x2_bitor : ∀ {n n2 m : Nat} (lo hi : BitVec n2 → BitVec n) (pack : BitVec n → BitVec n → BitVec n2) (W : VOps n m), (Soft.x2g lo hi pack W).or = SimdPortSrc.x2_bitor lo hi pack W := fun _ _ _ _ => rfl
theorem src_port_x2_bitxor : ∀ {n n2 m : Nat} (lo hi : BitVec n2 → BitVec n) (pack : BitVec n → BitVec n → BitVec n2) (W : VOps n m), (Soft.x2g lo hi pack W).xor = SimdPortSrc.x2_bitxor lo hi pack W := fun _ _ _ _ => rfl
theorem src_port_x2_andnot : ∀ {n n2 m : Nat} (lo hi : BitVec n2 → BitVec n) (pack : BitVec n → BitVec n → BitVec n2) (W : VOps n m), (Soft.x2g lo hi pack W).andnot = SimdPortSrc.x2_andnot lo hi pack W := fun _ _ _ _ => rfl
theorem src_port_x2_add : ∀ {n n2 m : Nat} (lo hi : BitVec n2 → BitVec n) (pack : BitVec n → BitVec n → BitVec n2) (W : VOps n m), (Soft.x2g lo hi pack W).add = SimdPortSrc.x2_add lo hi pack W := fun _ _ _ _ => rfl
theorem src_port_x2_bitand_assign : ∀ {n n2 m : Nat} (lo hi : BitVec n2 → BitVec n) (pack : BitVec n → BitVec n → BitVec n2) (W : VOps n m), (Soft.x2g lo hi pack W).and = SimdPortSrc.x2_bitand_assign lo hi pack W := fun _ _ _ _ => rfl
theorem src_port_x2_bitor_assign : ∀ {n n2 m : Nat} (lo hi : BitVec n2 → BitVec n) (pack : BitVec n → BitVec n → BitVec n2) (W : VOps n m), (Soft.x2g lo hi pack W).or = SimdPortSrc.x2_bitor_assign lo hi pack W := fun _ _ _ _ => rfl
theorem src_port_x2_bitxor_assign : ∀ {n n2 m : Nat} (lo hi : BitVec n2 → BitVec n) (pack : BitVec n → BitVec n → BitVec n2) (W : VOps n m), (Soft.x2g lo hi pack W).xor = SimdPortSrc.x2_bitxor_assign lo hi pack W := fun _ _ _ _ => rfl
theorem src_port_x2_add_assign : ∀ {n n2 m : Nat} (lo hi : BitVec n2 → BitVec n) (pack : BitVec n → BitVec n → BitVec n2) (W : VOps n m), (Soft.x2g lo hi pack W).add = SimdPortSrc.x2_add_assign lo hi pack W := fun _ _ _ _ => rfl
theorem src_port_x2_not : ∀ {n n2 m : Nat} (lo hi : BitVec n2 → BitVec n) (pack : BitVec n → BitVec n → BitVec n2) (W : VOps n m), (Soft.x2g lo hi pack W).not = SimdPortSrc.x2_not lo hi pack W := fun _ _ _ _ => rfl
theorem src_port_x2_bswap : ∀ {n n2 m : Nat} (lo hi : BitVec n2 → BitVec n) (pack : BitVec n → BitVec n → BitVec n2) (W : VOps n m), (Soft.x2g lo hi pack W).bswap = SimdPortSrc.x2_bswap lo hi pack W := fun _ _ _ _ => rfl
theorem src_port_x2_rotate_each_word_right7 : ∀ {n n2 m : Nat} (lo hi : BitVec n2 → BitVec n) (pack : BitVec n → BitVec n → BitVec n2) (W : VOps n m), (Soft.x2g lo hi pack W).rotr 7 = SimdPortSrc.x2_rotate_each_word_right7 lo hi pack W := fun _ _ _ _ => rfl
theorem src_port_x2_rotate_each_word_right8 : ∀ {n n2 m : Nat} (lo hi : BitVec n2 → BitVec n) (pack : BitVec n → BitVec n → BitVec n2) (W : VOps n m), (Soft.x2g lo hi pack W).rotr 8 = SimdPortSrc.x2_rotate_each_word_right8 lo hi pack W := fun _ _ _ _ => rfl
theorem src_port_x2_rotate_each_word_right11 : ∀ {n n2 m : Nat} (lo hi : BitVec n2 → BitVec n) (pack : BitVec n → BitVec n → BitVec n2) (W : VOps n m), (Soft.x2g lo hi pack W).rotr 11 = SimdPortSrc.x2_rotate_each_word_right11 lo hi pack W := fun _ _ _ _ => rfl
theorem src_port_x2_rotate_each_word_right12 : ∀ {n n2 m : Nat} (lo hi : BitVec n2 → BitVec n) (pack : BitVec n → BitVec n → BitVec n2) (W : VOps n m), (Soft.x2g lo hi pack W).rotr 12 = SimdPortSrc.x2_rotate_each_word_right12 lo hi pack W := fun _ _ _ _ => rfl
theorem src_port_x2_rotate_each_word_right16 : ∀ {n n2 m : Nat} (lo hi : BitVec n2 → BitVec n) (pack : BitVec n → BitVec n → BitVec n2) (W : VOps n m), (Soft.x2g lo hi pack W).rotr 16 = SimdPortSrc.x2_rotate_each_word_right16 lo hi pack W := fun _ _ _ _ => rfl
theorem src_port_x2_rotate_each_word_right20 : ∀ {n n2 m : Nat} (lo hi : BitVec n2 → BitVec n) (pack : BitVec n → BitVec n → BitVec n2) (W : VOps n m), (Soft.x2g lo hi pack W).rotr 20 = SimdPortSrc.x2_rotate_each_word_right20 lo hi pack W := fun _ _ _ _ => rfl
theorem src_port_x2_rotate_each_word_right24 : ∀ {n n2 m : Nat} (lo hi : BitVec n2 → BitVec n) (pack : BitVec n → BitVec n → BitVec n2) (W : VOps n m), (Soft.x2g lo hi pack W).rotr 24 = SimdPortSrc.x2_rotate_each_word_right24 lo hi pack W := fun _ _ _ _ => rfl
theorem src_port_x2_rotate_each_word_right25 : ∀ {n n2 m : Nat} (lo hi : BitVec n2 → BitVec n) (pack : BitVec n → BitVec n → BitVec n2) (W : VOps n m), (Soft.x2g lo hi pack W).rotr 25 = SimdPortSrc.x2_rotate_each_word_right25 lo hi pack W := fun _ _ _ _ => rfl
theorem src_port_x2_rotate_each_word_right32 : ∀ {n n2 m : Nat} (lo hi : BitVec n2 → BitVec n) (pack : BitVec n → BitVec n → BitVec n2) (W : VOps n m), (Soft.x2g lo hi pack W).rotr 32 = SimdPortSrc.x2_rotate_each_word_right32 lo hi pack W := fun _ _ _ _ => rfl
theorem src_port_x2_swap1 : ∀ {n n2 m : Nat} (lo hi : BitVec n2 → BitVec n) (pack : BitVec n → BitVec n → BitVec n2) (W : VOps n m), (Soft.x2g lo hi pack W).swap 1 = SimdPortSrc.x2_swap1 lo hi pack W := fun _ _ _ _ => rfl
theorem src_port_x2_swap2 : ∀ {n n2 m : Nat} (lo hi : BitVec n2 → BitVec n) (pack : BitVec n → BitVec n → BitVec n2) (W : VOps n m), (Soft.x2g lo hi pack W).swap 2 = SimdPortSrc.x2_swap2 lo hi pack W := fun _ _ _ _ => rfl
theorem src_port_x2_swap4 : ∀ {n n2 m : Nat} (lo hi : BitVec n2 → BitVec n) (pack : BitVec n → BitVec n → BitVec n2) (W : VOps n m), (Soft.x2g lo hi pack W).swap 4 = SimdPortSrc.x2_swap4 lo hi pack W := fun _ _ _ _ => rfl
theorem src_port_x2_swap8 : ∀ {n n2 m : Nat} (lo hi : BitVec n2 → BitVec n) (pack : BitVec n → BitVec n → BitVec n2) (W : VOps n m), (Soft.x2g lo hi pack W).swap 8 = SimdPortSrc.x2_swap8 lo hi pack W := fun _ _ _ _ => rfl
theorem src_port_x2_swap16 : ∀ {n n2 m : Nat} (lo hi : BitVec n2 → BitVec n) (pack : BitVec n → BitVec n → BitVec n2) (W : VOps n m), (Soft.x2g lo hi pack W).swap 16 = SimdPortSrc.x2_swap16 lo hi pack W := fun _ _ _ _ => rfl
theorem src_port_x2_swap32 : ∀ {n n2 m : Nat} (lo hi : BitVec n2 → BitVec n) (pack : BitVec n → BitVec n → BitVec n2) (W : VOps n m), (Soft.x2g lo hi pack W).swap 32 = SimdPortSrc.x2_swap32 lo hi pack W := fun _ _ _ _ => rfl
theorem src_port_x2_swap64 : ∀ {n n2 m : Nat} (lo hi : BitVec n2 → BitVec n) (pack : BitVec n → BitVec n → BitVec n2) (W : VOps n m), (Soft.x2g lo hi pack W).swap 64 = SimdPortSrc.x2_swap64 lo hi pack W := fun _ _ _ _ => rfl
theorem src_port_x2_shuffle_lane_words2301 : ∀ {n n2 m : Nat} (lo hi : BitVec n2 → BitVec n) (pack : BitVec n → BitVec n → BitVec n2) (W : VOps n m), (Soft.x2g lo hi pack W).shuffleLane 2301 = SimdPortSrc.x2_shuffle_lane_words2301 lo hi pack W := fun _ _ _ _ => rfl
theorem src_port_x2_shuffle_lane_words1230 : ∀ {n n2 m : Nat} (lo hi : BitVec n2 → BitVec n) (pack : BitVec n → BitVec n → BitVec n2) (W : VOps n m), (Soft.x2g lo hi pack W).shuffleLane 1230 = SimdPortSrc.x2_shuffle_lane_words1230 lo hi pack W := fun _ _ _ _ => rfl
theorem src_port_x2_shuffle_lane_words3012 : ∀ {n n2 m : Nat} (lo hi : BitVec n2 → BitVec n) (pack : BitVec n → BitVec n → BitVec n2) (W : VOps n m), (Soft.x2g lo hi pack W).shuffleLane 3012 = SimdPortSrc.x2_shuffle_lane_words3012 lo hi pack W := fun _ _ _ _ => rfl
theorem src_port_x4_bitand : ∀ {m : Nat} (W : VOps 128 m), (Soft.x4 W).and = SimdPortSrc.x4_bitand W := fun _ => rfl
theorem src_port_x4_bitor : ∀ {m : Nat} (W : VOps 128 m), (Soft.x4 W).or = SimdPortSrc.x4_bitor W := fun _ => rfl
theorem src_port_x4_bitxor : ∀ {m : Nat} (W : VOps 128 m), (Soft.x4 W).xor = SimdPortSrc.x4_bitxor W := fun _ => rfl
theorem src_port_x4_andnot : ∀ {m : Nat} (W : VOps 128 m), (Soft.x4 W).andnot = SimdPortSrc.x4_andnot W := fun _ => rfl
theorem src_port_x4_add : ∀ {m : Nat} (W : VOps 128 m), (Soft.x4 W).add = SimdPortSrc.x4_add W := fun _ => rfl
theorem src_port_x4_bitand_assign : ∀ {m : Nat} (W : VOps 128 m), (Soft.x4 W).and = SimdPortSrc.x4_bitand_assign W := fun _ => rfl
theorem src_port_x4_bitor_assign : ∀ {m : Nat} (W : VOps 128 m), (Soft.x4 W).or = SimdPortSrc.x4_bitor_assign W := fun _ => rfl
theorem src_port_x4_bitxor_assign : ∀ {m : Nat} (W : VOps 128 m), (Soft.x4 W).xor = SimdPortSrc.x4_bitxor_assign W := fun _ => rfl
theorem src_port_x4_add_assign : ∀ {m : Nat} (W : VOps 128 m), (Soft.x4 W).add = SimdPortSrc.x4_add_assign W := fun _ => rfl
theorem src_port_x4_not : ∀ {m : Nat} (W : VOps 128 m), (Soft.x4 W).not = SimdPortSrc.x4_not W := fun _ => rfl
theorem src_port_x4_bswap : ∀ {m : Nat} (W : VOps 128 m), (Soft.x4 W).bswap = SimdPortSrc.x4_bswap W := fun _ => rfl
theorem src_port_x4_rotate_each_word_right7 : ∀ {m : Nat} (W : VOps 128 m), (Soft.x4 W).rotr 7 = SimdPortSrc.x4_rotate_each_word_right7 W := fun _ => rfl
theorem src_port_x4_rotate_each_word_right8 : ∀ {m : Nat} (W : VOps 128 m), (Soft.x4 W).rotr 8 = SimdPortSrc.x4_rotate_each_word_right8 W := fun _ => rfl
theorem src_port_x4_rotate_each_word_right11 : ∀ {m : Nat} (W : VOps 128 m), (Soft.x4 W).rotr 11 = SimdPortSrc.x4_rotate_each_word_right11 W := fun _ => rfl
theorem src_port_x4_rotate_each_word_right12 : ∀ {m : Nat} (W : VOps 128 m), (Soft.x4 W).rotr 12 = SimdPortSrc.x4_rotate_each_word_right12 W := fun _ => rfl
theorem src_port_x4_rotate_each_word_right16 : ∀ {m : Nat} (W : VOps 128 m), (Soft.x4 W).rotr 16 = SimdPortSrc.x4_rotate_each_word_right16 W := fun _ => rfl
theorem src_port_x4_rotate_each_word_right20 : ∀ {m : Nat} (W : VOps 128 m), (Soft.x4 W).rotr 20 = SimdPortSrc.x4_rotate_each_word_right20 W := fun _ => rfl
theorem src_port_x4_rotate_each_word_right24 : ∀ {m : Nat} (W : VOps 128 m), (Soft.x4 W).rotr 24 = SimdPortSrc.x4_rotate_each_word_right24 W := fun _ => rfl
theorem src_port_x4_rotate_each_word_right25 : ∀ {m : Nat} (W : VOps 128 m), (Soft.x4 W).rotr 25 = SimdPortSrc.x4_rotate_each_word_right25 W := fun _ => rfl
theorem src_port_x4_rotate_each_word_right32 : ∀ {m : Nat} (W : VOps 128 m), (Soft.x4 W).rotr 32 = SimdPortSrc.x4_rotate_each_word_right32 W := fun _ => rfl
theorem src_port_x4_swap1 : ∀ {m : Nat} (W : VOps 128 m), (Soft.x4 W).swap 1 = SimdPortSrc.x4_swap1 W := fun _ => rfl
theorem src_port_x4_swap2 : ∀ {m : Nat} (W : VOps 128 m), (Soft.x4 W).swap 2 = SimdPortSrc.x4_swap2 W := fun _ => rfl
theorem src_port_x4_swap4 : ∀ {m : Nat} (W : VOps 128 m), (Soft.x4 W).swap 4 = SimdPortSrc.x4_swap4 W := fun _ => rfl
theorem src_port_x4_swap8 : ∀ {m : Nat} (W : VOps 128 m), (Soft.x4 W).swap 8 = SimdPortSrc.x4_swap8 W := fun _ => rfl
theorem src_port_x4_swap16 : ∀ {m : Nat} (W : VOps 128 m), (Soft.x4 W).swap 16 = SimdPortSrc.x4_swap16 W := fun _ => rfl
theorem src_port_x4_swap32 : ∀ {m : Nat} (W : VOps 128 m), (Soft.x4 W).swap 32 = SimdPortSrc.x4_swap32 W := fun _ => rfl
theorem src_port_x4_swap64 : ∀ {m : Nat} (W : VOps 128 m), (Soft.x4 W).swap 64 = SimdPortSrc.x4_swap64 W := fun _ => rfl
theorem src_port_x4_shuffle_lane_words2301 : ∀ {m : Nat} (W : VOps 128 m), (Soft.x4 W).shuffleLane 2301 = SimdPortSrc.x4_shuffle_lane_words2301 W := fun _ => rfl
theorem src_port_x4_shuffle_lane_words1230 : ∀ {m : Nat} (W : VOps 128 m), (Soft.x4 W).shuffleLane 1230 = SimdPortSrc.x4_shuffle_lane_words1230 W := fun _ => rfl
theorem src_port_x4_shuffle_lane_words3012 : ∀ {m : Nat} (W : VOps 128 m), (Soft.x4 W).shuffleLane 3012 = SimdPortSrc.x4_shuffle_lane_words3012 W := fun _ => rfl
theorem src_port_generic_free_fns : SimdPortSrc.generic_free_fns = [
      ("dmap", ["generic"]),
      ("dmap2", ["generic"]),
      ("o_of_q", ["plain"]),
      ("omap", ["generic"]),
      ("omap2", ["generic"]),
      ("q_of_o", ["plain"]),
      ("qmap", ["generic"]),
      ("qmap2", ["generic"]),
      ("rotate_u128_right", ["plain"])] := rfl
theorem src_port_generic_impls : SimdPortSrc.generic_impls = [
      ("Add for u128x1_generic", ["type Output = Self", "fn add"]),
      ("Add for u32x4_generic", ["type Output = Self", "fn add"]),
      ("Add for u64x2_generic", ["type Output = Self", "fn add"]),
      ("AddAssign for u128x1_generic", ["fn add_assign"]),
      ("AddAssign for u32x4_generic", ["fn add_assign"]),
      ("AddAssign for u64x2_generic", ["fn add_assign"]),
      ("AndNot for u128x1_generic", ["type Output = Self", "fn andnot"]),
      ("AndNot for u32x4_generic", ["type Output = Self", "fn andnot"]),
      ("AndNot for u64x2_generic", ["type Output = Self", "fn andnot"]),
      ("ArithOps for u128x1_generic", []),
      ("ArithOps for u32x4_generic", []),
      ("ArithOps for u64x2_generic", []),
      ("BSwap for u128x1_generic", ["fn bswap"]),
      ("BSwap for u32x4_generic", ["fn bswap"]),
      ("BSwap for u64x2_generic", ["fn bswap"]),
      ("BitAnd for u128x1_generic", ["type Output = Self", "fn bitand"]),
      ("BitAnd for u32x4_generic", ["type Output = Self", "fn bitand"]),
      ("BitAnd for u64x2_generic", ["type Output = Self", "fn bitand"]),
      ("BitAndAssign for u128x1_generic", ["fn bitand_assign"]),
      ("BitAndAssign for u32x4_generic", ["fn bitand_assign"]),
      ("BitAndAssign for u64x2_generic", ["fn bitand_assign"]),
      ("BitOps0 for u128x1_generic", []),
      ("BitOps0 for u32x4_generic", []),
      ("BitOps0 for u64x2_generic", []),
      ("BitOps128 for u128x1_generic", []),
      ("BitOps32 for u128x1_generic", []),
      ("BitOps32 for u32x4_generic", []),
      ("BitOps32 for u64x2_generic", []),
      ("BitOps64 for u128x1_generic", []),
      ("BitOps64 for u64x2_generic", []),
      ("BitOr for u128x1_generic", ["type Output = Self", "fn bitor"]),
      ("BitOr for u32x4_generic", ["type Output = Self", "fn bitor"]),
      ("BitOr for u64x2_generic", ["type Output = Self", "fn bitor"]),
      ("BitOrAssign for u128x1_generic", ["fn bitor_assign"]),
      ("BitOrAssign for u32x4_generic", ["fn bitor_assign"]),
      ("BitOrAssign for u64x2_generic", ["fn bitor_assign"]),
      ("BitXor for u128x1_generic", ["type Output = Self", "fn bitxor"]),
      ("BitXor for u32x4_generic", ["type Output = Self", "fn bitxor"]),
      ("BitXor for u64x2_generic", ["type Output = Self", "fn bitxor"]),
      ("BitXorAssign for u128x1_generic", ["fn bitxor_assign"]),
      ("BitXorAssign for u32x4_generic", ["fn bitxor_assign"]),
      ("BitXorAssign for u64x2_generic", ["fn bitxor_assign"]),
      ("Default for vec128_storage", ["fn default"]),
      ("Eq for vec128_storage", []),
      ("From<[u32; 4]> for vec128_storage", ["fn from"]),
      ("From<[u64; 2]> for vec128_storage", ["fn from"]),
      ("From<[u64; 4]> for vec256_storage", ["fn from"]),
      ("From<u128x1_generic> for vec128_storage", ["fn from"]),
      ("From<u32x4_generic> for vec128_storage", ["fn from"]),
      ("From<u64x2_generic> for vec128_storage", ["fn from"]),
      ("From<vec128_storage> for [u32; 4]", ["fn from"]),
      ("From<vec128_storage> for [u64; 2]", ["fn from"]),
      ("From<vec256_storage> for [u64; 4]", ["fn from"]),
      ("LaneWords4 for u32x4_generic", ["fn shuffle_lane_words1230", "fn shuffle_lane_words2301", "fn shuffle_lane_words3012"]),
      ("Machine for GenericMachine", ["type u128x1 = u128x1_generic", "type u128x2 = u128x2_generic", "type u128x4 = u128x4_generic", "type u32x4 = u32x4_generic", "type u32x4x2 = u32x4x2_generic", "type u32x4x4 = u32x4x4_generic", "type u64x2 = u64x2_generic", "type u64x2x2 = u64x2x2_generic", "type u64x2x4 = u64x2x4_generic", "type u64x4 = u64x4_generic", "fn instance"]),
      ("MultiLane<[u128; 1]> for u128x1_generic", ["fn from_lanes", "fn to_lanes"]),
      ("MultiLane<[u32; 4]> for u32x4_generic", ["fn from_lanes", "fn to_lanes"]),
      ("MultiLane<[u64; 2]> for u64x2_generic", ["fn from_lanes", "fn to_lanes"]),
      ("MultiLane<[u64; 4]> for u64x4_generic", ["fn from_lanes", "fn to_lanes"]),
      ("Not for u128x1_generic", ["type Output = Self", "fn not"]),
      ("Not for u32x4_generic", ["type Output = Self", "fn not"]),
      ("Not for u64x2_generic", ["type Output = Self", "fn not"]),
      ("PartialEq<vec128_storage> for vec128_storage", ["fn eq"]),
      ("RotateEachWord128 for u128x1_generic", []),
      ("RotateEachWord32 for u128x1_generic", ["fn rotate_each_word_right11", "fn rotate_each_word_right12", "fn rotate_each_word_right16", "fn rotate_each_word_right20", "fn rotate_each_word_right24", "fn rotate_each_word_right25", "fn rotate_each_word_right7", "fn rotate_each_word_right8"]),
      ("RotateEachWord32 for u32x4_generic", ["fn rotate_each_word_right11", "fn rotate_each_word_right12", "fn rotate_each_word_right16", "fn rotate_each_word_right20", "fn rotate_each_word_right24", "fn rotate_each_word_right25", "fn rotate_each_word_right7", "fn rotate_each_word_right8"]),
      ("RotateEachWord32 for u64x2_generic", ["fn rotate_each_word_right11", "fn rotate_each_word_right12", "fn rotate_each_word_right16", "fn rotate_each_word_right20", "fn rotate_each_word_right24", "fn rotate_each_word_right25", "fn rotate_each_word_right7", "fn rotate_each_word_right8"]),
      ("RotateEachWord64 for u128x1_generic", ["fn rotate_each_word_right32"]),
      ("RotateEachWord64 for u64x2_generic", ["fn rotate_each_word_right32"]),
      ("Store<vec128_storage> for u128x1_generic", ["fn unpack"]),
      ("Store<vec128_storage> for u32x4_generic", ["fn unpack"]),
      ("Store<vec128_storage> for u64x2_generic", ["fn unpack"]),
      ("StoreBytes for u32x4_generic", ["fn unsafe_read_be", "fn unsafe_read_le", "fn write_be", "fn write_le"]),
      ("StoreBytes for u64x2_generic", ["fn unsafe_read_be", "fn unsafe_read_le", "fn write_be", "fn write_le"]),
      ("Swap64 for u128x1_generic", ["fn swap1", "fn swap16", "fn swap2", "fn swap32", "fn swap4", "fn swap64", "fn swap8"]),
      ("Swap64 for u32x4_generic", ["fn swap1", "fn swap16", "fn swap2", "fn swap32", "fn swap4", "fn swap64", "fn swap8"]),
      ("Swap64 for u64x2_generic", ["fn swap1", "fn swap16", "fn swap2", "fn swap32", "fn swap4", "fn swap64", "fn swap8"]),
      ("Vec2<u64> for u64x2_generic", ["fn extract", "fn insert"]),
      ("Vec4<u32> for u32x4_generic", ["fn extract", "fn insert"]),
      ("Vec4<u64> for u64x4_generic", ["fn extract", "fn insert"]),
      ("Vector<[u32; 16]> for u32x4x4_generic", ["fn to_scalars"]),
      ("Words4 for u32x4_generic", ["fn shuffle1230", "fn shuffle2301", "fn shuffle3012"]),
      ("Words4 for u64x4_generic", ["fn shuffle1230", "fn shuffle2301", "fn shuffle3012"]),
      ("u128x1<GenericMachine> for u128x1_generic", []),
      ("u128x2<GenericMachine> for u128x2_generic", []),
      ("u128x4<GenericMachine> for u128x4_generic", []),
      ("u32x4<GenericMachine> for u32x4_generic", []),
      ("u32x4x2<GenericMachine> for u32x4x2_generic", []),
      ("u32x4x4<GenericMachine> for u32x4x4_generic", []),
      ("u64x2<GenericMachine> for u64x2_generic", []),
      ("u64x2x2<GenericMachine> for u64x2x2_generic", []),
      ("u64x2x4<GenericMachine> for u64x2x4_generic", []),
      ("u64x4<GenericMachine> for u64x4_generic", []),
      ("vec256_storage", ["fn new128", "fn split128"]),
      ("vec512_storage", ["fn new128", "fn split128"])] := rfl
theorem src_port_soft_free_fns : SimdPortSrc.soft_free_fns = [
] := rfl
theorem src_port_soft_impls : SimdPortSrc.soft_impls = [
      ("<W, G> Add for x2<W, G>", ["type Output = x2 < W :: Output , G >", "fn add"]),
      ("<W, G> AddAssign for x2<W, G>", ["fn add_assign"]),
      ("<W, G> AndNot for x2<W, G>", ["type Output = x2 < W :: Output , G >", "fn andnot"]),
      ("<W, G> ArithOps for x2<W, G>", []),
      ("<W, G> BSwap for x2<W, G>", ["fn bswap"]),
      ("<W, G> BitAnd for x2<W, G>", ["type Output = x2 < W :: Output , G >", "fn bitand"]),
      ("<W, G> BitAndAssign for x2<W, G>", ["fn bitand_assign"]),
      ("<W, G> BitOps0 for x2<W, G>", []),
      ("<W, G> BitOps128 for x2<W, G>", []),
      ("<W, G> BitOps32 for x2<W, G>", []),
      ("<W, G> BitOps64 for x2<W, G>", []),
      ("<W, G> BitOr for x2<W, G>", ["type Output = x2 < W :: Output , G >", "fn bitor"]),
      ("<W, G> BitOrAssign for x2<W, G>", ["fn bitor_assign"]),
      ("<W, G> BitXor for x2<W, G>", ["type Output = x2 < W :: Output , G >", "fn bitxor"]),
      ("<W, G> BitXorAssign for x2<W, G>", ["fn bitxor_assign"]),
      ("<W, G> From<x2<W, G>> for vec256_storage", ["fn from"]),
      ("<W, G> LaneWords4 for x2<W, G>", ["fn shuffle_lane_words1230", "fn shuffle_lane_words2301", "fn shuffle_lane_words3012"]),
      ("<W, G> MultiLane<[W; 2]> for x2<W, G>", ["fn from_lanes", "fn to_lanes"]),
      ("<W, G> Not for x2<W, G>", ["type Output = x2 < W :: Output , G >", "fn not"]),
      ("<W, G> RotateEachWord128 for x2<W, G>", []),
      ("<W, G> RotateEachWord32 for x2<W, G>", ["fn rotate_each_word_right11", "fn rotate_each_word_right12", "fn rotate_each_word_right16", "fn rotate_each_word_right20", "fn rotate_each_word_right24", "fn rotate_each_word_right25", "fn rotate_each_word_right7", "fn rotate_each_word_right8"]),
      ("<W, G> RotateEachWord64 for x2<W, G>", ["fn rotate_each_word_right32"]),
      ("<W, G> Store<vec256_storage> for x2<W, G>", ["fn unpack"]),
      ("<W, G> StoreBytes for x2<W, G>", ["fn unsafe_read_be", "fn unsafe_read_le", "fn write_be", "fn write_le"]),
      ("<W, G> Swap64 for x2<W, G>", ["fn swap1", "fn swap16", "fn swap2", "fn swap32", "fn swap4", "fn swap64", "fn swap8"]),
      ("<W, G> UnsafeFrom<[W; 2]> for x2<W, G>", ["fn unsafe_from"]),
      ("<W, G> Vec2<W> for x2<W, G>", ["fn extract", "fn insert"]),
      ("<W, G> x2<W, G>", ["fn new"]),
      ("<W> Add for x4<W>", ["type Output = x4 < W :: Output >", "fn add"]),
      ("<W> AddAssign for x4<W>", ["fn add_assign"]),
      ("<W> AndNot for x4<W>", ["type Output = x4 < W :: Output >", "fn andnot"]),
      ("<W> ArithOps for x4<W>", []),
      ("<W> BSwap for x4<W>", ["fn bswap"]),
      ("<W> BitAnd for x4<W>", ["type Output = x4 < W :: Output >", "fn bitand"]),
      ("<W> BitAndAssign for x4<W>", ["fn bitand_assign"]),
      ("<W> BitOps0 for x4<W>", []),
      ("<W> BitOps128 for x4<W>", []),
      ("<W> BitOps32 for x4<W>", []),
      ("<W> BitOps64 for x4<W>", []),
      ("<W> BitOr for x4<W>", ["type Output = x4 < W :: Output >", "fn bitor"]),
      ("<W> BitOrAssign for x4<W>", ["fn bitor_assign"]),
      ("<W> BitXor for x4<W>", ["type Output = x4 < W :: Output >", "fn bitxor"]),
      ("<W> BitXorAssign for x4<W>", ["fn bitxor_assign"]),
      ("<W> From<x4<W>> for vec512_storage", ["fn from"]),
      ("<W> LaneWords4 for x4<W>", ["fn shuffle_lane_words1230", "fn shuffle_lane_words2301", "fn shuffle_lane_words3012"]),
      ("<W> MultiLane<[W; 4]> for x4<W>", ["fn from_lanes", "fn to_lanes"]),
      ("<W> Not for x4<W>", ["type Output = x4 < W :: Output >", "fn not"]),
      ("<W> RotateEachWord128 for x4<W>", []),
      ("<W> RotateEachWord32 for x4<W>", ["fn rotate_each_word_right11", "fn rotate_each_word_right12", "fn rotate_each_word_right16", "fn rotate_each_word_right20", "fn rotate_each_word_right24", "fn rotate_each_word_right25", "fn rotate_each_word_right7", "fn rotate_each_word_right8"]),
      ("<W> RotateEachWord64 for x4<W>", ["fn rotate_each_word_right32"]),
      ("<W> Store<vec512_storage> for x4<W>", ["fn unpack"]),
      ("<W> StoreBytes for x4<W>", ["fn unsafe_read_be", "fn unsafe_read_le", "fn write_be", "fn write_le"]),
      ("<W> Swap64 for x4<W>", ["fn swap1", "fn swap16", "fn swap2", "fn swap32", "fn swap4", "fn swap64", "fn swap8"]),
      ("<W> UnsafeFrom<[W; 4]> for x4<W>", ["fn unsafe_from"]),
      ("<W> Vec4<W> for x4<W>", ["fn extract", "fn insert"]),
      ("<W> Vec4Ext<W> for x4<W>", ["fn transpose4"]),
      ("<W> x4<W>", ["fn new"])] := rfl
theorem src_port_simdport_errors : SimdPortSrc.simdport_errors = [] := rfl

/-- word-wise operations of the portable backend and of the `x2` / `x4` wrappers: model = source (C12) -/
structure PortWordwise : Prop where
  u32x4_generic_bitand : Generic.u32x4.and = SimdPortSrc.u32x4_generic_bitand
  u32x4_generic_bitor : Generic.u32x4.or = SimdPortSrc.u32x4_generic_bitor
  u32x4_generic_bitxor : Generic.u32x4.xor = SimdPortSrc.u32x4_generic_bitxor
  u32x4_generic_andnot : Generic.u32x4.andnot = SimdPortSrc.u32x4_generic_andnot
  u32x4_generic_add : Generic.u32x4.add = SimdPortSrc.u32x4_generic_add
  u32x4_generic_bitand_assign : Generic.u32x4.and = SimdPortSrc.u32x4_generic_bitand_assign
  u32x4_generic_bitor_assign : Generic.u32x4.or = SimdPortSrc.u32x4_generic_bitor_assign
  u32x4_generic_bitxor_assign : Generic.u32x4.xor = SimdPortSrc.u32x4_generic_bitxor_assign
  u32x4_generic_add_assign : Generic.u32x4.add = SimdPortSrc.u32x4_generic_add_assign
  u32x4_generic_not : Generic.u32x4.not = SimdPortSrc.u32x4_generic_not
  u32x4_generic_bswap : Generic.u32x4.bswap = SimdPortSrc.u32x4_generic_bswap
  u32x4_generic_rotate_each_word_right7 : Generic.u32x4.rotr 7 = SimdPortSrc.u32x4_generic_rotate_each_word_right7
  u32x4_generic_rotate_each_word_right8 : Generic.u32x4.rotr 8 = SimdPortSrc.u32x4_generic_rotate_each_word_right8
  u32x4_generic_rotate_each_word_right11 : Generic.u32x4.rotr 11 = SimdPortSrc.u32x4_generic_rotate_each_word_right11
  u32x4_generic_rotate_each_word_right12 : Generic.u32x4.rotr 12 = SimdPortSrc.u32x4_generic_rotate_each_word_right12
  u32x4_generic_rotate_each_word_right16 : Generic.u32x4.rotr 16 = SimdPortSrc.u32x4_generic_rotate_each_word_right16
  u32x4_generic_rotate_each_word_right20 : Generic.u32x4.rotr 20 = SimdPortSrc.u32x4_generic_rotate_each_word_right20
  u32x4_generic_rotate_each_word_right24 : Generic.u32x4.rotr 24 = SimdPortSrc.u32x4_generic_rotate_each_word_right24
  u32x4_generic_rotate_each_word_right25 : Generic.u32x4.rotr 25 = SimdPortSrc.u32x4_generic_rotate_each_word_right25
  u32x4_generic_swap1 : Generic.u32x4.swap 1 = SimdPortSrc.u32x4_generic_swap1
  u32x4_generic_swap2 : Generic.u32x4.swap 2 = SimdPortSrc.u32x4_generic_swap2
  u32x4_generic_swap4 : Generic.u32x4.swap 4 = SimdPortSrc.u32x4_generic_swap4
  u32x4_generic_swap8 : Generic.u32x4.swap 8 = SimdPortSrc.u32x4_generic_swap8
  u32x4_generic_swap16 : Generic.u32x4.swap 16 = SimdPortSrc.u32x4_generic_swap16
  u32x4_generic_swap32 : Generic.u32x4.swap 32 = SimdPortSrc.u32x4_generic_swap32
  u32x4_generic_swap64 : Generic.u32x4.swap 64 = SimdPortSrc.u32x4_generic_swap64
  u64x2_generic_bitand : Generic.u64x2.and = SimdPortSrc.u64x2_generic_bitand
  u64x2_generic_bitor : Generic.u64x2.or = SimdPortSrc.u64x2_generic_bitor
  u64x2_generic_bitxor : Generic.u64x2.xor = SimdPortSrc.u64x2_generic_bitxor
  u64x2_generic_andnot : Generic.u64x2.andnot = SimdPortSrc.u64x2_generic_andnot
  u64x2_generic_add : Generic.u64x2.add = SimdPortSrc.u64x2_generic_add
  u64x2_generic_bitand_assign : Generic.u64x2.and = SimdPortSrc.u64x2_generic_bitand_assign
  u64x2_generic_bitor_assign : Generic.u64x2.or = SimdPortSrc.u64x2_generic_bitor_assign
  u64x2_generic_bitxor_assign : Generic.u64x2.xor = SimdPortSrc.u64x2_generic_bitxor_assign
  u64x2_generic_add_assign : Generic.u64x2.add = SimdPortSrc.u64x2_generic_add_assign
  u64x2_generic_not : Generic.u64x2.not = SimdPortSrc.u64x2_generic_not
  u64x2_generic_bswap : Generic.u64x2.bswap = SimdPortSrc.u64x2_generic_bswap
  u64x2_generic_rotate_each_word_right7 : Generic.u64x2.rotr 7 = SimdPortSrc.u64x2_generic_rotate_each_word_right7
  u64x2_generic_rotate_each_word_right8 : Generic.u64x2.rotr 8 = SimdPortSrc.u64x2_generic_rotate_each_word_right8
  u64x2_generic_rotate_each_word_right11 : Generic.u64x2.rotr 11 = SimdPortSrc.u64x2_generic_rotate_each_word_right11
  u64x2_generic_rotate_each_word_right12 : Generic.u64x2.rotr 12 = SimdPortSrc.u64x2_generic_rotate_each_word_right12
  u64x2_generic_rotate_each_word_right16 : Generic.u64x2.rotr 16 = SimdPortSrc.u64x2_generic_rotate_each_word_right16
  u64x2_generic_rotate_each_word_right20 : Generic.u64x2.rotr 20 = SimdPortSrc.u64x2_generic_rotate_each_word_right20
  u64x2_generic_rotate_each_word_right24 : Generic.u64x2.rotr 24 = SimdPortSrc.u64x2_generic_rotate_each_word_right24
  u64x2_generic_rotate_each_word_right25 : Generic.u64x2.rotr 25 = SimdPortSrc.u64x2_generic_rotate_each_word_right25
  u64x2_generic_rotate_each_word_right32 : Generic.u64x2.rotr 32 = SimdPortSrc.u64x2_generic_rotate_each_word_right32
  u64x2_generic_swap1 : Generic.u64x2.swap 1 = SimdPortSrc.u64x2_generic_swap1
  u64x2_generic_swap2 : Generic.u64x2.swap 2 = SimdPortSrc.u64x2_generic_swap2
  u64x2_generic_swap4 : Generic.u64x2.swap 4 = SimdPortSrc.u64x2_generic_swap4
  u64x2_generic_swap8 : Generic.u64x2.swap 8 = SimdPortSrc.u64x2_generic_swap8
  u64x2_generic_swap16 : Generic.u64x2.swap 16 = SimdPortSrc.u64x2_generic_swap16
  u64x2_generic_swap32 : Generic.u64x2.swap 32 = SimdPortSrc.u64x2_generic_swap32
  u64x2_generic_swap64 : Generic.u64x2.swap 64 = SimdPortSrc.u64x2_generic_swap64
  u128x1_generic_bitand : Generic.u128x1.and = SimdPortSrc.u128x1_generic_bitand
  u128x1_generic_bitor : Generic.u128x1.or = SimdPortSrc.u128x1_generic_bitor
  u128x1_generic_bitxor : Generic.u128x1.xor = SimdPortSrc.u128x1_generic_bitxor
  u128x1_generic_andnot : Generic.u128x1.andnot = SimdPortSrc.u128x1_generic_andnot
  u128x1_generic_add : Generic.u128x1.add = SimdPortSrc.u128x1_generic_add
  u128x1_generic_bitand_assign : Generic.u128x1.and = SimdPortSrc.u128x1_generic_bitand_assign
  u128x1_generic_bitor_assign : Generic.u128x1.or = SimdPortSrc.u128x1_generic_bitor_assign
  u128x1_generic_bitxor_assign : Generic.u128x1.xor = SimdPortSrc.u128x1_generic_bitxor_assign
  u128x1_generic_add_assign : Generic.u128x1.add = SimdPortSrc.u128x1_generic_add_assign
  u128x1_generic_not : Generic.u128x1.not = SimdPortSrc.u128x1_generic_not
  u128x1_generic_bswap : Generic.u128x1.bswap = SimdPortSrc.u128x1_generic_bswap
  u128x1_generic_rotate_each_word_right7 : Generic.u128x1.rotr 7 = SimdPortSrc.u128x1_generic_rotate_each_word_right7
  u128x1_generic_rotate_each_word_right8 : Generic.u128x1.rotr 8 = SimdPortSrc.u128x1_generic_rotate_each_word_right8
  u128x1_generic_rotate_each_word_right11 : Generic.u128x1.rotr 11 = SimdPortSrc.u128x1_generic_rotate_each_word_right11
  u128x1_generic_rotate_each_word_right12 : Generic.u128x1.rotr 12 = SimdPortSrc.u128x1_generic_rotate_each_word_right12
  u128x1_generic_rotate_each_word_right16 : Generic.u128x1.rotr 16 = SimdPortSrc.u128x1_generic_rotate_each_word_right16
  u128x1_generic_rotate_each_word_right20 : Generic.u128x1.rotr 20 = SimdPortSrc.u128x1_generic_rotate_each_word_right20
  u128x1_generic_rotate_each_word_right24 : Generic.u128x1.rotr 24 = SimdPortSrc.u128x1_generic_rotate_each_word_right24
  u128x1_generic_rotate_each_word_right25 : Generic.u128x1.rotr 25 = SimdPortSrc.u128x1_generic_rotate_each_word_right25
  u128x1_generic_rotate_each_word_right32 : Generic.u128x1.rotr 32 = SimdPortSrc.u128x1_generic_rotate_each_word_right32
  u128x1_generic_swap1 : Generic.u128x1.swap 1 = SimdPortSrc.u128x1_generic_swap1
  u128x1_generic_swap2 : Generic.u128x1.swap 2 = SimdPortSrc.u128x1_generic_swap2
  u128x1_generic_swap4 : Generic.u128x1.swap 4 = SimdPortSrc.u128x1_generic_swap4
  u128x1_generic_swap8 : Generic.u128x1.swap 8 = SimdPortSrc.u128x1_generic_swap8
  u128x1_generic_swap16 : Generic.u128x1.swap 16 = SimdPortSrc.u128x1_generic_swap16
  u128x1_generic_swap32 : Generic.u128x1.swap 32 = SimdPortSrc.u128x1_generic_swap32
  u128x1_generic_swap64 : Generic.u128x1.swap 64 = SimdPortSrc.u128x1_generic_swap64
  u32x4_generic_shuffle2301 : Generic.u32x4.shuffle 2301 = SimdPortSrc.u32x4_generic_shuffle2301
  u32x4_generic_shuffle_lane_words2301 : Generic.u32x4.shuffleLane 2301 = SimdPortSrc.u32x4_generic_shuffle_lane_words2301
  u64x4_generic_shuffle2301 : Generic.u64x4.shuffle 2301 = SimdPortSrc.u64x4_generic_shuffle2301
  u32x4_generic_shuffle1230 : Generic.u32x4.shuffle 1230 = SimdPortSrc.u32x4_generic_shuffle1230
  u32x4_generic_shuffle_lane_words1230 : Generic.u32x4.shuffleLane 1230 = SimdPortSrc.u32x4_generic_shuffle_lane_words1230
  u64x4_generic_shuffle1230 : Generic.u64x4.shuffle 1230 = SimdPortSrc.u64x4_generic_shuffle1230
  u32x4_generic_shuffle3012 : Generic.u32x4.shuffle 3012 = SimdPortSrc.u32x4_generic_shuffle3012
  u32x4_generic_shuffle_lane_words3012 : Generic.u32x4.shuffleLane 3012 = SimdPortSrc.u32x4_generic_shuffle_lane_words3012
  u64x4_generic_shuffle3012 : Generic.u64x4.shuffle 3012 = SimdPortSrc.u64x4_generic_shuffle3012
  x2_bitand : ∀ {n n2 m : Nat} (lo hi : BitVec n2 → BitVec n) (pack : BitVec n → BitVec n → BitVec n2) (W : VOps n m), (Soft.x2g lo hi pack W).and = SimdPortSrc.x2_bitand lo hi pack W
  x2_bitor : ∀ {n n2 m : Nat} (lo hi : BitVec n2 → BitVec n) (pack : BitVec n → BitVec n → BitVec n2) (W : VOps n m), (Soft.x2g lo hi pack W).or = SimdPortSrc.x2_bitor lo hi pack W
  x2_bitxor : ∀ {n n2 m : Nat} (lo hi : BitVec n2 → BitVec n) (pack : BitVec n → BitVec n → BitVec n2) (W : VOps n m), (Soft.x2g lo hi pack W).xor = SimdPortSrc.x2_bitxor lo hi pack W
  x2_andnot : ∀ {n n2 m : Nat} (lo hi : BitVec n2 → BitVec n) (pack : BitVec n → BitVec n → BitVec n2) (W : VOps n m), (Soft.x2g lo hi pack W).andnot = SimdPortSrc.x2_andnot lo hi pack W
  x2_add : ∀ {n n2 m : Nat} (lo hi : BitVec n2 → BitVec n) (pack : BitVec n → BitVec n → BitVec n2) (W : VOps n m), (Soft.x2g lo hi pack W).add = SimdPortSrc.x2_add lo hi pack W
  x2_bitand_assign : ∀ {n n2 m : Nat} (lo hi : BitVec n2 → BitVec n) (pack : BitVec n → BitVec n → BitVec n2) (W : VOps n m), (Soft.x2g lo hi pack W).and = SimdPortSrc.x2_bitand_assign lo hi pack W
  x2_bitor_assign : ∀ {n n2 m : Nat} (lo hi : BitVec n2 → BitVec n) (pack : BitVec n → BitVec n → BitVec n2) (W : VOps n m), (Soft.x2g lo hi pack W).or = SimdPortSrc.x2_bitor_assign lo hi pack W
  x2_bitxor_assign : ∀ {n n2 m : Nat} (lo hi : BitVec n2 → BitVec n) (pack : BitVec n → BitVec n → BitVec n2) (W : VOps n m), (Soft.x2g lo hi pack W).xor = SimdPortSrc.x2_bitxor_assign lo hi pack W
  x2_add_assign : ∀ {n n2 m : Nat} (lo hi : BitVec n2 → BitVec n) (pack : BitVec n → BitVec n → BitVec n2) (W : VOps n m), (Soft.x2g lo hi pack W).add = SimdPortSrc.x2_add_assign lo hi pack W
  x2_not : ∀ {n n2 m : Nat} (lo hi : BitVec n2 → BitVec n) (pack : BitVec n → BitVec n → BitVec n2) (W : VOps n m), (Soft.x2g lo hi pack W).not = SimdPortSrc.x2_not lo hi pack W
  x2_bswap : ∀ {n n2 m : Nat} (lo hi : BitVec n2 → BitVec n) (pack : BitVec n → BitVec n → BitVec n2) (W : VOps n m), (Soft.x2g lo hi pack W).bswap = SimdPortSrc.x2_bswap lo hi pack W
  x2_rotate_each_word_right7 : ∀ {n n2 m : Nat} (lo hi : BitVec n2 → BitVec n) (pack : BitVec n → BitVec n → BitVec n2) (W : VOps n m), (Soft.x2g lo hi pack W).rotr 7 = SimdPortSrc.x2_rotate_each_word_right7 lo hi pack W
  x2_rotate_each_word_right8 : ∀ {n n2 m : Nat} (lo hi : BitVec n2 → BitVec n) (pack : BitVec n → BitVec n → BitVec n2) (W : VOps n m), (Soft.x2g lo hi pack W).rotr 8 = SimdPortSrc.x2_rotate_each_word_right8 lo hi pack W
  x2_rotate_each_word_right11 : ∀ {n n2 m : Nat} (lo hi : BitVec n2 → BitVec n) (pack : BitVec n → BitVec n → BitVec n2) (W : VOps n m), (Soft.x2g lo hi pack W).rotr 11 = SimdPortSrc.x2_rotate_each_word_right11 lo hi pack W
  x2_rotate_each_word_right12 : ∀ {n n2 m : Nat} (lo hi : BitVec n2 → BitVec n) (pack : BitVec n → BitVec n → BitVec n2) (W : VOps n m), (Soft.x2g lo hi pack W).rotr 12 = SimdPortSrc.x2_rotate_each_word_right12 lo hi pack W
  x2_rotate_each_word_right16 : ∀ {n n2 m : Nat} (lo hi : BitVec n2 → BitVec n) (pack : BitVec n → BitVec n → BitVec n2) (W : VOps n m), (Soft.x2g lo hi pack W).rotr 16 = SimdPortSrc.x2_rotate_each_word_right16 lo hi pack W
  x2_rotate_each_word_right20 : ∀ {n n2 m : Nat} (lo hi : BitVec n2 → BitVec n) (pack : BitVec n → BitVec n → BitVec n2) (W : VOps n m), (Soft.x2g lo hi pack W).rotr 20 = SimdPortSrc.x2_rotate_each_word_right20 lo hi pack W
  x2_rotate_each_word_right24 : ∀ {n n2 m : Nat} (lo hi : BitVec n2 → BitVec n) (pack : BitVec n → BitVec n → BitVec n2) (W : VOps n m), (Soft.x2g lo hi pack W).rotr 24 = SimdPortSrc.x2_rotate_each_word_right24 lo hi pack W
  x2_rotate_each_word_right25 : ∀ {n n2 m : Nat} (lo hi : BitVec n2 → BitVec n) (pack : BitVec n → BitVec n → BitVec n2) (W : VOps n m), (Soft.x2g lo hi pack W).rotr 25 = SimdPortSrc.x2_rotate_each_word_right25 lo hi pack W
  x2_rotate_each_word_right32 : ∀ {n n2 m : Nat} (lo hi : BitVec n2 → BitVec n) (pack : BitVec n → BitVec n → BitVec n2) (W : VOps n m), (Soft.x2g lo hi pack W).rotr 32 = SimdPortSrc.x2_rotate_each_word_right32 lo hi pack W
  x2_swap1 : ∀ {n n2 m : Nat} (lo hi : BitVec n2 → BitVec n) (pack : BitVec n → BitVec n → BitVec n2) (W : VOps n m), (Soft.x2g lo hi pack W).swap 1 = SimdPortSrc.x2_swap1 lo hi pack W
  x2_swap2 : ∀ {n n2 m : Nat} (lo hi : BitVec n2 → BitVec n) (pack : BitVec n → BitVec n → BitVec n2) (W : VOps n m), (Soft.x2g lo hi pack W).swap 2 = SimdPortSrc.x2_swap2 lo hi pack W
  x2_swap4 : ∀ {n n2 m : Nat} (lo hi : BitVec n2 → BitVec n) (pack : BitVec n → BitVec n → BitVec n2) (W : VOps n m), (Soft.x2g lo hi pack W).swap 4 = SimdPortSrc.x2_swap4 lo hi pack W
  x2_swap8 : ∀ {n n2 m : Nat} (lo hi : BitVec n2 → BitVec n) (pack : BitVec n → BitVec n → BitVec n2) (W : VOps n m), (Soft.x2g lo hi pack W).swap 8 = SimdPortSrc.x2_swap8 lo hi pack W
  x2_swap16 : ∀ {n n2 m : Nat} (lo hi : BitVec n2 → BitVec n) (pack : BitVec n → BitVec n → BitVec n2) (W : VOps n m), (Soft.x2g lo hi pack W).swap 16 = SimdPortSrc.x2_swap16 lo hi pack W
  x2_swap32 : ∀ {n n2 m : Nat} (lo hi : BitVec n2 → BitVec n) (pack : BitVec n → BitVec n → BitVec n2) (W : VOps n m), (Soft.x2g lo hi pack W).swap 32 = SimdPortSrc.x2_swap32 lo hi pack W
  x2_swap64 : ∀ {n n2 m : Nat} (lo hi : BitVec n2 → BitVec n) (pack : BitVec n → BitVec n → BitVec n2) (W : VOps n m), (Soft.x2g lo hi pack W).swap 64 = SimdPortSrc.x2_swap64 lo hi pack W
  x2_shuffle_lane_words2301 : ∀ {n n2 m : Nat} (lo hi : BitVec n2 → BitVec n) (pack : BitVec n → BitVec n → BitVec n2) (W : VOps n m), (Soft.x2g lo hi pack W).shuffleLane 2301 = SimdPortSrc.x2_shuffle_lane_words2301 lo hi pack W
  x2_shuffle_lane_words1230 : ∀ {n n2 m : Nat} (lo hi : BitVec n2 → BitVec n) (pack : BitVec n → BitVec n → BitVec n2) (W : VOps n m), (Soft.x2g lo hi pack W).shuffleLane 1230 = SimdPortSrc.x2_shuffle_lane_words1230 lo hi pack W
  x2_shuffle_lane_words3012 : ∀ {n n2 m : Nat} (lo hi : BitVec n2 → BitVec n) (pack : BitVec n → BitVec n → BitVec n2) (W : VOps n m), (Soft.x2g lo hi pack W).shuffleLane 3012 = SimdPortSrc.x2_shuffle_lane_words3012 lo hi pack W
  x4_bitand : ∀ {m : Nat} (W : VOps 128 m), (Soft.x4 W).and = SimdPortSrc.x4_bitand W
  x4_bitor : ∀ {m : Nat} (W : VOps 128 m), (Soft.x4 W).or = SimdPortSrc.x4_bitor W
  x4_bitxor : ∀ {m : Nat} (W : VOps 128 m), (Soft.x4 W).xor = SimdPortSrc.x4_bitxor W
  x4_andnot : ∀ {m : Nat} (W : VOps 128 m), (Soft.x4 W).andnot = SimdPortSrc.x4_andnot W
  x4_add : ∀ {m : Nat} (W : VOps 128 m), (Soft.x4 W).add = SimdPortSrc.x4_add W
  x4_bitand_assign : ∀ {m : Nat} (W : VOps 128 m), (Soft.x4 W).and = SimdPortSrc.x4_bitand_assign W
  x4_bitor_assign : ∀ {m : Nat} (W : VOps 128 m), (Soft.x4 W).or = SimdPortSrc.x4_bitor_assign W
  x4_bitxor_assign : ∀ {m : Nat} (W : VOps 128 m), (Soft.x4 W).xor = SimdPortSrc.x4_bitxor_assign W
  x4_add_assign : ∀ {m : Nat} (W : VOps 128 m), (Soft.x4 W).add = SimdPortSrc.x4_add_assign W
  x4_not : ∀ {m : Nat} (W : VOps 128 m), (Soft.x4 W).not = SimdPortSrc.x4_not W
  x4_bswap : ∀ {m : Nat} (W : VOps 128 m), (Soft.x4 W).bswap = SimdPortSrc.x4_bswap W
  x4_rotate_each_word_right7 : ∀ {m : Nat} (W : VOps 128 m), (Soft.x4 W).rotr 7 = SimdPortSrc.x4_rotate_each_word_right7 W
  x4_rotate_each_word_right8 : ∀ {m : Nat} (W : VOps 128 m), (Soft.x4 W).rotr 8 = SimdPortSrc.x4_rotate_each_word_right8 W
  x4_rotate_each_word_right11 : ∀ {m : Nat} (W : VOps 128 m), (Soft.x4 W).rotr 11 = SimdPortSrc.x4_rotate_each_word_right11 W
  x4_rotate_each_word_right12 : ∀ {m : Nat} (W : VOps 128 m), (Soft.x4 W).rotr 12 = SimdPortSrc.x4_rotate_each_word_right12 W
  x4_rotate_each_word_right16 : ∀ {m : Nat} (W : VOps 128 m), (Soft.x4 W).rotr 16 = SimdPortSrc.x4_rotate_each_word_right16 W
  x4_rotate_each_word_right20 : ∀ {m : Nat} (W : VOps 128 m), (Soft.x4 W).rotr 20 = SimdPortSrc.x4_rotate_each_word_right20 W
  x4_rotate_each_word_right24 : ∀ {m : Nat} (W : VOps 128 m), (Soft.x4 W).rotr 24 = SimdPortSrc.x4_rotate_each_word_right24 W
  x4_rotate_each_word_right25 : ∀ {m : Nat} (W : VOps 128 m), (Soft.x4 W).rotr 25 = SimdPortSrc.x4_rotate_each_word_right25 W
  x4_rotate_each_word_right32 : ∀ {m : Nat} (W : VOps 128 m), (Soft.x4 W).rotr 32 = SimdPortSrc.x4_rotate_each_word_right32 W
  x4_swap1 : ∀ {m : Nat} (W : VOps 128 m), (Soft.x4 W).swap 1 = SimdPortSrc.x4_swap1 W
  x4_swap2 : ∀ {m : Nat} (W : VOps 128 m), (Soft.x4 W).swap 2 = SimdPortSrc.x4_swap2 W
  x4_swap4 : ∀ {m : Nat} (W : VOps 128 m), (Soft.x4 W).swap 4 = SimdPortSrc.x4_swap4 W
  x4_swap8 : ∀ {m : Nat} (W : VOps 128 m), (Soft.x4 W).swap 8 = SimdPortSrc.x4_swap8 W
  x4_swap16 : ∀ {m : Nat} (W : VOps 128 m), (Soft.x4 W).swap 16 = SimdPortSrc.x4_swap16 W
  x4_swap32 : ∀ {m : Nat} (W : VOps 128 m), (Soft.x4 W).swap 32 = SimdPortSrc.x4_swap32 W
  x4_swap64 : ∀ {m : Nat} (W : VOps 128 m), (Soft.x4 W).swap 64 = SimdPortSrc.x4_swap64 W
  x4_shuffle_lane_words2301 : ∀ {m : Nat} (W : VOps 128 m), (Soft.x4 W).shuffleLane 2301 = SimdPortSrc.x4_shuffle_lane_words2301 W
  x4_shuffle_lane_words1230 : ∀ {m : Nat} (W : VOps 128 m), (Soft.x4 W).shuffleLane 1230 = SimdPortSrc.x4_shuffle_lane_words1230 W
  x4_shuffle_lane_words3012 : ∀ {m : Nat} (W : VOps 128 m), (Soft.x4 W).shuffleLane 3012 = SimdPortSrc.x4_shuffle_lane_words3012 W
  generic_free_fns : SimdPortSrc.generic_free_fns = [
      ("dmap", ["generic"]),
      ("dmap2", ["generic"]),
      ("o_of_q", ["plain"]),
      ("omap", ["generic"]),
      ("omap2", ["generic"]),
      ("q_of_o", ["plain"]),
      ("qmap", ["generic"]),
      ("qmap2", ["generic"]),
      ("rotate_u128_right", ["plain"])]
  generic_impls : SimdPortSrc.generic_impls = [
      ("Add for u128x1_generic", ["type Output = Self", "fn add"]),
      ("Add for u32x4_generic", ["type Output = Self", "fn add"]),
      ("Add for u64x2_generic", ["type Output = Self", "fn add"]),
      ("AddAssign for u128x1_generic", ["fn add_assign"]),
      ("AddAssign for u32x4_generic", ["fn add_assign"]),
      ("AddAssign for u64x2_generic", ["fn add_assign"]),
      ("AndNot for u128x1_generic", ["type Output = Self", "fn andnot"]),
      ("AndNot for u32x4_generic", ["type Output = Self", "fn andnot"]),
      ("AndNot for u64x2_generic", ["type Output = Self", "fn andnot"]),
      ("ArithOps for u128x1_generic", []),
      ("ArithOps for u32x4_generic", []),
      ("ArithOps for u64x2_generic", []),
      ("BSwap for u128x1_generic", ["fn bswap"]),
      ("BSwap for u32x4_generic", ["fn bswap"]),
      ("BSwap for u64x2_generic", ["fn bswap"]),
      ("BitAnd for u128x1_generic", ["type Output = Self", "fn bitand"]),
      ("BitAnd for u32x4_generic", ["type Output = Self", "fn bitand"]),
      ("BitAnd for u64x2_generic", ["type Output = Self", "fn bitand"]),
      ("BitAndAssign for u128x1_generic", ["fn bitand_assign"]),
      ("BitAndAssign for u32x4_generic", ["fn bitand_assign"]),
      ("BitAndAssign for u64x2_generic", ["fn bitand_assign"]),
      ("BitOps0 for u128x1_generic", []),
      ("BitOps0 for u32x4_generic", []),
      ("BitOps0 for u64x2_generic", []),
      ("BitOps128 for u128x1_generic", []),
      ("BitOps32 for u128x1_generic", []),
      ("BitOps32 for u32x4_generic", []),
      ("BitOps32 for u64x2_generic", []),
      ("BitOps64 for u128x1_generic", []),
      ("BitOps64 for u64x2_generic", []),
      ("BitOr for u128x1_generic", ["type Output = Self", "fn bitor"]),
      ("BitOr for u32x4_generic", ["type Output = Self", "fn bitor"]),
      ("BitOr for u64x2_generic", ["type Output = Self", "fn bitor"]),
      ("BitOrAssign for u128x1_generic", ["fn bitor_assign"]),
      ("BitOrAssign for u32x4_generic", ["fn bitor_assign"]),
      ("BitOrAssign for u64x2_generic", ["fn bitor_assign"]),
      ("BitXor for u128x1_generic", ["type Output = Self", "fn bitxor"]),
      ("BitXor for u32x4_generic", ["type Output = Self", "fn bitxor"]),
      ("BitXor for u64x2_generic", ["type Output = Self", "fn bitxor"]),
      ("BitXorAssign for u128x1_generic", ["fn bitxor_assign"]),
      ("BitXorAssign for u32x4_generic", ["fn bitxor_assign"]),
      ("BitXorAssign for u64x2_generic", ["fn bitxor_assign"]),
      ("Default for vec128_storage", ["fn default"]),
      ("Eq for vec128_storage", []),
      ("From<[u32; 4]> for vec128_storage", ["fn from"]),
      ("From<[u64; 2]> for vec128_storage", ["fn from"]),
      ("From<[u64; 4]> for vec256_storage", ["fn from"]),
      ("From<u128x1_generic> for vec128_storage", ["fn from"]),
      ("From<u32x4_generic> for vec128_storage", ["fn from"]),
      ("From<u64x2_generic> for vec128_storage", ["fn from"]),
      ("From<vec128_storage> for [u32; 4]", ["fn from"]),
      ("From<vec128_storage> for [u64; 2]", ["fn from"]),
      ("From<vec256_storage> for [u64; 4]", ["fn from"]),
      ("LaneWords4 for u32x4_generic", ["fn shuffle_lane_words1230", "fn shuffle_lane_words2301", "fn shuffle_lane_words3012"]),
      ("Machine for GenericMachine", ["type u128x1 = u128x1_generic", "type u128x2 = u128x2_generic", "type u128x4 = u128x4_generic", "type u32x4 = u32x4_generic", "type u32x4x2 = u32x4x2_generic", "type u32x4x4 = u32x4x4_generic", "type u64x2 = u64x2_generic", "type u64x2x2 = u64x2x2_generic", "type u64x2x4 = u64x2x4_generic", "type u64x4 = u64x4_generic", "fn instance"]),
      ("MultiLane<[u128; 1]> for u128x1_generic", ["fn from_lanes", "fn to_lanes"]),
      ("MultiLane<[u32; 4]> for u32x4_generic", ["fn from_lanes", "fn to_lanes"]),
      ("MultiLane<[u64; 2]> for u64x2_generic", ["fn from_lanes", "fn to_lanes"]),
      ("MultiLane<[u64; 4]> for u64x4_generic", ["fn from_lanes", "fn to_lanes"]),
      ("Not for u128x1_generic", ["type Output = Self", "fn not"]),
      ("Not for u32x4_generic", ["type Output = Self", "fn not"]),
      ("Not for u64x2_generic", ["type Output = Self", "fn not"]),
      ("PartialEq<vec128_storage> for vec128_storage", ["fn eq"]),
      ("RotateEachWord128 for u128x1_generic", []),
      ("RotateEachWord32 for u128x1_generic", ["fn rotate_each_word_right11", "fn rotate_each_word_right12", "fn rotate_each_word_right16", "fn rotate_each_word_right20", "fn rotate_each_word_right24", "fn rotate_each_word_right25", "fn rotate_each_word_right7", "fn rotate_each_word_right8"]),
      ("RotateEachWord32 for u32x4_generic", ["fn rotate_each_word_right11", "fn rotate_each_word_right12", "fn rotate_each_word_right16", "fn rotate_each_word_right20", "fn rotate_each_word_right24", "fn rotate_each_word_right25", "fn rotate_each_word_right7", "fn rotate_each_word_right8"]),
      ("RotateEachWord32 for u64x2_generic", ["fn rotate_each_word_right11", "fn rotate_each_word_right12", "fn rotate_each_word_right16", "fn rotate_each_word_right20", "fn rotate_each_word_right24", "fn rotate_each_word_right25", "fn rotate_each_word_right7", "fn rotate_each_word_right8"]),
      ("RotateEachWord64 for u128x1_generic", ["fn rotate_each_word_right32"]),
      ("RotateEachWord64 for u64x2_generic", ["fn rotate_each_word_right32"]),
      ("Store<vec128_storage> for u128x1_generic", ["fn unpack"]),
      ("Store<vec128_storage> for u32x4_generic", ["fn unpack"]),
      ("Store<vec128_storage> for u64x2_generic", ["fn unpack"]),
      ("StoreBytes for u32x4_generic", ["fn unsafe_read_be", "fn unsafe_read_le", "fn write_be", "fn write_le"]),
      ("StoreBytes for u64x2_generic", ["fn unsafe_read_be", "fn unsafe_read_le", "fn write_be", "fn write_le"]),
      ("Swap64 for u128x1_generic", ["fn swap1", "fn swap16", "fn swap2", "fn swap32", "fn swap4", "fn swap64", "fn swap8"]),
      ("Swap64 for u32x4_generic", ["fn swap1", "fn swap16", "fn swap2", "fn swap32", "fn swap4", "fn swap64", "fn swap8"]),
      ("Swap64 for u64x2_generic", ["fn swap1", "fn swap16", "fn swap2", "fn swap32", "fn swap4", "fn swap64", "fn swap8"]),
      ("Vec2<u64> for u64x2_generic", ["fn extract", "fn insert"]),
      ("Vec4<u32> for u32x4_generic", ["fn extract", "fn insert"]),
      ("Vec4<u64> for u64x4_generic", ["fn extract", "fn insert"]),
      ("Vector<[u32; 16]> for u32x4x4_generic", ["fn to_scalars"]),
      ("Words4 for u32x4_generic", ["fn shuffle1230", "fn shuffle2301", "fn shuffle3012"]),
      ("Words4 for u64x4_generic", ["fn shuffle1230", "fn shuffle2301", "fn shuffle3012"]),
      ("u128x1<GenericMachine> for u128x1_generic", []),
      ("u128x2<GenericMachine> for u128x2_generic", []),
      ("u128x4<GenericMachine> for u128x4_generic", []),
      ("u32x4<GenericMachine> for u32x4_generic", []),
      ("u32x4x2<GenericMachine> for u32x4x2_generic", []),
      ("u32x4x4<GenericMachine> for u32x4x4_generic", []),
      ("u64x2<GenericMachine> for u64x2_generic", []),
      ("u64x2x2<GenericMachine> for u64x2x2_generic", []),
      ("u64x2x4<GenericMachine> for u64x2x4_generic", []),
      ("u64x4<GenericMachine> for u64x4_generic", []),
      ("vec256_storage", ["fn new128", "fn split128"]),
      ("vec512_storage", ["fn new128", "fn split128"])]
  soft_free_fns : SimdPortSrc.soft_free_fns = [
]
  soft_impls : SimdPortSrc.soft_impls = [
      ("<W, G> Add for x2<W, G>", ["type Output = x2 < W :: Output , G >", "fn add"]),
      ("<W, G> AddAssign for x2<W, G>", ["fn add_assign"]),
      ("<W, G> AndNot for x2<W, G>", ["type Output = x2 < W :: Output , G >", "fn andnot"]),
      ("<W, G> ArithOps for x2<W, G>", []),
      ("<W, G> BSwap for x2<W, G>", ["fn bswap"]),
      ("<W, G> BitAnd for x2<W, G>", ["type Output = x2 < W :: Output , G >", "fn bitand"]),
      ("<W, G> BitAndAssign for x2<W, G>", ["fn bitand_assign"]),
      ("<W, G> BitOps0 for x2<W, G>", []),
      ("<W, G> BitOps128 for x2<W, G>", []),
      ("<W, G> BitOps32 for x2<W, G>", []),
      ("<W, G> BitOps64 for x2<W, G>", []),
      ("<W, G> BitOr for x2<W, G>", ["type Output = x2 < W :: Output , G >", "fn bitor"]),
      ("<W, G> BitOrAssign for x2<W, G>", ["fn bitor_assign"]),
      ("<W, G> BitXor for x2<W, G>", ["type Output = x2 < W :: Output , G >", "fn bitxor"]),
      ("<W, G> BitXorAssign for x2<W, G>", ["fn bitxor_assign"]),
      ("<W, G> From<x2<W, G>> for vec256_storage", ["fn from"]),
      ("<W, G> LaneWords4 for x2<W, G>", ["fn shuffle_lane_words1230", "fn shuffle_lane_words2301", "fn shuffle_lane_words3012"]),
      ("<W, G> MultiLane<[W; 2]> for x2<W, G>", ["fn from_lanes", "fn to_lanes"]),
      ("<W, G> Not for x2<W, G>", ["type Output = x2 < W :: Output , G >", "fn not"]),
      ("<W, G> RotateEachWord128 for x2<W, G>", []),
      ("<W, G> RotateEachWord32 for x2<W, G>", ["fn rotate_each_word_right11", "fn rotate_each_word_right12", "fn rotate_each_word_right16", "fn rotate_each_word_right20", "fn rotate_each_word_right24", "fn rotate_each_word_right25", "fn rotate_each_word_right7", "fn rotate_each_word_right8"]),
      ("<W, G> RotateEachWord64 for x2<W, G>", ["fn rotate_each_word_right32"]),
      ("<W, G> Store<vec256_storage> for x2<W, G>", ["fn unpack"]),
      ("<W, G> StoreBytes for x2<W, G>", ["fn unsafe_read_be", "fn unsafe_read_le", "fn write_be", "fn write_le"]),
      ("<W, G> Swap64 for x2<W, G>", ["fn swap1", "fn swap16", "fn swap2", "fn swap32", "fn swap4", "fn swap64", "fn swap8"]),
      ("<W, G> UnsafeFrom<[W; 2]> for x2<W, G>", ["fn unsafe_from"]),
      ("<W, G> Vec2<W> for x2<W, G>", ["fn extract", "fn insert"]),
      ("<W, G> x2<W, G>", ["fn new"]),
      ("<W> Add for x4<W>", ["type Output = x4 < W :: Output >", "fn add"]),
      ("<W> AddAssign for x4<W>", ["fn add_assign"]),
      ("<W> AndNot for x4<W>", ["type Output = x4 < W :: Output >", "fn andnot"]),
      ("<W> ArithOps for x4<W>", []),
      ("<W> BSwap for x4<W>", ["fn bswap"]),
      ("<W> BitAnd for x4<W>", ["type Output = x4 < W :: Output >", "fn bitand"]),
      ("<W> BitAndAssign for x4<W>", ["fn bitand_assign"]),
      ("<W> BitOps0 for x4<W>", []),
      ("<W> BitOps128 for x4<W>", []),
      ("<W> BitOps32 for x4<W>", []),
      ("<W> BitOps64 for x4<W>", []),
      ("<W> BitOr for x4<W>", ["type Output = x4 < W :: Output >", "fn bitor"]),
      ("<W> BitOrAssign for x4<W>", ["fn bitor_assign"]),
      ("<W> BitXor for x4<W>", ["type Output = x4 < W :: Output >", "fn bitxor"]),
      ("<W> BitXorAssign for x4<W>", ["fn bitxor_assign"]),
      ("<W> From<x4<W>> for vec512_storage", ["fn from"]),
      ("<W> LaneWords4 for x4<W>", ["fn shuffle_lane_words1230", "fn shuffle_lane_words2301", "fn shuffle_lane_words3012"]),
      ("<W> MultiLane<[W; 4]> for x4<W>", ["fn from_lanes", "fn to_lanes"]),
      ("<W> Not for x4<W>", ["type Output = x4 < W :: Output >", "fn not"]),
      ("<W> RotateEachWord128 for x4<W>", []),
      ("<W> RotateEachWord32 for x4<W>", ["fn rotate_each_word_right11", "fn rotate_each_word_right12", "fn rotate_each_word_right16", "fn rotate_each_word_right20", "fn rotate_each_word_right24", "fn rotate_each_word_right25", "fn rotate_each_word_right7", "fn rotate_each_word_right8"]),
      ("<W> RotateEachWord64 for x4<W>", ["fn rotate_each_word_right32"]),
      ("<W> Store<vec512_storage> for x4<W>", ["fn unpack"]),
      ("<W> StoreBytes for x4<W>", ["fn unsafe_read_be", "fn unsafe_read_le", "fn write_be", "fn write_le"]),
      ("<W> Swap64 for x4<W>", ["fn swap1", "fn swap16", "fn swap2", "fn swap32", "fn swap4", "fn swap64", "fn swap8"]),
      ("<W> UnsafeFrom<[W; 4]> for x4<W>", ["fn unsafe_from"]),
      ("<W> Vec4<W> for x4<W>", ["fn extract", "fn insert"]),
      ("<W> Vec4Ext<W> for x4<W>", ["fn transpose4"]),
      ("<W> x4<W>", ["fn new"])]
  simdport_errors : SimdPortSrc.simdport_errors = []

theorem portWordwise : PortWordwise where
  u32x4_generic_bitand := src_port_u32x4_generic_bitand
  u32x4_generic_bitor := src_port_u32x4_generic_bitor
  u32x4_generic_bitxor := src_port_u32x4_generic_bitxor
  u32x4_generic_andnot := src_port_u32x4_generic_andnot
  u32x4_generic_add := src_port_u32x4_generic_add
  u32x4_generic_bitand_assign := src_port_u32x4_generic_bitand_assign
  u32x4_generic_bitor_assign := src_port_u32x4_generic_bitor_assign
  u32x4_generic_bitxor_assign := src_port_u32x4_generic_bitxor_assign
  u32x4_generic_add_assign := src_port_u32x4_generic_add_assign
  u32x4_generic_not := src_port_u32x4_generic_not
  u32x4_generic_bswap := src_port_u32x4_generic_bswap
  u32x4_generic_rotate_each_word_right7 := src_port_u32x4_generic_rotate_each_word_right7
  u32x4_generic_rotate_each_word_right8 := src_port_u32x4_generic_rotate_each_word_right8
  u32x4_generic_rotate_each_word_right11 := src_port_u32x4_generic_rotate_each_word_right11
  u32x4_generic_rotate_each_word_right12 := src_port_u32x4_generic_rotate_each_word_right12
  u32x4_generic_rotate_each_word_right16 := src_port_u32x4_generic_rotate_each_word_right16
  u32x4_generic_rotate_each_word_right20 := src_port_u32x4_generic_rotate_each_word_right20
  u32x4_generic_rotate_each_word_right24 := src_port_u32x4_generic_rotate_each_word_right24
  u32x4_generic_rotate_each_word_right25 := src_port_u32x4_generic_rotate_each_word_right25
  u32x4_generic_swap1 := src_port_u32x4_generic_swap1
  u32x4_generic_swap2 := src_port_u32x4_generic_swap2
  u32x4_generic_swap4 := src_port_u32x4_generic_swap4
  u32x4_generic_swap8 := src_port_u32x4_generic_swap8
  u32x4_generic_swap16 := src_port_u32x4_generic_swap16
  u32x4_generic_swap32 := src_port_u32x4_generic_swap32
  u32x4_generic_swap64 := src_port_u32x4_generic_swap64
  u64x2_generic_bitand := src_port_u64x2_generic_bitand
  u64x2_generic_bitor := src_port_u64x2_generic_bitor
  u64x2_generic_bitxor := src_port_u64x2_generic_bitxor
  u64x2_generic_andnot := src_port_u64x2_generic_andnot
  u64x2_generic_add := src_port_u64x2_generic_add
  u64x2_generic_bitand_assign := src_port_u64x2_generic_bitand_assign
  u64x2_generic_bitor_assign := src_port_u64x2_generic_bitor_assign
  u64x2_generic_bitxor_assign := src_port_u64x2_generic_bitxor_assign
  u64x2_generic_add_assign := src_port_u64x2_generic_add_assign
  u64x2_generic_not := src_port_u64x2_generic_not
  u64x2_generic_bswap := src_port_u64x2_generic_bswap
  u64x2_generic_rotate_each_word_right7 := src_port_u64x2_generic_rotate_each_word_right7
  u64x2_generic_rotate_each_word_right8 := src_port_u64x2_generic_rotate_each_word_right8
  u64x2_generic_rotate_each_word_right11 := src_port_u64x2_generic_rotate_each_word_right11
  u64x2_generic_rotate_each_word_right12 := src_port_u64x2_generic_rotate_each_word_right12
  u64x2_generic_rotate_each_word_right16 := src_port_u64x2_generic_rotate_each_word_right16
  u64x2_generic_rotate_each_word_right20 := src_port_u64x2_generic_rotate_each_word_right20
  u64x2_generic_rotate_each_word_right24 := src_port_u64x2_generic_rotate_each_word_right24
  u64x2_generic_rotate_each_word_right25 := src_port_u64x2_generic_rotate_each_word_right25
  u64x2_generic_rotate_each_word_right32 := src_port_u64x2_generic_rotate_each_word_right32
  u64x2_generic_swap1 := src_port_u64x2_generic_swap1
  u64x2_generic_swap2 := src_port_u64x2_generic_swap2
  u64x2_generic_swap4 := src_port_u64x2_generic_swap4
  u64x2_generic_swap8 := src_port_u64x2_generic_swap8
  u64x2_generic_swap16 := src_port_u64x2_generic_swap16
  u64x2_generic_swap32 := src_port_u64x2_generic_swap32
  u64x2_generic_swap64 := src_port_u64x2_generic_swap64
  u128x1_generic_bitand := src_port_u128x1_generic_bitand
  u128x1_generic_bitor := src_port_u128x1_generic_bitor
  u128x1_generic_bitxor := src_port_u128x1_generic_bitxor
  u128x1_generic_andnot := src_port_u128x1_generic_andnot
  u128x1_generic_add := src_port_u128x1_generic_add
  u128x1_generic_bitand_assign := src_port_u128x1_generic_bitand_assign
  u128x1_generic_bitor_assign := src_port_u128x1_generic_bitor_assign
  u128x1_generic_bitxor_assign := src_port_u128x1_generic_bitxor_assign
  u128x1_generic_add_assign := src_port_u128x1_generic_add_assign
  u128x1_generic_not := src_port_u128x1_generic_not
  u128x1_generic_bswap := src_port_u128x1_generic_bswap
  u128x1_generic_rotate_each_word_right7 := src_port_u128x1_generic_rotate_each_word_right7
  u128x1_generic_rotate_each_word_right8 := src_port_u128x1_generic_rotate_each_word_right8
  u128x1_generic_rotate_each_word_right11 := src_port_u128x1_generic_rotate_each_word_right11
  u128x1_generic_rotate_each_word_right12 := src_port_u128x1_generic_rotate_each_word_right12
  u128x1_generic_rotate_each_word_right16 := src_port_u128x1_generic_rotate_each_word_right16
  u128x1_generic_rotate_each_word_right20 := src_port_u128x1_generic_rotate_each_word_right20
  u128x1_generic_rotate_each_word_right24 := src_port_u128x1_generic_rotate_each_word_right24
  u128x1_generic_rotate_each_word_right25 := src_port_u128x1_generic_rotate_each_word_right25
  u128x1_generic_rotate_each_word_right32 := src_port_u128x1_generic_rotate_each_word_right32
  u128x1_generic_swap1 := src_port_u128x1_generic_swap1
  u128x1_generic_swap2 := src_port_u128x1_generic_swap2
  u128x1_generic_swap4 := src_port_u128x1_generic_swap4
  u128x1_generic_swap8 := src_port_u128x1_generic_swap8
  u128x1_generic_swap16 := src_port_u128x1_generic_swap16
  u128x1_generic_swap32 := src_port_u128x1_generic_swap32
  u128x1_generic_swap64 := src_port_u128x1_generic_swap64
  u32x4_generic_shuffle2301 := src_port_u32x4_generic_shuffle2301
  u32x4_generic_shuffle_lane_words2301 := src_port_u32x4_generic_shuffle_lane_words2301
  u64x4_generic_shuffle2301 := src_port_u64x4_generic_shuffle2301
  u32x4_generic_shuffle1230 := src_port_u32x4_generic_shuffle1230
  u32x4_generic_shuffle_lane_words1230 := src_port_u32x4_generic_shuffle_lane_words1230
  u64x4_generic_shuffle1230 := src_port_u64x4_generic_shuffle1230
  u32x4_generic_shuffle3012 := src_port_u32x4_generic_shuffle3012
  u32x4_generic_shuffle_lane_words3012 := src_port_u32x4_generic_shuffle_lane_words3012
  u64x4_generic_shuffle3012 := src_port_u64x4_generic_shuffle3012
  x2_bitand := src_port_x2_bitand
  x2_bitor := src_port_x2_bitor
  x2_bitxor := src_port_x2_bitxor
  x2_andnot := src_port_x2_andnot
  x2_add := src_port_x2_add
  x2_bitand_assign := src_port_x2_bitand_assign
  x2_bitor_assign := src_port_x2_bitor_assign
  x2_bitxor_assign := src_port_x2_bitxor_assign
  x2_add_assign := src_port_x2_add_assign
  x2_not := src_port_x2_not
  x2_bswap := src_port_x2_bswap
  x2_rotate_each_word_right7 := src_port_x2_rotate_each_word_right7
  x2_rotate_each_word_right8 := src_port_x2_rotate_each_word_right8
  x2_rotate_each_word_right11 := src_port_x2_rotate_each_word_right11
  x2_rotate_each_word_right12 := src_port_x2_rotate_each_word_right12
  x2_rotate_each_word_right16 := src_port_x2_rotate_each_word_right16
  x2_rotate_each_word_right20 := src_port_x2_rotate_each_word_right20
  x2_rotate_each_word_right24 := src_port_x2_rotate_each_word_right24
  x2_rotate_each_word_right25 := src_port_x2_rotate_each_word_right25
  x2_rotate_each_word_right32 := src_port_x2_rotate_each_word_right32
  x2_swap1 := src_port_x2_swap1
  x2_swap2 := src_port_x2_swap2
  x2_swap4 := src_port_x2_swap4
  x2_swap8 := src_port_x2_swap8
  x2_swap16 := src_port_x2_swap16
  x2_swap32 := src_port_x2_swap32
  x2_swap64 := src_port_x2_swap64
  x2_shuffle_lane_words2301 := src_port_x2_shuffle_lane_words2301
  x2_shuffle_lane_words1230 := src_port_x2_shuffle_lane_words1230
  x2_shuffle_lane_words3012 := src_port_x2_shuffle_lane_words3012
  x4_bitand := src_port_x4_bitand
  x4_bitor := src_port_x4_bitor
  x4_bitxor := src_port_x4_bitxor
  x4_andnot := src_port_x4_andnot
  x4_add := src_port_x4_add
  x4_bitand_assign := src_port_x4_bitand_assign
  x4_bitor_assign := src_port_x4_bitor_assign
  x4_bitxor_assign := src_port_x4_bitxor_assign
  x4_add_assign := src_port_x4_add_assign
  x4_not := src_port_x4_not
  x4_bswap := src_port_x4_bswap
  x4_rotate_each_word_right7 := src_port_x4_rotate_each_word_right7
  x4_rotate_each_word_right8 := src_port_x4_rotate_each_word_right8
  x4_rotate_each_word_right11 := src_port_x4_rotate_each_word_right11
  x4_rotate_each_word_right12 := src_port_x4_rotate_each_word_right12
  x4_rotate_each_word_right16 := src_port_x4_rotate_each_word_right16
  x4_rotate_each_word_right20 := src_port_x4_rotate_each_word_right20
  x4_rotate_each_word_right24 := src_port_x4_rotate_each_word_right24
  x4_rotate_each_word_right25 := src_port_x4_rotate_each_word_right25
  x4_rotate_each_word_right32 := src_port_x4_rotate_each_word_right32
  x4_swap1 := src_port_x4_swap1
  x4_swap2 := src_port_x4_swap2
  x4_swap4 := src_port_x4_swap4
  x4_swap8 := src_port_x4_swap8
  x4_swap16 := src_port_x4_swap16
  x4_swap32 := src_port_x4_swap32
  x4_swap64 := src_port_x4_swap64
  x4_shuffle_lane_words2301 := src_port_x4_shuffle_lane_words2301
  x4_shuffle_lane_words1230 := src_port_x4_shuffle_lane_words1230
  x4_shuffle_lane_words3012 := src_port_x4_shuffle_lane_words3012
  generic_free_fns := src_port_generic_free_fns
  generic_impls := src_port_generic_impls
  soft_free_fns := src_port_soft_free_fns
  soft_impls := src_port_soft_impls
  simdport_errors := src_port_simdport_errors

theorem src_port_u32x4_generic_to_lanes : Generic.u32x4.toLanes = SimdPortSrc.u32x4_generic_to_lanes := rfl
theorem src_port_u32x4_generic_from_lanes : Generic.u32x4.fromLanes = SimdPortSrc.u32x4_generic_from_lanes := rfl
theorem src_port_u32x4_generic_unpack : ∀ v : BitVec 128, SimdPortSrc.u32x4_generic_unpack v = v := by intro v; port_unfold [SimdPortSrc.u32x4_generic_unpack]; bv_decide
theorem src_port_vec128_storage_from_u32x4_generic : ∀ v : BitVec 128, SimdPortSrc.vec128_storage_from_u32x4_generic v = v := by intro v; port_unfold [SimdPortSrc.vec128_storage_from_u32x4_generic]; bv_decide
theorem src_port_u32x4_generic_extract : ∀ (v : BitVec 128) (i : Nat), SimdPortSrc.u32x4_generic_extract v i = if i < 4 then Out.ok (Generic.u32x4.extract v i) else Out.panic "index out of bounds" := by
    intro v i; unfold SimdPortSrc.u32x4_generic_extract; split
    · next h => exact (match i, h with | 0, _ => rfl | 1, _ => rfl | 2, _ => rfl | 3, _ => rfl | n + 4, h => by omega)
    · rfl
theorem src_port_u32x4_generic_insert : ∀ (v : BitVec 128) (w : BitVec 32) (i : Nat), SimdPortSrc.u32x4_generic_insert v w i = if i < 4 then Out.ok (Generic.u32x4.insert v w i) else Out.panic "index out of bounds" := by
    intro v w i; unfold SimdPortSrc.u32x4_generic_insert; split
    · next h => exact (match i, h with | 0, _ => rfl | 1, _ => rfl | 2, _ => rfl | 3, _ => rfl | n + 4, h => by omega)
    · rfl
theorem src_port_u32x4_generic_unsafe_read_le : ∀ bs : List (BitVec 8), SimdPortSrc.u32x4_generic_unsafe_read_le bs = if bs.length = 16 then Out.ok (Generic.u32x4.readLe bs) else Out.panic "read_from_bytes: size mismatch" := by intro bs; port_bytes [SimdPortSrc.u32x4_generic_unsafe_read_le]
theorem src_port_u32x4_generic_unsafe_read_be : ∀ bs : List (BitVec 8), SimdPortSrc.u32x4_generic_unsafe_read_be bs = if bs.length = 16 then Out.ok (Generic.u32x4.readBe bs) else Out.panic "read_from_bytes: size mismatch" := by intro bs; port_bytes [SimdPortSrc.u32x4_generic_unsafe_read_be]
theorem src_port_u32x4_generic_write_le : ∀ (v : BitVec 128) (out : List (BitVec 8)), SimdPortSrc.u32x4_generic_write_le v out = if out.length = 16 then Out.ok (Generic.u32x4.writeLe v) else Out.panic "write_to: size mismatch" := by intro v out; port_bytes [SimdPortSrc.u32x4_generic_write_le]
theorem src_port_u32x4_generic_write_be : ∀ (v : BitVec 128) (out : List (BitVec 8)), SimdPortSrc.u32x4_generic_write_be v out = if out.length = 16 then Out.ok (Generic.u32x4.writeBe v) else Out.panic "write_to: size mismatch" := by intro v out; port_bytes [SimdPortSrc.u32x4_generic_write_be]
theorem src_port_u64x2_generic_to_lanes : Generic.u64x2.toLanes = SimdPortSrc.u64x2_generic_to_lanes := rfl
theorem src_port_u64x2_generic_from_lanes : Generic.u64x2.fromLanes = SimdPortSrc.u64x2_generic_from_lanes := rfl
theorem src_port_u64x2_generic_unpack : ∀ v : BitVec 128, SimdPortSrc.u64x2_generic_unpack v = v := by intro v; port_unfold [SimdPortSrc.u64x2_generic_unpack]; bv_decide
theorem src_port_vec128_storage_from_u64x2_generic : ∀ v : BitVec 128, SimdPortSrc.vec128_storage_from_u64x2_generic v = v := by intro v; port_unfold [SimdPortSrc.vec128_storage_from_u64x2_generic]; bv_decide
theorem src_port_u64x2_generic_extract : ∀ (v : BitVec 128) (i : Nat), SimdPortSrc.u64x2_generic_extract v i = if i < 2 then Out.ok (Generic.u64x2.extract v i) else Out.panic "index out of bounds" := by
    intro v i; unfold SimdPortSrc.u64x2_generic_extract; split
    · next h => exact (match i, h with | 0, _ => rfl | 1, _ => rfl | n + 2, h => by omega)
    · rfl
theorem src_port_u64x2_generic_insert : ∀ (v : BitVec 128) (w : BitVec 64) (i : Nat), SimdPortSrc.u64x2_generic_insert v w i = if i < 2 then Out.ok (Generic.u64x2.insert v w i) else Out.panic "index out of bounds" := by
    intro v w i; unfold SimdPortSrc.u64x2_generic_insert; split
    · next h => exact (match i, h with | 0, _ => rfl | 1, _ => rfl | n + 2, h => by omega)
    · rfl
theorem src_port_u64x2_generic_unsafe_read_le : ∀ bs : List (BitVec 8), SimdPortSrc.u64x2_generic_unsafe_read_le bs = if bs.length = 16 then Out.ok (Generic.u64x2.readLe bs) else Out.panic "read_from_bytes: size mismatch" := by intro bs; port_bytes [SimdPortSrc.u64x2_generic_unsafe_read_le]
theorem src_port_u64x2_generic_unsafe_read_be : ∀ bs : List (BitVec 8), SimdPortSrc.u64x2_generic_unsafe_read_be bs = if bs.length = 16 then Out.ok (Generic.u64x2.readBe bs) else Out.panic "read_from_bytes: size mismatch" := by intro bs; port_bytes [SimdPortSrc.u64x2_generic_unsafe_read_be]
theorem src_port_u64x2_generic_write_le : ∀ (v : BitVec 128) (out : List (BitVec 8)), SimdPortSrc.u64x2_generic_write_le v out = if out.length = 16 then Out.ok (Generic.u64x2.writeLe v) else Out.panic "write_to: size mismatch" := by intro v out; port_bytes [SimdPortSrc.u64x2_generic_write_le]
theorem src_port_u64x2_generic_write_be : ∀ (v : BitVec 128) (out : List (BitVec 8)), SimdPortSrc.u64x2_generic_write_be v out = if out.length = 16 then Out.ok (Generic.u64x2.writeBe v) else Out.panic "write_to: size mismatch" := by intro v out; port_bytes [SimdPortSrc.u64x2_generic_write_be]
theorem src_port_u128x1_generic_to_lanes : Generic.u128x1.toLanes = SimdPortSrc.u128x1_generic_to_lanes := rfl
theorem src_port_u128x1_generic_from_lanes : Generic.u128x1.fromLanes = SimdPortSrc.u128x1_generic_from_lanes := rfl
theorem src_port_u128x1_generic_unpack : ∀ v : BitVec 128, SimdPortSrc.u128x1_generic_unpack v = v := by intro v; port_unfold [SimdPortSrc.u128x1_generic_unpack]; bv_decide
theorem src_port_vec128_storage_from_u128x1_generic : ∀ v : BitVec 128, SimdPortSrc.vec128_storage_from_u128x1_generic v = v := by intro v; port_unfold [SimdPortSrc.vec128_storage_from_u128x1_generic]; bv_decide
theorem src_port_vec128_storage_from_arr_u32_4 : Generic.u32x4.fromLanes = SimdPortSrc.vec128_storage_from_arr_u32_4 := rfl
theorem src_port_arr_u32_4_from_vec128_storage : Generic.u32x4.toLanes = SimdPortSrc.arr_u32_4_from_vec128_storage := rfl
theorem src_port_vec128_storage_from_arr_u64_2 : Generic.u64x2.fromLanes = SimdPortSrc.vec128_storage_from_arr_u64_2 := rfl
theorem src_port_arr_u64_2_from_vec128_storage : Generic.u64x2.toLanes = SimdPortSrc.arr_u64_2_from_vec128_storage := rfl
theorem src_port_vec128_storage_default : SimdPortSrc.vec128_storage_default = 0#128 := by decide
theorem src_port_vec128_storage_eq : ∀ a b : BitVec 128, SimdPortSrc.vec128_storage_eq a b = decide (a = b) := by
    intro a b; unfold SimdPortSrc.vec128_storage_eq lane64
    by_cases h : a = b
    · subst h; simp
    · simp only [h, decide_false]; apply Bool.eq_false_iff.mpr; intro hc; apply h; simp only [Bool.and_eq_true, beq_iff_eq] at hc; bv_decide
theorem src_port_vec256_storage_new128 : ∀ xs : List (BitVec 128), SimdPortSrc.vec256_storage_new128 xs = pack256 (xs.getD 0 0) (xs.getD 1 0) := fun _ => rfl
theorem src_port_vec256_storage_split128 : ∀ v : BitVec 256, SimdPortSrc.vec256_storage_split128 v = [lo128 v, hi128 v] := fun _ => rfl
theorem src_port_vec512_storage_new128 : ∀ xs : List (BitVec 128), SimdPortSrc.vec512_storage_new128 xs = pack512 (xs.getD 0 0) (xs.getD 1 0) (xs.getD 2 0) (xs.getD 3 0) := fun _ => rfl
theorem src_port_vec512_storage_split128 : ∀ v : BitVec 512, SimdPortSrc.vec512_storage_split128 v = [q128 v 0, q128 v 1, q128 v 2, q128 v 3] := fun _ => rfl
theorem src_port_arr_u64_4_from_vec256_storage : Generic.u64x4.toLanes = SimdPortSrc.arr_u64_4_from_vec256_storage := rfl
theorem src_port_vec256_storage_from_arr_u64_4 : Generic.u64x4.fromLanes = SimdPortSrc.vec256_storage_from_arr_u64_4 := rfl
theorem src_port_u64x4_generic_to_lanes : Generic.u64x4.toLanes = SimdPortSrc.u64x4_generic_to_lanes := rfl
theorem src_port_u64x4_generic_from_lanes : Generic.u64x4.fromLanes = SimdPortSrc.u64x4_generic_from_lanes := rfl
theorem src_port_u64x4_generic_extract : ∀ (v : BitVec 256) (i : Nat), SimdPortSrc.u64x4_generic_extract v i = if i < 4 then Out.ok (Generic.u64x4.extract v i) else Out.panic "index out of bounds" := by
    intro v i; unfold SimdPortSrc.u64x4_generic_extract; split
    · next h => exact (match i, h with | 0, _ => rfl | 1, _ => rfl | 2, _ => rfl | 3, _ => rfl | n + 4, h => by omega)
    · rfl
theorem src_port_u64x4_generic_insert : ∀ (v : BitVec 256) (w : BitVec 64) (i : Nat), SimdPortSrc.u64x4_generic_insert v w i = if i < 4 then Out.ok (Generic.u64x4.insert v w i) else Out.panic "index out of bounds" := by
    intro v w i
    match i with
    | 0 => port_insert64x4
    | 1 => port_insert64x4
    | 2 => port_insert64x4
    | 3 => port_insert64x4
    | n + 4 =>
      have h1 : ¬ (n + 4) / 2 < 2 := by omega
      have h2 : ¬ n + 4 < 4 := by omega
      simp only [SimdPortSrc.u64x4_generic_insert, h1, h2, if_false]
theorem src_port_u32x4x4_generic_to_scalars : Generic.toScalars = SimdPortSrc.u32x4x4_generic_to_scalars := rfl
theorem src_port_GenericMachine_instance : SimdPortSrc.GenericMachine_instance = () := rfl
theorem src_port_x2_to_lanes : ∀ {n n2 m : Nat} (lo hi : BitVec n2 → BitVec n) (pack : BitVec n → BitVec n → BitVec n2) (W : VOps n m), (Soft.x2g lo hi pack W).toLanes = SimdPortSrc.x2_to_lanes lo hi pack W := fun _ _ _ _ => rfl
theorem src_port_x2_from_lanes : ∀ {n n2 m : Nat} (lo hi : BitVec n2 → BitVec n) (pack : BitVec n → BitVec n → BitVec n2) (W : VOps n m), (Soft.x2g lo hi pack W).fromLanes = SimdPortSrc.x2_from_lanes lo hi pack W := fun _ _ _ _ => rfl
theorem src_port_x2_new : ∀ {n n2 m : Nat} (lo hi : BitVec n2 → BitVec n) (pack : BitVec n → BitVec n → BitVec n2) (W : VOps n m), (Soft.x2g lo hi pack W).fromLanes = SimdPortSrc.x2_new lo hi pack W := fun _ _ _ _ => rfl
theorem src_port_x2_unsafe_from : ∀ {n n2 m : Nat} (lo hi : BitVec n2 → BitVec n) (pack : BitVec n → BitVec n → BitVec n2) (W : VOps n m), (Soft.x2g lo hi pack W).fromLanes = SimdPortSrc.x2_unsafe_from lo hi pack W := fun _ _ _ _ => rfl
theorem src_port_x2_unsafe_read_le : ∀ {n n2 m : Nat} (lo hi : BitVec n2 → BitVec n) (pack : BitVec n → BitVec n → BitVec n2) (W : VOps n m), (Soft.x2g lo hi pack W).readLe = SimdPortSrc.x2_unsafe_read_le lo hi pack W := fun _ _ _ _ => rfl
theorem src_port_x2_unsafe_read_be : ∀ {n n2 m : Nat} (lo hi : BitVec n2 → BitVec n) (pack : BitVec n → BitVec n → BitVec n2) (W : VOps n m), (Soft.x2g lo hi pack W).readBe = SimdPortSrc.x2_unsafe_read_be lo hi pack W := fun _ _ _ _ => rfl
theorem src_port_x2_write_le : ∀ {n n2 m : Nat} (lo hi : BitVec n2 → BitVec n) (pack : BitVec n → BitVec n → BitVec n2) (W : VOps n m), ∀ (v : BitVec n2) (out : List (BitVec 8)), (Soft.x2g lo hi pack W).writeLe v = SimdPortSrc.x2_write_le lo hi pack W v out := fun _ _ _ _ => fun _ _ => rfl
theorem src_port_x2_write_be : ∀ {n n2 m : Nat} (lo hi : BitVec n2 → BitVec n) (pack : BitVec n → BitVec n → BitVec n2) (W : VOps n m), ∀ (v : BitVec n2) (out : List (BitVec 8)), (Soft.x2g lo hi pack W).writeBe v = SimdPortSrc.x2_write_be lo hi pack W v out := fun _ _ _ _ => fun _ _ => rfl
theorem src_port_x2_extract : ∀ {n n2 m : Nat} (lo hi : BitVec n2 → BitVec n) (pack : BitVec n → BitVec n → BitVec n2) (W : VOps n m), ∀ (v : BitVec n2) (i : Nat), SimdPortSrc.x2_extract lo hi pack W v i = if i < 2 then Out.ok ((Soft.x2g lo hi pack W).extract v i) else Out.panic "index out of bounds" := by
    intro n n2 m lo hi pack W v i; unfold SimdPortSrc.x2_extract; split
    · next h => exact (match i, h with | 0, _ => rfl | 1, _ => rfl | k + 2, h => by omega)
    · rfl
theorem src_port_x2_insert : ∀ {n n2 m : Nat} (lo hi : BitVec n2 → BitVec n) (pack : BitVec n → BitVec n → BitVec n2) (W : VOps n m), ∀ (v : BitVec n2) (w : BitVec n) (i : Nat), SimdPortSrc.x2_insert lo hi pack W v w i = if i < 2 then Out.ok ((Soft.x2g lo hi pack W).insert v w i) else Out.panic "index out of bounds" := by
    intro n n2 m lo hi pack W v w i; unfold SimdPortSrc.x2_insert; split
    · next h => exact (match i, h with | 0, _ => rfl | 1, _ => rfl | k + 2, h => by omega)
    · rfl
theorem src_port_x4_to_lanes : ∀ {m : Nat} (W : VOps 128 m), (Soft.x4 W).toLanes = SimdPortSrc.x4_to_lanes W := fun _ => rfl
theorem src_port_x4_from_lanes : ∀ {m : Nat} (W : VOps 128 m), (Soft.x4 W).fromLanes = SimdPortSrc.x4_from_lanes W := fun _ => rfl
theorem src_port_x4_new : ∀ {m : Nat} (W : VOps 128 m), (Soft.x4 W).fromLanes = SimdPortSrc.x4_new W := fun _ => rfl
theorem src_port_x4_unsafe_from : ∀ {m : Nat} (W : VOps 128 m), (Soft.x4 W).fromLanes = SimdPortSrc.x4_unsafe_from W := fun _ => rfl
theorem src_port_x4_unsafe_read_le : ∀ {m : Nat} (W : VOps 128 m), (Soft.x4 W).readLe = SimdPortSrc.x4_unsafe_read_le W := fun _ => rfl
theorem src_port_x4_unsafe_read_be : ∀ {m : Nat} (W : VOps 128 m), (Soft.x4 W).readBe = SimdPortSrc.x4_unsafe_read_be W := fun _ => rfl
theorem src_port_x4_write_le : ∀ {m : Nat} (W : VOps 128 m), ∀ (v : BitVec 512) (out : List (BitVec 8)), (Soft.x4 W).writeLe v = SimdPortSrc.x4_write_le W v out := fun _ => fun _ _ => rfl
theorem src_port_x4_write_be : ∀ {m : Nat} (W : VOps 128 m), ∀ (v : BitVec 512) (out : List (BitVec 8)), (Soft.x4 W).writeBe v = SimdPortSrc.x4_write_be W v out := fun _ => fun _ _ => rfl
theorem src_port_x4_extract : ∀ {m : Nat} (W : VOps 128 m), ∀ (v : BitVec 512) (i : Nat), SimdPortSrc.x4_extract W v i = if i < 4 then Out.ok ((Soft.x4 W).extract v i) else Out.panic "index out of bounds" := by
    intro m W v i; unfold SimdPortSrc.x4_extract; split
    · next h => exact (match i, h with | 0, _ => rfl | 1, _ => rfl | 2, _ => rfl | 3, _ => rfl | k + 4, h => by omega)
    · rfl
theorem src_port_x4_insert : ∀ {m : Nat} (W : VOps 128 m), ∀ (v : BitVec 512) (w : BitVec 128) (i : Nat), SimdPortSrc.x4_insert W v w i = if i < 4 then Out.ok ((Soft.x4 W).insert v w i) else Out.panic "index out of bounds" := by
    intro m W v w i; unfold SimdPortSrc.x4_insert; split
    · next h => exact (match i, h with | 0, _ => rfl | 1, _ => rfl | 2, _ => rfl | 3, _ => rfl | k + 4, h => by omega)
    · rfl
theorem src_port_x4_transpose4 : ∀ {m : Nat} (W : VOps 128 m), Soft.x4_transpose4 = SimdPortSrc.x4_transpose4 W := fun _ => rfl
theorem src_port_x2_unpack : ∀ {m : Nat} (W : VOps 128 m) (v : BitVec 256), SimdPortSrc.x2_unpack lo128 hi128 pack256 W v = v := by intro m W v; port_unfold [SimdPortSrc.x2_unpack]; bv_decide
theorem src_port_vec256_storage_from_x2 : ∀ {m : Nat} (W : VOps 128 m) (v : BitVec 256), SimdPortSrc.vec256_storage_from_x2 lo128 hi128 pack256 W v = v := by intro m W v; port_unfold [SimdPortSrc.vec256_storage_from_x2]; bv_decide
theorem src_port_x4_unpack : ∀ {m : Nat} (W : VOps 128 m) (v : BitVec 512), SimdPortSrc.x4_unpack W v = v := by intro m W v; port_unfold [SimdPortSrc.x4_unpack, q128, pack512]; bv_decide
theorem src_port_vec512_storage_from_x4 : ∀ {m : Nat} (W : VOps 128 m) (v : BitVec 512), SimdPortSrc.vec512_storage_from_x4 W v = v := by intro m W v; port_unfold [SimdPortSrc.vec512_storage_from_x4, q128, pack512]; bv_decide
theorem src_port_generic_decls : SimdPortSrc.generic_decls = [
      ("G0", ["struct {  }"]),
      ("G1", ["struct {  }"]),
      ("GenericMachine", ["struct {  }"]),
      ("u128x1_generic", ["#[repr(transparent)] struct { 0: [u128; 1] }"]),
      ("u128x2_generic", ["type = x2<u128x1_generic, G0>"]),
      ("u128x4_generic", ["type = x4<u128x1_generic>"]),
      ("u32x4_generic", ["#[repr(transparent)] struct { 0: [u32; 4] }"]),
      ("u32x4x2_generic", ["type = x2<u32x4_generic, G0>"]),
      ("u32x4x4_generic", ["type = x4<u32x4_generic>"]),
      ("u64x2_generic", ["#[repr(transparent)] struct { 0: [u64; 2] }"]),
      ("u64x2x2_generic", ["type = x2<u64x2_generic, G0>"]),
      ("u64x2x4_generic", ["type = x4<u64x2_generic>"]),
      ("u64x4_generic", ["type = x2<u64x2_generic, G1>"]),
      ("vec128_storage", ["#[repr(C)] union { d: [u32; 4], q: [u64; 2] }"]),
      ("vec256_storage", ["struct { v128: [vec128_storage; 2] }"]),
      ("vec512_storage", ["struct { v128: [vec128_storage; 4] }"])] := rfl
theorem src_port_soft_decls : SimdPortSrc.soft_decls = [
      ("x2", ["#[repr(transparent)] struct<W, G> { 0: [W; 2], 1: PhantomData<G> }"]),
      ("x4", ["#[repr(transparent)] struct<W> { 0: [W; 4] }"])] := rfl

/-- data movement of the portable backend and of the `x2` / `x4` wrappers: model = source (C13) -/
structure PortMovement : Prop where
  u32x4_generic_to_lanes : Generic.u32x4.toLanes = SimdPortSrc.u32x4_generic_to_lanes
  u32x4_generic_from_lanes : Generic.u32x4.fromLanes = SimdPortSrc.u32x4_generic_from_lanes
  u32x4_generic_unpack : ∀ v : BitVec 128, SimdPortSrc.u32x4_generic_unpack v = v
  vec128_storage_from_u32x4_generic : ∀ v : BitVec 128, SimdPortSrc.vec128_storage_from_u32x4_generic v = v
  u32x4_generic_extract : ∀ (v : BitVec 128) (i : Nat), SimdPortSrc.u32x4_generic_extract v i = if i < 4 then Out.ok (Generic.u32x4.extract v i) else Out.panic "index out of bounds"
  u32x4_generic_insert : ∀ (v : BitVec 128) (w : BitVec 32) (i : Nat), SimdPortSrc.u32x4_generic_insert v w i = if i < 4 then Out.ok (Generic.u32x4.insert v w i) else Out.panic "index out of bounds"
  u32x4_generic_unsafe_read_le : ∀ bs : List (BitVec 8), SimdPortSrc.u32x4_generic_unsafe_read_le bs = if bs.length = 16 then Out.ok (Generic.u32x4.readLe bs) else Out.panic "read_from_bytes: size mismatch"
  u32x4_generic_unsafe_read_be : ∀ bs : List (BitVec 8), SimdPortSrc.u32x4_generic_unsafe_read_be bs = if bs.length = 16 then Out.ok (Generic.u32x4.readBe bs) else Out.panic "read_from_bytes: size mismatch"
  u32x4_generic_write_le : ∀ (v : BitVec 128) (out : List (BitVec 8)), SimdPortSrc.u32x4_generic_write_le v out = if out.length = 16 then Out.ok (Generic.u32x4.writeLe v) else Out.panic "write_to: size mismatch"
  u32x4_generic_write_be : ∀ (v : BitVec 128) (out : List (BitVec 8)), SimdPortSrc.u32x4_generic_write_be v out = if out.length = 16 then Out.ok (Generic.u32x4.writeBe v) else Out.panic "write_to: size mismatch"
  u64x2_generic_to_lanes : Generic.u64x2.toLanes = SimdPortSrc.u64x2_generic_to_lanes
  u64x2_generic_from_lanes : Generic.u64x2.fromLanes = SimdPortSrc.u64x2_generic_from_lanes
  u64x2_generic_unpack : ∀ v : BitVec 128, SimdPortSrc.u64x2_generic_unpack v = v
  vec128_storage_from_u64x2_generic : ∀ v : BitVec 128, SimdPortSrc.vec128_storage_from_u64x2_generic v = v
  u64x2_generic_extract : ∀ (v : BitVec 128) (i : Nat), SimdPortSrc.u64x2_generic_extract v i = if i < 2 then Out.ok (Generic.u64x2.extract v i) else Out.panic "index out of bounds"
  u64x2_generic_insert : ∀ (v : BitVec 128) (w : BitVec 64) (i : Nat), SimdPortSrc.u64x2_generic_insert v w i = if i < 2 then Out.ok (Generic.u64x2.insert v w i) else Out.panic "index out of bounds"
  u64x2_generic_unsafe_read_le : ∀ bs : List (BitVec 8), SimdPortSrc.u64x2_generic_unsafe_read_le bs = if bs.length = 16 then Out.ok (Generic.u64x2.readLe bs) else Out.panic "read_from_bytes: size mismatch"
  u64x2_generic_unsafe_read_be : ∀ bs : List (BitVec 8), SimdPortSrc.u64x2_generic_unsafe_read_be bs = if bs.length = 16 then Out.ok (Generic.u64x2.readBe bs) else Out.panic "read_from_bytes: size mismatch"
  u64x2_generic_write_le : ∀ (v : BitVec 128) (out : List (BitVec 8)), SimdPortSrc.u64x2_generic_write_le v out = if out.length = 16 then Out.ok (Generic.u64x2.writeLe v) else Out.panic "write_to: size mismatch"
  u64x2_generic_write_be : ∀ (v : BitVec 128) (out : List (BitVec 8)), SimdPortSrc.u64x2_generic_write_be v out = if out.length = 16 then Out.ok (Generic.u64x2.writeBe v) else Out.panic "write_to: size mismatch"
  u128x1_generic_to_lanes : Generic.u128x1.toLanes = SimdPortSrc.u128x1_generic_to_lanes
  u128x1_generic_from_lanes : Generic.u128x1.fromLanes = SimdPortSrc.u128x1_generic_from_lanes
  u128x1_generic_unpack : ∀ v : BitVec 128, SimdPortSrc.u128x1_generic_unpack v = v
  vec128_storage_from_u128x1_generic : ∀ v : BitVec 128, SimdPortSrc.vec128_storage_from_u128x1_generic v = v
  vec128_storage_from_arr_u32_4 : Generic.u32x4.fromLanes = SimdPortSrc.vec128_storage_from_arr_u32_4
  arr_u32_4_from_vec128_storage : Generic.u32x4.toLanes = SimdPortSrc.arr_u32_4_from_vec128_storage
  vec128_storage_from_arr_u64_2 : Generic.u64x2.fromLanes = SimdPortSrc.vec128_storage_from_arr_u64_2
  arr_u64_2_from_vec128_storage : Generic.u64x2.toLanes = SimdPortSrc.arr_u64_2_from_vec128_storage
  vec128_storage_default : SimdPortSrc.vec128_storage_default = 0#128
  vec128_storage_eq : ∀ a b : BitVec 128, SimdPortSrc.vec128_storage_eq a b = decide (a = b)
  vec256_storage_new128 : ∀ xs : List (BitVec 128), SimdPortSrc.vec256_storage_new128 xs = pack256 (xs.getD 0 0) (xs.getD 1 0)
  vec256_storage_split128 : ∀ v : BitVec 256, SimdPortSrc.vec256_storage_split128 v = [lo128 v, hi128 v]
  vec512_storage_new128 : ∀ xs : List (BitVec 128), SimdPortSrc.vec512_storage_new128 xs = pack512 (xs.getD 0 0) (xs.getD 1 0) (xs.getD 2 0) (xs.getD 3 0)
  vec512_storage_split128 : ∀ v : BitVec 512, SimdPortSrc.vec512_storage_split128 v = [q128 v 0, q128 v 1, q128 v 2, q128 v 3]
  arr_u64_4_from_vec256_storage : Generic.u64x4.toLanes = SimdPortSrc.arr_u64_4_from_vec256_storage
  vec256_storage_from_arr_u64_4 : Generic.u64x4.fromLanes = SimdPortSrc.vec256_storage_from_arr_u64_4
  u64x4_generic_to_lanes : Generic.u64x4.toLanes = SimdPortSrc.u64x4_generic_to_lanes
  u64x4_generic_from_lanes : Generic.u64x4.fromLanes = SimdPortSrc.u64x4_generic_from_lanes
  u64x4_generic_extract : ∀ (v : BitVec 256) (i : Nat), SimdPortSrc.u64x4_generic_extract v i = if i < 4 then Out.ok (Generic.u64x4.extract v i) else Out.panic "index out of bounds"
  u64x4_generic_insert : ∀ (v : BitVec 256) (w : BitVec 64) (i : Nat), SimdPortSrc.u64x4_generic_insert v w i = if i < 4 then Out.ok (Generic.u64x4.insert v w i) else Out.panic "index out of bounds"
  u32x4x4_generic_to_scalars : Generic.toScalars = SimdPortSrc.u32x4x4_generic_to_scalars
  GenericMachine_instance : SimdPortSrc.GenericMachine_instance = ()
  x2_to_lanes : ∀ {n n2 m : Nat} (lo hi : BitVec n2 → BitVec n) (pack : BitVec n → BitVec n → BitVec n2) (W : VOps n m), (Soft.x2g lo hi pack W).toLanes = SimdPortSrc.x2_to_lanes lo hi pack W
  x2_from_lanes : ∀ {n n2 m : Nat} (lo hi : BitVec n2 → BitVec n) (pack : BitVec n → BitVec n → BitVec n2) (W : VOps n m), (Soft.x2g lo hi pack W).fromLanes = SimdPortSrc.x2_from_lanes lo hi pack W
  x2_new : ∀ {n n2 m : Nat} (lo hi : BitVec n2 → BitVec n) (pack : BitVec n → BitVec n → BitVec n2) (W : VOps n m), (Soft.x2g lo hi pack W).fromLanes = SimdPortSrc.x2_new lo hi pack W
  x2_unsafe_from : ∀ {n n2 m : Nat} (lo hi : BitVec n2 → BitVec n) (pack : BitVec n → BitVec n → BitVec n2) (W : VOps n m), (Soft.x2g lo hi pack W).fromLanes = SimdPortSrc.x2_unsafe_from lo hi pack W
  x2_unsafe_read_le : ∀ {n n2 m : Nat} (lo hi : BitVec n2 → BitVec n) (pack : BitVec n → BitVec n → BitVec n2) (W : VOps n m), (Soft.x2g lo hi pack W).readLe = SimdPortSrc.x2_unsafe_read_le lo hi pack W
  x2_unsafe_read_be : ∀ {n n2 m : Nat} (lo hi : BitVec n2 → BitVec n) (pack : BitVec n → BitVec n → BitVec n2) (W : VOps n m), (Soft.x2g lo hi pack W).readBe = SimdPortSrc.x2_unsafe_read_be lo hi pack W
  x2_write_le : ∀ {n n2 m : Nat} (lo hi : BitVec n2 → BitVec n) (pack : BitVec n → BitVec n → BitVec n2) (W : VOps n m), ∀ (v : BitVec n2) (out : List (BitVec 8)), (Soft.x2g lo hi pack W).writeLe v = SimdPortSrc.x2_write_le lo hi pack W v out
  x2_write_be : ∀ {n n2 m : Nat} (lo hi : BitVec n2 → BitVec n) (pack : BitVec n → BitVec n → BitVec n2) (W : VOps n m), ∀ (v : BitVec n2) (out : List (BitVec 8)), (Soft.x2g lo hi pack W).writeBe v = SimdPortSrc.x2_write_be lo hi pack W v out
  x2_extract : ∀ {n n2 m : Nat} (lo hi : BitVec n2 → BitVec n) (pack : BitVec n → BitVec n → BitVec n2) (W : VOps n m), ∀ (v : BitVec n2) (i : Nat), SimdPortSrc.x2_extract lo hi pack W v i = if i < 2 then Out.ok ((Soft.x2g lo hi pack W).extract v i) else Out.panic "index out of bounds"
  x2_insert : ∀ {n n2 m : Nat} (lo hi : BitVec n2 → BitVec n) (pack : BitVec n → BitVec n → BitVec n2) (W : VOps n m), ∀ (v : BitVec n2) (w : BitVec n) (i : Nat), SimdPortSrc.x2_insert lo hi pack W v w i = if i < 2 then Out.ok ((Soft.x2g lo hi pack W).insert v w i) else Out.panic "index out of bounds"
  x4_to_lanes : ∀ {m : Nat} (W : VOps 128 m), (Soft.x4 W).toLanes = SimdPortSrc.x4_to_lanes W
  x4_from_lanes : ∀ {m : Nat} (W : VOps 128 m), (Soft.x4 W).fromLanes = SimdPortSrc.x4_from_lanes W
  x4_new : ∀ {m : Nat} (W : VOps 128 m), (Soft.x4 W).fromLanes = SimdPortSrc.x4_new W
  x4_unsafe_from : ∀ {m : Nat} (W : VOps 128 m), (Soft.x4 W).fromLanes = SimdPortSrc.x4_unsafe_from W
  x4_unsafe_read_le : ∀ {m : Nat} (W : VOps 128 m), (Soft.x4 W).readLe = SimdPortSrc.x4_unsafe_read_le W
  x4_unsafe_read_be : ∀ {m : Nat} (W : VOps 128 m), (Soft.x4 W).readBe = SimdPortSrc.x4_unsafe_read_be W
  x4_write_le : ∀ {m : Nat} (W : VOps 128 m), ∀ (v : BitVec 512) (out : List (BitVec 8)), (Soft.x4 W).writeLe v = SimdPortSrc.x4_write_le W v out
  x4_write_be : ∀ {m : Nat} (W : VOps 128 m), ∀ (v : BitVec 512) (out : List (BitVec 8)), (Soft.x4 W).writeBe v = SimdPortSrc.x4_write_be W v out
  x4_extract : ∀ {m : Nat} (W : VOps 128 m), ∀ (v : BitVec 512) (i : Nat), SimdPortSrc.x4_extract W v i = if i < 4 then Out.ok ((Soft.x4 W).extract v i) else Out.panic "index out of bounds"
  x4_insert : ∀ {m : Nat} (W : VOps 128 m), ∀ (v : BitVec 512) (w : BitVec 128) (i : Nat), SimdPortSrc.x4_insert W v w i = if i < 4 then Out.ok ((Soft.x4 W).insert v w i) else Out.panic "index out of bounds"
  x4_transpose4 : ∀ {m : Nat} (W : VOps 128 m), Soft.x4_transpose4 = SimdPortSrc.x4_transpose4 W
  x2_unpack : ∀ {m : Nat} (W : VOps 128 m) (v : BitVec 256), SimdPortSrc.x2_unpack lo128 hi128 pack256 W v = v
  vec256_storage_from_x2 : ∀ {m : Nat} (W : VOps 128 m) (v : BitVec 256), SimdPortSrc.vec256_storage_from_x2 lo128 hi128 pack256 W v = v
  x4_unpack : ∀ {m : Nat} (W : VOps 128 m) (v : BitVec 512), SimdPortSrc.x4_unpack W v = v
  vec512_storage_from_x4 : ∀ {m : Nat} (W : VOps 128 m) (v : BitVec 512), SimdPortSrc.vec512_storage_from_x4 W v = v
  generic_decls : SimdPortSrc.generic_decls = [
      ("G0", ["struct {  }"]),
      ("G1", ["struct {  }"]),
      ("GenericMachine", ["struct {  }"]),
      ("u128x1_generic", ["#[repr(transparent)] struct { 0: [u128; 1] }"]),
      ("u128x2_generic", ["type = x2<u128x1_generic, G0>"]),
      ("u128x4_generic", ["type = x4<u128x1_generic>"]),
      ("u32x4_generic", ["#[repr(transparent)] struct { 0: [u32; 4] }"]),
      ("u32x4x2_generic", ["type = x2<u32x4_generic, G0>"]),
      ("u32x4x4_generic", ["type = x4<u32x4_generic>"]),
      ("u64x2_generic", ["#[repr(transparent)] struct { 0: [u64; 2] }"]),
      ("u64x2x2_generic", ["type = x2<u64x2_generic, G0>"]),
      ("u64x2x4_generic", ["type = x4<u64x2_generic>"]),
      ("u64x4_generic", ["type = x2<u64x2_generic, G1>"]),
      ("vec128_storage", ["#[repr(C)] union { d: [u32; 4], q: [u64; 2] }"]),
      ("vec256_storage", ["struct { v128: [vec128_storage; 2] }"]),
      ("vec512_storage", ["struct { v128: [vec128_storage; 4] }"])]
  soft_decls : SimdPortSrc.soft_decls = [
      ("x2", ["#[repr(transparent)] struct<W, G> { 0: [W; 2], 1: PhantomData<G> }"]),
      ("x4", ["#[repr(transparent)] struct<W> { 0: [W; 4] }"])]

theorem portMovement : PortMovement where
  u32x4_generic_to_lanes := src_port_u32x4_generic_to_lanes
  u32x4_generic_from_lanes := src_port_u32x4_generic_from_lanes
  u32x4_generic_unpack := src_port_u32x4_generic_unpack
  vec128_storage_from_u32x4_generic := src_port_vec128_storage_from_u32x4_generic
  u32x4_generic_extract := src_port_u32x4_generic_extract
  u32x4_generic_insert := src_port_u32x4_generic_insert
  u32x4_generic_unsafe_read_le := src_port_u32x4_generic_unsafe_read_le
  u32x4_generic_unsafe_read_be := src_port_u32x4_generic_unsafe_read_be
  u32x4_generic_write_le := src_port_u32x4_generic_write_le
  u32x4_generic_write_be := src_port_u32x4_generic_write_be
  u64x2_generic_to_lanes := src_port_u64x2_generic_to_lanes
  u64x2_generic_from_lanes := src_port_u64x2_generic_from_lanes
  u64x2_generic_unpack := src_port_u64x2_generic_unpack
  vec128_storage_from_u64x2_generic := src_port_vec128_storage_from_u64x2_generic
  u64x2_generic_extract := src_port_u64x2_generic_extract
  u64x2_generic_insert := src_port_u64x2_generic_insert
  u64x2_generic_unsafe_read_le := src_port_u64x2_generic_unsafe_read_le
  u64x2_generic_unsafe_read_be := src_port_u64x2_generic_unsafe_read_be
  u64x2_generic_write_le := src_port_u64x2_generic_write_le
  u64x2_generic_write_be := src_port_u64x2_generic_write_be
  u128x1_generic_to_lanes := src_port_u128x1_generic_to_lanes
  u128x1_generic_from_lanes := src_port_u128x1_generic_from_lanes
  u128x1_generic_unpack := src_port_u128x1_generic_unpack
  vec128_storage_from_u128x1_generic := src_port_vec128_storage_from_u128x1_generic
  vec128_storage_from_arr_u32_4 := src_port_vec128_storage_from_arr_u32_4
  arr_u32_4_from_vec128_storage := src_port_arr_u32_4_from_vec128_storage
  vec128_storage_from_arr_u64_2 := src_port_vec128_storage_from_arr_u64_2
  arr_u64_2_from_vec128_storage := src_port_arr_u64_2_from_vec128_storage
  vec128_storage_default := src_port_vec128_storage_default
  vec128_storage_eq := src_port_vec128_storage_eq
  vec256_storage_new128 := src_port_vec256_storage_new128
  vec256_storage_split128 := src_port_vec256_storage_split128
  vec512_storage_new128 := src_port_vec512_storage_new128
  vec512_storage_split128 := src_port_vec512_storage_split128
  arr_u64_4_from_vec256_storage := src_port_arr_u64_4_from_vec256_storage
  vec256_storage_from_arr_u64_4 := src_port_vec256_storage_from_arr_u64_4
  u64x4_generic_to_lanes := src_port_u64x4_generic_to_lanes
  u64x4_generic_from_lanes := src_port_u64x4_generic_from_lanes
  u64x4_generic_extract := src_port_u64x4_generic_extract
  u64x4_generic_insert := src_port_u64x4_generic_insert
  u32x4x4_generic_to_scalars := src_port_u32x4x4_generic_to_scalars
  GenericMachine_instance := src_port_GenericMachine_instance
  x2_to_lanes := src_port_x2_to_lanes
  x2_from_lanes := src_port_x2_from_lanes
  x2_new := src_port_x2_new
  x2_unsafe_from := src_port_x2_unsafe_from
  x2_unsafe_read_le := src_port_x2_unsafe_read_le
  x2_unsafe_read_be := src_port_x2_unsafe_read_be
  x2_write_le := src_port_x2_write_le
  x2_write_be := src_port_x2_write_be
  x2_extract := src_port_x2_extract
  x2_insert := src_port_x2_insert
  x4_to_lanes := src_port_x4_to_lanes
  x4_from_lanes := src_port_x4_from_lanes
  x4_new := src_port_x4_new
  x4_unsafe_from := src_port_x4_unsafe_from
  x4_unsafe_read_le := src_port_x4_unsafe_read_le
  x4_unsafe_read_be := src_port_x4_unsafe_read_be
  x4_write_le := src_port_x4_write_le
  x4_write_be := src_port_x4_write_be
  x4_extract := src_port_x4_extract
  x4_insert := src_port_x4_insert
  x4_transpose4 := src_port_x4_transpose4
  x2_unpack := src_port_x2_unpack
  vec256_storage_from_x2 := src_port_vec256_storage_from_x2
  x4_unpack := src_port_x4_unpack
  vec512_storage_from_x4 := src_port_vec512_storage_from_x4
  generic_decls := src_port_generic_decls
  soft_decls := src_port_soft_decls

end CC.Src
