/-
  CC.Simd.Impl — which Rust type each `Machine` uses for each associated vector type
  (`impl Machine for SseMachine<S3,S4,NI>`, `impl Machine for Avx2Machine<NI>` in
  `x86_64/mod.rs`; `impl Machine for GenericMachine` in `generic.rs`), as a table of operation
  records:

      SSE2  = SseMachine<NoS3,  NoS4,  NoNI>        SSE41 = AVX = SseMachine<YesS3, YesS4, NoNI>
      SSSE3 = SseMachine<YesS3, NoS4,  NoNI>        AVX2  = Avx2Machine<NoNI>

  `Avx2Machine` uses the `<YesS3, YesS4>` SSE types for everything except `u32x4x2`
  (`u32x4x2_avx2`) and `u32x4x4` (`u32x4x4_avx2`).
-/
import CC.Simd.VOps
import CC.Simd.Impl.Soft
import CC.Simd.Impl.X86
import CC.Simd.Impl.X86Wide
import CC.Simd.Impl.Generic
namespace CC.Simd

open Impl in
/-- The operation record of vector type `τ` on backend `b`. -/
def impl (b : Backend) : (τ : Ty) → VOps τ.bits τ.elem
  | .u32x4 => match b with
    | .generic => Generic.u32x4
    | _ => X86.u32x4 b.s3 b.s4
  | .u64x2 => match b with
    | .generic => Generic.u64x2
    | _ => X86.u64x2 b.s3 b.s4
  | .u128x1 => match b with
    | .generic => Generic.u128x1
    | _ => X86.u128x1 b.s3
  | .u32x4x2 => match b with
    | .generic => Soft.x2 Generic.u32x4
    | .avx2 => Avx2.u32x4x2
    | _ => Soft.x2 (X86.u32x4 b.s3 b.s4)
  | .u64x2x2 => match b with
    | .generic => Soft.x2 Generic.u64x2
    | _ => Soft.x2 (X86.u64x2 b.s3 b.s4)
  | .u64x4 => match b with
    | .generic => Generic.u64x4
    | _ => X86.u64x4 b.s3 b.s4
  | .u128x2 => match b with
    | .generic => Soft.x2 Generic.u128x1
    | _ => Soft.x2 (X86.u128x1 b.s3)
  | .u32x4x4 => match b with
    | .generic => Soft.x4 Generic.u32x4
    | .avx2 => Avx2.u32x4x4
    | _ => Soft.x4 (X86.u32x4 b.s3 b.s4)
  | .u64x2x4 => match b with
    | .generic => Soft.x4 Generic.u64x2
    | _ => Soft.x4 (X86.u64x2 b.s3 b.s4)
  | .u128x4 => match b with
    | .generic => Soft.x4 Generic.u128x1
    | _ => Soft.x4 (X86.u128x1 b.s3)

open Impl in
/-- `Vec4Ext::transpose4` of the backend's `u32x4x4` -/
def implTranspose4 : Backend → BitVec 512 → BitVec 512 → BitVec 512 → BitVec 512 →
    BitVec 512 × BitVec 512 × BitVec 512 × BitVec 512
  | .avx2 => Avx2.transpose4
  | _ => Soft.x4_transpose4

open Impl in
/-- `Vector<[u32;16]>::to_scalars` of the backend's `u32x4x4` -/
def implToScalars : Backend → BitVec 512 → List (BitVec 32)
  | .generic => Generic.toScalars
  | _ => X86.toScalars

end CC.Simd
