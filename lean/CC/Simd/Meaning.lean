/-
  CC.Simd.Meaning — the scalar meaning of every ppv-lite86 operation, per vector type, written
  with the lane vocabulary of `CC/Simd/Mach.lean` (`map32/zip32/map64/zip64/map256/zip256/
  map512/zip512`, `shuf*`, `swapBits`, `bswap32/64`, `insert32`, `transpose4_512`) and the
  byte/word conversions of `CC/Prim.lean`.  Backend-free: this is what the operation's *name*
  promises, lane by lane, independent of how any backend computes it.

      add            wrapping addition of corresponding words
      xor/and/or     bitwise; `andnot a b = ¬a ∧ b`; `not` flips every bit
      rotr k         every word rotated right by k
      shuffleABCD    word j moves to position name[j]   (1230: [x0,x1,x2,x3] ↦ [x3,x0,x1,x2])
      swap k         adjacent k-bit groups exchanged
      bswap          byte order of every word reversed
      extract/insert element i read / replaced
      to/from_lanes  the elements in order, element 0 first
      read_le/write_le  the storage bytes;   read_be/write_be  every word big-endian
-/
import CC.Simd.VOps
namespace CC.Simd.Meaning

def insert64 (v : BitVec 128) (w : BitVec 64) (i : Nat) : BitVec 128 :=
  pack64 (if i = 0 then w else lane64 v 0) (if i = 1 then w else lane64 v 1)

/-- byte reversal of a 128-bit word -/
def bswap128 (w : BitVec 128) : BitVec 128 := bswap64 (lane64 w 0) ++ bswap64 (lane64 w 1)

def shuf32 (c : Nat) (v : BitVec 128) : BitVec 128 :=
  match c with
  | 1230 => shuf1230_32 v
  | 2301 => shuf2301_32 v
  | 3012 => shuf3012_32 v
  | _ => v
def shuf64 (c : Nat) (v : BitVec 256) : BitVec 256 :=
  match c with
  | 1230 => shuf1230_64 v
  | 2301 => shuf2301_64 v
  | 3012 => shuf3012_64 v
  | _ => v

def u32x4 : VOps 128 32 where
  add := zip32 (· + ·)
  xor := (· ^^^ ·)
  and := (· &&& ·)
  or := (· ||| ·)
  andnot := fun a b => ~~~a &&& b
  not := fun a => ~~~a
  rotr := fun k => map32 (·.rotateRight k)
  shuffle := shuf32
  shuffleLane := shuf32
  swap := swapBits
  bswap := map32 bswap32
  extract := lane32
  insert := insert32
  toLanes := fun v => [lane32 v 0, lane32 v 1, lane32 v 2, lane32 v 3]
  fromLanes := fun xs => pack32 (xs.getD 0 0) (xs.getD 1 0) (xs.getD 2 0) (xs.getD 3 0)
  readLe := fun bs => ofLeBytes 128 (bs.take 16)
  readBe := fun bs => pack32 (read32be bs) (read32be (bs.drop 4)) (read32be (bs.drop 8)) (read32be (bs.drop 12))
  writeLe := fun v => toLeBytes v 16
  writeBe := fun v => toBe32 (lane32 v 0) ++ toBe32 (lane32 v 1) ++ toBe32 (lane32 v 2) ++ toBe32 (lane32 v 3)

def u64x2 : VOps 128 64 where
  add := zip64 (· + ·)
  xor := (· ^^^ ·)
  and := (· &&& ·)
  or := (· ||| ·)
  andnot := fun a b => ~~~a &&& b
  not := fun a => ~~~a
  rotr := fun k => map64 (·.rotateRight k)
  shuffle := fun _ v => v
  shuffleLane := fun _ v => v
  swap := swapBits
  bswap := map64 bswap64
  extract := lane64
  insert := insert64
  toLanes := fun v => [lane64 v 0, lane64 v 1]
  fromLanes := fun xs => pack64 (xs.getD 0 0) (xs.getD 1 0)
  readLe := fun bs => ofLeBytes 128 (bs.take 16)
  readBe := fun bs => pack64 (read64be bs) (read64be (bs.drop 8))
  writeLe := fun v => toLeBytes v 16
  writeBe := fun v => toBe64 (lane64 v 0) ++ toBe64 (lane64 v 1)

def u128x1 : VOps 128 128 where
  add := (· + ·)
  xor := (· ^^^ ·)
  and := (· &&& ·)
  or := (· ||| ·)
  andnot := fun a b => ~~~a &&& b
  not := fun a => ~~~a
  rotr := fun k v => v.rotateRight k
  shuffle := fun _ v => v
  shuffleLane := fun _ v => v
  swap := swapBits
  bswap := bswap128
  extract := fun v _ => v
  insert := fun v _ _ => v
  toLanes := fun v => [v]
  fromLanes := fun xs => xs.getD 0 0
  readLe := fun bs => ofLeBytes 128 (bs.take 16)
  readBe := fun bs => ofBeBytes 128 (bs.take 16)
  writeLe := fun v => toLeBytes v 16
  writeBe := fun v => toBeBytes v 16

/-- A vector of two 128-bit lanes whose lanes mean `M`: everything lane-wise, lane 0 first. -/
def lift2 {m : Nat} (M : VOps 128 m) : VOps 256 128 where
  add := zip256 M.add
  xor := zip256 M.xor
  and := zip256 M.and
  or := zip256 M.or
  andnot := zip256 M.andnot
  not := map256 M.not
  rotr := fun k => map256 (M.rotr k)
  shuffle := fun _ v => v
  shuffleLane := fun c => map256 (M.shuffleLane c)
  swap := fun k => map256 (M.swap k)
  bswap := map256 M.bswap
  extract := fun v i => if i = 0 then lo128 v else hi128 v
  insert := fun v w i => pack256 (if i = 0 then w else lo128 v) (if i = 1 then w else hi128 v)
  toLanes := fun v => [lo128 v, hi128 v]
  fromLanes := fun xs => pack256 (xs.getD 0 0) (xs.getD 1 0)
  readLe := fun bs => pack256 (M.readLe (bs.take 16)) (M.readLe ((bs.drop 16).take 16))
  readBe := fun bs => pack256 (M.readBe (bs.take 16)) (M.readBe ((bs.drop 16).take 16))
  writeLe := fun v => M.writeLe (lo128 v) ++ M.writeLe (hi128 v)
  writeBe := fun v => M.writeBe (lo128 v) ++ M.writeBe (hi128 v)

/-- A vector of four 128-bit lanes whose lanes mean `M`. -/
def lift4 {m : Nat} (M : VOps 128 m) : VOps 512 128 where
  add := zip512 M.add
  xor := zip512 M.xor
  and := zip512 M.and
  or := zip512 M.or
  andnot := zip512 M.andnot
  not := map512 M.not
  rotr := fun k => map512 (M.rotr k)
  shuffle := fun _ v => v
  shuffleLane := fun c => map512 (M.shuffleLane c)
  swap := fun k => map512 (M.swap k)
  bswap := map512 M.bswap
  extract := fun v i => q128 v i
  insert := fun v w i =>
    pack512 (if i = 0 then w else q128 v 0) (if i = 1 then w else q128 v 1)
            (if i = 2 then w else q128 v 2) (if i = 3 then w else q128 v 3)
  toLanes := fun v => [q128 v 0, q128 v 1, q128 v 2, q128 v 3]
  fromLanes := fun xs => pack512 (xs.getD 0 0) (xs.getD 1 0) (xs.getD 2 0) (xs.getD 3 0)
  readLe := fun bs => pack512 (M.readLe (bs.take 16)) (M.readLe ((bs.drop 16).take 16))
                              (M.readLe ((bs.drop 32).take 16)) (M.readLe ((bs.drop 48).take 16))
  readBe := fun bs => pack512 (M.readBe (bs.take 16)) (M.readBe ((bs.drop 16).take 16))
                              (M.readBe ((bs.drop 32).take 16)) (M.readBe ((bs.drop 48).take 16))
  writeLe := fun v => M.writeLe (q128 v 0) ++ M.writeLe (q128 v 1) ++ M.writeLe (q128 v 2) ++ M.writeLe (q128 v 3)
  writeBe := fun v => M.writeBe (q128 v 0) ++ M.writeBe (q128 v 1) ++ M.writeBe (q128 v 2) ++ M.writeBe (q128 v 3)

/-- `u64x4`: four 64-bit words; word-wise ops as for two `u64x2` lanes, `Vec4`/`MultiLane`/`Words4`
    over the four words. -/
def u64x4 : VOps 256 64 :=
  let L := lift2 u64x2
  { add := L.add, xor := L.xor, and := L.and, or := L.or, andnot := L.andnot, not := L.not,
    rotr := L.rotr, shuffleLane := L.shuffleLane, swap := L.swap, bswap := L.bswap,
    readLe := L.readLe, readBe := L.readBe, writeLe := L.writeLe, writeBe := L.writeBe,
    shuffle := shuf64,
    extract := w64,
    insert := fun v w i =>
      pack64x4 (if i = 0 then w else w64 v 0) (if i = 1 then w else w64 v 1)
               (if i = 2 then w else w64 v 2) (if i = 3 then w else w64 v 3),
    toLanes := fun v => [w64 v 0, w64 v 1, w64 v 2, w64 v 3],
    fromLanes := fun xs => pack64x4 (xs.getD 0 0) (xs.getD 1 0) (xs.getD 2 0) (xs.getD 3 0) }

/-- `to_scalars`: the sixteen 32-bit words in lane order, word 0 of lane 0 first. -/
def toScalars (v : BitVec 512) : List (BitVec 32) :=
  (lift4 u32x4).toLanes v |>.flatMap u32x4.toLanes

end CC.Simd.Meaning

namespace CC.Simd

/-- The scalar meaning of vector type `τ` (the same for every backend). -/
def meaning : (τ : Ty) → VOps τ.bits τ.elem
  | .u32x4 => Meaning.u32x4
  | .u64x2 => Meaning.u64x2
  | .u128x1 => Meaning.u128x1
  | .u32x4x2 => Meaning.lift2 Meaning.u32x4
  | .u64x2x2 => Meaning.lift2 Meaning.u64x2
  | .u64x4 => Meaning.u64x4
  | .u128x2 => Meaning.lift2 Meaning.u128x1
  | .u32x4x4 => Meaning.lift4 Meaning.u32x4
  | .u64x2x4 => Meaning.lift4 Meaning.u64x2
  | .u128x4 => Meaning.lift4 Meaning.u128x1

def meaningTranspose4 := transpose4_512

end CC.Simd
