/-
  CC.Simd.Backends — the six `Mach` records the algorithm models run on, built from the
  implementation transcriptions (`CC.Simd.impl b τ`), field by field.

  Fields that take a `Nat` rotation / swap amount or an index exist in the Rust only for the
  amounts the traits name (`rotate_each_word_right{7,8,11,12,16,20,24,25,32}`, `swap{1,…,64}`,
  indices below the element count, byte strings of the exact size — anything else does not compile
  or panics).  For exactly those arguments the field is the implementation; for all other
  arguments (which no algorithm uses) it falls back to the reference meaning, so that
  `Mach.ofBackend b = Mach.ref` (C03 `backend_eq_ref`) can be a plain equality of records.
  Note `fromLanes512/toLanes512/xor512` serve both `u32x4x4` and `u64x2x4` in `Mach`; they are
  taken from the backend's `u32x4x4` (on AVX2 the `__m256i` pair), `add64x8` from its `u64x2x4`.
-/
import CC.Simd.Impl
namespace CC.Simd

def Mach.ofBackend (b : Backend) : Mach :=
  let V32 : VOps 128 32 := impl b .u32x4
  let V64 : VOps 128 64 := impl b .u64x2
  let V128 : VOps 128 128 := impl b .u128x1
  let W128 : VOps 256 128 := impl b .u128x2
  let Q64 : VOps 256 64 := impl b .u64x4
  let X32 : VOps 512 128 := impl b .u32x4x4
  let X64 : VOps 512 128 := impl b .u64x2x4
  { add32 := V32.add
    xor128 := V32.xor
    rotr32 := fun k => if k ∈ rot32Ks then V32.rotr k else Mach.ref.rotr32 k
    shuf1230 := V32.shuffle 1230
    shuf2301 := V32.shuffle 2301
    shuf3012 := V32.shuffle 3012
    vec32 := fun a b c d => V32.fromLanes [a, b, c, d]
    extract32 := fun v i => if i < 4 then V32.extract v i else Mach.ref.extract32 v i
    insert32 := fun v w i => if i < 4 then V32.insert v w i else Mach.ref.insert32 v w i
    readLe32x4 := fun bs => if bs.length * 8 = 128 then V32.readLe bs else Mach.ref.readLe32x4 bs
    writeLe32x4 := V32.writeLe
    writeBe32x4 := V32.writeBe
    add64 := V64.add
    vec64 := fun a b => V64.fromLanes [a, b]
    fromLanes512 := fun a b c d => X32.fromLanes [a, b, c, d]
    toLanes512 := fun v =>
      let l := X32.toLanes v
      (l.getD 0 0, l.getD 1 0, l.getD 2 0, l.getD 3 0)
    add32x16 := X32.add
    add64x8 := X64.add
    xor512 := X32.xor
    rotr32x16 := fun k => if k ∈ rot32Ks then X32.rotr k else Mach.ref.rotr32x16 k
    shufLane1230 := X32.shuffleLane 1230
    shufLane2301 := X32.shuffleLane 2301
    shufLane3012 := X32.shuffleLane 3012
    transpose4 := implTranspose4 b
    writeLe32x16 := X32.writeLe
    vec64x4 := fun a b c d => Q64.fromLanes [a, b, c, d]
    add64x4 := Q64.add
    xor256 := Q64.xor
    rotr64x4 := fun k => if k ∈ rot64Ks then Q64.rotr k else Mach.ref.rotr64x4 k
    shuf1230q := Q64.shuffle 1230
    shuf2301q := Q64.shuffle 2301
    shuf3012q := Q64.shuffle 3012
    writeBe64x4 := Q64.writeBe
    swap128 := fun k => if k ∈ swapKs then V128.swap k else Mach.ref.swap128 k
    vzip256 := fun a b => W128.fromLanes [a, b]
    extract256 := fun v i => if i < 2 then W128.extract v i else Mach.ref.extract256 v i
    not256 := W128.not
    and256 := W128.and
    or256 := W128.or
    andnot256 := W128.andnot }

def Mach.generic : Mach := Mach.ofBackend .generic
def Mach.sse2 : Mach := Mach.ofBackend .sse2
def Mach.ssse3 : Mach := Mach.ofBackend .ssse3
def Mach.sse41 : Mach := Mach.ofBackend .sse41
def Mach.avx : Mach := Mach.ofBackend .avx
def Mach.avx2 : Mach := Mach.ofBackend .avx2

def Mach.ofName : String → Option Mach
  | "ref" => some Mach.ref
  | s => (Backend.ofName s).map Mach.ofBackend

end CC.Simd
