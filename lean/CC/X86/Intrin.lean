/-
  CC.X86.Intrin — Lean definitions of the x86 intrinsics used by
  `ppv-lite86/src/x86_64/sse2.rs` (SSE2 / SSSE3 / SSE4.1 / AVX2 integer subset).

  A `__m128i` is a `BitVec 128`, a `__m256i` a `BitVec 256`; byte/lane 0 sits in the least
  significant bits (the register layout, and the little-endian memory image).  Every definition
  follows the "Operation" pseudo-code of the Intel Intrinsics Guide.  Immediates are `Nat`s
  (the Rust const generics restrict them to 8 bits, or to 1/2 bits for the lane-indexed ones);
  the definitions mask them exactly as the instruction encodings do.

  Import-free (core Lean only) so that the driver executable links.  The correspondence run
  (`intrin …` protocol lines, `tools/gens.py: gen_C12`) executes every definition against
  `core::arch::x86_64` on the host.
-/
namespace CC.X86

/-! ## element access -/

def b8 (a : BitVec 128) (i : Nat) : BitVec 8 := a.extractLsb' (8 * i) 8
def w16 (a : BitVec 128) (i : Nat) : BitVec 16 := a.extractLsb' (16 * i) 16
def d32 (a : BitVec 128) (i : Nat) : BitVec 32 := a.extractLsb' (32 * i) 32
def q64 (a : BitVec 128) (i : Nat) : BitVec 64 := a.extractLsb' (64 * i) 64

def mk8 (f : Nat → BitVec 8) : BitVec 128 :=
  f 15 ++ f 14 ++ f 13 ++ f 12 ++ f 11 ++ f 10 ++ f 9 ++ f 8 ++
  f 7 ++ f 6 ++ f 5 ++ f 4 ++ f 3 ++ f 2 ++ f 1 ++ f 0
def mk16 (f : Nat → BitVec 16) : BitVec 128 :=
  f 7 ++ f 6 ++ f 5 ++ f 4 ++ f 3 ++ f 2 ++ f 1 ++ f 0
def mk32 (f : Nat → BitVec 32) : BitVec 128 := f 3 ++ f 2 ++ f 1 ++ f 0
def mk64 (f : Nat → BitVec 64) : BitVec 128 := f 1 ++ f 0

/-- low / high 128-bit lane of a 256-bit register -/
def lo (a : BitVec 256) : BitVec 128 := a.extractLsb' 0 128
def hi (a : BitVec 256) : BitVec 128 := a.extractLsb' 128 128
def mk256 (l h : BitVec 128) : BitVec 256 := h ++ l

/-! ## SSE2 arithmetic / logic -/

def _mm_add_epi32 (a b : BitVec 128) : BitVec 128 := mk32 fun i => d32 a i + d32 b i
def _mm_add_epi64 (a b : BitVec 128) : BitVec 128 := mk64 fun i => q64 a i + q64 b i
def _mm_and_si128 (a b : BitVec 128) : BitVec 128 := a &&& b
def _mm_or_si128 (a b : BitVec 128) : BitVec 128 := a ||| b
def _mm_xor_si128 (a b : BitVec 128) : BitVec 128 := a ^^^ b
/-- `dst := (NOT a) AND b` -/
def _mm_andnot_si128 (a b : BitVec 128) : BitVec 128 := ~~~a &&& b

/-! ## shifts (count = imm8; counts ≥ element width give 0) -/

def _mm_srli_epi16 (a : BitVec 128) (imm : Nat) : BitVec 128 :=
  if imm % 256 > 15 then 0 else mk16 fun i => w16 a i >>> (imm % 256)
def _mm_slli_epi16 (a : BitVec 128) (imm : Nat) : BitVec 128 :=
  if imm % 256 > 15 then 0 else mk16 fun i => w16 a i <<< (imm % 256)
def _mm_srli_epi32 (a : BitVec 128) (imm : Nat) : BitVec 128 :=
  if imm % 256 > 31 then 0 else mk32 fun i => d32 a i >>> (imm % 256)
def _mm_slli_epi32 (a : BitVec 128) (imm : Nat) : BitVec 128 :=
  if imm % 256 > 31 then 0 else mk32 fun i => d32 a i <<< (imm % 256)
def _mm_srli_epi64 (a : BitVec 128) (imm : Nat) : BitVec 128 :=
  if imm % 256 > 63 then 0 else mk64 fun i => q64 a i >>> (imm % 256)
def _mm_slli_epi64 (a : BitVec 128) (imm : Nat) : BitVec 128 :=
  if imm % 256 > 63 then 0 else mk64 fun i => q64 a i <<< (imm % 256)

/-- byte shift right of the whole register (`psrldq`): `tmp := imm8; IF tmp > 15 THEN tmp := 16` -/
def _mm_srli_si128 (a : BitVec 128) (imm : Nat) : BitVec 128 :=
  a >>> (8 * (if imm % 256 > 15 then 16 else imm % 256))
/-- byte shift left of the whole register (`pslldq`) -/
def _mm_slli_si128 (a : BitVec 128) (imm : Nat) : BitVec 128 :=
  a <<< (8 * (if imm % 256 > 15 then 16 else imm % 256))

/-! ## shuffles -/

/-- `pshufd`: `dst.dword[i] := a.dword[imm8[2i+1:2i]]` -/
def _mm_shuffle_epi32 (a : BitVec 128) (imm : Nat) : BitVec 128 :=
  mk32 fun i => d32 a (imm / 4 ^ i % 4)

/-- `pshuflw`: the four low words are selected from the low quadword, the high quadword is copied -/
def _mm_shufflelo_epi16 (a : BitVec 128) (imm : Nat) : BitVec 128 :=
  q64 a 1 ++ (w16 a (imm / 64 % 4) ++ w16 a (imm / 16 % 4) ++ w16 a (imm / 4 % 4) ++ w16 a (imm % 4))

/-- `pshufhw`: the four high words are selected from the high quadword, the low quadword is copied -/
def _mm_shufflehi_epi16 (a : BitVec 128) (imm : Nat) : BitVec 128 :=
  (w16 a (4 + imm / 64 % 4) ++ w16 a (4 + imm / 16 % 4) ++ w16 a (4 + imm / 4 % 4) ++ w16 a (4 + imm % 4))
    ++ q64 a 0

/-- one result byte of `pshufb`: `IF b[7] THEN 0 ELSE a.byte[b[3:0]]` -/
def pshufbByte (a : BitVec 128) (b : BitVec 8) : BitVec 8 :=
  if b.msb then 0#8 else (a >>> ((b &&& 0x0f#8).setWidth 128 <<< 3)).setWidth 8

/-- `pshufb` (SSSE3) -/
def _mm_shuffle_epi8 (a b : BitVec 128) : BitVec 128 := mk8 fun i => pshufbByte a (b8 b i)

/-- `punpcklbw`: interleave the low eight bytes of `a` (even positions) and `b` (odd positions) -/
def _mm_unpacklo_epi8 (a b : BitVec 128) : BitVec 128 :=
  mk8 fun j => if j % 2 = 0 then b8 a (j / 2) else b8 b (j / 2)
/-- `punpckhbw`: interleave the high eight bytes -/
def _mm_unpackhi_epi8 (a b : BitVec 128) : BitVec 128 :=
  mk8 fun j => if j % 2 = 0 then b8 a (8 + j / 2) else b8 b (8 + j / 2)

/-- unsigned saturation of a signed 16-bit integer to 8 bits -/
def satU8 (w : BitVec 16) : BitVec 8 :=
  if w.msb then 0x00#8 else if w.extractLsb' 8 8 = 0#8 then w.setWidth 8 else 0xff#8

/-- `packuswb`: bytes 0..7 from the words of `a`, bytes 8..15 from the words of `b` -/
def _mm_packus_epi16 (a b : BitVec 128) : BitVec 128 :=
  mk8 fun j => if j < 8 then satU8 (w16 a j) else satU8 (w16 b (j - 8))

/-- `palignr` (SSSE3): `tmp[255:0] := ((a << 128) OR b) >> (imm8*8); dst := tmp[127:0]` -/
def _mm_alignr_epi8 (a b : BitVec 128) (imm : Nat) : BitVec 128 :=
  (((a ++ b : BitVec 256) >>> (8 * (imm % 256)))).setWidth 128

/-! ## set / convert / insert / extract -/

def _mm_set_epi64x (e1 e0 : BitVec 64) : BitVec 128 := e1 ++ e0
def _mm_set_epi32 (e3 e2 e1 e0 : BitVec 32) : BitVec 128 := e3 ++ e2 ++ e1 ++ e0
def _mm_set1_epi8 (b : BitVec 8) : BitVec 128 := mk8 fun _ => b
def _mm_set1_epi64x (q : BitVec 64) : BitVec 128 := q ++ q
def _mm_setzero_si128 : BitVec 128 := 0
/-- `movq xmm, r64`: zero-extends -/
def _mm_cvtsi64_si128 (q : BitVec 64) : BitVec 128 := q.setWidth 128
/-- `movq r64, xmm` -/
def _mm_cvtsi128_si64 (a : BitVec 128) : BitVec 64 := a.setWidth 64
/-- `movd xmm, r32`: zero-extends -/
def _mm_cvtsi32_si128 (d : BitVec 32) : BitVec 128 := d.setWidth 128
/-- `pextrq` (SSE4.1) -/
def _mm_extract_epi64 (a : BitVec 128) (imm : Nat) : BitVec 64 := q64 a (imm % 2)
/-- `pinsrq` (SSE4.1) -/
def _mm_insert_epi64 (a : BitVec 128) (q : BitVec 64) (imm : Nat) : BitVec 128 :=
  mk64 fun i => if i = imm % 2 then q else q64 a i
/-- `pinsrd` (SSE4.1) -/
def _mm_insert_epi32 (a : BitVec 128) (d : BitVec 32) (imm : Nat) : BitVec 128 :=
  mk32 fun i => if i = imm % 4 then d else d32 a i
/-- `movq xmm, xmm`: low quadword, upper zeroed -/
def _mm_move_epi64 (a : BitVec 128) : BitVec 128 := (q64 a 0).setWidth 128

/-- `movdqu` load: byte `i` of memory becomes byte `i` of the register (absent bytes read as 0;
    the Rust callers assert the exact length first). -/
def _mm_loadu_si128 (bs : List (BitVec 8)) : BitVec 128 := mk8 fun i => bs.getD i 0
/-- `movdqu` store -/
def _mm_storeu_si128 (a : BitVec 128) : List (BitVec 8) :=
  [b8 a 0, b8 a 1, b8 a 2, b8 a 3, b8 a 4, b8 a 5, b8 a 6, b8 a 7,
   b8 a 8, b8 a 9, b8 a 10, b8 a 11, b8 a 12, b8 a 13, b8 a 14, b8 a 15]

/-! ## compare (used by `eq128_s2` / `eq128_s4` of sse2.rs: the `PartialEq` of the vector types) -/

/-- `pcmpeqb`: `dst.byte[i] := (a.byte[i] == b.byte[i]) ? 0xFF : 0` -/
def _mm_cmpeq_epi8 (a b : BitVec 128) : BitVec 128 := mk8 fun i => if b8 a i = b8 b i then 0xff#8 else 0#8
/-- `pcmpeqw` -/
def _mm_cmpeq_epi16 (a b : BitVec 128) : BitVec 128 := mk16 fun i => if w16 a i = w16 b i then 0xffff#16 else 0#16
/-- `pcmpeqd`: `dst.dword[i] := (a.dword[i] == b.dword[i]) ? 0xFFFFFFFF : 0` -/
def _mm_cmpeq_epi32 (a b : BitVec 128) : BitVec 128 :=
  mk32 fun i => if d32 a i = d32 b i then 0xffffffff#32 else 0#32
/-- `pcmpeqq` (SSE4.1): `dst.qword[i] := (a.qword[i] == b.qword[i]) ? 0xFFFFFFFFFFFFFFFF : 0` -/
def _mm_cmpeq_epi64 (a b : BitVec 128) : BitVec 128 :=
  mk64 fun i => if q64 a i = q64 b i then 0xffffffffffffffff#64 else 0#64
/-- `pmovmskb`: bit `i` of the result is the most significant bit of byte `i`; bits 16..31 are zero -/
def _mm_movemask_epi8 (a : BitVec 128) : BitVec 32 :=
  (List.range 16).foldr (fun i acc => (acc <<< 1) ||| (if (b8 a i).msb then 1#32 else 0#32)) 0#32

/-! ## AVX2 -/

def _mm256_add_epi32 (a b : BitVec 256) : BitVec 256 :=
  mk256 (_mm_add_epi32 (lo a) (lo b)) (_mm_add_epi32 (hi a) (hi b))
def _mm256_and_si256 (a b : BitVec 256) : BitVec 256 := a &&& b
def _mm256_or_si256 (a b : BitVec 256) : BitVec 256 := a ||| b
def _mm256_xor_si256 (a b : BitVec 256) : BitVec 256 := a ^^^ b
def _mm256_andnot_si256 (a b : BitVec 256) : BitVec 256 := ~~~a &&& b
def _mm256_srli_epi32 (a : BitVec 256) (imm : Nat) : BitVec 256 :=
  mk256 (_mm_srli_epi32 (lo a) imm) (_mm_srli_epi32 (hi a) imm)
def _mm256_slli_epi32 (a : BitVec 256) (imm : Nat) : BitVec 256 :=
  mk256 (_mm_slli_epi32 (lo a) imm) (_mm_slli_epi32 (hi a) imm)
/-- `vpshufb`: each 128-bit lane is shuffled by the corresponding lane of the control -/
def _mm256_shuffle_epi8 (a b : BitVec 256) : BitVec 256 :=
  mk256 (_mm_shuffle_epi8 (lo a) (lo b)) (_mm_shuffle_epi8 (hi a) (hi b))
/-- `vpshufd`: the same immediate is applied to each 128-bit lane -/
def _mm256_shuffle_epi32 (a : BitVec 256) (imm : Nat) : BitVec 256 :=
  mk256 (_mm_shuffle_epi32 (lo a) imm) (_mm_shuffle_epi32 (hi a) imm)

/-- `SELECT4(src1, src2, control)` of `vperm2i128` -/
def select4 (a b : BitVec 256) (ctl : Nat) : BitVec 128 :=
  if ctl / 8 % 2 = 1 then 0
  else if ctl % 4 = 0 then lo a else if ctl % 4 = 1 then hi a
  else if ctl % 4 = 2 then lo b else hi b
/-- `vperm2i128` -/
def _mm256_permute2x128_si256 (a b : BitVec 256) (imm : Nat) : BitVec 256 :=
  mk256 (select4 a b (imm % 16)) (select4 a b (imm / 16 % 16))
def _mm256_extracti128_si256 (a : BitVec 256) (imm : Nat) : BitVec 128 :=
  if imm % 2 = 0 then lo a else hi a
def _mm256_inserti128_si256 (a : BitVec 256) (b : BitVec 128) (imm : Nat) : BitVec 256 :=
  if imm % 2 = 0 then mk256 b (hi a) else mk256 (lo a) b
def _mm256_setr_m128i (l h : BitVec 128) : BitVec 256 := mk256 l h
def _mm256_set1_epi8 (b : BitVec 8) : BitVec 256 := mk256 (_mm_set1_epi8 b) (_mm_set1_epi8 b)
def _mm256_set_epi64x (e3 e2 e1 e0 : BitVec 64) : BitVec 256 := e3 ++ e2 ++ e1 ++ e0
def _mm256_loadu_si256 (bs : List (BitVec 8)) : BitVec 256 :=
  mk256 (_mm_loadu_si128 bs) (_mm_loadu_si128 (bs.drop 16))
def _mm256_storeu_si256 (a : BitVec 256) : List (BitVec 8) :=
  _mm_storeu_si128 (lo a) ++ _mm_storeu_si128 (hi a)

end CC.X86
